"""C07: a run's outcome depends only on bytecode, globals and arguments."""
import vlib, proggen
from vlib import mk_case, hexs

TRUSTED = ["harness: one VM re-used across the history (SetBytecode / Clear / Run), a fresh VM for reference; deterministic digest of everything a VM reads from the Bytecode before and after"]
ASSUMPTIONS = ["abort histories use a 15-30 ms timer: the point of the abort is schedule dependent, only the later observation is compared",
               "map iteration order is never observed by generated scripts"]

MODS = ["cnt := 0\nreturn {next: func() { cnt += 1; return cnt }}\n"]

def history_pool():
    P = []
    P.append(("return", "a := [1, 2, 3]\nf := func(x) { return x * 2 }\nreturn [f(a[1]), a]", 0))
    P.append(("closure-junk", "fs := []\nfor i := 0; i < 50; i++ { j := i; fs = append(fs, func() { return j }) }\nreturn fs[49]()", 0))
    P.append(("uncaught", "x := [1, 2]\nreturn x[7]", 0))
    P.append(("uncaught-deep", "var f\nf = func(n) { if n == 0 { return [][1] }; return f(n - 1) + 1 }\nreturn f(200)", 0))
    P.append(("thrown-in-handlers", "f := func() { try { try { throw \"a\" } finally { x := 1 } } finally { y := 2 } }\nreturn f()", 0))
    P.append(("panic-recovered", "global gopanic\ntry { gopanic() } catch e { return string(e) }", 0))
    P.append(("panic-escaping", "global gopanic\nf := func(a, b, c) { return gopanic() }\nreturn f(1, 2, 3)", 0))
    P.append(("go-index-panic", "global goindex\nreturn [1, goindex()]", 0))
    P.append(("overflow-frames", "var f\nf = func(n) { return f(n + 1) + 1 }\nreturn f(0)", 0))
    P.append(("overflow-stack", "var f\nf = func(a, b, c, d, e, g, h, i) { k1 := 1; k2 := 2; k3 := 3; return f(a, b, c, d, e, g, h, i) + k1 }\nreturn f(1, 2, 3, 4, 5, 6, 7, 8)", 0))
    P.append(("wide-literal", "return len([" + ",".join("1" for _ in range(2100)) + "])", 0))
    P.append(("abort-loop", "x := 0\nfor { x += 1 }", 20))
    P.append(("abort-in-calls", "var f\nf = func(n) { for { n += 1 } }\nreturn f(0)", 15))
    P.append(("module-cache", "m := import(\"m1\")\nm.next()\nm.next()\nreturn m.next()", 0))
    # modules given by a host Importable as bytes, array, sync map, map, error: changed in place by the script
    P.append(("module-values-changed", "b := import(\"cbytes\")\na := import(\"carr\")\ns := import(\"csm\")\nm := import(\"cmap\")\ne := import(\"cerr\")\n"
              "b[0] += 10\na[0] = 99\na[1][0] = 98\ns.k = 5\ns.inner.z = 1\nm.x += 1\nm.b[0] = 0\ne.Message = \"changed\"\nreturn [b, a, s.k, len(s.inner), m.x, m.b, string(e)]", 0))
    # aborted while a script callback runs on a pooled child VM of a Go function (strings.Map): the child goes back to the pool
    P.append(("abort-in-pooled-callback", "S := import(\"strings\")\nreturn S.Map(func(c) { for { } }, \"abc\")", 15))
    P.append(("abort-in-nested-pooled-callback", "S := import(\"strings\")\nf := func(c) { return S.Map(func(d) { for { } }, \"xy\") }\nreturn S.Map(f, \"abc\")", 15))
    P.append(("error-in-pooled-callback", "S := import(\"strings\")\nreturn S.Map(func(c) { return c / 0 }, \"abc\")", 0))
    # an error derived from a caught builtin error (err.New): the builtin error itself stays what it is
    P.append(("error-new-from-caught", "d := 0\nout := []\ntry { x := 10 / d } catch e { out = append(out, string(e.New(\"derived\"))) }\ntry { throw TypeError } catch e { out = append(out, string(e.New(\"also derived\"))) }\n"
              "try { y := 7u % uint(d) } catch e { z := e.New(\"third\") }\nreturn out", 0))
    P.append(("try-left-open", "for i := 0; i < 3; i++ { try { if i == 1 { continue }; x := i } finally { y := 1 } }\nreturn [][0]", 0))
    P.append(("many-locals", "\n".join("v%d := %d" % (i, i) for i in range(200)) + "\nreturn v0 / 0", 0))
    return P

def composed_history(rng):
    """a chain of frames, each leaving some per-frame state behind (a frame re-used by a discarded or returned self
    tail call, open try handlers, being inside a catch or finally block), the innermost ending the run abnormally"""
    depth = rng.randrange(1, 5)
    term, ms = rng.choice([("throw \"x\"", 0), ("return [][1]", 0), ("return gopanic()", 0), ("return [1, goindex()]", 0),
                           ("for { }", 15), ("var r\nr = func(n) { return r(n + 1) + 1 }\nreturn r(0)", 0), ("return 1 / 0", 0)])
    lines = ["global(gopanic, goindex)", "f%d := func(n) {\n%s\n}" % (depth + 1, term)]
    styles = []
    for i in range(depth, 0, -1):
        st = rng.choice(["plain", "tail-discard", "tail-return", "in-try", "in-finally", "in-catch", "loop-try"])
        styles.append(st)
        nxt = "f%d" % (i + 1)
        if st == "plain": body = "x := n\nreturn %s(n) + x" % nxt
        elif st == "tail-discard": body = "if n <= 0 { return %s(0) }\nf%d(n - 1)" % (nxt, i)
        elif st == "tail-return": body = "if n <= 0 { return %s(0) }\nreturn f%d(n - 1)" % (nxt, i)
        elif st == "in-try": body = "try { return %s(n) } finally { z := 1 }" % nxt
        elif st == "in-finally": body = "try { z := 1 } finally { %s(n) }" % nxt
        elif st == "in-catch": body = "try { throw 1 } catch e { return %s(n) }" % nxt
        else: body = "for i := 0; i < 3; i++ { try { if i == 1 { continue }; if i == 2 { %s(n) } } finally { y := i } }" % nxt
        lines.append("var f%d\nf%d = func(n) {\n%s\n}" % (i, i, body))
    call = "f1(%d)" % rng.randrange(0, 4)
    # the main function itself may be inside try / catch / finally when the run ends below it
    wrap = rng.randrange(5)
    if wrap == 0: lines.append("return " + call)
    elif wrap == 1: lines.append("try { return %s } catch e { return \"caught\" }\nreturn \"done\"" % call)
    elif wrap == 2: lines.append("try { %s } finally { q := 1 }\nreturn \"done\"" % call)
    elif wrap == 3: lines.append("for i := 0; i < 2; i++ { try { %s } catch e { continue } finally { q := i } }\nreturn \"done\"" % call)
    else: lines.append("try { throw 1 } catch e { %s } finally { q := 2 }" % call)
    styles.append("main%d" % wrap)
    return ("composed:" + "/".join(reversed(styles)) + ":" + term.split("\n")[0][:12], "\n".join(lines), ms)

OBS = [
 # observed scripts that end with an uncaught error, at several instruction offsets
 ("x := 10\ny := x - 10\nif y == 0 { return x / y }\nx = y\nreturn \"no error\"", []),
 ("throw \"observed\"", []),
 ("a := [1, 2]\nb := a[0] + a[1]\nc := b * 2\nreturn a[c]", []),
 ("f := func(n) { return n / (n - n) }\ng := func(n) { return f(n) + 1 }\nreturn g(3)", []),
 ("g1 := func(a) { return a + 1 }\ng2 := func(a) { return g1(a) * 2 }\ng3 := func(a) { return g2(a) + g1(a) }\ng4 := func(a) { try { return g3(a) } finally { q := 0 } }\ng5 := func(a) { return g4(a) - g3(a) }\nreturn [g1(1), g2(2), g3(3), g4(4), g5(5)]", []),
 ("param (a, ...b)\nx := 0\nfor i := 0; i < 5; i++ { x += i }\nf := func() { return x + a }\nreturn [f(), b]", [["i", "7"], ["i", "8"]]),
 ("m := import(\"m1\")\nreturn [m.next(), m.next()]", []),
 ("param (a, b, c)\nreturn [a, b, c]", [["i", "1"]]),
 ("var f\nf = func(n) { if n == 0 { return 0 }; return 1 + f(n - 1) }\nreturn f(300)", []),
 ("try { return [][1] } catch e { return string(e) } finally { z := 1 }", []),
 ("a := 1\nb := func() { a += 1; return a }\nreturn [b(), b(), a]", []),
 ("return undefined", []),
 ("b := import(\"cbytes\")\na := import(\"carr\")\ns := import(\"csm\")\nm := import(\"cmap\")\ne := import(\"cerr\")\nb[0] += 10\na[1][0] += 1\ns.k += 1\nm.x += 1\nm.b[0] += 1\nreturn [b, a, s.k, len(s.inner), m.x, m.b, string(e)]", []),
 ("S := import(\"strings\")\nk := 0\nreturn [S.Map(func(c) { k++; return c + 1 }, \"abc\"), S.TrimFunc(\"  x \", func(c) { return c == ' ' }), S.Map(func(c) { return S.Map(func(d) { return d }, \"q\")[0] }, \"ab\"), k]", []),
 ("d := 0\nr := []\ntry { x := 1 / d } catch e { r = append(r, string(e)) }\ntry { x := 1 % d } catch e { r = append(r, string(e)) }\nreturn [r, string(ZeroDivisionError), string(TypeError), ZeroDivisionError.Message, string(error(\"x\"))]", []),
 ("global (gx, gy)\nreturn [gx, gy]", []),
 ("global gx\nf := func() { return gx }\nreturn [f(), gx == undefined]", []),
]

# history shapes that leave values in globals (declared with the global keyword: they also work when
# Run is given no globals object)
GLOBAL_HIST = [("globals:set", "global (gx, gy)\ngx = 42\ngy = [1, 2]\nreturn gx", 0),
               ("globals:set-throw", "global gx\ngx = \"left\"\nthrow \"after\"", 0),
               ("globals:set-in-fn", "global gx\nf := func() { gx = {a: 1} }\nf()\nreturn 1 / 0", 0)]

def run(rep, br, proofs, rng, tier):
    n = 400 if tier == "quick" else 6000
    P = history_pool()
    g = proggen.Gen(rng, max_depth=2, modules=("m1",))
    cases = []
    for i in range(n):
        k = rng.choice([1, 1, 2, 3, 4])
        hist = [composed_history(rng) if rng.random() < .5 else rng.choice(P) for _ in range(k)]
        if rng.random() < .5: obs, args = rng.choice(OBS)
        else: obs, args = g.program(), []
        rec = rng.choice(["0", "1"])
        if rng.random() < .25:
            # globals: values left by earlier runs, Run with and without a globals object
            hist.insert(rng.randrange(len(hist) + 1), rng.choice(GLOBAL_HIST))
            obs, args = rng.choice(OBS[-2:])
            rec += rng.choice(["", "n"])
        # without recovery a panicking history would crash the harness goroutine: it is still recovered there
        c = mk_case("h%d" % i, "history", rec,
                    ["hist"] + [[hexs(s.encode()), str(rng.randrange(2)), str(ms)] for (_, s, ms) in hist],
                    hexs(obs.encode()), ["args"] + args, *[hexs(m.encode()) for m in MODS])
        c["hist"], c["obs"], c["rec"] = [h[0] for h in hist], obs, rec
        cases.append(c)
    # directed: every history that ends inside a script callback on a pooled child VM, followed by a script using pooled
    # callbacks, all runs on one goroutine (the pool hands the child of the earlier run to the later one)
    pooled = [h for h in P if "pooled-callback" in h[0]]
    obs_cb = [o for o in OBS if "S.Map" in o[0]][0]
    # directed: errors derived from caught builtin errors, then a script that looks at the builtin errors
    obs_err = [o for o in OBS if "ZeroDivisionError.Message" in o[0]][0]
    hist_err = [h for h in P if h[0] == "error-new-from-caught"][0]
    for rec in ("1", "0"):
        for clear in ("0", "1"):
            c = mk_case("direrr.%s.%s" % (rec, clear), "history", rec, ["hist", [hexs(hist_err[1].encode()), clear, "0"]], hexs(obs_err[0].encode()), ["args"], *[hexs(m.encode()) for m in MODS])
            c["hist"], c["obs"], c["rec"] = [hist_err[0]], obs_err[0], rec
            cases.append(c)
    for j, h in enumerate(pooled):
        for rec in ("1s", "0s", "1sn"):
            for clear in ("0", "1"):
                for rep_ in range(2):
                    hist = [h] * (rep_ + 1)
                    c = mk_case("dir%d.%s.%s.%d" % (j, rec, clear, rep_), "history", rec, ["hist"] + [[hexs(s.encode()), clear, str(ms)] for (_, s, ms) in hist],
                                hexs(obs_cb[0].encode()), ["args"], *[hexs(m.encode()) for m in MODS])
                    c["hist"], c["obs"], c["rec"] = [x[0] for x in hist], obs_cb[0], rec
                    cases.append(c)
    impl, culprits = vlib.run_impl_robust(cases, batch=40, timeout=120)
    fails, compared, kinds = [], 0, {}
    for c, how in culprits: fails.append((c, "the harness did not return (%s)" % how))
    def judge(c, out):
        """None (holds), "skip" (nothing to compare) or the reason of a failure"""
        if out == "(obs-compile-error)": raise RuntimeError("C07: the observed script of case %s does not compile:\n%s" % (c["id"], c["obs"]))
        if not out.startswith("(history"): return "unexpected: " + out[:200]
        sx = vlib.parse_sexp(out)
        used, again, fresh, unch = vlib.sexp_str(sx[2][1]), vlib.sexp_str(sx[3][1]), vlib.sexp_str(sx[4][1]), sx[5]
        base = vlib.sexp_str(sx[6][1]) if len(sx) > 6 else fresh
        if "(timeout)" in fresh or "(timeout)" in base: return "skip"
        if fresh != base:
            return "after the history %s the script gives %s on a NEW VM; before the history a new VM gave %s (state kept outside the VM, e.g. in the pool of child VMs)" % (c["hist"], fresh[:300], base[:300])
        if used != fresh:
            return "after the history %s the script gives %s on the used VM and %s on a new VM" % (c["hist"], used[:300], fresh[:300])
        if again != fresh:
            return "running the same Bytecode again on the used VM gives %s, a new VM gives %s" % (again[:300], fresh[:300])
        if unch[1] != "1" or unch[2] != "1":
            return "executing a Bytecode modified it (digest before and after the runs differs)"
        return None
    suspects = []
    for c in cases:
        out = impl.get(c["id"])
        if out is None: continue
        for hname in c["hist"]:
            hname = hname.split(":")[0] + (":" + hname.split(":")[2] if hname.startswith("composed") else "")
            kinds[hname] = kinds.get(hname, 0) + 1
        why = judge(c, out)
        if why == "skip": continue
        compared += 1
        if why: suspects.append(c)
    # a failure counts when the case fails again run by itself (the harness stops a run after 3 s,
    # which a process starved by other work on the machine can exceed)
    for c in suspects[:40]:
        again_out, _ = vlib.run_impl([c["line"]], timeout=120)
        why = judge(c, again_out.get(c["id"]) or "(no output)")
        if why and why != "skip": fails.append((c, why))
    for c, why in fails[:10]:
        rep.violation({"property": "C07", "kind": "oracle", "why": why, "case": c["line"][:3000], "script": c["obs"], "history": c["hist"]})
    rep.coverage.update({
        "evaluations": len(cases), "distinct_nontrivial": compared,
        "rule": "histories of 1-4 runs on one VM, half of them composed (a chain of 1-4 frames, each leaving per-frame state behind: a frame re-used by a discarded or returned self tail call, open try handlers, inside catch / finally / a loop with an unfinished try; the innermost frame ends the run by throw, runtime error, Go callback panic, abort, frame overflow), half drawn from 16 fixed termination shapes (return, closures left on the stack, uncaught error at depth 0 and 200, errors inside nested try/finally, recovered and escaping Go callback panics, frame overflow, value-stack overflow by recursion and by a wide literal, abort of loops, abort and errors inside script callbacks running on pooled child VMs, module cache, unfinished try in a loop, 200 locals, values left in globals), each optionally followed by Clear, recovery on or off, Run given a fresh globals object or none; then an observed script (fixed shapes with parameters, modules, recursion, try, closures, or a generated program) is run on a new VM before the history, twice on the used VM and once more on a new VM afterwards; non-trivial = the three outcomes and the Bytecode digests were compared",
        "samples": [cases[0]["line"][:500]],
        "history_kinds": kinds, "oracle_failures": len(fails)})

def replay(payload, br):
    print(payload.get("why")); print(payload.get("history")); print(payload.get("script") or "")
    line = payload.get("case", "")
    if line.startswith("(case"):
        impl, _ = vlib.run_impl([line], timeout=120); print("impl:", str(impl)[:3000])
    return 1
