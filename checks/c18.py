"""C18: decoding malformed bytecode returns an error, never a panic."""
import vlib, proggen
from vlib import mk_case, hexs
from checks import c04

TRUSTED = ["runtime.MemStats.TotalAlloc deltas and recover() in the harness for panic / allocation observations",
           "gob (type tag 255) and the builtin-name table are outside the model"]
ASSUMPTIONS = ["allocation bound checked: 400 bytes per input byte + 64 KiB per decode (observed, not proved)"]

MODS = c04.MODS

def mutate(rng, b):
    b = bytearray(b)
    k = rng.randrange(6)
    if k == 0 and len(b) > 0: return bytes(b[:rng.randrange(len(b))])
    if k == 5 and len(b) > 1:
        i, j = rng.randrange(len(b)), rng.randrange(len(b))
        b[i] = rng.choice([0, 1, 0x7f, 0x80, 0xff, rng.randrange(256)]); b[j] = rng.randrange(256)
        return bytes(b)
    if len(b) == 0: return bytes([rng.randrange(256)])
    i = rng.randrange(len(b))
    b[i] = rng.choice([0, 1, 2, 9, 10, 12, 0x7f, 0x80, 0xff, (b[i] + 1) & 255, (b[i] - 1) & 255, b[i] ^ 0x40, rng.randrange(256)])
    return bytes(b)

def vi_bytes(v):
    """varintConv.toBytes: length byte, then the zig-zag varint"""
    u = ((v << 1) ^ (v >> 63)) & (2**64 - 1)
    out = bytearray()
    while True:
        c = u & 0x7f; u >>= 7
        if u: out.append(c | 0x80)
        else: out.append(c); break
    return bytes([len(out)]) + bytes(out)

LENGTHS = [2**63 - 1, 2**63 - 2, 2**63 - 6, 2**63 - 11, 2**63 - 12, 2**63 - 13, 2**62, 2**32, 2**31, 2**31 - 1, 65536, 255, 1, 0, -1, -2**31, -2**63]

def length_sites(b):
    """positions of length prefixes: a tag of a sized object followed by a well-formed length-prefixed varint"""
    return [i for i in range(len(b) - 2) if b[i] in (7, 8, 9, 10, 11, 12, 13, 14) and 1 <= b[i + 1] <= 10 and i + 2 + b[i + 1] <= len(b)]

def splice_length(b, p, v):
    return b[:p + 1] + vi_bytes(v) + b[p + 2 + b[p + 1]:]

def read_vi(b, q):
    n = b[q + 1]; u = 0
    for k in range(n): u |= (b[q + 2 + k] & 0x7f) << (7 * k)
    return (u >> 1) ^ -(u & 1), n

def splice_consistent(b, p, v):
    """the length prefix at p replaced by v; the length prefixes of the enclosing objects adjusted so that
    only the innermost length lies"""
    enclosing = []
    for q in length_sites(b):
        if q >= p: break
        val, n = read_vi(b, q)
        if val > 0 and q + 2 + n <= p < q + 2 + n + val: enclosing.append(q)
    out = splice_length(b, p, v)
    delta = len(out) - len(b)
    for q in reversed(enclosing):
        val, n = read_vi(b, q)
        before = len(out)
        out = out[:q + 1] + vi_bytes(val + delta) + out[q + 2 + n:]
        delta += len(out) - before
    return out

def canon_sm(x):
    """source maps are Go maps: a later entry for the same key replaces the earlier one, order is irrelevant"""
    if not isinstance(x, list): return x
    x = [canon_sm(y) for y in x]
    if x and x[0] == "sm":
        d = {}
        for kv in x[1:]:
            if isinstance(kv, list) and len(kv) == 2: d[kv[0]] = kv
        return ["sm"] + [d[k] for k in sorted(d, key=lambda z: int(z))]
    return x

def canon_dec(s):
    if s is None or "(sm" not in s: return s
    try: return vlib.sexp_str(canon_sm(vlib.parse_sexp(s)))
    except Exception: return s

def run(rep, br, proofs, rng, tier):
    nprog = 4 if tier == "quick" else 150
    nobj = 4000 if tier == "quick" else 80000
    g = proggen.Gen(rng, max_depth=3, modules=("time",))
    progs = ["t := import(\"time\")\nf := func(a, ...b) { try { return a[0] } catch e { return b } finally { a = 1.5 } }\nreturn [f([1], 2), t.Second, \"s\", 0.0, 3u, 'c', bytes(1, 2), {a: [1]}]\n"]
    progs += [g.program() for _ in range(nprog)]
    pcases = [mk_case("m%d" % i, "decmut", hexs(s.encode())) for i, s in enumerate(progs)]
    impl_p, _ = vlib.run_impl([c["line"] for c in pcases], timeout=3000)
    fails = []
    total = ok = err = 0
    encodings = []
    for c, s in zip(pcases, progs):
        out = impl_p.get(c["id"])
        if out is None: fails.append((c, "no output (the decoder may have crashed the process)", s)); continue
        if out == "(compile-error)": continue
        sx = vlib.parse_sexp(out)
        if sx[0] != "decmut": fails.append((c, out[:300], s)); continue
        total += int(sx[2]); ok += int(sx[3]); err += int(sx[4])
        encodings.append(sx[6])
        for bad in sx[7:]:
            fails.append((c, "%s on mutated encoding (%s): %s" % (bad[0], bad[1], bad[3][:200]), "decraw " + bad[2]))
    # structure-aware corruption of version 1 instruction streams (sizes stay consistent):
    # implementation under recover, and the model converter (Byte/V1Conv.v) on a sample
    v1cases = [mk_case("v%d" % i, "v1mut", hexs(s.encode())) for i, s in enumerate(progs)]
    impl_v, _ = vlib.run_impl([c["line"] for c in v1cases], timeout=3000)
    v1total = 0; v1model = []
    for c, s in zip(v1cases, progs):
        out = impl_v.get(c["id"])
        if out is None: fails.append((c, "no output from v1 mutation run", s)); continue
        if out == "(compile-error)": continue
        sx = vlib.parse_sexp(out)
        v1total += int(sx[1])
        for b in sx[3][1:]:
            fails.append((c, "version 1 decoder panicked on a corrupted instruction stream", "v1insts " + b))
        for smp in sx[4][1:]:
            mc = mk_case("%s.m%d" % (c["id"], len(v1model)), "v1conv", smp[0], smp[1]); mc["implclass"] = smp[2]
            v1model.append(mc)
    model_v, _ = vlib.run_model([m["line"] for m in v1model], timeout=2400)
    v1dis = []
    for m in v1model:
        got = model_v.get(m["id"], "")
        mclass = "ok" if got.startswith("(ok") else "err" if got.startswith("(err") else "panic"
        # the implementation may fail later (MakeInstruction operand range) or earlier; compare panic-freedom and ok/err
        if mclass != m["implclass"]: v1dis.append((m, got))
    # model tie on objects: mutated encodings of values, both sides
    vals = [c04.gen_cval(rng, rng.choice([0, 1, 2, 3])) for _ in range(max(50, nobj // 20))]
    enc_cases = [mk_case("e%d" % i, "enc", v) for i, v in enumerate(vals)]
    impl_e, _ = vlib.run_impl([c["line"] for c in enc_cases], timeout=2400)
    bases = [vlib.unhex(vlib.parse_sexp(o)[1]) for o in impl_e.values() if o.startswith("(ok")]
    dcases = []
    for i in range(nobj):
        b = mutate(rng, rng.choice(bases))
        dcases.append(mk_case("d%d" % i, "dec", hexs(b)))
    for i in range(nobj // 10):
        b = bytes(rng.randrange(256) for _ in range(rng.randrange(0, 24)))
        dcases.append(mk_case("r%d" % i, "dec", hexs(b)))
    # every length prefix (outer and nested: array and map sizes, string lengths inside function objects, ...)
    # replaced by boundary lengths, everything else left consistent
    nl = 0
    for b in sorted(set(bases), key=len)[:(80 if tier == "quick" else 400)]:
        for p in length_sites(b):
            for v in LENGTHS:
                dcases.append(mk_case("l%d" % nl, "dec", hexs(splice_length(b, p, v)))); nl += 1
                if v > 2**31: dcases.append(mk_case("l%d" % nl, "dec", hexs(splice_consistent(b, p, v)))); nl += 1
    # builtin function objects naming every entry of BuiltinsMap (functions and the error values alike) and names
    # it does not have, alone and inside an array, a map and a sync map
    bn, _ = vlib.run_impl([mk_case("bn", "builtinnames")["line"]], timeout=120)
    bnames = [vlib.unhex(x) for x in vlib.parse_sexp(bn["bn"])[1:]]
    assert len(bnames) > 40
    def wrap(inner, tag):
        body = vi_bytes(1) + inner if tag == 9 else vi_bytes(1) + vi_bytes(1) + b"k" + inner
        return bytes([tag]) + vi_bytes(len(body)) + body
    for j, nm in enumerate(bnames + [b"", b"nosuch", b"Len", b"len\x00", b"typeerror", b"\xff"]):
        sobj = bytes([7]) + vi_bytes(len(nm)) + nm
        for tag in (14, 13):
            o = bytes([tag]) + vi_bytes(len(sobj)) + sobj
            for k, b in enumerate([o, wrap(o, 9), wrap(o, 10), wrap(wrap(o, 9), 9), bytes([11]) + wrap(o, 10)[1:], o[:-1], o + b"\x00"]):
                dcases.append(mk_case("bf%d.%d.%d" % (j, tag, k), "dec", hexs(b)))
    impl_d, _ = vlib.run_impl([c["line"] for c in dcases], timeout=2400)
    model_d, _ = vlib.run_model([c["line"] for c in dcases], timeout=2400)
    dis, inconclusive, classes = [], 0, {}
    for c in dcases:
        i, m = impl_d.get(c["id"]), model_d.get(c["id"])
        c["impl"], c["model"] = i, m
        if i is None or i.startswith("(panic"):
            fails.append((c, "DecodeObject panicked: %s" % i, c["line"])); continue
        k = i.split(" ")[0].strip("()")
        classes[k] = classes.get(k, 0) + 1
        if m == "(gob)" or (m and "(bfn" in m and i == "(err)"):
            inconclusive += 1; continue
        if canon_dec(i) != canon_dec(m): dis.append(c)
    # nesting depth: allocation must stay proportional to the length of the input
    def nest(inner, tag):
        body = vi_bytes(1) + inner if tag == 9 else vi_bytes(1) + b"k" + inner     # array: count, element; map: key length, key, value
        return bytes([tag]) + vi_bytes(len(body)) + body
    known = {k["id"] for k in vlib.load_known("C18")}
    deep = []
    for tag in (9, 10):
        for depth in (10, 100, 300, 1000, 3000):
            b = bytes([3, 1, 2])
            for _ in range(depth): b = nest(b, tag)
            c = mk_case("deep.%d.%d" % (tag, depth), "decraw", hexs(b), "1"); c["n"], c["depth"], c["tag"] = len(b), depth, tag
            deep.append(c)
    impl_deep, _ = vlib.run_impl([c["line"] for c in deep], timeout=600)
    deep_stats = {}
    for c in deep:
        out = impl_deep.get(c["id"])
        if out is None: fails.append((c, "no output decoding a container nested %d deep" % c["depth"], c["line"])); continue
        sx = vlib.parse_sexp(out)
        if sx[0] not in ("ok", "err"): fails.append((c, "decoding a container nested %d deep: %s" % (c["depth"], out[:200]), c["line"])); continue
        alloc = int(sx[1]); limit = 400 * c["n"] + (1 << 16)
        deep_stats["%s-depth-%d" % ("array" if c["tag"] == 9 else "map", c["depth"])] = "%d bytes allocated for %d input bytes" % (alloc, c["n"])
        if alloc > limit:
            if "D18c" in known and c["depth"] >= 100:
                rep.known("D18c", "decoding containers nested %d deep allocates memory quadratic in the depth (every level copies its whole body): e.g. %d bytes for an input of %d bytes" % (c["depth"], alloc, c["n"]))
            else:
                fails.append((c, "decoding a %d-byte input (containers nested %d deep) allocated %d bytes, more than 400 bytes per input byte + 64 KiB" % (c["n"], c["depth"], alloc), c["line"]))
    for c, why, extra in fails[:10]:
        rep.violation({"property": "C18", "kind": "oracle", "why": why, "case": c["line"][:3000], "input": extra[:6000]})
    if not fails:
        for m, got in v1dis[:10]:
            rep.violation({"property": "C18", "kind": "correspondence", "why": "version 1 converter model and implementation disagree on the outcome class of a corrupted instruction stream",
                           "case": m["line"][:3000], "impl": m["implclass"], "model": str(got)[:500]}, found=False)
        for c in dis[:10]:
            rep.violation({"property": "C18", "kind": "correspondence", "why": "decoder model and implementation disagree on a malformed object encoding (no panic observed on the implementation)",
                           "case": c["line"][:3000], "impl": str(c["impl"])[:500], "model": str(c["model"])[:500]}, found=False)
    rep.coverage.update({
        "evaluations": total + len(dcases), "distinct_nontrivial": err + sum(1 for c in dcases if c["impl"] == "(err)"),
        "rule": "all truncations and single-byte corruptions (8 replacement values per position) of the version 2 and version 1 encodings of generated programs, decoded under recover with allocation measured; every length prefix of object encodings (nested ones included) replaced by boundary lengths (around MaxInt64, 2^62, 2^32, 2^31, 65536, 0, negative), also with the lengths of the enclosing objects adjusted so that only the innermost length lies; builtin function and function objects naming every entry of BuiltinsMap and unknown names, alone and inside containers; plus seeded single/double byte corruptions, truncations and arbitrary byte strings decoded as objects by implementation and model; non-trivial = the decoder rejected the input (the corruption reached a tag, length or count field)",
        "samples": [pcases[0]["line"][:300], dcases[0]["line"], dcases[-1]["line"]],
        "bytecode_mutations": total, "bytecode_mutations_ok": ok, "bytecode_mutations_err": err,
        "v1_instruction_mutations": v1total, "v1_model_compared": len(v1model), "v1_model_disagreements": len(v1dis),
        "object_mutations": len(dcases), "object_outcome_classes": classes, "inconclusive": inconclusive,
        "nesting_allocation": deep_stats,
        "disagreements": len(dis), "oracle_failures": len(fails)})

def replay(payload, br):
    print(payload.get("why"))
    inp = payload.get("input", "")
    if inp.startswith("v1insts "):
        line = "(case r v1conv %s (sm))" % inp.split(" ", 1)[1]
        model, _ = vlib.run_model([line]); print("model converter:", model); return 1
    if inp.startswith("decraw "):
        line = "(case r decraw %s 0)" % inp.split(" ", 1)[1]
        impl, _ = vlib.run_impl([line]); print(impl)
    elif payload.get("case", "").startswith("(case"):
        impl, _ = vlib.run_impl([payload["case"]]); print(impl)
    return 1
