"""C11: bytecode in the version 1 format still runs the same program."""
import vlib, proggen
from vlib import mk_case, hexs

TRUSTED = ["translator /verif/gen (opcode tables, MakeInstruction layout) - go/parser based, fails closed",
           "harness narrowToV1 (builds version 1 bytes from compiled programs, independent of the converter)",
           "sort.SearchInts is modelled by its specification over the ascending end offsets"]
ASSUMPTIONS = ["version 1 bytes are obtained by narrowing real compiler output; no archive of historical v1 files exists in the repository"]

FIXED = [
 "a := 0\nfor i := 0; i < 3; i++ { if i == 1 { continue }; a += i }\nreturn a\n",
 "f := func(x) { try { if x > 1 { throw \"big\" }; return x } catch e { return string(e) } finally { x = 0 } }\nreturn [f(1), f(2), (f(0) || f(3)) && 5]\n",
 "x := 1\nreturn x ? (x && 0 || 7) : 2\n",
 "out := []\nfor k, v in [1,2,3] { try { if v == 2 { break } } finally { out = append(out, k) } }\nreturn out\n",
 "a := [1,2]\nreturn a[5]\n",
]

def big_programs():
    """functions whose version 1 stream is below 64 KiB and whose version 2 stream, wider by 2 bytes per jump and 4 per
    try, is above it: relocated positions beyond 65535"""
    out = []
    for n in (3000, 3450):
        body = "".join("if x == %d { a += %d }\n" % (k, k) for k in range(1, n + 1))
        out.append("param x\na := 0\n" + body + "return a\n")
        out.append("f := func(x) {\na := 0\n" + body + "return a\n}\nreturn [f(0), f(1), f(%d), f(%d)]\n" % (n // 2, n))
    for n in (700, 1000, 1300):
        body = "".join("try { if x == %d { throw %d }; a += 1 } catch e { a += e } finally { a += 2 }\n" % (k, k) for k in range(1, n + 1))
        out.append("f := func(x) {\na := 0\n" + body + "return a\n}\nreturn [f(0), f(1), f(%d)]\n" % n)
    for n in (2500,):
        body = "".join("a = (a && %d) || (x ? a : %d)\n" % (k, k) for k in range(1, n + 1))
        out.append("param x\na := 1\n" + body + "return a\n")
    return out

def run(rep, br, proofs, rng, tier):
    n = 400 if tier == "quick" else 6000
    g = proggen.Gen(rng, max_depth=3)
    srcs = list(FIXED) + big_programs() + [g.program() for _ in range(n)]
    cases = [mk_case("s%d" % i, "v1prog", hexs(s.encode())) for i, s in enumerate(srcs)]
    for c, s in zip(cases, srcs): c["src"] = s
    impl, _ = vlib.run_impl([c["line"] for c in cases], timeout=2400)
    fails, notrep, ok, nfn, big_skipped = [], 0, 0, 0, 0
    mcases = []
    for c in cases:
        out = impl.get(c["id"])
        c["impl"] = out
        if out is None: fails.append((c, "no output")); continue
        if out in ("(compile-error)", "(not-representable-in-v1)"):
            notrep += 1; continue
        if not out.startswith("(v1prog"):
            fails.append((c, "version 1 bytes could not be decoded: " + out[:300])); continue
        s = vlib.parse_sexp(out)
        orig, v1, same, fns = vlib.sexp_str(s[1][1]), vlib.sexp_str(s[2][1]), s[3][1], s[4][1:]
        if orig != v1:
            fails.append((c, "program decoded from version 1 bytes behaves differently: original %s, v1 %s" % (orig[:200], v1[:200])))
        elif same != "1":
            fails.append((c, "converted instructions or source map differ from the version 2 original"))
        else:
            ok += 1
        for j, fn in enumerate(fns):
            nfn += 1
            # the extracted converter is quadratic in the length of a function: in the quick tier the functions of the
            # big programs (above 64 KiB) go through the implementation-side oracle only
            if tier == "quick" and len(fn[1]) > 40000: big_skipped += 1; continue
            mc = mk_case("%s.f%d" % (c["id"], j), "v1conv", fn[1], fn[2]); mc["expect"] = "(ok %s %s)" % (fn[3], vlib.sexp_str(fn[4])); mc["parent"] = c
            mcases.append(mc)
            rc = mk_case("%s.r%d" % (c["id"], j), "v1reloc", fn[1], fn[2], fn[3], fn[4]); rc["expect"] = "(b 1)"; rc["parent"] = c
            mcases.append(rc)
    model, _ = vlib.run_model([m["line"] for m in mcases], timeout=2400)
    dis = []
    for m in mcases:
        got = model.get(m["id"])
        if got != m["expect"]:
            dis.append((m, got))
    for c, why in fails[:10]:
        rep.violation({"property": "C11", "kind": "oracle", "why": why, "script": c["src"], "case": c["line"][:2000]})
    if not fails:
        for m, got in dis[:10]:
            kind = "validator reloc_ok rejected the real converter's output" if m["kind"] == "v1reloc" else "model converter (Byte/V1Conv.v) and implementation disagree"
            rep.violation({"property": "C11", "kind": "correspondence", "why": kind, "script": m["parent"]["src"], "case": m["line"][:3000], "model": got, "impl": m["expect"][:3000]}, found=False)
    rep.coverage.update({
        "evaluations": len(cases), "distinct_nontrivial": ok,
        "big_functions_not_sent_to_the_model": big_skipped,
        "rule": "functions of 2500-3450 statements whose version 1 stream is below 64 KiB and whose version 2 stream is above it (jumps, try statements, and / or jumps beyond position 65535); generated scripts (seeded grammar: if/else, for, for-in, &&, ||, ?:, try/catch/finally, nested functions) compiled, narrowed to the version 1 layout, encoded with a version 1 header, decoded by DecodeBytecodeFrom and run; non-trivial = compiled, representable in v1 and executed with equal outcome and byte-identical reconversion",
        "samples": [srcs[0], srcs[len(FIXED)], srcs[-1]],
        "functions_converted": nfn, "not_compilable_or_not_representable": notrep,
        "model_disagreements": len(dis), "oracle_failures": len(fails), "generator_stats": g.stats})

def replay(payload, br):
    print(payload.get("why")); print(payload.get("script"))
    line = payload.get("case", "")
    if line.startswith("(case") and " v1prog " in line:
        impl, _ = vlib.run_impl([line]); print(impl)
    return 1
