"""C12: a module is loaded once per run and every import sees the same object."""
import vlib
from vlib import mk_case, hexs

TRUSTED = ["validator loads_ok (Comp/ModStore.v, extracted) on the LOADMODULE operands of every function", "harness globals `log` array: every module body appends its name when it starts"]
ASSUMPTIONS = ["module bodies in generated graphs do not throw (a body that fails before returning is executed again by a later import)",
               "objects reached through another module's returned map are copies (STOREMODULE deep-copies); only the import expressions of one module are compared"]

def module_src(rng, k, deps):
    s = "global log\nlog = append(log, \"m%d\")\nstate := 0\n" % k
    uses = []
    for d in deps:
        where = rng.randrange(3)
        if where == 0: s += "d%d := import(\"m%d\")\n" % (d, d); uses.append("d%d" % d)
        elif where == 1: s += "if state == 0 { d%d := import(\"m%d\"); state = state + d%d.get() }\n" % (d, d, d)
        else: s += "use%d := func() { return import(\"m%d\").get() }\n" % (d, d); uses.append(None); s += "state = state + use%d()\n" % d
    s += "return {set: func(v) { state = v }, get: func() { return state }, name: \"m%d\", box: [0]}\n" % k
    return s

def main_src(rng, nmods):
    lines = ["global(log, apply, applyp)", "out := []"]
    imported = []
    for step in range(rng.randrange(2, 9)):
        m = rng.randrange(1, nmods + 1)
        k = rng.randrange(9)
        v = "v%d" % step
        if k == 0: lines.append("%s := import(\"m%d\")" % (v, m)); imported.append((v, m))
        elif k == 1: lines.append("for i%d := 0; i%d < 3; i%d++ { x := import(\"m%d\"); out = append(out, x.name) }" % (step, step, step, m))
        elif k == 2: lines.append("f%d := func() { return import(\"m%d\") }\n%s := f%d()" % (step, m, v, step)); imported.append((v, m))
        elif k == 3: lines.append("if len(out) %% 2 == 0 { y := import(\"m%d\"); out = append(out, y.get()) }" % m)
        elif k in (7, 8):
            # the import is executed on a child VM, inside a Go callback
            ap = "apply" if k == 7 else "applyp"
            lines.append("%s := %s(func() { z := import(\"m%d\"); z.set(z.get() + 1); return z })" % (v, ap, m)); imported.append((v, m))
        elif k == 4 and imported:
            a, ma = rng.choice(imported)
            lines.append("%s.set(%d)" % (a, rng.randrange(100)))
        elif k == 5 and imported:
            a, ma = rng.choice(imported)
            lines.append("%s.box[0] = %d\nout = append(out, import(\"m%d\").box[0])" % (a, rng.randrange(100), ma))
        else: lines.append("%s := import(\"m%d\")" % (v, m)); imported.append((v, m))
    # identity / state probes over every pair of imports of the same module
    probes = []
    for i, (a, ma) in enumerate(imported):
        for b, mb in imported[i+1:]:
            if ma == mb:
                probes.append("%s.set(1000 + %d)\nout = append(out, [\"same\", %s.get() == %s.get(), %s.box == %s.box])\n%s.box[0] = 7\nout = append(out, [\"alias\", %s.box[0] == 7])" % (a, i, a, b, a, b, a, b))
    lines += probes
    lines.append("b := import(\"vmod\")\nout = append(out, [\"builtin\", b.k, b.ns.n, len(b.empty), len(b.boxes.m), len(b.boxes.a[0]), len(b.ns.depth), len(b.boxes.sm.inner)])\n"
                 "b.k = 99\nb.ns.n = 98\nb.empty.w = 1\nb.boxes.m.w = 2\nb.boxes.a[0].w = 3\nb.ns.depth.z = 4\nb.boxes.sm.inner.w = 5")
    lines.append("return [out, log]")
    return "\n".join(lines) + "\n"

def run(rep, br, proofs, rng, tier):
    n = 300 if tier == "quick" else 6000
    cases = []
    for i in range(n):
        nm = rng.randrange(1, 6)
        deps = {k: [d for d in range(k + 1, nm + 1) if rng.random() < .5] for k in range(1, nm + 1)}
        kind = rng.random()
        expect = "run"
        if kind < .15 and nm >= 1:
            # add a back edge: a cycle of some length, reachable from main
            a = rng.randrange(1, nm + 1); chain = [a]
            for _ in range(rng.randrange(0, 4)):
                nxt = rng.randrange(1, nm + 1); chain.append(nxt)
            for x, y in zip(chain, chain[1:] + [chain[0]]):
                if y not in deps[x]: deps[x].append(y)
            expect = "cycle"
        mods = [module_src(rng, k, deps[k]) for k in range(1, nm + 1)]
        main = main_src(rng, nm)
        if expect == "cycle":
            main = "global log\nz := import(\"m%d\")\n" % chain[0] + main
        elif kind > .93:
            main = main.replace("return [out, log]", "q := import(\"nosuchmodule\")\nreturn [out, log]"); expect = "unknown"
        c = mk_case("g%d" % i, "modgraph", rng.choice(["opt", "noopt"]), rng.choice(["0", "1"]), hexs(main.encode()), *[hexs(m.encode()) for m in mods])
        c["main"], c["mods"], c["expect"] = main, mods, expect
        cases.append(c)
    # wide programs: module indexes around the one-byte boundary of the two-byte operand
    for N in (255, 256, 257, 300):
        mods = ["global log\nlog = append(log, \"m%d\")\nstate := 0\nreturn {set: func(v) { state = v }, get: func() { return state }, name: \"m%d\", box: [0]}\n" % (k, k) for k in range(1, N + 1)]
        lines = ["global(log, apply, applyp)", "out := []", "ws := [undefined]"] + ["ws = append(ws, import(\"m%d\"))" % k for k in range(1, N + 1)]
        for k in sorted({1, 2, N - 256, N - 255, 255, 256, 257, N - 1, N}):
            if 1 <= k <= N:
                lines.append("ws[%d].set(%d)\nout = append(out, [\"same\", import(\"m%d\").get() == %d, import(\"m%d\").name == \"m%d\", ws[%d].box == import(\"m%d\").box])" % (k, 1000 + k, k, 1000 + k, k, k, k, k))
        lines.append("return [out, log]")
        main = "\n".join(lines) + "\n"
        c = mk_case("wide%d" % N, "modgraph", "opt", "0", hexs(main.encode()), *[hexs(m.encode()) for m in mods])
        c["main"], c["mods"], c["expect"] = main, mods[:2], "run"
        cases.append(c)
    impl, _ = vlib.run_impl([c["line"] for c in cases], timeout=2400)
    fails, ran, cyc = [], 0, 0
    vcases = []
    for c in cases:
        out = impl.get(c["id"])
        c["impl"] = out
        if out is None: fails.append((c, "no output")); continue
        if c["expect"] in ("cycle", "unknown"):
            if not out.startswith("(compile-error"):
                fails.append((c, "an import %s was not reported at compile time: %s" % (c["expect"], out[:200])))
            else: cyc += 1
            continue
        if not out.startswith("(modgraph"):
            fails.append((c, "unexpected: " + out[:300])); continue
        sx = vlib.parse_sexp(out)
        r1, log1, r2, log2 = sx[1], sx[2], sx[3], sx[4]
        vcases.append((c, mk_case(c["id"] + ".v", "loadsok", sx[5], sx[6])))
        if r1[0] != "ok": fails.append((c, "run failed: " + vlib.sexp_str(r1)[:300])); continue
        ran += 1
        names = [vlib.unhex(x[1]).decode() for x in log1[1:]]
        if len(names) != len(set(names)):
            fails.append((c, "a module body executed more than once in one run: %s" % names)); continue
        outarr = r1[1][1]
        for item in outarr[1:]:
            if item[0] == "a" and len(item) > 2 and item[1][0] == "s":
                tag = vlib.unhex(item[1][1]).decode()
                if tag in ("same", "alias") and any(x != ["b", "1"] for x in item[2:]):
                    fails.append((c, "two imports of one module do not see the same object (%s probe failed)" % tag)); break
        if vlib.sexp_str(r1) != vlib.sexp_str(r2) or vlib.sexp_str(log1) != vlib.sexp_str(log2):
            fails.append((c, "a second VM over the same Bytecode sees state left by the first (builtin module values are not private, or a module was not re-executed): %s vs %s" % (vlib.sexp_str(r1)[:300], vlib.sexp_str(r2)[:300])))
    model, _ = vlib.run_model([v["line"] for _, v in vcases], timeout=600)
    for c, v in vcases:
        if model.get(v["id"]) != "(b 1)":
            fails.append((c, "LOADMODULE operands of the Bytecode are inconsistent (validator loads_ok): %s" % v["line"][:300]))
    for c, why in fails[:10]:
        rep.violation({"property": "C12", "kind": "oracle", "why": why, "case": c["line"][:2000], "script": c["main"] + "\n--- modules ---\n" + "\n---\n".join(c["mods"])})
    rep.coverage.update({
        "evaluations": len(cases), "distinct_nontrivial": ran + cyc,
        "rule": "programs with 255, 256, 257 and 300 modules (module indexes around the byte boundary of the operand) with state and identity probes; generated import graphs over 1-5 source modules (DAGs with imports at top level, under conditions and inside functions of modules; back edges forming cycles of length 1-5; unknown module names) with main scripts importing at top level, in loops, in functions and conditionally, x optimizer on/off x encode/decode round trip, executed on two VMs over one Bytecode; each module body logs its start in a global array; every pair of imports of one module is probed for shared state and object identity; non-trivial = ran with probes / rejected at compile time as expected",
        "samples": [cases[0]["main"], cases[0]["mods"][0]],
        "graphs_run": ran, "cycles_or_unknown_rejected": cyc, "oracle_failures": len(fails)})

def replay(payload, br):
    print(payload.get("why")); print(payload.get("script") or "")
    line = payload.get("case", "")
    if line.startswith("(case"):
        impl, _ = vlib.run_impl([line]); print("impl:", impl)
    return 1
