"""C12: a module is loaded once per run and every import sees the same object."""
import vlib
from vlib import mk_case, hexs

TRUSTED = ["the driver's split of a path string at '/' into the elements the model fi_name works on, and the join back (ocaml/c13.ml); Go's path/filepath on Unix is modelled (Clean, Join, IsAbs, Abs), symbolic links are not looked at by either", "validator loads_ok (Comp/ModStore.v, extracted) on the LOADMODULE operands of every function", "harness globals `log` array: every module body appends its name when it starts"]
ASSUMPTIONS = ["module bodies in generated graphs do not throw; bodies that throw are covered by hand-made programs and the theorems C12_body_completes_at_most_once / C12_body_at_most_once_refuted (known finding D12t)",
               "objects reached through another module's returned map are copies (STOREMODULE deep-copies); only the import expressions of one module are compared"]

def module_src(rng, k, deps):
    s = "global log\nlog = append(log, \"m%d\")\nstate := 0\n" % k
    uses = []
    for d in deps:
        where = rng.randrange(3)
        if where == 0: s += "d%d := import(\"m%d\")\n" % (d, d); uses.append("d%d" % d)
        elif where == 1: s += "if state == 0 { d%d := import(\"m%d\"); state = state + d%d.get() }\n" % (d, d, d)
        else: s += "use%d := func() { return import(\"m%d\").get() }\n" % (d, d); uses.append(None); s += "state = state + use%d()\n" % d
    s += "return {set: func(v) { state = v }, get: func() { return state }, name: \"m%d\", box: [0]}\n" % k
    return s

def main_src(rng, nmods):
    lines = ["global(log, apply, applyp)", "out := []"]
    imported = []
    for step in range(rng.randrange(2, 9)):
        m = rng.randrange(1, nmods + 1)
        k = rng.randrange(9)
        v = "v%d" % step
        if k == 0: lines.append("%s := import(\"m%d\")" % (v, m)); imported.append((v, m))
        elif k == 1: lines.append("for i%d := 0; i%d < 3; i%d++ { x := import(\"m%d\"); out = append(out, x.name) }" % (step, step, step, m))
        elif k == 2: lines.append("f%d := func() { return import(\"m%d\") }\n%s := f%d()" % (step, m, v, step)); imported.append((v, m))
        elif k == 3: lines.append("if len(out) %% 2 == 0 { y := import(\"m%d\"); out = append(out, y.get()) }" % m)
        elif k in (7, 8):
            # the import is executed on a child VM, inside a Go callback
            ap = "apply" if k == 7 else "applyp"
            lines.append("%s := %s(func() { z := import(\"m%d\"); z.set(z.get() + 1); return z })" % (v, ap, m)); imported.append((v, m))
        elif k == 4 and imported:
            a, ma = rng.choice(imported)
            lines.append("%s.set(%d)" % (a, rng.randrange(100)))
        elif k == 5 and imported:
            a, ma = rng.choice(imported)
            lines.append("%s.box[0] = %d\nout = append(out, import(\"m%d\").box[0])" % (a, rng.randrange(100), ma))
        else: lines.append("%s := import(\"m%d\")" % (v, m)); imported.append((v, m))
    # identity / state probes over every pair of imports of the same module
    probes = []
    for i, (a, ma) in enumerate(imported):
        for b, mb in imported[i+1:]:
            if ma == mb:
                probes.append("%s.set(1000 + %d)\nout = append(out, [\"same\", %s.get() == %s.get(), %s.box == %s.box])\n%s.box[0] = 7\nout = append(out, [\"alias\", %s.box[0] == 7])" % (a, i, a, b, a, b, a, b))
    lines += probes
    lines.append("b := import(\"vmod\")\nout = append(out, [\"builtin\", b.k, b.ns.n, len(b.empty), len(b.boxes.m), len(b.boxes.a[0]), len(b.ns.depth), len(b.boxes.sm.inner)])\n"
                 "b.k = 99\nb.ns.n = 98\nb.empty.w = 1\nb.boxes.m.w = 2\nb.boxes.a[0].w = 3\nb.ns.depth.z = 4\nb.boxes.sm.inner.w = 5")
    # Go modules whose value is bytes, an array, a sync map (a host Importable): read, then changed in place
    lines.append("cb := import(\"cbytes\")\nca := import(\"carr\")\ncs := import(\"csm\")\nout = append(out, [\"builtin2\", cb[0], ca[0], ca[1][0], cs.k, len(cs.inner), import(\"carr\")[0]])\n"
                 "cb[0] = 9\nca[0] = 8\nca[1][0] = 7\ncs.k = 6\ncs.inner.z = 5\nout = append(out, [\"builtin3\", import(\"cbytes\")[0], import(\"carr\")[0], import(\"csm\").k])")
    lines.append("return [out, log]")
    return "\n".join(lines) + "\n"

# ---- file modules (importers.FileImporter) over a virtual tree <cwd>/vroot ----
FDIRS = [[], ["a"], ["a", "b"], ["s"], ["s", "t"]]

def spell(rng, frm, tgt, kind=None):
    """a spelling of the file tgt (elements below the process directory) for an import written in a file of the
    directory frm (elements below the process directory)"""
    kind = rng.randrange(8) if kind is None else kind
    common = 0
    while common < len(frm) and common < len(tgt) - 1 and frm[common] == tgt[common]: common += 1
    rel = [".."] * (len(frm) - common) + tgt[common:]
    if kind == 0: return "/".join(rel)
    if kind == 1: return "./" + "/".join(rel)
    if kind == 2:
        out = list(rel)
        for _ in range(rng.randrange(1, 4)):
            i = rng.randrange(len(out))
            if out[i] == "..": continue
            out[i:i] = rng.choice([["."], ["x9", ".."], ["x9", "y9", "..", ".."], [""]])
        return "/".join(out) if out[0] != "" else "./" + "/".join(out)
    if kind == 3:
        # above the process directory and back
        return "/".join([".."] * (len(frm) + 1) + ["@CWDBASE@"] + tgt)
    if kind == 4: return "@ROOT@/" + "/".join(tgt[1:])
    if kind == 5:
        t = tgt[1:]
        i = rng.randrange(len(t))
        t[i:i] = rng.choice([["."], ["x9", ".."], [""]])
        return "@ROOT@/" + "/".join(t)
    if kind == 6: return "/".join(rel[:-1] + ["", rel[-1]]) if len(rel) > 1 else "./" + "/" + rel[0]
    return "/".join([".."] * (len(frm) - common) + ["."] + tgt[common:])

def file_graph(rng):
    nm = rng.randrange(2, 6)
    dirs = {k: ["vroot"] + rng.choice(FDIRS) for k in range(1, nm + 1)}
    tgt = {k: dirs[k] + ["f%d.ugo" % k] for k in dirs}
    deps = {k: [d for d in range(k + 1, nm + 1) if rng.random() < .6] for k in dirs}
    files, uses = [], []
    for k in dirs:
        src = "global log\nlog = append(log, \"f%d\")\nstate := 0\n" % k
        for d in deps[k]:
            for rep in range(rng.randrange(1, 3)):
                sp = spell(rng, dirs[k], tgt[d])
                uses.append(("@ROOT@/" + "/".join(dirs[k][1:]) if len(dirs[k]) > 1 else "@ROOT@", sp))
                how = rng.randrange(4)
                if how == 0: src += "use%d_%d := func() { return import(\"%s\") }\nd%d_%d := use%d_%d()\n" % (d, rep, sp, d, rep, d, rep)      # inside a function literal
                elif how == 1: src += "d%d_%d := func() { return func() { if true { return import(\"%s\") } } }()()\n" % (d, rep, sp)
                else: src += "d%d_%d := import(\"%s\")\n" % (d, rep, sp)
                src += "if d%d_%d.name != \"f%d\" { throw \"import of f%d gave \" + string(d%d_%d.name) }\n" % (d, rep, d, d, d, rep)
        src += "return {set: func(v) { state = v }, get: func() { return state }, name: \"f%d\"}\n" % k
        files.append(("/".join(tgt[k][1:]), src))
    # the main script: its directory is the process directory, the root of the tree or a directory of it
    mdir = rng.choice([[], ["vroot"], ["vroot", "a"], ["vroot", "s", "t"]])
    wd_kind = rng.randrange(4)
    if wd_kind == 0: wd = "/".join(mdir) if mdir else rng.choice([".", ""])
    elif wd_kind == 1: wd = "./" + "/".join(mdir + ["."])
    elif wd_kind == 2: wd = "@ROOT@/../" + "/".join(mdir) if mdir else "@ROOT@/.."
    else: wd = "/".join(mdir + ["x9", ".."])
    lines = ["global log", "out := []"]
    imported = []
    for step in range(rng.randrange(3, 9)):
        m = rng.randrange(1, nm + 1)
        sp = spell(rng, mdir, tgt[m])
        uses.append((wd, sp))
        lines.append("v%d := import(\"%s\")" % (step, sp)); imported.append(("v%d" % step, m))
    for i, (a, ma) in enumerate(imported):
        lines.append("out = append(out, [\"name\", %s.name == \"f%d\"])" % (a, ma))
        for b, mb in imported[i + 1:]:
            if ma == mb: lines.append("%s.set(%d)\nout = append(out, [\"same\", %s.get() == %d])" % (a, 1000 + i, b, 1000 + i))
    lines.append("return [out, log]")
    return wd, files, "\n".join(lines) + "\n", uses

def run_file_modules(rng, tier, fails):
    n = 150 if tier == "quick" else 3000
    cases, uses = [], []
    for i in range(n):
        wd, files, main, us = file_graph(rng)
        c = mk_case("fi%d" % i, "fileimp", rng.choice(["opt", "noopt"]), hexs(wd.encode()), ["files"] + [[hexs(p.encode()), hexs(s.encode())] for p, s in files], hexs(main.encode()))
        c["main"], c["mods"] = "// work directory: %s\n" % wd + main, ["// file %s\n%s" % (p, s) for p, s in files]
        cases.append(c); uses += us
    probe = mk_case("ficwd", "finame")
    impl, _ = vlib.run_impl([c["line"] for c in cases] + [probe["line"]], timeout=1200)
    ran = 0
    for c in cases:
        out = impl.get(c["id"]); c["impl"] = out
        if out is None or not out.startswith("(fileimp"): fails.append((c, "file modules: unexpected " + str(out)[:300])); continue
        sx = vlib.parse_sexp(out)
        r, log = sx[1], sx[2]
        if r[0] != "ok": fails.append((c, "file modules: run failed: " + vlib.sexp_str(r)[:300])); continue
        names = [vlib.unhex(x[1]).decode() for x in log[1:]]
        if len(names) != len(set(names)):
            fails.append((c, "the body of a file module executed more than once in one run (one file reached through two spellings of its path): %s" % names)); continue
        bad = [vlib.unhex(item[1][1]).decode() for item in r[1][1][1:] if item[2] != ["b", "1"]]
        if bad: fails.append((c, "two imports of one file do not see the same module (%s probe failed)" % bad[0])); continue
        ran += 1
    # the importer's name for every (work directory, spelling) used, against the model fi_name
    cwd = vlib.unhex(vlib.parse_sexp(impl["ficwd"])[1][1]).decode()
    sub = lambda x: x.replace("@ROOT@", cwd + "/vroot").replace("@CWDBASE@", cwd.rsplit("/", 1)[1])
    pairs = sorted(set((sub(w), sub(s)) for w, s in uses)) + [("", ""), ("a", ""), ("/", ".."), ("", "/"), ("/a/b", "../../../.."), ("a/../..", "b"), ("", "..")]
    ncases, mcases = [], []
    for j in range(0, len(pairs), 50):
        chunk = pairs[j:j + 50]
        ncases.append(mk_case("fn%d" % j, "finame", *[[hexs(w.encode()), hexs(s.encode())] for w, s in chunk]))
        mcases.append(mk_case("fn%d" % j, "finame", hexs(cwd.encode()), *[[hexs(w.encode()), hexs(s.encode())] for w, s in chunk]))
    impl2, _ = vlib.run_impl([c["line"] for c in ncases], timeout=600)
    model, _ = vlib.run_model([c["line"] for c in mcases], timeout=600)
    dis = []
    for c, j in zip(ncases, range(0, len(pairs), 50)):
        a, b = vlib.parse_sexp(impl2.get(c["id"], "(none)")), vlib.parse_sexp(model.get(c["id"], "(none)"))
        got, want = a[2:], b[1:]
        for (w, s), x, y in zip(pairs[j:j + 50], got, want):
            if x != y: dis.append((w, s, x, y))
        if len(got) != len(want) or len(got) != len(pairs[j:j + 50]): dis.append(("?", "?", str(a)[:200], str(b)[:200]))
    return ran, len(pairs), dis, cases

def run(rep, br, proofs, rng, tier):
    n = 300 if tier == "quick" else 6000
    cases = []
    for i in range(n):
        nm = rng.randrange(1, 6)
        deps = {k: [d for d in range(k + 1, nm + 1) if rng.random() < .5] for k in range(1, nm + 1)}
        kind = rng.random()
        expect = "run"
        if kind < .15 and nm >= 1:
            # add a back edge: a cycle of some length, reachable from main
            a = rng.randrange(1, nm + 1); chain = [a]
            for _ in range(rng.randrange(0, 4)):
                nxt = rng.randrange(1, nm + 1); chain.append(nxt)
            for x, y in zip(chain, chain[1:] + [chain[0]]):
                if y not in deps[x]: deps[x].append(y)
            expect = "cycle"
        mods = [module_src(rng, k, deps[k]) for k in range(1, nm + 1)]
        main = main_src(rng, nm)
        if expect == "cycle":
            main = "global log\nz := import(\"m%d\")\n" % chain[0] + main
        elif kind > .93:
            main = main.replace("return [out, log]", "q := import(\"nosuchmodule\")\nreturn [out, log]"); expect = "unknown"
        c = mk_case("g%d" % i, "modgraph", rng.choice(["opt", "noopt"]), rng.choice(["0", "1"]), hexs(main.encode()), *[hexs(m.encode()) for m in mods])
        c["main"], c["mods"], c["expect"] = main, mods, expect
        cases.append(c)
    # wide programs: module indexes around the one-byte boundary of the two-byte operand
    for N in (255, 256, 257, 300):
        mods = ["global log\nlog = append(log, \"m%d\")\nstate := 0\nreturn {set: func(v) { state = v }, get: func() { return state }, name: \"m%d\", box: [0]}\n" % (k, k) for k in range(1, N + 1)]
        lines = ["global(log, apply, applyp)", "out := []", "ws := [undefined]"] + ["ws = append(ws, import(\"m%d\"))" % k for k in range(1, N + 1)]
        for k in sorted({1, 2, N - 256, N - 255, 255, 256, 257, N - 1, N}):
            if 1 <= k <= N:
                lines.append("ws[%d].set(%d)\nout = append(out, [\"same\", import(\"m%d\").get() == %d, import(\"m%d\").name == \"m%d\", ws[%d].box == import(\"m%d\").box])" % (k, 1000 + k, k, 1000 + k, k, k, k, k))
        lines.append("return [out, log]")
        main = "\n".join(lines) + "\n"
        c = mk_case("wide%d" % N, "modgraph", "opt", "0", hexs(main.encode()), *[hexs(m.encode()) for m in mods])
        c["main"], c["mods"], c["expect"] = main, mods[:2], "run"
        cases.append(c)
    # module bodies that throw: the body returns at most once (theorem C12_body_completes_at_most_once); that a body
    # which threw is started again by the next import is the known finding D12t (C12_body_at_most_once_refuted)
    TH = [("throws-always", "global log\nout := []\ntry { import(\"m1\") } catch e { out = append(out, \"c1\") }\ntry { import(\"m1\") } catch e { out = append(out, \"c2\") }\nreturn [out, log]\n",
           ["global log\nlog = append(log, \"m1\")\nthrow \"x\"\n"]),
          ("throws-first-time", "global log\nout := []\ntry { import(\"m1\") } catch e { out = append(out, \"c1\") }\na := import(\"m1\")\nb := import(\"m1\")\na.set(5)\n"
           "out = append(out, [\"same\", b.get() == 5])\nf := func() { return import(\"m1\") }\nout = append(out, [\"same\", f().get() == 5])\nreturn [out, log]\n",
           ["global (log, flag)\nlog = append(log, \"m1\")\nstate := 0\nif !flag { flag = true; throw \"x\" }\nlog = append(log, \"m1-done\")\nreturn {set: func(v) { state = v }, get: func() { return state }}\n"]),
          ("throws-in-dependency", "global log\nout := []\ntry { import(\"m1\") } catch e { out = append(out, \"c1\") }\ntry { import(\"m2\") } catch e { out = append(out, \"c2\") }\ntry { import(\"m1\") } catch e { out = append(out, \"c3\") }\nreturn [out, log]\n",
           ["global log\nlog = append(log, \"m1\")\nx := import(\"m2\")\nlog = append(log, \"m1-done\")\nreturn {x: x}\n", "global log\nlog = append(log, \"m2\")\nthrow \"y\"\n"])]
    # a body that reaches, through a function value the main script put into a global, an import of the module being
    # loaded: the cache is still empty, the body starts again (known finding D12r, C12_reentrant_body_refuted)
    TH.append(("reentrant", "global (log, g)\nout := []\ng.f = func() { return import(\"m1\") }\nx := import(\"m1\")\nout = append(out, x.n, import(\"m1\").n, len(log))\nreturn [out, log]\n",
               ["global (log, g)\nlog = append(log, \"m1\")\nmine := len(log)\ninner := undefined\nif mine < 3 { inner = g.f() }\nlog = append(log, \"m1-done\")\nreturn {n: mine}\n"]))
    for name, main, mods in TH:
        for opt in ("opt", "noopt"):
            c = mk_case("th.%s.%s" % (name, opt), "modgraph", opt, "0", hexs(main.encode()), *[hexs(m.encode()) for m in mods])
            c["main"], c["mods"], c["expect"], c["throwing"] = main, mods, "run", True
            cases.append(c)
    known = {k["id"] for k in vlib.load_known("C12")}
    impl, _ = vlib.run_impl([c["line"] for c in cases], timeout=2400)
    fails, ran, cyc = [], 0, 0
    vcases = []
    for c in cases:
        out = impl.get(c["id"])
        c["impl"] = out
        if out is None: fails.append((c, "no output")); continue
        if c["expect"] in ("cycle", "unknown"):
            if not out.startswith("(compile-error"):
                fails.append((c, "an import %s was not reported at compile time: %s" % (c["expect"], out[:200])))
            else: cyc += 1
            continue
        if out.startswith("(modgraph-reused-vm"):
            fails.append((c, "on a VM that ran another program before (SetBytecode, no Clear) the program does not load its own modules: %s" % out[:400])); continue
        if not out.startswith("(modgraph"):
            fails.append((c, "unexpected: " + out[:300])); continue
        sx = vlib.parse_sexp(out)
        r1, log1, r2, log2 = sx[1], sx[2], sx[3], sx[4]
        vcases.append((c, mk_case(c["id"] + ".v", "loadsok", sx[5], sx[6])))
        if r1[0] != "ok": fails.append((c, "run failed: " + vlib.sexp_str(r1)[:300])); continue
        ran += 1
        names = [vlib.unhex(x[1]).decode() for x in log1[1:]]
        if c.get("throwing"):
            done = [x for x in names if x.endswith("-done")]
            if "reentrant" in c["id"]:
                if len(done) != len(set(done)) and "D12r" in known:
                    rep.known("D12r", "a module body that reaches an import of its own module while it runs (through a function value) starts again and returns more than once (program reentrant: %s)" % names)
                    continue
            if len(done) != len(set(done)):
                fails.append((c, "a module body returned more than once in one run: %s" % names)); continue
            starts = [x for x in names if not x.endswith("-done")]
            if len(starts) != len(set(starts)):
                if "D12t" in known: rep.known("D12t", "a module body that throws is started again by the next import executed in the same run (program %s: bodies started %s)" % (c["id"].split(".")[1], starts))
                else: fails.append((c, "a module body executed more than once in one run: %s" % names)); continue
            names = []
        if len(names) != len(set(names)):
            fails.append((c, "a module body executed more than once in one run: %s" % names)); continue
        outarr = r1[1][1]
        for item in outarr[1:]:
            if item[0] == "a" and len(item) > 2 and item[1][0] == "s":
                tag = vlib.unhex(item[1][1]).decode()
                if tag in ("same", "alias") and any(x != ["b", "1"] for x in item[2:]):
                    fails.append((c, "two imports of one module do not see the same object (%s probe failed)" % tag)); break
        if vlib.sexp_str(r1) != vlib.sexp_str(r2) or vlib.sexp_str(log1) != vlib.sexp_str(log2):
            fails.append((c, "a second VM over the same Bytecode sees state left by the first (builtin module values are not private, or a module was not re-executed): %s vs %s" % (vlib.sexp_str(r1)[:300], vlib.sexp_str(r2)[:300])))
    model, _ = vlib.run_model([v["line"] for _, v in vcases], timeout=600)
    for c, v in vcases:
        if model.get(v["id"]) != "(b 1)":
            fails.append((c, "LOADMODULE operands of the Bytecode are inconsistent (validator loads_ok): %s" % v["line"][:300]))
    nfail = len(fails)
    fran, npairs, dis, fcases = run_file_modules(rng, tier, fails)
    for c, why in fails[:10]:
        rep.violation({"property": "C12", "kind": "oracle", "why": why, "case": c["line"][:2000], "script": c["main"] + "\n--- modules ---\n" + "\n---\n".join(c["mods"])})
    if len(fails) == nfail:
        for w, sp, x, y in dis[:5]:
            rep.violation({"property": "C12", "kind": "correspondence", "theorem": "C12_file_name_is_place",
                           "why": "FileImporter.Name and the model fi_name (Comp/ImportPath.v) differ: work directory %r, import %r: implementation %s, model %s" % (w, sp, x, y)}, found=False)
    rep.coverage.update({
        "file_module_graphs_run": fran, "importer_names_compared": npairs, "importer_name_disagreements": len(dis),
        "evaluations": len(cases) + len(fcases) + npairs, "distinct_nontrivial": ran + cyc + fran,
        "rule": "programs with 255, 256, 257 and 300 modules (module indexes around the byte boundary of the operand) with state and identity probes; generated import graphs over 1-5 source modules (DAGs with imports at top level, under conditions and inside functions of modules; back edges forming cycles of length 1-5; unknown module names) with main scripts importing at top level, in loops, in functions and conditionally, x optimizer on/off x encode/decode round trip, executed on two VMs over one Bytecode; each module body logs its start in a global array; every pair of imports of one module is probed for shared state and object identity; file modules through importers.FileImporter over a virtual tree: 2-5 files in nested directories importing each other (at top level and inside function literals) and imported by a main script whose work directory is given relative, absolute or with redundant elements, every import spelled one of eight ways (canonical relative, ./, redundant . / x/.. / empty elements, climbing above the process directory and back, absolute, absolute with redundant elements, doubled separators), same probes, and FileImporter.Name compared with the model fi_name on every (work directory, spelling) used plus corner cases; non-trivial = ran with probes / rejected at compile time as expected",
        "samples": [cases[0]["main"], cases[0]["mods"][0]],
        "graphs_run": ran, "cycles_or_unknown_rejected": cyc, "oracle_failures": len(fails)})

def replay(payload, br):
    print(payload.get("why")); print(payload.get("script") or "")
    line = payload.get("case", "")
    if line.startswith("(case"):
        impl, _ = vlib.run_impl([line]); print("impl:", impl)
    return 1
