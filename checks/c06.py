"""C06: with recovery enabled, running a script never panics the host."""
import vlib
from vlib import mk_case, hexs

TRUSTED = ["harness recover() around VM.Run; a follow-up run of a known script on the same VM"]
ASSUMPTIONS = ["a fatal Go runtime error (real stack exhaustion, out of memory) is not a recoverable panic and is outside the property",
               "scripts terminate within the harness time limit"]

FOLLOW = "param (a, ...b)\nx := 0\nfor i := 0; i < 5; i++ { x += i }\nf := func() { return x + a }\nreturn [f(), b]"

def wrap(body, how):
    if how == 0: return body
    if how == 1: return "try {\n%s\n} catch e { return [\"caught\", string(e)] }" % body
    if how == 2: return "try {\n%s\n} finally { zz := 1 }" % body
    if how == 3: return "r := undefined\ntry {\n%s\n} catch e { r = string(e) } finally { r = [r, \"fin\"] }\nreturn r" % body
    return "g := func() {\n%s\n}\ntry { return g() } catch e { return [\"outer\", string(e)] }" % body

def failing_bodies():
    B = []
    for e in ["1 / 0", "1 % 0", "1 << -1", "1u % 0u", "'a' % '\\x00'", "true % 0", "[1][5]", "[1, 2][1:0]", "\"abc\"[2:1]", "undefined()", "5()", "\"s\" - 1",
              "{}.a.b.c()", "[1][\"x\"]", "int(\"zz\")", "len()", "append()", "gopanic()", "gopanicnil()", "goindex()", "goerr()", "gopanicerr()", "gopanictnil()", "gopanicbad()", "gopanicobj()", "gopanicstruct()", "gopanicmap()", "-\"s\"", "[1][0:9]", "{a: 1}.a.b.c.d"]:
        B.append(("expr:" + e, "global (gopanic, gopanicnil, goindex, goerr, gopanicerr, gopanictnil, gopanicbad, gopanicobj, gopanicstruct, gopanicmap)\nreturn %s" % e))
    for n in (1000, 1020, 1021, 1022, 1023, 1024, 1025, 3000):
        B.append(("depth-%d" % n, "var f\nf = func(n) { if n == 0 { return 1 / 0 }; return f(n - 1) + 1 }\nreturn f(%d)" % n))
        B.append(("depth-ok-%d" % n, "var f\nf = func(n) { if n == 0 { return 1 }; return f(n - 1) + 1 }\nreturn f(%d)" % n))
    B.append(("unbounded", "var f\nf = func(n) { return f(n + 1) + 1 }\nreturn f(0)"))
    for L in (1, 2, 7, 50, 250):
        decl = "\n".join("  v%d := n" % i for i in range(L))
        B.append(("locals-%d-recursion" % L, "var f\nf = func(n) {\n%s\n  return f(n + 1) + v0\n}\nreturn f(0)" % decl))
        B.append(("locals-%d-callback-panic" % L, "global gopanic\nvar f\nf = func(n) {\n%s\n  if n == %d { return gopanic() }\n  return f(n + 1) + v0\n}\nreturn f(0)" % (decl, max(1, 2000 // (L + 2) - 3))))
    for N in (2030, 2040, 2044, 2045, 2046, 2047, 2048, 2049, 2100, 5000):
        B.append(("wide-array-%d" % N, "return len([" + ",".join("1" for _ in range(N)) + "])"))
        B.append(("wide-call-%d" % min(N, 255), "f := func(...a) { return len(a) }\nreturn f(" + ",".join("1" for _ in range(min(N, 255))) + ")"))
    for N in (200, 255):
        B.append(("args-deep-%d" % N, "var f\nf = func(n, ...a) { return f(n + 1, " + ",".join("1" for _ in range(N - 1)) + ") }\nreturn f(0)"))
    # every frame guards its own recursive call: the frame limit is reached first (no parameters, no locals), the
    # deepest frame catches the overflow itself and returns; exactly one catch block must run
    for variant, fn in enumerate([
            "f = func() { cnt++; try { f() } catch { hits++ } }",
            "f = func() { cnt++; try { f() } catch e { hits++ } finally { fin++ } }",
            "f = func() { cnt++; try { return f() } catch { hits++; return 0 } }",
            "f = func() { cnt++; try { f() } catch { hits++; g() } }",
            "f = func() { cnt++; try { f() } finally { fin++ } }",
            "f = func(a) { cnt++; try { f(a) } catch { hits++ } }",
            "f = func() { x := cnt; cnt++; try { f() } catch { hits++ } ; return x }"]):
        B.append(("frame-limit-guarded-%d" % variant, "var f\ncnt := 0\nhits := 0\nfin := 0\ng := func() { return 1 }\n%s\nr := undefined\ntry { r = f(%s) } catch { hits += 100 }\nreturn [cnt > 500, hits, fin == 0 || fin == cnt]" % (fn, "1" if "func(a)" in fn else "")))
    B.append(("throw-in-finally", "try { throw \"a\" } finally { throw \"b\" }"))
    B.append(("panic-in-finally", "global gopanic\ntry { return 1 } finally { gopanic() }"))
    B.append(("panic-in-catch", "global gopanic\ntry { throw 1 } catch e { gopanic() } finally { q := 2 }"))
    # Go panics raised while a script function runs on a child VM (the host calls it back through an Invoker):
    # its own handlers take them, exactly as in a direct call
    for via in ("callfn", "callfnp"):
        for k, (fail, what) in enumerate([("gopanic()", "panic"), ("goindex()", "index"), ("[1][c]", "error"), ("deep(0)", "overflow")]):
            # (a value-stack overflow may be returned from Run instead of being delivered: no exact value is expected for it)
            B.append((("childovf-%s-%s" if what == "overflow" else "child-%s-%s") % (via, what),
                      "global (gopanic, gopanicnil, goindex, goerr, callfn, callfnp)\nhits := 0\nfin := 0\nvar deep\ndeep = func(n) { return [n, deep(n + 1)] }\n"
                      "f := func(c) { try { %s } catch { hits++ } finally { fin++ }; return c }\n"
                      "a := %s(f, 7)\nb := f(8)\ng := func(c) { return %s(f, c) + 1 }\nd := %s(g, 1)\nreturn [a, b, d, hits, fin]" % (fail, via, via, via)))
    # a frame re-used by a discarded self call in tail position is left by a Go panic, a thrown error or a runtime error:
    # functions called afterwards (same run, after a catch; the follow-up run) still return their values
    for k, fail in enumerate(["gopanic()", "throw \"x\"", "[1][n + 5]", "goindex()", "gopanicmap()"]):
        B.append(("tail-discard-left-%d" % k, "global (gopanic, goindex, gopanicmap)\nvar f\nf = func(n) { if n == 0 { %s }; f(n - 1) }\nf(2)\nreturn 1" % fail))
        B.append(("tail-discard-then-call-%d" % k, "global (gopanic, goindex, gopanicmap)\nvar f\nf = func(n) { if n == 0 { %s }; f(n - 1) }\nh := func() { try { f(3) } catch { return 7 } }\n"
                  "a := h()\ng := func(v) { return v + 40 }\nreturn [a, g(2), h(), g(3)]" % fail))
    # a function of more than 64 KiB of instructions: try statements whose catch and finally addresses lie beyond 65535
    # (and on both sides of it) take a Go panic, a thrown error and a runtime error
    pad = "\n".join("  n = n + 1" for _ in range(9000))
    for k, fail in enumerate(["gopanic()", "throw \"x\"", "n = n / (n - n)"]):
        B.append(("big-function-finally-%d" % k, "global gopanic\nbig := func(n) {\n  fin := 0\n  try {\n    try {\n%s\n    } finally { fin += 1 }\n    try { %s } finally { fin += 10 }\n  } catch e {\n    return [\"caught\", fin, n]\n  }\n  return [\"no error\", fin]\n}\nreturn big(0)" % (pad, fail)))
        B.append(("big-function-catch-%d" % k, "global gopanic\nbig := func(n) {\n  fin := 0\n%s\n  try { %s } catch e { fin += 5 } finally { fin += 10 }\n  try { fin += 100 } finally { fin += 1000 }\n  return [fin, n]\n}\nreturn big(0)" % (pad, fail)))
    B.append(("callback-panic-in-loop-try", "global gopanic\nout := []\nfor i := 0; i < 3; i++ { try { gopanic() } catch e { out = append(out, i) } }\nreturn out"))
    return B

def run(rep, br, proofs, rng, tier):
    cases = []
    for name, body in failing_bodies():
        hows = range(5) if (tier == "thorough" or len(body) < 3000) else [0, 1]
        for how in hows:
            # global declarations go to the top of the script, the rest of the body is wrapped
            import re as _re
            blines = body.split("\n")
            gnames = []
            for l in blines:
                if l.startswith("global "):
                    for nm in _re.findall(r"[A-Za-z_][A-Za-z0-9_]*", l[7:]):
                        if nm not in gnames: gnames.append(nm)
            src = wrap("\n".join(l for l in blines if not l.startswith("global ")), how)
            if gnames: src = "global (%s)\n" % ", ".join(gnames) + src
            for args in ([], [["i", "1"], ["s", hexs(b"x")], ["a", ["n"]]]):
                c = mk_case("f.%s.%d.%d" % (name.replace(" ", "_").replace("(", "").replace(")", "")[:40], how, len(args)), "history", "1",
                            ["hist", [hexs(src.encode()), "0", "0"]], hexs(FOLLOW.encode()), ["args"] + args)
                c["src"], c["name"] = src if len(src) < 3000 else name, name
                cases.append(c)
    # arguments of every type, host-side objects in unusual states included, through every way a script uses a value
    ARGPOOL = [["n"], ["b", "1"], ["i", "0"], ["i", str(-2**63)], ["u", str(2**64 - 1)], ["f", "7ff8000000000001"], ["c", "-1"], ["s", hexs(b"")], ["s", hexs(b"\xff")],
               ["y", hexs(b"")], ["a"], ["a", ["a"], ["n"]], ["m"], ["m", [hexs(b"k"), ["i", "1"]]], ["sm"], ["sm0"], ["e", "1", hexs(b"E"), hexs(b"m")],
               ["re", "1", "1", hexs(b"E"), hexs(b"m")], ["rt0"], ["fn", hexs(b"f1")], ["fn0"], ["bfn"], ["optr0"], ["optr"],
               ["a", ["optr0"], ["rt0"], ["fn0"], ["sm0"]], ["m", [hexs(b"p"), ["optr0"]], [hexs(b"q"), ["rt0"]]]]
    USES = ["return a", "return [a, b]", "return a[0]", "return a[0][0]", "return a.p", "return a.q.x", "return a()", "return a(1, 2)", "return a + 1", "return 1 + a", "return -a", "return !a",
            "return string(a)", "return len(a)", "return typeName(a)", "return copy(a)", "return a == a", "return a ? 1 : 2", "for k, v in a { return [k, v] }\nreturn 0",
            "return sprintf(\"%v %s %d\", a, a, a)", "a[0] = 1\nreturn a", "a.k = 1\nreturn a", "x := [a, a]\nreturn x[1]", "f := func(...p) { return p }\nreturn f(...a)",
            "try { throw a } catch e { return e }", "return isError(a, a)", "return a.New(\"m\")", "return append(a, a)", "return contains(a, a)", "return int(a)", "return error(a)"]
    for ai, av in enumerate(ARGPOOL):
        for ui, use in enumerate(USES):
            src = "param (a, ...b)\n" + use
            c = mk_case("a.%d.%d" % (ai, ui), "history", "1", ["hist", [hexs(src.encode()), "0", "0", ["args", av, ["i", "5"]]]], hexs(FOLLOW.encode()), ["args"])
            c["src"], c["name"] = src + "   // a = " + vlib.sexp_str(av), "arg"
            cases.append(c)
    # keys whose conversion to a string fails or panics in Go (a host object that implements nothing, a function without
    # a value, an empty pointer) used as index of every container, and the container used again afterwards
    KEYS = [["oimpl"], ["fn0"], ["optr0"], ["n"], ["rt0"]]
    CONTS = [["sm", [hexs(b"k"), ["i", "1"]]], ["sm0"], ["m", [hexs(b"k"), ["i", "1"]]], ["a", ["i", "1"]], ["y", hexs(b"ab")], ["s", hexs(b"ab")]]
    KUSES = ["a[b] = 1\nreturn 1", "return a[b]", "try { a[b] = 1 } catch { }\na.z = 2\nreturn [a.z, len(a)]", "try { x := a[b] } catch { }\na.w = 3\ndelete(a, \"w\")\nreturn len(a)",
             "try { delete(a, b) } catch { }\na.v = 1\nreturn a.v", "try { x := contains(a, b) } catch { }\nreturn len(a)", "for i := 0; i < 2; i++ { try { a[b] = i } catch { } }\nreturn len(a)"]
    for ci, cv in enumerate(CONTS):
        for ki, kv in enumerate(KEYS):
            for ui, use in enumerate(KUSES):
                src = "param (a, b)\n" + use
                c = mk_case("k.%d.%d.%d" % (ci, ki, ui), "history", "1", ["hist", [hexs(src.encode()), "0", "0", ["args", cv, kv]]], hexs(FOLLOW.encode()), ["args"])
                c["src"], c["name"], c["must_end"] = src + "   // a = %s, b = %s" % (vlib.sexp_str(cv), vlib.sexp_str(kv)), "key", True
                cases.append(c)
    impl, culprits = vlib.run_impl_robust(cases, batch=40, timeout=120)
    fails, classes = [], {}
    for c, how in culprits:
        fails.append((c, "VM.Run did not return to the harness (%s): the process died or hung" % how))
    for c in cases:
        out = impl.get(c["id"])
        if out is None: continue
        sx = vlib.parse_sexp(out)
        if sx[0] != "history": fails.append((c, "unexpected " + out[:200])); continue
        r = sx[1][1]
        k = r[0]
        classes[k] = classes.get(k, 0) + 1
        if k == "timeout" and c.get("must_end"):
            fails.append((c, "Run returned neither a value nor an error within 3 s for a script without loops (a lock left held?)")); continue
        if k == "panic":
            fails.append((c, "a Go panic escaped VM.Run with recovery enabled: %s" % vlib.sexp_str(r)[:300])); continue
        if c["name"].startswith("expr:") and c["id"].split(".")[-2] == "0" and k == "ok":
            fails.append((c, "an expression that fails returned a value: %s" % vlib.sexp_str(r)[:200])); continue
        if c["name"].startswith("frame-limit-guarded") and c["id"].split(".")[-2] == "0" and k == "ok":
            v = vlib.sexp_str(r[1])
            # variant 3 calls another function from the catch block of the deepest frame: that call overflows too and is
            # caught one frame up, where the call then succeeds: two catch blocks
            want = {"3": "(a (b 1) (i 2) (b 1))", "4": "(a (b 1) (i 100) (b 1))"}.get(c["name"][-1], "(a (b 1) (i 1) (b 1))")
            if v != want:
                fails.append((c, "recursion to the frame limit with a handler in every frame: expected exactly one handler to run, got [deep enough, catch blocks run, finally count consistent] = %s" % v)); continue
        if c["name"].startswith("tail-discard-then-call") and c["id"].split(".")[-2] == "0":
            v = vlib.sexp_str(r[1]) if k == "ok" else vlib.sexp_str(r)
            if v != "(a (i 7) (i 42) (i 7) (i 43))":
                fails.append((c, "after a frame re-used by a discarded self call was left by a failure, functions called later in the same run must return their values: expected [7, 42, 7, 43], got %s" % v[:300])); continue
        if c["name"].startswith("big-function-") and c["id"].split(".")[-2] == "0":
            v = vlib.sexp_str(r[1]) if k == "ok" else vlib.sexp_str(r)
            want = "(a (s x636175676874) (i 11) (i 9000))" if "finally" in c["name"] else "(a (i 1115) (i 9000))"
            if v != want:
                fails.append((c, "try statements beyond the first 64 KiB of a function: expected %s, got %s" % (want, v[:300]))); continue
        if c["name"].startswith("child-") and c["id"].split(".")[-2] == "0":
            v = vlib.sexp_str(r[1]) if k == "ok" else vlib.sexp_str(r)
            if v != "(a (i 7) (i 8) (i 2) (i 3) (i 3))":
                fails.append((c, "a failure inside a script function which the host calls back through an Invoker must be taken by that function's own catch and finally, as in a direct call: expected [7, 8, 2, 3, 3], got %s" % v[:300])); continue
        if k not in ("ok", "err", "timeout"):
            fails.append((c, "unexpected outcome class " + k)); continue
        used, fresh = vlib.sexp_str(sx[2][1]), vlib.sexp_str(sx[4][1])
        if used != fresh:
            fails.append((c, "the VM does not run a later script correctly after this failure: %s vs %s" % (used[:200], fresh[:200])))
    for c, why in fails[:10]:
        rep.violation({"property": "C06", "kind": "oracle", "why": why, "case": c["line"][:2000], "script": c["src"]})
    rep.coverage.update({
        "evaluations": len(cases), "distinct_nontrivial": sum(v for k, v in classes.items() if k == "err"),
        "rule": "programs built to fail (zero division and remainder, negative shifts, bad indexes and slices, calls of non-callables, failing builtins, Go callbacks that panic or index out of range, recursion to depth 1000..1025 and unbounded, frames with 1..250 locals recursing to the value-stack limit with and without a callback panic at the edge, array literals and calls of 2030..5000 elements around the 2048-slot stack, variadic calls at depth, throws and panics inside catch and finally, try statements beyond the first 64 KiB of a function, frames re-used by a discarded self call in tail position and left by a panic or error, Go panics, errors and stack overflow inside a script function which the host calls back through a pooled or unpooled Invoker, also nested), each bare, inside try/catch, try/finally, try/catch/finally and inside a called function, with and without arguments; every use of a parameter (return, index, selector, call, operators, builtins, for-in, spread, throw, assignment through it) x arguments of every type incl. host-side objects in unusual states (ObjectPtr and SyncMap without a value, a Function without a Go function, an empty RuntimeError, containers of those); keys whose conversion to a string panics used as index of every container, the container used again afterwards (such a run must end); run with recovery enabled under recover(), followed by a known script on the same VM compared with a new VM; non-trivial = the run ended with a uGO error",
        "samples": [cases[0]["src"], cases[-1]["src"]],
        "outcome_classes": classes, "oracle_failures": len(fails)})

def replay(payload, br):
    print(payload.get("why")); print(payload.get("script") or "")
    line = payload.get("case", "")
    if line.startswith("(case"):
        impl, _ = vlib.run_impl([line], timeout=120); print("impl:", str(impl)[:2000])
    return 1
