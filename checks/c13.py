"""C13: a disabled builtin cannot be reached by any script."""
import vlib, proggen, re
from vlib import mk_case, hexs

TRUSTED = ["translator /verif/gen (BuiltinsMap, BuiltinType order)", "harness instrumentation of ugo.BuiltinObjects (records calls of disabled builtins)"]
ASSUMPTIONS = ["the path root .. current table is modelled as a stack, as the compiler uses it"]

NAMES = ["a", "b", "len", "int", "string", "append", "x", "error", "typeName", "bool", "p", "q", "cap", ":makeArray"]
BUILTIN_POOL = ["len", "int", "string", "append", "error", "typeName", "bool", "char", "float", "uint", "isInt", "cap", "contains", "sort", "delete", "copy", "repeat", "bytes", "chars", "sprintf", "isError", "TypeError", "ZeroDivisionError"]

def gen_ops(rng, n):
    ops = []
    depth = 0
    for _ in range(n):
        k = rng.randrange(14)
        nm = lambda: hexs(rng.choice(NAMES).encode())
        if k == 0: ops.append(["fork", str(rng.randrange(2))]); depth += 1
        elif k == 1 and depth > 0: ops.append(["leave"]); depth -= 1
        elif k <= 5: ops.append(["resolve", nm()])
        elif k <= 7: ops.append(["deflocal", nm()])
        elif k == 8: ops.append(["defglobal", nm()])
        elif k == 9: ops.append(["defconst", nm()])
        elif k == 10: ops.append(["params"] + [hexs(x.encode()) for x in rng.sample(NAMES, rng.randrange(0, 3))])
        elif k <= 12: ops.append(["disable"] + [hexs(x.encode()) for x in rng.sample(NAMES, rng.randrange(1, 3))])
        else: ops.append(["resolve", nm()])
    return ops

MODS = ["y := len([1, 2]) + int(\"3\")\nreturn {n: y, f: func(s) { return string(len(s)) }}\n",
        "m1 := import(\"m1\")\nreturn {g: func() { return m1.f(\"ab\") + typeName(1) }}\n"]

def builtin_heavy(rng, g):
    """scripts that mention builtins in every position: calls, shadowing declarations, constant
    expressions for the optimizer, nested functions, destructuring, imports; statements in random order
    (a shadowing declaration of one builtin before or after the calls of another); returns the source
    and the builtins it calls"""
    called = []
    def b(call=False):
        n = rng.choice(BUILTIN_POOL[:12])
        if call: called.append(n)
        return n
    head, lines = ["out := []"], []
    if rng.random() < .5:
        # a literal constant in scope: the compiler then folds unary / binary expressions while compiling
        head.append(rng.choice(["const kc = 1", "const (\n\tkz = iota\n\tkc\n)", "const kc = \"s\""]))
        for _ in range(rng.randrange(1, 4)):
            bn = b(True)
            arg = rng.choice(['"12"', '"abc"', "3", "[1]"])
            use = rng.choice(["kc + %s(%s)" % (bn, arg), "-%s(%s)" % (bn, arg), "%s(%s) == kc" % (bn, arg), "!%s(%s)" % (bn, arg)])
            lines.append(rng.choice(["f%d := func() { return %s }\nout = append(out, f%d())" % (0, "%s", 0),
                                     "if len(out) == 0 { out = append(out, %s) }",
                                     "out = append(out, func() { return func() { return %s }() }())",
                                     "for i := 0; i < 1; i++ { out = append(out, %s) }",
                                     "out = append(out, %s)"]).replace("f0", "f%d" % rng.randrange(99)) % use)
    for _ in range(rng.randrange(2, 7)):
        k = rng.randrange(12)
        if k == 0: lines.append("out = append(out, %s(%s))" % (b(True), rng.choice(['"12"', "[1, 2]", "3", '"ab"'])))
        elif k == 1: lines.append("c%d := %s(\"7\") + %s([1])" % (rng.randrange(99), "int", "len")); called.extend(["int", "len"])
        elif k == 2: lines.append("f%d := func(%s) { return %s(%s) }" % (rng.randrange(99), b(), b(True), "1"))
        elif k == 3: lines.append("%s := func(x) { return x }" % b())
        elif k == 4: lines.append("for _, %s in [1] { out = append(out, %s) }" % (b(), b()))
        elif k == 5: lines.append("try { throw %s(\"e\") } catch %s { out = append(out, 1) }" % ("error", b())); called.append("error")
        elif k == 6: lines.append("x%d, y%d := [1, 2]" % (rng.randrange(99), rng.randrange(99)))
        elif k == 7: lines.append("m%d := import(\"%s\")" % (rng.randrange(99), rng.choice(["m1", "m2"])))
        elif k == 8: lines.append("const k%d = %s(\"12\")" % (rng.randrange(99), "int")); called.append("int")
        elif k == 9: lines.append("%s := %d" % (b(), rng.randrange(9)))
        elif k == 10: lines.append("y%d := %s(%s)" % (rng.randrange(99), b(True), rng.choice(['"abc"', '"12"', "[1, 2]"])))
        else: lines.append("out = append(out, func() { return %s([1, 2, 3]) }())" % b(True))
    rng.shuffle(lines)
    return "\n".join(head + lines + ["return out"]) + "\n", called

def run(rep, br, proofs, rng, tier):
    nseq = 3000 if tier == "quick" else 60000
    nprog = 500 if tier == "quick" else 8000
    cases = [mk_case("s%d" % i, "symtab", *gen_ops(rng, rng.randrange(3, 25))) for i in range(nseq)]
    impl, model, dis = vlib.correspond(cases, timeout=2400)
    fails = []
    # oracle on the implementation's own answers: replay the disabled set along each history
    for c in cases:
        out = c["impl"]
        if out is None: continue
        res = vlib.parse_sexp(out)
        disabled = set(); depth = 0
        for op, r in zip(c["args"], res):
            if op[0] == "disable": disabled |= set(op[1:])
            if op[0] == "resolve" and r[0] == "sym" and r[3] == "BUILTIN" and op[1] in disabled:
                fails.append((c, "Resolve returned the disabled builtin %s" % vlib.unhex(op[1]).decode()))
    g = proggen.Gen(rng, max_depth=2, modules=("m1", "m2"))
    pcases = []
    for i in range(nprog):
        if rng.random() < .7: src, called = builtin_heavy(rng, g)
        else: src, called = g.program(), []
        dis_names = rng.sample(BUILTIN_POOL, rng.randrange(1, 6))
        if called and rng.random() < .7:
            # disable builtins the script really calls
            for nm in rng.sample(sorted(set(called)), min(len(set(called)), rng.randrange(1, 3))):
                if nm not in dis_names: dis_names.append(nm)
        mode = "eval" if rng.random() < .3 else "batch"
        if mode == "eval":
            ls = src.strip().split("\n")
            cut = sorted(rng.sample(range(1, len(ls)), min(len(ls) - 1, rng.randrange(1, 3)))) if len(ls) > 2 else []
            parts, prev = [], 0
            for cpos in cut: parts.append("\n".join(ls[prev:cpos])); prev = cpos
            parts.append("\n".join(ls[prev:]))
            src = "\n//CUT\n".join(parts)
        # the host may have declared a global of the same name before it disables the builtin (a replacement of its own):
        # the name is no builtin for the script, and still disabled for the modules it imports
        pre = [n for n in dis_names if n != ":makeArray" and rng.random() < .25]
        c = mk_case("p%d" % i, "disprog", rng.choice(["opt", "noopt"]), mode, ["dis"] + [("g" if n in pre else "") + hexs(n.encode()) for n in dis_names], hexs(src.encode()), *[hexs(m.encode()) for m in MODS])
        c["src"], c["dis"] = src, dis_names
        pcases.append(c)
    impl_p, _ = vlib.run_impl([c["line"] for c in pcases], timeout=2400)
    compiled = rejected = 0
    for c in pcases:
        out = impl_p.get(c["id"])
        if out is None or not out.startswith("(disprog"):
            fails.append((c, "unexpected harness output %s" % str(out)[:200])); continue
        sx = vlib.parse_sexp(out)
        refs = {vlib.unhex(x).decode() for x in sx[1][1:]}
        called = {vlib.unhex(x).decode() for x in sx[2][1:]}
        if sx[3] == ["compile-error"]: rejected += 1
        else: compiled += 1
        leak = (refs & set(c["dis"])) - {":makeArray"}
        if leak: fails.append((c, "bytecode references disabled builtin(s) %s" % sorted(leak)))
        if called: fails.append((c, "disabled builtin(s) %s were called (at compile time by the optimizer or at run time)" % sorted(called)))
    for c, why in fails[:10]:
        rep.violation({"property": "C13", "kind": "oracle", "why": why, "case": c["line"][:3000], "script": c.get("src"), "disabled": c.get("dis")})
    if not fails:
        for c in dis[:10]:
            rep.violation({"property": "C13", "kind": "correspondence", "why": "symbol table model (Comp/SymTab.v) and implementation disagree on an operation history",
                           "case": c["line"][:3000], "impl": c["impl"], "model": c["model"]}, found=False)
    nt = sum(1 for c in cases if any(o[0] == "disable" for o in c["args"]) and any(o[0] == "resolve" for o in c["args"]))
    rep.coverage.update({
        "evaluations": len(cases) + len(pcases), "distinct_nontrivial": nt + compiled,
        "rule": "seeded operation histories over the exported SymbolTable API (fork/leave/resolve/define*/params/disable) run on the real table and the model; generated scripts mentioning builtins in calls, shadowing declarations (:=, func params, for-in, catch), constants, nested functions, destructuring and module imports, compiled with random disabled subsets (a quarter of the names declared as host globals before they are disabled), optimizer on/off, batch or cut into Eval fragments, with instrumented builtins; non-trivial = history has a disable and a resolve / script compiled",
        "samples": [cases[0]["line"], pcases[0]["src"], pcases[1]["src"]],
        "programs": len(pcases), "programs_compiled": compiled, "programs_rejected": rejected,
        "disagreements": len(dis), "oracle_failures": len(fails)})

def replay(payload, br):
    print(payload.get("why")); print(payload.get("script") or ""); print(payload.get("disabled") or "")
    line = payload.get("case", "")
    if line.startswith("(case"):
        impl, _ = vlib.run_impl([line]); print("impl:", impl)
        if " symtab " in line:
            model, _ = vlib.run_model([line]); print("model:", model)
    return 1
