"""C04: encoding bytecode and decoding it again preserves behaviour."""
import vlib, proggen
from vlib import mk_case, hexs

TRUSTED = ["correspondence harness + extracted codec model (Codec/Varint.v, Codec/Obj.v)",
           "gob (type tag 255) is outside the model"]
ASSUMPTIONS = ["Go map iteration order is irrelevant: map encodings are compared after decoding",
               "the Bytecode container and SourceFileSet codec are exercised through whole-program round trips, not modelled"]

INTS = [0, 1, -1, 63, 64, -64, -65, 127, 128, 300, 2**31-1, -2**31, 2**53, 2**63-1, -2**63]
UINTS = [0, 1, 127, 128, 2**32, 2**63, 2**64-1]
FBITS = ["0000000000000000", "8000000000000000", "3ff0000000000000", "7ff0000000000000", "fff0000000000000",
         "7ff8000000000001", "7ff8000000000000", "fff8000000000123", "0000000000000001", "ffffffffffffffff"]
STRS = [b"", b"a", b"hello", b"\xff\xfe\x00", "é€".encode(), b"x" * 130, b"y" * 20000]
BUILTINS = [b"len", b"append", b"error", b"int"]

def gen_cval(rng, depth):
    r = rng.random()
    if depth <= 0 or r < .5:
        k = rng.randrange(12)
        if k == 0: return ["n"]
        if k == 1: return ["b", str(rng.randrange(2))]
        if k == 2: return ["i", str(rng.choice(INTS) if rng.random() < .6 else rng.randrange(-2**63, 2**63))]
        if k == 3: return ["u", str(rng.choice(UINTS) if rng.random() < .6 else rng.randrange(0, 2**64))]
        if k == 4: return ["c", str(rng.choice([0, 97, -1, 2**31-1, -2**31, 0x10ffff]))]
        if k == 5: return ["f", rng.choice(FBITS) if rng.random() < .6 else "%016x" % rng.randrange(0, 2**64)]
        if k == 6: return ["s", hexs(rng.choice(STRS[:-1]) if rng.random() < .97 else STRS[-1])]
        if k == 7: return ["y", hexs(rng.choice(STRS[:-1]))]
        if k == 8: return ["fn", hexs(rng.choice([b"f", b"", b"name"]))]
        if k == 9: return ["bfn", hexs(rng.choice(BUILTINS))]
        if k == 10:
            insts = rng.choice(["nil", "x", hexs(bytes(rng.randrange(256) for _ in range(rng.randrange(1, 9))))])
            sm = "nil" if rng.random() < .3 else ["sm"] + [[str(k2), str(rng.randrange(0, 5000))] for k2 in sorted(rng.sample(range(0, 300), rng.randrange(0, 4)))]
            return ["cf", str(rng.choice([0, 1, 2, 255])), str(rng.choice([0, 1, 3, 256])), insts, str(rng.randrange(2)), sm]
        return ["sm", "nil"]
    n = rng.choice([0, 1, 2, 3])
    if r < .75: return ["a"] + [gen_cval(rng, depth-1) for _ in range(n)]
    keys = sorted(set(rng.choice([b"", b"a", b"b", b"\xff", b"key"]) for _ in range(n)))
    tag = "m" if rng.random() < .8 else "sm"
    return [tag] + [[hexs(k), gen_cval(rng, depth-1)] for k in keys]

def has_map(v):
    if isinstance(v, str): return False
    if v and v[0] in ("m", "sm") and len(v) > 2: return True
    return any(has_map(x) for x in v[1:])

def canon_expected(v):
    """what decoding yields for v: empty sync map with Value {} decodes to nil Value; NaN payloads kept"""
    if isinstance(v, str): return v
    if v[0] == "cf":
        v = list(v)
        if v[3] == "x": v[3] = "x"
        return v
    return [v[0]] + [canon_expected(x) for x in v[1:]]

MODS = ["x := 10\nreturn {v: x, f: func(a) { return a + x }}\n",
        "m1 := import(\"m1\")\nreturn {g: func() { return m1.f(1) }, bad: func() { return [][1] }}\n",
        "[1][5]\n", "throw \"first byte of a module\"",
        "", "\n"]       # m5: a source file of zero bytes, m6: of one byte

def run(rep, br, proofs, rng, tier):
    nv = 1500 if tier == "quick" else 30000
    np_ = 250 if tier == "quick" else 4000
    vals = [gen_cval(rng, rng.choice([0, 1, 2, 3, 4])) for _ in range(nv)]
    vals += [["i", str(z)] for z in INTS] + [["u", str(z)] for z in UINTS] + [["f", b] for b in FBITS] + [["s", hexs(s)] for s in STRS]
    enc_cases = [mk_case("e%d" % i, "enc", v) for i, v in enumerate(vals)]
    impl_e, _ = vlib.run_impl([c["line"] for c in enc_cases], timeout=2400)
    model_e, _ = vlib.run_model([c["line"] for c in enc_cases], timeout=2400)
    fails, dis = [], []
    dec_cases = []
    for c, v in zip(enc_cases, vals):
        ib, mb = impl_e.get(c["id"]), model_e.get(c["id"])
        c["impl"], c["model"] = ib, mb
        if ib is None or mb is None or not ib.startswith("(ok") or not mb.startswith("(ok"):
            dis.append(c); continue
        ih, mh = vlib.parse_sexp(ib)[1], vlib.parse_sexp(mb)[1]
        if not has_map(v) and ih != mh: dis.append(c)
        d1 = mk_case(c["id"] + ".im", "dec", ih); d1["expect"] = "(ok %s 0)" % vlib.sexp_str(canon_expected(v)); d1["side"] = "model"; d1["val"] = v
        d2 = mk_case(c["id"] + ".mi", "dec", mh); d2["expect"] = d1["expect"]; d2["side"] = "impl"; d2["val"] = v
        dec_cases += [d1, d2]
    impl_d, _ = vlib.run_impl([c["line"] for c in dec_cases if c["side"] == "impl"], timeout=2400)
    model_d, _ = vlib.run_model([c["line"] for c in dec_cases if c["side"] == "model"], timeout=2400)
    # implementation-only round trip oracle: impl decodes impl bytes
    rt_cases = []
    for c in dec_cases:
        if c["side"] == "model":
            rc = dict(c); rc["id"] = c["id"] + ".ii"; rc["line"] = c["line"].replace(c["id"], rc["id"], 1); rc["side"] = "implrt"; rt_cases.append(rc)
    impl_rt, _ = vlib.run_impl([c["line"] for c in rt_cases], timeout=2400)
    for c in rt_cases:
        got = impl_rt.get(c["id"])
        if got != c["expect"]:
            fails.append((c, "decode(encode(v)) != v on the implementation: got %s" % (got[:300] if got else got)))
    for c in dec_cases:
        got = (impl_d if c["side"] == "impl" else model_d).get(c["id"])
        c["got"] = got
        if got != c["expect"]:
            dis.append(c)
    # whole programs
    g = proggen.Gen(rng, max_depth=3, modules=("time", "m1", "m2"))
    progs = ["t := import(\"time\")\nm := import(\"m2\")\nf := func(a, ...b) { try { return a[0] } catch e { return b } finally { a = -0.0 } }\nreturn [f([1], 2), t.Second, m.g(), -0.0, 0.0, 3u, 'c', bytes(1, 2), {a: [1]}, string(-0.0)]\n",
             "m := import(\"m2\")\nreturn m.bad()\n",
             "v := import(\"vmod\")\nreturn [v.k, v.name, v.pi, v.flag, v.ch, v.raw, v.u, v.nothing, v.inc(1), v.ns.triple(7), v.ns.depth.inc(1), v.ns.n, v.arr[0](2), v.arr[1], v.arr[2][0](3), v.sm.triple(5)]\n",
             "v := import(\"vmod\")\nf := func() { w := import(\"vmod\"); return w.ns.triple(2) + v.arr[2][0](1) }\nreturn f()\n",
             # values without a native encoding (gob fallback), several of one Go type in one container
             "g := import(\"gmod\")\nreturn [string(g.errA), string(g.errB), string(g.rt), string(g.t1), string(g.t2), g.n, string(g.errs.x), string(g.errs.y), string(g.errs.z), string(g.times[0]), string(g.times[2]), string(g.mixed.e), string(g.mixed.t), string(g.mixed.r), string(g.mixed.m.e1), string(g.mixed.m.e2)]\n",
             "g := import(\"gmod\")\nf := func() { try { throw g.errs.y } catch e { return [isError(e, g.errB), string(e)] } }\nreturn [f(), g.t1 == g.times[0], g.t2 == g.t1]\n",
             "f := func() { return func() { return [1][5] } }\nreturn f()()\n",
             # errors whose position is the very first or the very last byte of a file, in the main file and in imported ones
             "throw \"boom\"\n", "[1][5]\n", "[1][5]", "x := 1\nimport(\"m3\")\n", "import(\"m3\")", "y := import(\"m1\")\nimport(\"m4\")",
             "import(\"m4\")\n", "z := import(\"m2\")\nw := import(\"m1\")\nreturn z.bad()", "x := 1\nthrow x",
             # source files of zero bytes and of one byte: the main script, an imported module
             "", "\n", " ", "e := import(\"m5\")\nreturn [e, import(\"m6\")]\n", "import(\"m5\")", "f := func() { return import(\"m5\") }\nreturn [f(), [1][3]]\n"]
    progs += [g.program() for _ in range(np_)]
    pcases = [mk_case("p%d" % i, "encprog", hexs(s.encode()), *[hexs(m.encode()) for m in MODS]) for i, s in enumerate(progs)]
    impl_p, _ = vlib.run_impl([c["line"] for c in pcases], timeout=2400)
    pok = 0
    for c, s in zip(pcases, progs):
        out = impl_p.get(c["id"])
        if out is None: fails.append((c, "no output")); continue
        if out in ("(compile-error)",): continue
        if not out.startswith("(encprog"):
            fails.append((dict(c, src=s), "encode/decode failed: " + out[:300])); continue
        sx = vlib.parse_sexp(out)
        o1, o2, o3 = vlib.sexp_str(sx[1]), vlib.sexp_str(sx[2]), vlib.sexp_str(sx[3])
        if "(timeout)" in (o1, o2, o3): continue
        if o1 != o2: fails.append((dict(c, src=s), "decoded program behaves differently: %s vs %s" % (o1[:200], o2[:200])))
        elif o2 != o3: fails.append((dict(c, src=s), "second round trip behaves differently"))
        elif sx[4][1] != "1": fails.append((dict(c, src=s), "stack trace of the decoded program differs: %s vs %s" % (sx[5][:300], sx[6][:300])))
        else: pok += 1
    for c, why in fails[:10]:
        rep.violation({"property": "C04", "kind": "oracle", "why": why, "case": c["line"][:3000], "script": c.get("src")})
    if not fails:
        for c in dis[:10]:
            rep.violation({"property": "C04", "kind": "correspondence", "why": "codec model and implementation disagree (encode bytes or cross decode)",
                           "case": c["line"][:3000], "impl": str(c.get("impl"))[:500], "model": str(c.get("model"))[:500], "got": str(c.get("got"))[:500], "expect": str(c.get("expect"))[:500]}, found=False)
    rep.coverage.update({
        "evaluations": len(enc_cases) + len(dec_cases) + len(rt_cases) + len(pcases),
        "distinct_nontrivial": len(set(c["line"].split(" ", 2)[2] for c in enc_cases)) + pok,
        "rule": "seeded values over every constant kind (extreme ints, NaN payloads, -0, chars, empty / non-UTF-8 / long strings, nested arrays, maps, sync maps, functions, compiled functions) encoded by both sides, cross-decoded both ways and round-tripped on the implementation; plus generated programs importing builtin and source modules run before and after one and two encode/decode trips incl. formatted stack traces",
        "samples": [enc_cases[0]["line"], enc_cases[len(enc_cases)//2]["line"], pcases[0]["line"][:400]],
        "values": len(vals), "programs": len(pcases), "programs_equal": pok,
        "disagreements": len(dis), "oracle_failures": len(fails), "generator_stats": g.stats})

def replay(payload, br):
    line = payload.get("case", "")
    print(payload.get("why")); print(payload.get("script") or "")
    if line.startswith("(case"):
        impl, _ = vlib.run_impl([line]); print("impl:", impl)
        if " enc " in line or " dec " in line:
            model, _ = vlib.run_model([line]); print("model:", model)
    return 1
