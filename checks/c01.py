"""C01: the optimizer never changes what a script does."""
import vlib, proggen
from vlib import mk_case, hexs
from checks import c15

TRUSTED = ["hook VerifFoldBinary / VerifFoldUnary / VerifIsLiteralFalsy (build tag verif) exposes the optimizer's tables unchanged",
           "correspondence harness + extracted model (Comp/Fold.v)"]
ASSUMPTIONS = ["the evaluator path (expressions the optimizer runs on a private VM) is decided by differential execution, not by a theorem"]

LIMITS = [1, 2, 3, 5, 8, 13, 100]
BUILTINS = ["int", "string", "len", "bool", "char", "float", "uint", "typeName", "bytes", "chars", "isInt", "contains", "error", "sprintf", "isString", "isError"]

MODS = ["const k = 2 + 3 * 4\nreturn {k: k, f: func(x) { return x + (1 << 3) }}\n"]

def shadow_prog(rng):
    """one builtin name re-declared through one binding form, used with constant and non constant
    operands before, inside and after the binding"""
    b = rng.choice(BUILTINS)
    arg = rng.choice(['"7"', "7", "[1, 2]", '"ab"', "1.5", "true"])
    use = "%s(%s)" % (b, arg)
    form = rng.randrange(13)
    pre = "out := []\nuser := func(...a) { return [\"U\", a] }\n"
    pre += "out = append(out, %s)\n" % use if rng.random() < .5 and form != 3 else ""
    if form == 0: body = "%s := user\nout = append(out, %s)\n" % (b, use)
    elif form == 1: body = "var %s = user\nout = append(out, %s)\n" % (b, use)
    elif form == 2: body = "const %s = 5\nout = append(out, %s + 1)\n" % (b, b)
    elif form == 3: pre = "param %s\nout := []\nuser := func(...a) { return [\"U\", a] }\n" % b; body = "out = append(out, %s)\n" % b
    elif form == 4: body = "global %s\nout = append(out, %s)\n" % (b, b)
    elif form == 5: body = "g := func(%s) { return %s(%s) }\nout = append(out, g(user))\n" % (b, b, arg)
    elif form == 6: body = "for %s, v in [user] { out = append(out, typeName(%s)) }\n" % (b, b)
    elif form == 7: body = "for _, %s in [user] { out = append(out, %s) }\n" % (b, use)
    elif form == 8: body = "try { throw \"e\" } catch %s { out = append(out, typeName(%s)) }\n" % (b, b)
    elif form == 9: body = "g := func() { %s := user; return func() { return %s }() }\nout = append(out, g())\n" % (b, use)
    elif form == 10: body = "x, %s := [1, user]\nout = append(out, %s)\n" % (b, use)
    elif form == 11: body = "if true { %s := user; out = append(out, %s) }\nout = append(out, %s)\n" % (b, use, use)
    else: body = "g := func(...%s) { return len(%s) }\nout = append(out, g(1, 2))\n" % (b, b)
    post = "out = append(out, func() { return %s }())\n" % use if rng.random() < .4 and form not in (2, 3, 4) else ""
    # the use again from scopes nested below the binding, inside unary / binary expressions, with a literal constant
    # declared (a visible const makes the compiler fold expressions while compiling, not only in the optimizer pass)
    cpre = rng.choice(["", "", "const one = 1\n", "const (\n\tzero = iota\n\tone\n)\n"])
    k1 = "one" if cpre else "1"
    wrapped = rng.choice(["%s + %s" % (k1, use), "-%s" % use, "%s == %s" % (use, k1), "!%s" % use, use])
    if form in (0, 1, 9, 10, 11) or (form in (3, 4) and b != use):
        nest = rng.choice(["h := func() { return %s }\nout = append(out, h())\n",
                           "if true { out = append(out, %s) }\n",
                           "h2 := func() { if true { return func() { return %s }() } }\nout = append(out, h2())\n",
                           "for i := 0; i < 1; i++ { out = append(out, %s) }\n"]) % wrapped
        if form == 11: nest = "if true { %s := user\n%s}\n" % (b, nest)
        if form == 9: nest = "g2 := func() { %s := user\n%sreturn 0 }\ng2()\n" % (b, nest)
        post += nest
    elif form in (5, 12):
        post += "g3 := func(%s%s) { k := func() { return %s }; return k() }\nout = append(out, g3(user))\n" % ("..." if form == 12 else "", b, wrapped if form == 5 else "len(%s) + %s" % (b, k1))
    elif form in (7,):
        post += "for _, %s in [user] { h := func() { return %s }; out = append(out, h()) }\n" % (b, wrapped)
    elif form == 8:
        post += "try { throw \"e\" } catch %s { h := func() { return %s + typeName(%s) }; out = append(out, h()) }\n" % (b, '"t"', b)
    pre = cpre + pre if form != 3 else pre + cpre
    consts = rng.choice(["", "out = append(out, (1 + 2) * 3, \"a\" + \"b\", -(-3), !0, 7 / 2, 7 % 3, 1 << 4, 2.5 * 2.0, 1 ? 2 : 3)\n",
                         "if 0 { out = append(out, \"dead\") } else { out = append(out, \"live\") }\n",
                         "out = append(out, -0.0, 0.0, string(-0.0), 1.5 - 1.5)\n"])
    return pre + body + post + consts + "return out\n"

def lit_source(v):
    """source text of a literal-pool value, or None (NaN, infinities, MinInt64 and unprintable chars have no literal)"""
    import struct, math
    k = v[0]
    if k == "i":
        z = int(v[1])
        if z == -2**63: return None
        return "(%d)" % z if z < 0 else str(z)
    if k == "u": return v[1] + "u"
    if k == "f":
        x = struct.unpack(">d", bytes.fromhex(v[1]))[0]
        if math.isnan(x) or math.isinf(x): return None
        t = repr(abs(x))
        if "e" in t and "." not in t: pass
        return "(-%s)" % t if (x < 0 or math.copysign(1, x) < 0) else t
    if k == "c":
        z = int(v[1])
        return "'%s'" % chr(z) if 32 <= z < 127 and chr(z) not in "'\\" else None
    if k == "b": return "true" if v[1] == "1" else "false"
    if k == "n": return "undefined"
    if k == "s":
        b = vlib.unhex(v[1]) if isinstance(vlib.unhex(v[1]), bytes) else vlib.unhex(v[1]).encode("latin1")
        try: t = b.decode("ascii")
        except UnicodeDecodeError: return None
        return '"%s"' % t
    return None

def literal_condition_progs(lits):
    """every literal as the condition of if / else, ?:, !, && and || and of a loop, and as a folded
    constant expression in the same places: the shapes in which the optimizer decides truthiness"""
    out = []
    for v in lits:
        t = lit_source(v)
        if t is None: continue
        forms = [t]
        if v[0] in ("i", "f", "u"): forms += ["(%s - %s)" % (t, t), "(%s * 1)" % t] if v[0] != "u" else ["(%s * 1u)" % t]
        if v[0] == "s": forms.append('(%s + "")' % t)
        for e in forms:
            out.append('if %s { return "t" }\nreturn "e"\n' % e)
            out.append('if %s { return "t" } else { return "e" }\n' % e)
            out.append('return %s ? "t" : "e"\n' % e)
            out.append('return [!%s, %s && "x", %s || "x"]\n' % (e, e, e))
            out.append('x := 0\nfor %s { x++; if x > 2 { break } }\nreturn x\n' % e)
            # the statement forms with an init part (assignment, definition read by the else branch, call with an effect),
            # also as else-if and inside a function; the loop form with init and post
            out.append('r := 0\nif r = 7; %s { return ["t", r] }\nreturn ["e", r]\n' % e)
            out.append('if v := 3; %s { return ["t", v] } else { return ["e", v] }\n' % e)
            out.append('n := 0\nf := func() { n++; return n }\nif f(); %s { n += 10 } else if f(); %s { n += 100 } else { n += 1000 }\nreturn n\n' % (e, e))
            out.append('g := func(p) { if q := p * 2; %s { return q } else if w := q + 1; %s { return w } else { return [q, w] } }\nreturn g(5)\n' % (e, e))
            out.append('x := 0\nfor i := 5; %s; i++ { x += i; if x > 20 { break } }\nreturn x\n' % e)
    return out

def run(rep, br, proofs, rng, tier):
    # ---- level 1: folding tables, exhaustive over literal pool^2 x operators
    lits = [v for v in c15.pool() if v[0] in ("i", "u", "f", "s", "b", "c", "n")]
    cases = vlib.load_corpus("C01")
    for i, a in enumerate(lits):
        for t in ("not", "sub", "xor", "add"):
            cases.append(mk_case("u.%s.%d" % (t, i), "foldun", t, a))
        cases.append(mk_case("lf.%d" % i, "litfalsy", a))
        for j, b in enumerate(lits):
            if a[0] != b[0] or a[0] not in ("i", "f", "s"):
                if rng.random() > 0.02: continue
            for t in c15.BINOPS:
                cases.append(mk_case("b.%s.%d.%d" % (t, i, j), "foldbin", t, a, b))
    impl, model, dis = vlib.correspond(cases, timeout=2400)
    fails = []
    # oracle for the tables on the implementation itself: a folded value equals what the VM computes
    vm_cases = []
    for c in cases:
        out = c["impl"]
        if out is None or out.startswith("(panic"):
            fails.append((c, "folding table panicked: %s" % out, None)); continue
        if out.startswith("(fold"):
            folded = vlib.sexp_str(vlib.parse_sexp(out)[1])
            if c["kind"] == "foldbin":
                v = mk_case(c["id"] + ".vm", "binop", c["args"][0], c["args"][1], c["args"][2])
            else:
                v = mk_case(c["id"] + ".vm", "unop", c["args"][0], c["args"][1])
            v["folded"] = folded; v["src"] = c
            vm_cases.append(v)
    impl_vm, _ = vlib.run_impl([v["line"] for v in vm_cases], timeout=2400)
    for v in vm_cases:
        got = impl_vm.get(v["id"])
        if got != "(ok %s)" % v["folded"]:
            fails.append((v["src"], "folded to %s but the VM computes %s" % (v["folded"], got), None))
    # ---- level 2: whole programs, optimizer off vs every budget
    n = 500 if tier == "quick" else 8000
    g = proggen.Gen(rng, max_depth=3, modules=("m1",))
    progs = [shadow_prog(rng) for _ in range(n)] + [g.program() for _ in range(n // 2)]
    progs += ["f := func(x) { return \"F\" + x }\nfor _, int in [f] { return int(\"7\") }\n",
              "try { throw \"e\" } catch string { return typeName(string) }\n",
              "a := 0.0\nb := -0.0\nreturn string(b)\n"]
    progs += literal_condition_progs(lits)
    # const groups with an implicitly repeated expression: the repeats are compiled from the expression of the first
    # specification.  D01e (known finding): when the group itself declares a name that expression mentions, the
    # optimizer has already rewritten the shared expression with the binding the first specification saw.
    D01E = ["const x = 2\nf := func() {\n\tconst (\n\t\ta = x + iota\n\t\tx\n\t\tc\n\t)\n\treturn [a, x, c]\n}\nreturn f()\n",
            "f := func() {\n\tconst (\n\t\ta = len(\"ab\")\n\t\tlen\n\t\tc\n\t)\n\treturn [a, len, c]\n}\nreturn f()\n"]
    progs += D01E
    progs += ["const x = 2\nconst (\n\ta = x + iota\n\ty\n\tc\n)\nreturn [a, y, c]\n",
              "f := func() {\n\tconst (\n\t\ta = len(\"ab\") + iota\n\t\tb\n\t\tc\n\t)\n\treturn [a, b, c]\n}\nreturn f()\n",
              "const x = 2\nf := func(x) {\n\tconst (\n\t\ta = x * iota\n\t\tb\n\t\tc\n\t)\n\treturn [a, b, c]\n}\nreturn f(5)\n",
              "len := 3\nconst (\n\ta = len + iota\n\tb\n)\nreturn [a, b]\n"]
    known = {k["id"] for k in vlib.load_known("C01")}
    pcases = [mk_case("p%d" % i, "optprog", hexs(s.encode()), ["limits"] + [str(x) for x in LIMITS], *[hexs(m.encode()) for m in MODS]) for i, s in enumerate(progs)]
    impl_p, _ = vlib.run_impl([c["line"] for c in pcases], timeout=3000)
    compared = refused = 0
    for c, s in zip(pcases, progs):
        out = impl_p.get(c["id"])
        if out is None: fails.append((c, "no output", s)); continue
        sx = vlib.parse_sexp(out)
        base = sx[1][1]
        if base[0] in ("compile-error",): continue
        if base[0] == "compile-panic": fails.append((c, "compile panicked with the optimizer off", s)); continue
        basestr = vlib.sexp_str(base)
        if "(timeout)" in basestr: continue
        for o in sx[2:]:
            lim, res = o[1], o[2]
            if res[0] == "compile-panic":
                fails.append((c, "compile panicked with OptimizerLimit %s: %s" % (lim, res[1][:200]), s)); break
            if res[0] == "optimizer-error" or (res[0] == "compile-error" and "Optimizer_Error" in res[1]):
                refused += 1; continue
            if res[0] == "compile-error":
                fails.append((c, "valid script rejected with OptimizerLimit %s: %s" % (lim, res[1][:200]), s)); break
            if vlib.sexp_str(res) != basestr and s in D01E and "D01e" in known:
                rep.known("D01e", "a const group whose implicitly repeated expression mentions a name the group itself declares: %s gives %s with the optimizer off and %s with it on" % (
                    " ".join(s.split())[:90], basestr[:60], vlib.sexp_str(res)[:60]))
                break
            if vlib.sexp_str(res) != basestr:
                fails.append((c, "OptimizerLimit %s changes the outcome: off %s, on %s" % (lim, basestr[:300], vlib.sexp_str(res)[:300]), s)); break
            compared += 1
    for c, why, s in fails[:10]:
        rep.violation({"property": "C01", "kind": "oracle", "why": why, "case": c["line"][:2000], "script": s})
    if not fails:
        for c in dis[:10]:
            rep.violation({"property": "C01", "kind": "correspondence", "why": "folding table model (Comp/Fold.v) and implementation disagree",
                           "case": c["line"], "impl": c["impl"], "model": c["model"]}, found=False)
    folded = sum(1 for c in cases if c["impl"] and c["impl"].startswith("(fold"))
    rep.coverage.update({
        "evaluations": len(cases) + len(pcases) * (len(LIMITS) + 1), "distinct_nontrivial": folded + compared,
        "rule": "folding tables called through the hook over literal pool x literal pool (same-kind pairs exhaustively, mixed pairs sampled) x 15 binary operators, 4 unary operators and isLiteralFalsy, each folded result re-computed by the VM operator; programs crossing every binding form that can shadow a builtin (:=, var, const, param, global, function parameter, variadic parameter, for-in key / value, catch identifier, nested function scope, destructuring, block) with builtin calls on constant operands, constant expressions and literal conditions, every literal of the pool (and constant expressions folding to it) as the condition of if / else, ?:, !, && / ||, and for, compiled with the optimizer off and with OptimizerLimit in %s and run with equal arguments; non-trivial = a fold happened / outcomes compared" % LIMITS,
        "samples": [cases[0]["line"], progs[0], progs[1]],
        "table_cases": len(cases), "table_folds": folded, "programs": len(pcases), "program_budget_runs_compared": compared,
        "optimizer_refusals": refused, "disagreements": len(dis), "oracle_failures": len(fails)})

def replay(payload, br):
    print(payload.get("why")); print(payload.get("script") or "")
    line = payload.get("case", "")
    if line.startswith("(case"):
        impl, _ = vlib.run_impl([line]); print("impl:", impl)
    return 1
