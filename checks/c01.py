"""C01: the optimizer never changes what a script does."""
import vlib, proggen
from vlib import mk_case, hexs
from checks import c15

TRUSTED = ["hook VerifFoldBinary / VerifFoldUnary / VerifIsLiteralFalsy (build tag verif) exposes the optimizer's tables unchanged",
           "correspondence harness + extracted model (Comp/Fold.v)"]
ASSUMPTIONS = ["the evaluator path (expressions the optimizer runs on a private VM) is decided by differential execution, not by a theorem"]

LIMITS = [1, 2, 3, 5, 8, 13, 100]
BUILTINS = ["int", "string", "len", "bool", "char", "float", "uint", "typeName", "bytes", "chars", "isInt", "contains", "error", "sprintf", "isString", "isError"]

MODS = ["const k = 2 + 3 * 4\nreturn {k: k, f: func(x) { return x + (1 << 3) }}\n"]

def shadow_prog(rng):
    """one builtin name re-declared through one binding form, used with constant and non constant
    operands before, inside and after the binding"""
    b = rng.choice(BUILTINS)
    arg = rng.choice(['"7"', "7", "[1, 2]", '"ab"', "1.5", "true"])
    use = "%s(%s)" % (b, arg)
    form = rng.randrange(13)
    pre = "out := []\nuser := func(...a) { return [\"U\", a] }\n"
    pre += "out = append(out, %s)\n" % use if rng.random() < .5 and form != 3 else ""
    if form == 0: body = "%s := user\nout = append(out, %s)\n" % (b, use)
    elif form == 1: body = "var %s = user\nout = append(out, %s)\n" % (b, use)
    elif form == 2: body = "const %s = 5\nout = append(out, %s + 1)\n" % (b, b)
    elif form == 3: pre = "param %s\nout := []\nuser := func(...a) { return [\"U\", a] }\n" % b; body = "out = append(out, %s)\n" % b
    elif form == 4: body = "global %s\nout = append(out, %s)\n" % (b, b)
    elif form == 5: body = "g := func(%s) { return %s(%s) }\nout = append(out, g(user))\n" % (b, b, arg)
    elif form == 6: body = "for %s, v in [user] { out = append(out, typeName(%s)) }\n" % (b, b)
    elif form == 7: body = "for _, %s in [user] { out = append(out, %s) }\n" % (b, use)
    elif form == 8: body = "try { throw \"e\" } catch %s { out = append(out, typeName(%s)) }\n" % (b, b)
    elif form == 9: body = "g := func() { %s := user; return func() { return %s }() }\nout = append(out, g())\n" % (b, use)
    elif form == 10: body = "x, %s := [1, user]\nout = append(out, %s)\n" % (b, use)
    elif form == 11: body = "if true { %s := user; out = append(out, %s) }\nout = append(out, %s)\n" % (b, use, use)
    else: body = "g := func(...%s) { return len(%s) }\nout = append(out, g(1, 2))\n" % (b, b)
    post = "out = append(out, func() { return %s }())\n" % use if rng.random() < .4 and form not in (2, 3, 4) else ""
    # the use again from scopes nested below the binding, inside unary / binary expressions, with a literal constant
    # declared (a visible const makes the compiler fold expressions while compiling, not only in the optimizer pass)
    cpre = rng.choice(["", "", "const one = 1\n", "const (\n\tzero = iota\n\tone\n)\n"])
    k1 = "one" if cpre else "1"
    wrapped = rng.choice(["%s + %s" % (k1, use), "-%s" % use, "%s == %s" % (use, k1), "!%s" % use, use])
    if form in (0, 1, 9, 10, 11) or (form in (3, 4) and b != use):
        nest = rng.choice(["h := func() { return %s }\nout = append(out, h())\n",
                           "if true { out = append(out, %s) }\n",
                           "h2 := func() { if true { return func() { return %s }() } }\nout = append(out, h2())\n",
                           "for i := 0; i < 1; i++ { out = append(out, %s) }\n"]) % wrapped
        if form == 11: nest = "if true { %s := user\n%s}\n" % (b, nest)
        if form == 9: nest = "g2 := func() { %s := user\n%sreturn 0 }\ng2()\n" % (b, nest)
        post += nest
    elif form in (5, 12):
        post += "g3 := func(%s%s) { k := func() { return %s }; return k() }\nout = append(out, g3(user))\n" % ("..." if form == 12 else "", b, wrapped if form == 5 else "len(%s) + %s" % (b, k1))
    elif form in (7,):
        post += "for _, %s in [user] { h := func() { return %s }; out = append(out, h()) }\n" % (b, wrapped)
    elif form == 8:
        post += "try { throw \"e\" } catch %s { h := func() { return %s + typeName(%s) }; out = append(out, h()) }\n" % (b, '"t"', b)
    pre = cpre + pre if form != 3 else pre + cpre
    consts = rng.choice(["", "out = append(out, (1 + 2) * 3, \"a\" + \"b\", -(-3), !0, 7 / 2, 7 % 3, 1 << 4, 2.5 * 2.0, 1 ? 2 : 3)\n",
                         "if 0 { out = append(out, \"dead\") } else { out = append(out, \"live\") }\n",
                         "out = append(out, -0.0, 0.0, string(-0.0), 1.5 - 1.5)\n"])
    return pre + body + post + consts + "return out\n"

def lit_source(v):
    """source text of a literal-pool value, or None (NaN, infinities, MinInt64 and unprintable chars have no literal)"""
    import struct, math
    k = v[0]
    if k == "i":
        z = int(v[1])
        if z == -2**63: return None
        return "(%d)" % z if z < 0 else str(z)
    if k == "u": return v[1] + "u"
    if k == "f":
        x = struct.unpack(">d", bytes.fromhex(v[1]))[0]
        if math.isnan(x) or math.isinf(x): return None
        t = repr(abs(x))
        if "e" in t and "." not in t: pass
        return "(-%s)" % t if (x < 0 or math.copysign(1, x) < 0) else t
    if k == "c":
        z = int(v[1])
        return "'%s'" % chr(z) if 32 <= z < 127 and chr(z) not in "'\\" else None
    if k == "b": return "true" if v[1] == "1" else "false"
    if k == "n": return "undefined"
    if k == "s":
        b = vlib.unhex(v[1]) if isinstance(vlib.unhex(v[1]), bytes) else vlib.unhex(v[1]).encode("latin1")
        try: t = b.decode("ascii")
        except UnicodeDecodeError: return None
        return '"%s"' % t
    return None

def literal_condition_progs(lits):
    """every literal as the condition of if / else, ?:, !, && and || and of a loop, and as a folded
    constant expression in the same places: the shapes in which the optimizer decides truthiness"""
    out = []
    for v in lits:
        t = lit_source(v)
        if t is None: continue
        forms = [t]
        if v[0] in ("i", "f", "u"): forms += ["(%s - %s)" % (t, t), "(%s * 1)" % t] if v[0] != "u" else ["(%s * 1u)" % t]
        if v[0] == "s": forms.append('(%s + "")' % t)
        for e in forms:
            out.append('if %s { return "t" }\nreturn "e"\n' % e)
            out.append('if %s { return "t" } else { return "e" }\n' % e)
            out.append('return %s ? "t" : "e"\n' % e)
            out.append('return [!%s, %s && "x", %s || "x"]\n' % (e, e, e))
            out.append('x := 0\nfor %s { x++; if x > 2 { break } }\nreturn x\n' % e)
            # the statement forms with an init part (assignment, definition read by the else branch, call with an effect),
            # also as else-if and inside a function; the loop form with init and post
            out.append('r := 0\nif r = 7; %s { return ["t", r] }\nreturn ["e", r]\n' % e)
            out.append('if v := 3; %s { return ["t", v] } else { return ["e", v] }\n' % e)
            out.append('n := 0\nf := func() { n++; return n }\nif f(); %s { n += 10 } else if f(); %s { n += 100 } else { n += 1000 }\nreturn n\n' % (e, e))
            out.append('g := func(p) { if q := p * 2; %s { return q } else if w := q + 1; %s { return w } else { return [q, w] } }\nreturn g(5)\n' % (e, e))
            out.append('x := 0\nfor i := 5; %s; i++ { x += i; if x > 20 { break } }\nreturn x\n' % e)
    return out

OX_BIN = {"add": "+", "sub": "-", "mul": "*", "quo": "/", "rem": "%", "and": "&", "or": "|", "xor": "^", "andnot": "&^", "shl": "<<", "shr": ">>",
          "lt": "<", "le": "<=", "gt": ">", "ge": ">="}
OX_UN = {"not": "!", "sub": "-", "xor": "^", "add": "+"}

def gen_oexpr(rng, lits, depth, const_bias, numeric=False):
    """source text of an expression over literals of every kind, parameters p0..p2, every binary and unary operator,
    == / !=, && / || and ?:; const_bias: probability that a leaf is a literal (constant sub-trees are what the optimizer
    folds); numeric: the operand of an arithmetic operator - mostly numbers, so that most constant sub-trees have a value"""
    if depth <= 0 or rng.random() < .25:
        if rng.random() < const_bias:
            pool = [v for v in lits if v[0] in ("i", "u", "f", "c", "b")] if (numeric and rng.random() < .85) else lits
            for _ in range(20):
                t = lit_source(rng.choice(pool))
                if t is not None: return t
            return "1"
        return "p%d" % rng.randrange(3)
    k = rng.randrange(10)
    sub = lambda num=False: gen_oexpr(rng, lits, depth - 1, const_bias if rng.random() < .8 else 1.0, num)
    if k <= 4:
        op = rng.choice(sorted(OX_BIN))
        if op in ("quo", "rem") and rng.random() < .7: return "(%s %s %s)" % (sub(True), OX_BIN[op], rng.choice(["2", "3", "(-5)", "7u", "2.5", "p1"]))
        return "(%s %s %s)" % (sub(True), OX_BIN[op], sub(True))
    if k == 5: return "(%s %s %s)" % (sub(), rng.choice(["==", "!="]), sub())
    if k == 6: return "(%s%s)" % (OX_UN[rng.choice(sorted(OX_UN))], sub(True))
    if k == 7: return "(%s %s %s)" % (sub(), rng.choice(["&&", "||"]), sub())
    return "(%s ? %s : %s)" % (sub(), sub(numeric), sub(numeric))

def run_optexpr(rng, lits, tier, fails):
    """translation validation: the expression trees before and after the real optimizer through the validator fold_ok"""
    n = 3000 if tier == "quick" else 60000
    small = [v for v in lits if not (v[0] in ("i", "u") and abs(int(v[1])) > 2**31 and rng.random() < .6)]
    cases = []
    for i in range(n):
        e = gen_oexpr(rng, small, rng.randrange(1, 5), rng.choice([.5, .7, .9]))
        src = "param (p0, p1, p2)\nreturn %s\n" % e
        c = mk_case("ox%d" % i, "optexpr", str(rng.choice([1, 2, 3, 8, 100, 100, 100])), hexs(src.encode())); c["src"] = src
        cases.append(c)
    impl, _ = vlib.run_impl([c["line"] for c in cases], timeout=1200)
    mcases = []
    for c in cases:
        out = impl.get(c["id"]); c["impl"] = out
        if out is None or out.startswith("(panic"): fails.append((c, "the optimizer panicked: %s" % out, c["src"])); continue
        if not out.startswith("(optexpr"): fails.append((c, "the generated script could not be read back: %s" % out[:100], c["src"])); continue
        sx = vlib.parse_sexp(out)
        m = mk_case(c["id"], "optexpr", sx[1], sx[2]); m["parent"] = c; m["refused"] = sx[2][0] == "refused"
        mcases.append(m)
    model, _ = vlib.run_model([m["line"] for m in mcases], timeout=1200)
    stats = {"accepted": 0, "refusals_justified": 0, "unchanged": 0, "inconclusive": 0}
    suspects = []
    for m in mcases:
        got = model.get(m["id"]); c = m["parent"]
        if got == "(inconclusive)": stats["inconclusive"] += 1; continue      # a constant whose value the operator model leaves open (float appended to a string)
        if m["refused"]:
            if got == "(justified 1)": stats["refusals_justified"] += 1
            else: fails.append((c, "the optimizer refused a script none of whose constant sub-expressions fails (%s): %s" % (got, c["impl"][-120:]), c["src"]))
        elif got == "(b 1)":
            stats["accepted"] += 1
            sx = vlib.parse_sexp(c["impl"])
            if vlib.sexp_str(sx[1]) == vlib.sexp_str(sx[2][1]): stats["unchanged"] += 1
        else: suspects.append(c)
    return cases, stats, suspects

def run(rep, br, proofs, rng, tier):
    # ---- level 1: folding tables, exhaustive over literal pool^2 x operators
    lits = [v for v in c15.pool() if v[0] in ("i", "u", "f", "s", "b", "c", "n")]
    cases = vlib.load_corpus("C01")
    for i, a in enumerate(lits):
        for t in ("not", "sub", "xor", "add"):
            cases.append(mk_case("u.%s.%d" % (t, i), "foldun", t, a))
        cases.append(mk_case("lf.%d" % i, "litfalsy", a))
        for j, b in enumerate(lits):
            if a[0] != b[0] or a[0] not in ("i", "f", "s"):
                if rng.random() > 0.02: continue
            for t in c15.BINOPS:
                cases.append(mk_case("b.%s.%d.%d" % (t, i, j), "foldbin", t, a, b))
    impl, model, dis = vlib.correspond(cases, timeout=2400)
    fails = []
    # oracle for the tables on the implementation itself: a folded value equals what the VM computes
    vm_cases = []
    for c in cases:
        out = c["impl"]
        if out is None or out.startswith("(panic"):
            fails.append((c, "folding table panicked: %s" % out, None)); continue
        if out.startswith("(fold"):
            folded = vlib.sexp_str(vlib.parse_sexp(out)[1])
            if c["kind"] == "foldbin":
                v = mk_case(c["id"] + ".vm", "binop", c["args"][0], c["args"][1], c["args"][2])
            else:
                v = mk_case(c["id"] + ".vm", "unop", c["args"][0], c["args"][1])
            v["folded"] = folded; v["src"] = c
            vm_cases.append(v)
    impl_vm, _ = vlib.run_impl([v["line"] for v in vm_cases], timeout=2400)
    for v in vm_cases:
        got = impl_vm.get(v["id"])
        if got != "(ok %s)" % v["folded"]:
            fails.append((v["src"], "folded to %s but the VM computes %s" % (v["folded"], got), None))
    # ---- level 2: whole programs, optimizer off vs every budget
    n = 500 if tier == "quick" else 8000
    g = proggen.Gen(rng, max_depth=3, modules=("m1",))
    progs = [shadow_prog(rng) for _ in range(n)] + [g.program() for _ in range(n // 2)]
    progs += ["f := func(x) { return \"F\" + x }\nfor _, int in [f] { return int(\"7\") }\n",
              "try { throw \"e\" } catch string { return typeName(string) }\n",
              "a := 0.0\nb := -0.0\nreturn string(b)\n"]
    progs += literal_condition_progs(lits)
    # const groups with an implicitly repeated expression: the repeats are compiled from the expression of the first
    # specification.  D01e (known finding): when the group itself declares a name that expression mentions, the
    # optimizer has already rewritten the shared expression with the binding the first specification saw.
    D01E = ["const x = 2\nf := func() {\n\tconst (\n\t\ta = x + iota\n\t\tx\n\t\tc\n\t)\n\treturn [a, x, c]\n}\nreturn f()\n",
            "f := func() {\n\tconst (\n\t\ta = len(\"ab\")\n\t\tlen\n\t\tc\n\t)\n\treturn [a, len, c]\n}\nreturn f()\n"]
    progs += D01E
    progs += ["const x = 2\nconst (\n\ta = x + iota\n\ty\n\tc\n)\nreturn [a, y, c]\n",
              "f := func() {\n\tconst (\n\t\ta = len(\"ab\") + iota\n\t\tb\n\t\tc\n\t)\n\treturn [a, b, c]\n}\nreturn f()\n",
              "const x = 2\nf := func(x) {\n\tconst (\n\t\ta = x * iota\n\t\tb\n\t\tc\n\t)\n\treturn [a, b, c]\n}\nreturn f(5)\n",
              "len := 3\nconst (\n\ta = len + iota\n\tb\n)\nreturn [a, b]\n"]
    known = {k["id"] for k in vlib.load_known("C01")}
    pcases = [mk_case("p%d" % i, "optprog", hexs(s.encode()), ["limits"] + [str(x) for x in LIMITS], *[hexs(m.encode()) for m in MODS]) for i, s in enumerate(progs)]
    impl_p, _ = vlib.run_impl([c["line"] for c in pcases], timeout=3000)
    compared = refused = 0
    for c, s in zip(pcases, progs):
        out = impl_p.get(c["id"])
        if out is None: fails.append((c, "no output", s)); continue
        sx = vlib.parse_sexp(out)
        base = sx[1][1]
        if base[0] in ("compile-error",): continue
        if base[0] == "compile-panic": fails.append((c, "compile panicked with the optimizer off", s)); continue
        basestr = vlib.sexp_str(base)
        if "(timeout)" in basestr: continue
        for o in sx[2:]:
            lim, res = o[1], o[2]
            if res[0] == "compile-panic":
                fails.append((c, "compile panicked with OptimizerLimit %s: %s" % (lim, res[1][:200]), s)); break
            if res[0] == "optimizer-error" or (res[0] == "compile-error" and "Optimizer_Error" in res[1]):
                refused += 1; continue
            if res[0] == "compile-error":
                fails.append((c, "valid script rejected with OptimizerLimit %s: %s" % (lim, res[1][:200]), s)); break
            if vlib.sexp_str(res) != basestr and s in D01E and "D01e" in known:
                rep.known("D01e", "a const group whose implicitly repeated expression mentions a name the group itself declares: %s gives %s with the optimizer off and %s with it on" % (
                    " ".join(s.split())[:90], basestr[:60], vlib.sexp_str(res)[:60]))
                break
            if vlib.sexp_str(res) != basestr:
                fails.append((c, "OptimizerLimit %s changes the outcome: off %s, on %s" % (lim, basestr[:300], vlib.sexp_str(res)[:300]), s)); break
            compared += 1
    # ---- level 3: translation validation of the optimizer on expression trees (theorem C01_fold_validated)
    ox_cases, ox_stats, ox_suspects = run_optexpr(rng, lits, tier, fails)
    ox_unexplained = []
    if ox_suspects:
        # the validator does not accept what the optimizer did: look for values of the parameters on which the two
        # programs differ (optimizer off vs on), otherwise the broken obligation is reported as such
        ARGS = [("1", "2", "3"), ("0", "\"s\"", "1.5"), ("(-7)", "true", "undefined"), ("2.5", "'a'", "9u"), ("\"\"", "0", "false")]
        scases = []
        for c in ox_suspects[:40]:
            for j, (a, b, d) in enumerate(ARGS):
                src = "p0 := %s\np1 := %s\np2 := %s\n%s" % (a, b, d, c["src"].split("\n", 1)[1])
                sc = mk_case("%s.s%d" % (c["id"], j), "optprog", hexs(src.encode()), ["limits"] + [str(x) for x in LIMITS], *[hexs(m.encode()) for m in MODS])
                sc["src"], sc["parent"] = src, c; scases.append(sc)
        simpl, _ = vlib.run_impl([c["line"] for c in scases], timeout=1200)
        found = set()
        for sc in scases:
            out = simpl.get(sc["id"])
            if not out: continue
            sx = vlib.parse_sexp(out); basestr = vlib.sexp_str(sx[1][1])
            for o in sx[2:]:
                if o[2][0] in ("optimizer-error", "compile-error", "compile-panic"): continue
                if vlib.sexp_str(o[2]) != basestr and sc["parent"]["id"] not in found:
                    found.add(sc["parent"]["id"])
                    fails.append((sc, "the optimizer rewrote an expression into one the validator fold_ok rejects, and OptimizerLimit %s changes the outcome: off %s, on %s" % (o[1], basestr[:200], vlib.sexp_str(o[2])[:200]), sc["src"]))
        ox_unexplained = [c for c in ox_suspects if c["id"] not in found]
    for c, why, s in fails[:10]:
        rep.violation({"property": "C01", "kind": "oracle", "why": why, "case": c["line"][:2000], "script": s})
    if not fails:
        for c in ox_unexplained[:5]:
            rep.violation({"property": "C01", "kind": "proof-obligation", "theorem": "C01_fold_validated",
                           "why": "the expression the optimizer returned is not related to its input by the validator fold_ok (constant sub-expressions replaced by the literal of their value); no parameter values were found on which the programs differ",
                           "case": c["line"][:2000], "script": c["src"], "impl": c["impl"][:1500]}, found=False)
    if not fails:
        for c in dis[:10]:
            rep.violation({"property": "C01", "kind": "correspondence", "why": "folding table model (Comp/Fold.v) and implementation disagree",
                           "case": c["line"], "impl": c["impl"], "model": c["model"]}, found=False)
    folded = sum(1 for c in cases if c["impl"] and c["impl"].startswith("(fold"))
    rep.coverage.update({
        "evaluations": len(cases) + len(pcases) * (len(LIMITS) + 1), "distinct_nontrivial": folded + compared,
        "rule": "folding tables called through the hook over literal pool x literal pool (same-kind pairs exhaustively, mixed pairs sampled) x 15 binary operators, 4 unary operators and isLiteralFalsy, each folded result re-computed by the VM operator; programs crossing every binding form that can shadow a builtin (:=, var, const, param, global, function parameter, variadic parameter, for-in key / value, catch identifier, nested function scope, destructuring, block) with builtin calls on constant operands, constant expressions and literal conditions, every literal of the pool (and constant expressions folding to it) as the condition of if / else, ?:, !, && / ||, and for, compiled with the optimizer off and with OptimizerLimit in %s and run with equal arguments; generated expressions over literals of every kind, parameters, every operator, == / !=, && / || and ?: parsed and optimized by the real optimizer (OptimizerLimit 1..100), the trees before and after checked by the extracted validator fold_ok, refusals by const_error; non-trivial = a fold happened / outcomes compared" % LIMITS,
        "samples": [cases[0]["line"], progs[0], progs[1]],
        "table_cases": len(cases), "table_folds": folded, "programs": len(pcases), "program_budget_runs_compared": compared,
        "optimizer_refusals": refused, "expression_trees_validated": len(ox_cases), "validator": ox_stats, "validator_rejections": len(ox_suspects), "disagreements": len(dis), "oracle_failures": len(fails)})

def replay(payload, br):
    print(payload.get("why")); print(payload.get("script") or "")
    line = payload.get("case", "")
    if line.startswith("(case"):
        impl, _ = vlib.run_impl([line]); print("impl:", impl)
    return 1
