"""C05: Compile is total: bytecode or an error for any input, never a panic."""
import vlib, proggen, os
from vlib import mk_case, hexs

TRUSTED = ["translator /verif/gen (opcode table, builtin count)", "harness recover() around ugo.Compile / Eval.Run; wall-clock limit and memory limit of the child process for termination"]
ASSUMPTIONS = ["scanner and parser are not modelled: totality over arbitrary byte strings is observed (panic / hang / memory) on the implementation, not proved",
               "the compiler is not modelled: well-formedness of its output is validated on every Bytecode it returns"]

MODS = ["x := 1\nreturn {f: func(a) { return a + x }}\n", "m1 := import(\"m1\")\nreturn m1.f(2)\n"]
CYC = ["return import(\"m2\")\n", "return import(\"m1\")\n"]

def boundary_scripts():
    S = []
    for n in (255, 256, 257):
        S.append(("locals-%d" % n, "\n".join("v%d := %d" % (i, i) for i in range(n)) + "\nreturn v0\n"))
        S.append(("fn-locals-%d" % n, "f := func() {\n" + "\n".join("v%d := %d" % (i, i) for i in range(n)) + "\nreturn v1\n}\nreturn f()\n"))
        S.append(("params-%d" % n, "f := func(" + ", ".join("p%d" % i for i in range(n)) + ") { return p0 }\nreturn 1\n"))
        S.append(("destructure-%d" % n, ", ".join("d%d" % i for i in range(n)) + " := [1, 2]\nreturn d0\n"))
        S.append(("free-%d" % n, "\n".join("v%d := %d" % (i, i) for i in range(min(n, 250))) + "\nf := func() { return " + " + ".join("v%d" % i for i in range(min(n, 250))) + " }\nreturn f()\n"))
    for n in (254, 255, 256, 257):
        vs = "\n".join("v%d := %d" % (i, i) for i in range(n))
        S.append(("frees-%d" % n, vs + "\nreturn func() { return " + " + ".join("v%d" % i for i in range(n)) + " }\n"))
        S.append(("frees-nested-%d" % n, "return func() {\n" + vs + "\nreturn func() { return func() { return " + " + ".join("v%d" % i for i in range(n)) + " } }\n}\n"))
        S.append(("callargs-%d" % n, "f := func(...a) { return len(a) }\nreturn f(" + ", ".join("1" for _ in range(n)) + ")\n"))
        S.append(("selectors-%d" % n, "m := {}\nreturn m" + "".join(".a" for _ in range(n)) + "\n"))
    for n in (65535, 65536, 65537):
        S.append(("array-%d" % n, "return len([" + ",".join("1" for _ in range(n)) + "])\n"))
        S.append(("constants-%d" % n, "return [" + ",".join(str(i) for i in range(n)) + "][0]\n"))
        S.append(("map-%d" % n, "return {" + ",".join("k%d:1" % i for i in range(n // 2 + (n % 2))) + "}\n"))
    for d in (100, 2000):
        S.append(("parens-%d" % d, "return " + "(" * d + "1" + ")" * d + "\n"))
        S.append(("blocks-%d" % d, "if true {" * d + "x := 1" + "}" * d + "\n"))
        S.append(("unary-%d" % d, "return " + "-" * d + "1\n"))
        S.append(("funcs-%d" % min(d, 200), "return " + "func() { return " * min(d, 200) + "1" + " }()" * min(d, 200) + "\n"))
    # nesting a million deep: an error, not a stack the process cannot grow (a fatal error no caller can recover from)
    d = 1000000
    S += [("parens-deep", "return " + "(" * d + "1" + ")" * d + "\n"), ("blocks-deep", "if true {" * d + "x := 1" + "}" * d + "\n"),
          ("arrays-deep", "return " + "[" * d + "]" * d + "\n"), ("maps-deep", "return " + "{a:" * d + "1" + "}" * d + "\n"),
          ("unary-deep", "return " + "- " * d + "1\n"), ("funcs-deep", "return " + "func() { return " * (d // 4) + "1" + " }" * (d // 4) + "\n"),
          ("calls-deep", "f := func(x) { return x }\nreturn " + "f(" * d + "1" + ")" * d + "\n"), ("index-deep", "a := [0]\nreturn " + "a[" * d + "0" + "]" * d + "\n"),
          ("cond-deep", "return " + "true ? 1 : " * d + "2\n"),
          # chains that the parser builds in a loop: the tree is as deep as the chain is long
          ("operator-chain", "global a\nx := a" + "+a" * d + "\n"), ("call-chain", "global a\na" + "()" * d + "\n"),
          ("selector-chain", "global a\nreturn a" + ".b" * d + "\n"), ("index-chain", "global a\nreturn a" + "[0]" * d + "\n"), ("logical-chain", "global a\nreturn a" + " && a || a" * (d // 2) + "\n"), ("parens-open", "return " + "(" * d + "\n"), ("braces-open", "{" * d + "\n")]
    # scripts over the symbol table left by the setup script of the "reuse" mode (local zz, global gg, function yy)
    S += [("reuse-global", "return gg\n"), ("reuse-global-fn", "f := func() { return gg }\nreturn f()\n"), ("reuse-global-set", "gg = 3\nreturn [gg, \"s\"]\n"),
          ("reuse-local", "return zz\n"), ("reuse-fn", "return yy()\n"), ("reuse-global-decl", "global gg\nreturn gg\n")]
    S += [("import-m1", "return import(\"m1\")\n"), ("import-time-m1", "t := import(\"time\")\nm := import(\"m1\")\nreturn [t, m]\n"),
          ("import-in-fn", "f := func() { return import(\"m1\") }\nreturn f()\n")]
    # a name already bound in some way, bound again by every form that defines names
    for kind, decl, nm in [("global", "global g1", "g1"), ("globals4", "global (a1, b1, c1, g1)", "g1"), ("param", "param g1", "g1"), ("local", "g1 := 0", "g1"),
                           ("const", "const g1 = 1", "g1"), ("fn", "g1 := func() { return 0 }", "g1"), ("builtin", "", "len"), ("captured", "g1 := 0\nh1 := func() { return g1 }", "g1")]:
        for j, use in enumerate(["%s, y1 := [1, 2]\nreturn [%s, y1]", "y1, %s := [1, 2]\nreturn [%s, y1]", "for %s, v1 in [1] { return %s }\nreturn 0",
                                 "try { throw 1 } catch %s { return %s }\nreturn 0", "f1 := func(%s) { return %s }\nreturn f1(2)",
                                 "f1 := func() { %s, y1 := [1, 2]; return [%s, y1] }\nreturn f1()", "if true { %s, y1 := [1, 2]; return [%s, y1] }\nreturn 0"]):
            S.append(("redef-%s-%d" % (kind, j), decl + "\n" + use % (nm, nm) + "\n"))
    # every list of names or expressions with 0..5 elements
    for n in range(0, 6):
        ids = ", ".join("k%d" % i for i in range(n))
        S.append(("forin-%d" % n, "for %s in [1, 2] { }\nreturn 1\n" % ids))
        S.append(("forin-fn-%d" % n, "f := func() { for %s in {a: 1} { return 2 } }\nreturn f()\n" % ids))
        S.append(("define-%d" % n, "%s := [1, 2, 3]\nreturn 1\n" % ids))
        S.append(("assign-%d" % n, "var (k0, k1, k2, k3, k4)\n%s = [1, 2, 3]\nreturn 1\n" % ids))
        S.append(("var-%d" % n, "var (%s)\nreturn 1\n" % ids))
        S.append(("global-%d" % n, "global (%s)\nreturn 1\n" % ids))
        S.append(("catch-%d" % n, "try { throw 1 } catch %s { return 2 }\nreturn 1\n" % ids))
        S.append(("return-%d" % n, "return %s\n" % ids))
        S.append(("import-%d" % n, "return import(%s)\n" % ", ".join('"m1"' for _ in range(n))))
    # conditions the optimizer decides, with branches it cannot fold (the rewrite of the condition must not count as progress for ever)
    S += [("cond-literal", "a := 1\nb := 2\nx := true ? a : b\nreturn x\n"), ("cond-folded", "f := func() { return 1 }\nreturn (1 == 1) ? f() : 0\n"),
          ("if-literal", "a := 1\nif 0 { a = 2 } else if \"s\" { a = 3 }\nreturn a\n"), ("cond-nested", "p := 1\nreturn 1 ? (0 ? p : (\"\" ? p : p + 1)) : p\n")]
    S += [("rem0", "return 1 % 0\n"), ("rem00", "return 0%0\n"), ("shlneg", "return 1 << -1\n"), ("const-paren-brace", "const(}"),
          ("var-paren-brace", "var(}"), ("param-paren-brace", "param(}"), ("const-x", "const(x=1}"), ("global-paren", "global(}"),
          ("cyclic", "return import(\"c1\")\n"), ("self-import", "return import(\"s1\")\n"), ("unknown-import", "return import(\"nope\")\n")]
    return S

def scope_state_scripts(names=("len", "string", "error")):
    """a builtin name bound by every binding form at every level (main script, enclosing function, the function
    literal itself: parameter or local) x a literal constant declared at every level or not at all x the
    expression forms the optimizer treats differently, inside the innermost function literal"""
    S = []
    local_forms = [("def", "%s := 1"), ("var", "var %s"), ("const", "const %s = 1"), ("destr", "%s, q9 := [1, 2]"),
                   ("forin", "for %s in [1] { }"), ("catch", "try { throw 1 } catch %s { }")]
    top_forms = local_forms + [("param", "param %s"), ("global", "global %s")]
    exprs = ["x + c", "-x", "!x", "%(n)s + \"x\"", "len(\"ab\") + x", "x ? c : 1", "c", "string(7) + (x ? \"a\" : \"b\")"]
    for nm in names:
        sites = [("top-" + k, f % nm, "", "", "", "") for k, f in top_forms] + [("gparam", "", nm, "", "", "")] + \
                [("glocal-" + k, "", "", f % nm, "", "") for k, f in local_forms] + [("fparam", "", "", "", nm, "")] + \
                [("flocal-" + k, "", "", "", "", f % nm) for k, f in local_forms]
        for site, btop, gpar, bg, fpar, bf in sites:
            for cl in (None, 0, 1, 2):
                cd = ["const c = 2" if cl == i else "" for i in range(3)]
                if cl is None: cd0 = "c := 2"
                else: cd0 = cd[0]
                for j, e in enumerate(exprs):
                    e = e % {"n": nm}
                    src = "\n".join(x for x in [btop if btop.startswith("param") else "", cd0, "" if btop.startswith("param") else btop,
                                                "g := func(y%s) {" % (", " + gpar if gpar else ""), cd[1], bg,
                                                "f := func(x%s) {" % (", " + fpar if fpar else ""), cd[2], bf,
                                                "return " + e, "}", "return f(1, 2)", "}", "return g(1, 2)"] if x) + "\n"
                    S.append(("scope-%s-%s-c%s-e%d" % (nm, site, cl, j), src))
    return S

def mutate_src(rng, src):
    b = bytearray(src.encode())
    for _ in range(rng.randrange(1, 4)):
        k = rng.randrange(6)
        if not b: b = bytearray(b"x"); continue
        i = rng.randrange(len(b))
        if k == 0: del b[i]
        elif k == 1: b.insert(i, rng.choice(b"(){}[],;:=+-*/%&|^<>!.\"'`\n\\ \t0aZ_\x00\xff"))
        elif k == 2: b[i] = rng.randrange(256)
        elif k == 5:
            # one more element in front of an identifier: lists one longer than the grammar allows
            starts = [p for p in range(1, len(b)) if chr(b[p]).isalpha() and chr(b[p - 1]) in " (\n"]
            if starts:
                p = rng.choice(starts); b[p:p] = b"q9, "
        elif k == 3:
            j = rng.randrange(len(b)); i, j = min(i, j), max(i, j); del b[i:j]
        else:
            j = rng.randrange(len(b)); b[i:i] = b[j:j + rng.randrange(1, 12)]
    return bytes(b)

def run(rep, br, proofs, rng, tier):
    cases = []
    flags_all = ["noopt", "opt", "lim1", "lim3", "lim1099511627776"]      # optimizer budgets: off, default, 1, 3, 2^40
    modes = ["batch", "eval", "reuse", "evalfail", "evalfail2"]
    mods = [hexs(m.encode()) for m in MODS]
    # boundary enumeration x configurations
    for name, src in boundary_scripts():
        for fl in flags_all if len(src) < 200000 else ["noopt", "opt"]:
            for mode in modes if len(src) < 200000 else ["batch"]:
                tr = "1" if (len(src) < 5000 and rng.random() < .3) else "0"
                ms = mods
                if name in ("cyclic",): ms = None
                c = mk_case("b.%s.%s.%s" % (name, fl, mode), "compile", fl, tr, mode, hexs(src.encode()), *mods)
                c["src"] = src if len(src) < 2000 else name + " (%d bytes: %s ... %s)" % (len(src), src[:40], src[-20:].strip()); c["name"] = name
                cases.append(c)
    # a builtin name bound at every level x a literal constant at every level x expression forms
    for name, src in scope_state_scripts(("len", "string") if tier == "quick" else ("len", "string", "error", "append")):
        for fl in (["noopt", "opt"] if tier == "quick" else flags_all):
            for mode in (["batch"] if tier == "quick" else ["batch", "eval"]):
                c = mk_case("s.%s.%s.%s" % (name, fl, mode), "compile", fl, "0", mode, hexs(src.encode()), *mods)
                c["src"] = src; c["name"] = name
                cases.append(c)
    # generated valid and near-valid programs
    n = 700 if tier == "quick" else 15000
    g = proggen.Gen(rng, max_depth=3, modules=("m1", "m2", "time"))
    for i in range(n):
        src = g.program()
        b = src.encode() if rng.random() < .5 else mutate_src(rng, src)
        c = mk_case("g%d" % i, "compile", rng.choice(flags_all), "1" if rng.random() < .1 else "0", rng.choice(modes), hexs(b), *mods)
        c["src"] = b.decode("latin1"); cases.append(c)
    # arbitrary bytes and token soup
    toks = ["const", "var", "param", "global", "func", "return", "if", "else", "for", "in", "try", "catch", "finally", "throw", "import",
            "(", ")", "{", "}", "[", "]", ",", ";", ":", ":=", "=", "...", "?", "+", "-", "*", "/", "%", "<<", ">>", "&&", "||", "!", "==",
            "x", "1", "1.5", "\"s\"", "'c'", "`r`", "true", "undefined", "\n", " ", "0x", "1e", "'", "\"", "/*", "//", "\\", "\x00", "\xff"]
    m = 1500 if tier == "quick" else 40000
    for i in range(m):
        if i % 2 == 0:
            b = "".join(rng.choice(toks) + rng.choice(["", " "]) for _ in range(rng.randrange(1, 14))).encode("latin1")
        else:
            b = bytes(rng.randrange(256) for _ in range(rng.randrange(0, 24)))
        c = mk_case("r%d" % i, "compile", rng.choice(["noopt", "opt"]), "0", rng.choice(["batch", "eval"]), hexs(b))
        c["src"] = b.decode("latin1"); cases.append(c)
    # cyclic module graphs need their own module maps: lengths 1..4
    for L in (1, 2, 3, 4):
        modsrc = ["return import(\"m%d\")\n" % ((k % L) + 1) for k in range(1, L + 1)]
        c = mk_case("cyc%d" % L, "compile", "opt", "0", "batch", hexs(b"return import(\"m1\")\n"), *[hexs(x.encode()) for x in modsrc])
        c["src"] = "cycle of length %d" % L; c["expect"] = "err"; cases.append(c)
    # every short byte string over the lexically significant bytes (comment, string, raw string and char
    # delimiters, escapes, CR / LF, a letter, a digit, a dot): unterminated and oddly terminated tokens
    alpha = b"/*\r\n`\"'\\a0. "
    lexcases = []
    if tier == "quick":
        for ch in alpha: lexcases.append(mk_case("lex.%02x" % ch, "lexenum", hexs(alpha), "4", hexs(bytes([ch]))))
    else:
        for ch in alpha:
            for ch2 in alpha: lexcases.append(mk_case("lex.%02x%02x" % (ch, ch2), "lexenum", hexs(alpha), "4", hexs(bytes([ch, ch2]))))
    env = dict(os.environ)
    vlib.log("C05: %d cases" % len(cases))
    impl, culprits = vlib.run_impl_robust(cases, batch=100, timeout=240 if tier == "quick" else 600)
    vlib.log("C05: implementation done, %d culprits" % len(culprits))
    fails, classes = [], {}
    wfcases = []
    leximpl, lexculprits = vlib.run_impl_robust(lexcases, batch=1, timeout=600)
    lexcount = 0
    for c, what in lexculprits:
        fails.append((c, "Compile did not return on some short string with prefix %s (%s)" % (c["args"][2], what)))
    for c in lexcases:
        out = leximpl.get(c["id"])
        if out is None: continue
        sx = vlib.parse_sexp(out)
        lexcount += int(sx[1])
        for inp, msg in sx[3:]:
            k = mk_case(c["id"] + ".p", "compile", "noopt", "0", "batch", inp); k["src"] = repr(vlib.unhex(inp))
            fails.append((k, "Compile panicked on the %d-byte input %r: %s" % (len(vlib.unhex(inp)), vlib.unhex(inp), msg[:200])))
    for c, what in culprits:
        fails.append((c, "Compile did not return (%s): hang, unbounded allocation or a fatal crash" % what))
    for c in cases:
        out = impl.get(c["id"])
        if out is None: continue
        k = out.split(" ")[0].strip("()") + (":" + out.split(" ")[1].strip("()") if out.startswith("(err") else "")
        classes[k] = classes.get(k, 0) + 1
        if out.startswith("(panic"):
            fails.append((c, "Compile panicked: " + out[:300])); continue
        if c.get("expect") == "err" and not out.startswith("(err"):
            fails.append((c, "import cycle not reported at compile time: " + out[:100])); continue
        if out.startswith("(ok"):
            sx = vlib.parse_sexp(out)
            for j, fn in enumerate(sx[1][1:]):
                w = mk_case("%s.w%d" % (c["id"], j), "wffn", *fn); w["parent"] = c
                wfcases.append(w)
    # limit boundaries must be errors beyond the limit and successes at it
    for c in cases:
        nm = c.get("name", "")
        out = impl.get(c["id"], "")
        if nm in ("locals-257", "fn-locals-257", "callargs-256", "callargs-257", "array-65536", "array-65537", "constants-65537", "frees-256", "frees-257", "frees-nested-256", "frees-nested-257") and out.startswith("(ok"):
            fails.append((c, "a script beyond a capacity limit compiled: %s" % nm))
        batch_noopt = c["args"][0] == "noopt" and c["args"][2] == "batch"
        if batch_noopt and nm in ("locals-255", "locals-256", "callargs-254", "callargs-255", "array-65535", "frees-254", "frees-255", "frees-nested-255") and not out.startswith("(ok"):
            fails.append((c, "a script at or below a capacity limit was rejected: %s -> %s" % (nm, out[:100])))
    vlib.log("C05: validating %d functions" % len(wfcases))
    model, _ = vlib.run_model([w["line"] for w in wfcases], timeout=600)
    vlib.log("C05: validator done")
    bad_wf = [w for w in wfcases if model.get(w["id"]) != "(b 1)"]
    for w in bad_wf[:5]:
        fails.append((w["parent"], "returned Bytecode is not well formed (validator wf_function rejects function %s): %s" % (w["id"], str(model.get(w["id"])))))
    for c, why in fails[:10]:
        rep.violation({"property": "C05", "kind": "oracle", "why": why, "case": c["line"][:1500], "script": str(c.get("src"))[:3000]})
    okc = sum(v for k, v in classes.items() if k == "ok")
    rep.coverage.update({
        "evaluations": len(cases) + lexcount, "short_strings_compiled": lexcount, "distinct_nontrivial": len(set(c["line"].split(" ", 3)[3] for c in cases)),
        "rule": "boundary scripts at every operand-width limit (255/256/257 locals, parameters, destructured names, 254..257 call arguments and selectors, 65535..65537 literal elements / constants, deep nesting incl. one million levels of every bracketing construct and chains of a million operators, calls, selectors and indexes, constant errors, unterminated declaration groups, import cycles of length 1-4, unknown imports, every list of names or expressions (for-in, :=, =, var, global, catch, return, import) with 0..5 elements, a name bound again by every binding form) x optimizer off/on/budget 1/3/2^40 x trace x fresh / re-used symbol table / Eval fragment; generated valid and mutated near-valid programs; token soup and arbitrary byte strings; every byte string up to length %d over the 13 lexically significant bytes (/ * CR LF ` \" ' \\ a 0 . space); every successful Bytecode is checked function by function by the Coq validator wf_function; distinct = distinct (configuration, source)" % (5 if tier == "quick" else 6),
        "samples": [cases[0]["line"][:200], cases[len(cases)//2]["line"][:300], cases[-1]["line"][:200]],
        "outcome_classes": classes, "functions_validated": len(wfcases), "functions_rejected_by_validator": len(bad_wf),
        "hangs_or_crashes": len(culprits), "oracle_failures": len(fails)})

def replay(payload, br):
    print(payload.get("why")); print(payload.get("script") or "")
    line = payload.get("case", "")
    if line.startswith("(case") and len(line) < 1500:
        impl, _ = vlib.run_impl([line], timeout=60); print("impl:", str(impl)[:500])
    return 1
