"""C09: Abort and context cancellation are never lost."""
import vlib
from vlib import mk_case, hexs

TRUSTED = ["hooks of build tag verif in vm.go (verifSync at run.enter, run.reset, abort.mid, abort.exit, invoke.acquire, invoke.acquired, invoke.checked) and the harness controller c09.go which stops the running goroutine at a point and lets the aborting goroutine act there",
           "extracted protocol model (Abort/Abort.v) and schedule driver (Abort/AbortDrive.v)"]
ASSUMPTIONS = ["the protocol model has one level of child VM (a root VM and the child of one Invoker, invoked any number of times); nested callbacks are exercised on the implementation only",
               "Eval.Run and cmd/ugo repeat Abort every millisecond until Run returns: that some repetition starts after Run's reset is a timing fact, exercised by forced schedules, not proved",
               "a run counts as lost when Run has not returned 1.5 s after Abort (or cancellation) completed; the scripts loop forever, so a late return cannot be mistaken for a lost abort",
               "Abort called before Run has reset the flag (Run not yet entered) is outside the property for VM.Run and is not scheduled, except through Eval.Run where the property covers it"]

MODELLED = ["root", "child-loop", "child-ret"]
IMPL_ONLY = ["nested-loop", "nopool-loop", "nopool-ret"]
EVAL = ["eval-root", "eval-child"]

def parse_outcome(r):
    sx = vlib.parse_sexp(r)
    if sx[0] != "outcome": return None, None, []
    if len(sx) == 4: return sx[1], int(sx[2]), sx[3][1:]
    return sx[1], None, sx[2][1:]

def schedules(trace, allow_enter=False):
    """all placements (p1, occ, p2) of Abort's two actions against the points of a run"""
    out = []
    for i, lab in enumerate(trace):
        if lab == "run.enter.root" and not allow_enter: continue
        occ = trace[:i+1].count(lab)
        out.append((lab, occ, "-"))
        seen = set()
        for j in range(i + 1, len(trace)):
            if trace[j] in seen or trace[j] == lab:
                seen.add(trace[j]); continue
            seen.add(trace[j])
            out.append((lab, occ, trace[j]))
    return out

def run(rep, br, proofs, rng, tier):
    fails, dis = [], []
    stats = {"schedules": 0, "aborted": 0, "orig_model_loses": 0, "eval_schedules": 0, "nested_schedules": 0, "free_running": 0, "max_ms": 0}
    # 1. the points of each scenario: implementation and model must report the same sequence
    dry = [mk_case("dry." + s, "abort09", s, "none", "1", "-") for s in MODELLED + IMPL_ONLY + EVAL]
    impl, err = vlib.run_impl([c["line"] for c in dry], timeout=300)
    mdry = [mk_case("dry." + s, "abort09", "fixed", s, "none", "1", "-") for s in MODELLED]
    model, _ = vlib.run_model([c["line"] for c in mdry], timeout=120)
    traces = {}
    for c in dry:
        r = impl.get(c["id"])
        if r is None:
            fails.append((c["line"], "no result from the harness: %s" % err[-300:])); continue
        o, ms, tr = parse_outcome(r)
        traces[c["args"][0]] = tr
        if c["args"][0] in MODELLED:
            mo, _, mtr = parse_outcome(model.get(c["id"], "(outcome none (trace))"))
            if mtr != tr:
                dis.append((c["line"], "protocol points differ: implementation %s, model %s" % (tr, mtr)))
    # 2. every placement of Abort
    cases = []
    for s in MODELLED + IMPL_ONLY:
        for k, (p1, occ, p2) in enumerate(schedules(traces.get(s, []))):
            cases.append(mk_case("%s.%d" % (s, k), "abort09", s, p1, str(occ), p2))
    for s in EVAL:
        for k, (p1, occ, p2) in enumerate(schedules(traces.get(s, []), allow_enter=True)):
            if p2 == "-": cases.append(mk_case("%s.%d" % (s, k), "abort09", s, p1, str(occ), p2))
    nfree = 60 if tier == "quick" else 3000
    for k in range(nfree):
        s = rng.choice(["root", "child-loop", "child-ret", "nested-loop", "nopool-loop", "nopool-ret"])
        cases.append(mk_case("free.%d" % k, "abort09", s, "delay", str(rng.choice([0, 1, 2, 5, 10, 20, 50, 100, 200, 500, rng.randrange(1000)])), "-"))
    # a new harness process for every 25 schedules: a run whose abort is lost goes on spinning in its goroutine, the
    # next schedules must not compete with such leftovers for the processors
    impl, err = {}, ""
    for b in range(0, len(cases), 25):
        i1, e1 = vlib.run_impl([c["line"] for c in cases[b:b + 25]], timeout=600)
        impl.update(i1); err += e1 or ""
    mcases = [mk_case(c["id"], "abort09", "fixed", *c["args"]) for c in cases if c["args"][0] in MODELLED and c["args"][1] != "delay"]
    ocases = [mk_case("o." + c["id"], "abort09", "orig", *c["args"]) for c in cases if c["args"][0] in MODELLED and c["args"][1] != "delay"]
    model, _ = vlib.run_model([c["line"] for c in mcases + ocases], timeout=300)
    for c in cases:
        r = impl.get(c["id"])
        if r is None:
            fails.append((c["line"], "no result from the harness: %s" % err[-300:])); continue
        o, ms, tr = parse_outcome(r)
        scen = c["args"][0]
        if o == "unreached":
            dis.append((c["line"], "the scheduled point was not reached by the implementation")); continue
        stats["schedules"] += 1
        if scen in EVAL: stats["eval_schedules"] += 1
        if scen in IMPL_ONLY: stats["nested_schedules"] += 1
        if c["args"][1] == "delay": stats["free_running"] += 1
        stats["max_ms"] = max(stats["max_ms"], ms or 0)
        if o == "aborted": stats["aborted"] += 1
        elif o.startswith("rerun:"):
            fails.append((c["line"], "after Abort at %s (scenario %s) made Run return aborted, %s" % (c["args"][1] + "#" + c["args"][2], scen, o[6:].replace("_", " "))))
        else:
            what = "Abort" if scen not in EVAL else "context cancellation"
            fails.append((c["line"], "%s at %s%s (scenario %s): Run %s; points passed: %s" % (
                what, c["args"][1] + "#" + c["args"][2], "" if c["args"][3] == "-" else " completed at " + c["args"][3], scen,
                "did not return within 1.5 s: the abort is lost" if o == "hang" else "ended with " + o, " ".join(tr[-6:]))))
        m = model.get(c["id"])
        if m is not None:
            mo, _, mtr = parse_outcome(m)
            if mo != o and o in ("aborted", "hang"):
                dis.append((c["line"], "protocol model (repaired protocol) answers %s, implementation %s" % (mo, o)))
        mo = model.get("o." + c["id"])
        if mo is not None and parse_outcome(mo)[0] == "hang": stats["orig_model_loses"] += 1
    # Eval sessions in which the context of every second fragment is already cancelled when Run is called: that fragment
    # ends promptly with an error, and the fragments after it run normally on what the earlier ones left
    SESS = [(["a := 41", "b := 2", "return a", "c := 1", "return a + 1"], [None, "err", "(ok (i 41))", "err", "(ok (i 42))"]),
            (["f := func(x) { return x * 2 }\nn := 10", "n = 11\nfor { }", "return [f(n), n]", "for { n++ }", "return n"], [None, "err", "(ok (a (i 20) (i 10)))", "err", "(ok (i 10))"]),
            (["global cancel\nk := 5", "k = 6", "k = 7\ncancel()\nfor { }", "k = 8", "return k"], [None, "err", "err", "err", "(ok (i 7))"])]
    ecases = [mk_case("ec%d" % i, "evalcancel", *[hexs(f.encode()) for f in frs]) for i, (frs, _) in enumerate(SESS)]
    eimpl, _ = vlib.run_impl([c["line"] for c in ecases], timeout=300)
    for c, (frs, want) in zip(ecases, SESS):
        out = eimpl.get(c["id"])
        if not out or not out.startswith("(evalcancel"): fails.append((c["line"], "Eval session with cancelled contexts: %s" % out)); continue
        sx = vlib.parse_sexp(out)[1:]
        for j, w in enumerate(want):
            if j >= len(sx): fails.append((c["line"], "Eval session with cancelled contexts stopped at fragment %d: %s" % (j, out[:300]))); break
            got, ms = vlib.sexp_str(sx[j][0]), int(sx[j][1])
            if w is None: continue
            if w == "err":
                if not got.startswith("(err") or ms > 1500:
                    fails.append((c["line"], "fragment %d (%r) run under a cancelled context: expected a prompt error, got %s after %d ms" % (j, frs[j], got[:200], ms))); break
            elif got != w:
                fails.append((c["line"], "fragment %d (%r) after a fragment whose context was cancelled: expected %s, got %s" % (j, frs[j], w, got[:300]))); break
        stats["eval_cancel_sessions"] = stats.get("eval_cancel_sessions", 0) + 1
    for line, why in fails[:10]:
        rep.violation({"property": "C09", "kind": "oracle", "why": why, "case": line})
    if not fails:
        for line, why in dis[:10]:
            rep.violation({"property": "C09", "kind": "correspondence", "why": why, "case": line}, found=False)
    rep.coverage.update({
        "evaluations": len(cases) + len(mcases) + len(ocases), "distinct_nontrivial": stats["aborted"],
        "rule": "every placement of Abort's two actions (flag store, abort of registered children) against the protocol points of a run (Run entry/reset, script running, Invoker acquire / registered / aborted-check, child Run entry/reset, child running, second invocation on the same child, after the callback) for scripts that loop forever in the root VM, in a pooled child VM (strings.Map), in a child VM kept by an Invoker without Acquire across three invocations, after a callback and in a nested child; context cancellation at every point of Eval.Run including before Run's reset; free-running aborts at random delays; Eval sessions in which every second fragment is given an already cancelled context (prompt error, later fragments run normally on the state of the earlier ones); each schedule forced through the verif hooks, Run must return aborted within 1.5 s, and afterwards a script with pooled callbacks must run normally on the aborted VM and on a new VM (three rounds); modelled schedules compared with the Coq protocol model; non-trivial = schedules on which Run returned aborted",
        "samples": [cases[0]["line"], cases[len(cases)//2]["line"], cases[-1]["line"]],
        "stats": stats, "traces": traces, "disagreements": len(dis), "oracle_failures": len(fails)})

def replay(payload, br):
    print(payload.get("why"))
    line = payload.get("case", "")
    if line.startswith("(case"):
        impl, err = vlib.run_impl([line], timeout=120)
        print(impl, err[-1000:])
    return 0
