"""C16: runtime errors report the true source locations."""
import vlib
from vlib import mk_case, hexs

TRUSTED = ["extracted model of searchInts / unpack (Pos/LineTable.v)", "the generator's own bookkeeping of the line of every call and failing statement (independent of the implementation)"]
ASSUMPTIONS = ["scanner, compiler source map and throw's trace construction are decided by generated layouts, not by theorems"]

PLAIN = [("x / 0", "ZeroDivisionError"), ("[1][5]", "IndexOutOfBoundsError"), ("int(\"zz\")", None), ("x(1)", "NotCallableError"), ("len()", "WrongNumberOfArgumentsError"),
         # the failing operator has an operand the optimizer folds to a new literal (integers, strings, builtin calls, unary)
         ("10 * 2 / (x - x)", "ZeroDivisionError"), ("(1 + 2) % (x - x)", "ZeroDivisionError"), ("x / (3 - 3)", "ZeroDivisionError"), ("(\"a\" + \"b\") - x", "TypeError"),
         ("len(\"ab\") / (x - x)", "ZeroDivisionError"), ("-(2) % (x - x)", "ZeroDivisionError"), ("[1, 2][1 + 4]", "IndexOutOfBoundsError"), ("(1 << 3 | 1) / (x - x)", "ZeroDivisionError"),
         ("(2.5 * 2.0) - \"s\" + x", "TypeError"),
         # Go functions of a module that report failure as a plain Go error, a uGO error, or by panicking inside the call
         ("T.ParseDuration(\"zz\")", None), ("T.Parse(\"2006\", \"x\")", None), ("T.LoadLocation(\"No/Such\")", None), ("S.Map(x, \"a\")", None)]
FAILS = PLAIN + [
         # a literal constant as operand: the optimizer substitutes it
         ("c9 / (x - x)", "ZeroDivisionError"), ("c9 % (x - x)", "ZeroDivisionError"), ("cs9 - x", "TypeError"), ("(x - x) / c0", "ZeroDivisionError")]
CONSTS = ["const c9 = 10", "const (cs9 = \"s\"; c0 = 0)"]

def build(rng, depth, k, in_module):
    """returns (main src, module srcs, expected [(file, line)] outermost first, error name)"""
    expected = []
    # half of the layouts start with constant declarations (and may fail in an operator with a constant operand);
    # the others keep their first statement at byte 0 of the file
    use_consts = rng.random() < .5
    failexpr, ename = rng.choice(FAILS if use_consts else PLAIN)
    consts = list(CONSTS) if use_consts else []
    kind = rng.randrange(3)
    rec = rng.choice([0, 0, 1, 2, 3]) if (depth >= 2 and not in_module) else 0
    use_cb = rng.random() < .4 or "S." in failexpr
    if use_cb: consts = ["S := import(\"strings\")"] + consts
    if "T." in failexpr: consts = ["T := import(\"time\")"] + consts
    cb_lines = set()
    def filler(lines):
        for _ in range(rng.randrange(0, 3)):
            u = "u%d := %d" % (rng.randrange(1000), rng.randrange(9))
            pick = rng.randrange(9)
            if pick < 4: lines.append(["", "// comment", u, "   "][pick])
            elif pick == 4: lines.append(u + " /* trailing note */")
            elif pick == 5: lines.append(u + " // tail")
            elif pick == 6: lines.append("/* leading */ " + u)
            elif pick == 7: lines.append(u + " /* a comment"); lines.append("   over two lines */")
            else: lines.append("/* block"); lines.append(" comment */")
    def body_lines(lines, fname_prefix, depth, file):
        # define f_depth .. f_1, each calling the next on its own line; the innermost fails
        fn_line = {}
        for d in range(depth, 0, -1):
            filler(lines)
            lines.append("%s%d := func(x) {" % (fname_prefix, d))
            filler(lines)
            if d == depth:
                if kind == 0: lines.append("  return %s" % failexpr)
                elif kind == 1: lines.append("  throw \"boom\"")
                else: lines.append("  y := %s" % failexpr)
                fn_line[d] = len(lines)
            elif d == 1 and rec > 0:
                # the outermost function first calls itself `rec` times through one call site
                lines[-1] = "var %s1" % fname_prefix
                lines.append("%s1 = func(x) {" % fname_prefix)
                lines.append("  if x > 0 {")
                lines.append("    r := %s1(x - 1)" % fname_prefix); fn_line["rec"] = len(lines)
                lines.append("    return r")
                lines.append("  }")
                lines.append("  r := %s%d(x)" % (fname_prefix, d + 1)); fn_line[d] = len(lines)
                lines.append("  return r")
            elif use_cb and rng.random() < .4:
                # the next function is called from a callback which a Go function (strings.Map) runs on a child VM: the
                # calling function and the callback are both active, both on this line
                lines.append("  r := S.Map(func(c) { return %s%d(x) }, \"a\")" % (fname_prefix, d + 1)); fn_line[d] = len(lines); cb_lines.add((file, len(lines)))
                lines.append("  return r")
            else:
                lines.append("  r := %s%d(x)" % (fname_prefix, d + 1)); fn_line[d] = len(lines)
                lines.append("  return r")
            lines.append("}")
        return fn_line
    mods = []
    if in_module and depth >= 1:
        ml = list(consts)
        fl = body_lines(ml, "g", depth, "m1")
        filler(ml)
        # half of the module layouts fail while the module body itself runs (the import expression is the pending call of
        # the importing function), the others in a function of the module called after the import
        at_import = rng.random() < .5
        if at_import:
            ml.append("boot := g1(1)"); boot_line = len(ml)
            filler(ml)
        ml.append("return {f: g1}")
        mods.append("\n".join(ml) + "\n")
        lines = [""] * k + list(consts)
        filler(lines)
        if at_import and rng.random() < .5:
            # the import is made by a function of the main script
            lines.append("load := func() {")
            filler(lines)
            lines.append("  m := import(\"m1\")"); imp_line = len(lines)
            lines.append("  return m")
            lines.append("}")
            filler(lines)
            lines.append("res := load()")
            expected.append(("(main)", len(lines))); expected.append(("(main)", imp_line))
        else:
            lines.append("m := import(\"m1\")")
            if at_import: expected.append(("(main)", len(lines)))
            filler(lines)
            lines.append("res := m.f(1)")
            if not at_import: expected.append(("(main)", len(lines)))
        if at_import: expected.append(("m1", boot_line))
        for d in range(1, depth + 1): expected.append(("m1", fl[d]))
        lines.append("return res")
    else:
        lines = [""] * k + list(consts)
        fl = body_lines(lines, "f", depth, "(main)") if depth >= 1 else {}
        filler(lines)
        if depth == 0:
            if kind == 1: lines.append("throw \"boom\"")
            else: lines.append("x := 1"); lines.append("z := %s" % failexpr)
            expected.append(("(main)", len(lines)))
        else:
            lines.append("res := f1(%d)" % rec)
            expected.append(("(main)", len(lines)))
            for _ in range(rec): expected.append(("(main)", fl["rec"]))
            for d in range(1, depth + 1): expected.append(("(main)", fl[d] + 0))
            lines.append("return res")
    # a line holding a callback contributes two active functions: the caller of strings.Map and the callback
    expected2 = []
    for f, l in expected:
        expected2.append((f, l))
        if (f, l) in cb_lines: expected2.append((f, l))
    return "\n".join(lines) + "\n", mods, expected2, ("error" if kind == 1 else ename)

def bad_table(m):
    # an AddLine history after which the implementation's own table is not strictly ascending from 0
    # is a concrete failing input: Position reports offsets of that file at the wrong line
    if not m.get("addlines") or not (m.get("expect") or "").startswith("(lines"): return False
    t = [int(x) for x in vlib.parse_sexp(m["expect"])[1:]]
    return not t or t[0] != 0 or any(a >= b for a, b in zip(t, t[1:]))

def run(rep, br, proofs, rng, tier):
    n = 250 if tier == "quick" else 5000
    cases = []
    for i in range(n):
        depth = rng.choice([0, 1, 2, 3, 5, 8])
        k = rng.choice([0, 0, 1, 3, 17])
        in_mod = rng.random() < .3 and depth >= 1
        main, mods, expected, ename = build(rng, depth, 0, in_mod)
        for opt in ("opt", "noopt"):
            for enc in ("0", "1"):
                for kk in (0, k):
                    src = "\n" * kk + main
                    c = mk_case("t%d.%s.%s.%d" % (i, opt, enc, kk), "trace", opt, enc, hexs(src.encode()), *[hexs(m.encode()) for m in mods])
                    c["src"], c["mods"] = src, mods
                    c["expected"] = [(f, l + (kk if f == "(main)" else 0)) for f, l in expected]
                    c["ename"] = ename; c["grp"] = i; c["k"] = kk
                    cases.append(c)
    impl, _ = vlib.run_impl([c["line"] for c in cases], timeout=2400)
    fails, ok = [], 0
    mcases = []
    for c in cases:
        out = impl.get(c["id"]); c["impl"] = out
        if out is None: fails.append((c, "no output")); continue
        if out.startswith("(compile-error"):
            # a constant failing expression is refused by the optimizer at its own position: acceptable, not a trace
            continue
        if not out.startswith("(traced"): fails.append((c, "unexpected " + out[:200])); continue
        sx = vlib.parse_sexp(out)
        got = [(vlib.unhex(t[0]).decode(), int(t[1])) for t in sx[2][1:]]
        if any(t[4] != "1" for t in sx[2][1:]):
            fails.append((c, "a reported position lies outside the text of the file it names")); continue
        if got != c["expected"]:
            fails.append((c, "stack trace lines %s, expected %s" % (got, c["expected"]))); continue
        ok += 1
        # model tie: unpack on the real line tables
        for f in sx[3][1:]:
            lines = f[3]
            for smp in f[4][1:]:
                m = mk_case("%s.u%d" % (c["id"], len(mcases)), "unpack", lines, smp[0]); m["expect"] = "(%s %s)" % (smp[1], smp[2]); m["parent"] = c
                mcases.append(m)
    if tier == "quick": mcases = mcases[::7]
    # model tie: the nearest-lower lookup on the real source map of every compiled function
    seen_maps = set()
    for c in cases:
        out = impl.get(c["id"]) or ""
        if not out.startswith("(traced"): continue
        sx = vlib.parse_sexp(out)
        if len(sx) < 5: continue
        for sm in sx[4][1:]:
            key = str(sm)
            if key in seen_maps: continue
            seen_maps.add(key)
            if tier == "quick" and len(seen_maps) > 1500: break
            m = mk_case("%s.s%d" % (c["id"], len(mcases)), "sourcepos", sm[0], ["ips"] + [q[0] for q in sm[1][1:]])
            m["expect"] = "(" + " ".join(q[1] for q in sm[1][1:]) + ")"; m["parent"] = c; m["sourcepos"] = True
            m["nqueries"] = len(sm[1]) - 1
            mcases.append(m)
    # model tie: histories of AddLine calls (own random stream: the layouts above keep theirs)
    import random as _random
    arng = _random.Random(160016)
    acases = []
    for i in range(300 if tier == "quick" else 20000):
        size = arng.choice([0, 1, 2, 5, 20, 100, 1000])
        offs, cur = [], 0
        for _ in range(arng.randrange(0, 12)):
            r = arng.random()
            if r < .6: cur += arng.randrange(1, max(2, size // 4 + 2))          # ascending, as the scanner calls it
            elif r < .75: pass                                                   # the same offset again
            elif r < .85: cur = arng.randrange(-3, size + 3)                     # anywhere, before the last entry too
            elif r < .95: cur = arng.choice([0, size - 1, size, size + 1, -1])   # the edges of the file
            else: cur = arng.choice([2**31, -2**31, 2**40])
            offs.append(str(cur))
        m = mk_case("a%d" % i, "addlines", str(size), ["offs"] + offs); m["addlines"] = True; m["parent"] = None
        acases.append(m)
    aimpl, _ = vlib.run_impl([m["line"] for m in acases], timeout=600)
    for m in acases:
        m["expect"] = aimpl.get(m["id"])
    mcases += acases
    # model tie: file lookup (SourceFileSet.File vs file_of) on the range edges of every file of the set
    seen_sets = set()
    for c in cases:
        out = impl.get(c["id"]) or ""
        if not out.startswith("(traced"): continue
        sx = vlib.parse_sexp(out)
        fs = ["files"] + [[f[1], f[2]] for f in sx[3][1:]]
        key = str(fs)
        if key in seen_sets: continue
        seen_sets.add(key)
        for f in sx[3][1:]:
            if len(f) < 6: continue
            for smp in f[5][1:]:
                m = mk_case("%s.f%d" % (c["id"], len(mcases)), "fileof", fs, smp[0]); m["expect"] = smp[1]; m["parent"] = c; m["fileof"] = True
                mcases.append(m)
    model, _ = vlib.run_model([m["line"] for m in mcases], timeout=1200)
    dis = [m for m in mcases if model.get(m["id"]) != m["expect"]]
    for c, why in fails[:10]:
        rep.violation({"property": "C16", "kind": "oracle", "why": why, "case": c["line"][:1500], "script": c["src"] + "".join("\n--- module ---\n" + m for m in c["mods"])})
    if not fails:
        for m in sorted(dis, key=lambda m: not bad_table(m))[:10]:
            rep.violation({"property": "C16", "kind": "correspondence", "why": "line table model (Pos/LineTable.v unpack / file_of) and SourceFileSet.Position / File disagree", "case": m["line"][:1500], "impl": m["expect"], "model": model.get(m["id"])}, found=bad_table(m))
    rep.coverage.update({
        "evaluations": len(cases) + len(mcases), "distinct_nontrivial": ok,
        "rule": "generated one-statement-per-line layouts (random blank lines, line comments, block comments before, after and across statements, filler declarations, literal constants as operands of the failing operator) in which an error (failing operator, failing builtin, failing functions of the time and strings modules (plain Go errors), bad index, call of a non-callable, wrong argument count, thrown value) escapes from call depth 0,1,2,3,5,8, in the main file, inside a function of an imported source module or while a module body runs during its import (made at top level or inside a function), optionally through 1-3 recursive activations of one call site, x optimizer on/off x encode/decode x k prepended blank lines; expected lines computed by the generator; positions must lie inside the named file; real line tables and sampled offsets re-resolved by the Coq unpack; non-trivial = a trace was produced and matched",
        "samples": [cases[0]["src"], str(cases[0]["expected"])],
        "traces_matched": ok, "unpack_compared": len([m for m in mcases if not m.get("fileof") and not m.get("addlines") and not m.get("sourcepos")]), "file_lookups_compared": len([m for m in mcases if m.get("fileof")]), "source_maps_compared": len([m for m in mcases if m.get("sourcepos")]), "source_map_lookups_compared": sum(m.get("nqueries", 0) for m in mcases if m.get("sourcepos")), "addline_histories_compared": len([m for m in mcases if m.get("addlines")]), "disagreements": len(dis), "oracle_failures": len(fails)})

def replay(payload, br):
    print(payload.get("why")); print(payload.get("script") or "")
    line = payload.get("case", "")
    if line.startswith("(case"):
        impl, _ = vlib.run_impl([line]); print("impl:", impl)
    return 1
