"""C19: builtin and standard-library functions are total over their arguments."""
import vlib, binascii, itertools, json
from vlib import mk_case

GEN_TABLES = ["Adapters"]
TRUSTED = ["translator /verif/gen/adapters.go: adapter shapes (arity check, conversions, every literal argument index) of zfuncs.go, stdlib/zfuncs.go, stdlib/time/zfuncs.go and the time method table; callable -> adapter routing; the size limits",
           "extracted adapter model (Builtin/Adapter.v) and size guard models (Builtin/SizeGuard.v)",
           "Go harness c19.go: the inventory of callables is read from ugo.BuiltinsMap / BuiltinObjects and the Module maps of fmt, json, strings, time at run time; panics are caught by recover around each direct call and around VM.Run"]
ASSUMPTIONS = ["hand-written function bodies behind the adapters are decided by enumeration over the boundary pool (complete for tuples of length 0..2 in the quick tier and 0..3 in the thorough tier, sampled above), not by a theorem",
               "panic domains of the Go runtime / standard library calls used by the size guards (makeslice above runtime.maxAlloc = 2^48, strings.Repeat on negative count or overflow, Builder.Grow on negative count, slicing out of range) are modelled from their documentation (SizeGuard.v go_make, go_repeat, go_builder_grow, go_slice_to)",
               "string parse facts (strconv.ParseInt/ParseUint/ParseFloat, time.Parse, time.LoadLocation) are oracle inputs of the adapter model, computed by the harness with the Go standard library",
               "time.Sleep with a duration above 25 ms is not executed (it blocks by design; 12 ms is executed so that its abort poll is reached); results above 4 MiB of the size-driven functions are not materialised, the guard outcome of those inputs is decided by the model only",
               "allocations which the operating system cannot satisfy below the limits of the code (fatal out-of-memory) are outside the property"]

MODES = ["value", "ex", "exv", "exn", "script"]

def expected_msg(tok):
    """model token -> exact error text, or None when the body is reached"""
    if isinstance(tok, str):
        if tok.startswith("W:"):
            _, n, k = tok.split(":")
            return "WrongNumberOfArgumentsError: want=%s got=%s" % (n, k)
        return None
    if tok[0] == "T":
        pos, want, got = (vlib.unhex(x).decode() for x in tok[1:4])
        return "TypeError: invalid type for argument '%s': expected %s, found %s" % (pos, want, got)
    return None

def impl_msg(tok):
    if tok[0] not in "EPC": return None
    s = binascii.unhexlify(tok[1:]).decode(errors="replace")
    if s.startswith("(err "):
        sx = vlib.parse_sexp(s)
        try: return "%s: %s" % (vlib.unhex(sx[1]).decode(errors="replace"), vlib.unhex(sx[2]).decode(errors="replace"))
        except Exception: return s
    return s

SIZE_LENS = [0, 1, 2, 3, 7, 1000]
def size_counts(n, lim):
    c = {-2**63, -1, 0, 1, 2, 5, 1000, 2**31-2, 2**31-1, 2**31, 2**32, 2**33, 2**62, 2**63-1, lim, lim+1}
    if n > 0: c |= {lim // n, lim // n + 1, lim // n - 1}
    return sorted(c)

def size_cases(rng, tier):
    lim = 2**31 - 1
    out = []
    for k in "asb":
        for n in SIZE_LENS:
            for c in size_counts(n, lim): out.append(("repeat", k, str(n), str(c)))
    for n in SIZE_LENS:
        for c in size_counts(n, lim): out.append(("srepeat", str(n), str(c)))
    for n in [-2**63, -1, 0, 1, 2, 3, 5, 1000, lim, lim+1, 2**33, 2**62, 2**63-1]:
        for L in [-1, 0, 1, 3, 5]: out.append(("mkarr", str(n), str(L)))
    pads = [-2**63, -2**63+1, -1, 0, 1, 2, 3, 4, 5, 9, 10, 11, 64, 1000, lim-1, lim, lim+1, 2**33, 2**62, 2**63-1]
    for left in "01":
        for ls in [0, 1, 3, 10]:
            for pl in pads:
                for lp, hp in [(1, "0"), (0, "1"), (1, "1"), (2, "1"), (3, "1"), (7, "1"), (100, "1")]:
                    out.append(("pad", left, str(ls), str(pl), str(lp), hp))
    extra = 300 if tier == "quick" else 5000
    for _ in range(extra):
        ls, lp = rng.randrange(0, 40), rng.randrange(0, 12)
        pl = rng.choice([rng.randrange(-5, 200), rng.randrange(-2**63, 2**63), lim - rng.randrange(3), 2**rng.randrange(64) - 1])
        pl = max(-2**63, min(2**63-1, pl))
        out.append(("pad", rng.choice("01"), str(ls), str(pl), str(lp), rng.choice("01")))
        out.append(("repeat", rng.choice("asb"), str(rng.randrange(0, 50)), str(rng.choice([rng.randrange(-3, 100), 2**rng.randrange(64) - 1, lim // max(1, rng.randrange(1, 50)) + rng.randrange(-1, 2)]))))
    return out

def run(rep, br, proofs, rng, tier):
    q, _ = vlib.run_impl(["(case inv inv19)", "(case pool pool19)"])
    cids = vlib.parse_sexp(q["inv"])[1:]
    pool = vlib.parse_sexp(q["pool"])[1:]
    PALL = len(pool)
    P = sum(1 for p in pool if not p[0].startswith("L:"))       # the L:* entries (length sweep) come last
    assert all(pool[i][0].startswith("L:") for i in range(P, PALL)) and PALL > P
    few = [i for i in range(P) if pool[i][0] in ("undefined", "i0", "i1", "i3", "sa", "s", "true")]
    lsweep = [[e] for e in range(P, PALL)] + [[e, x] for e in range(P, PALL) for x in few] + [[x, e] for e in range(P, PALL) for x in few] + \
             [[e, x, y] for e in range(P, PALL) for x in few[1:4] + few[-1:] for y in few[1:4]]
    pool_sx = [[p[0], p[1], p[2], p[3]] for p in pool]
    small = [[]] + [[i] for i in range(P)] + [[i, j] for i in range(P) for j in range(P)]
    cases, T = [], {}
    nsample = 400 if tier == "quick" else 6000
    for cid in cids:
        for mode in MODES:
            if mode == "script":
                ts = [[]] + [[i] for i in range(P)] + [[rng.randrange(P) for _ in range(rng.choice([2, 2, 3]))] for _ in range(60 if tier == "quick" else 600)]
            else:
                ts = list(small)
                if mode in ("value", "ex"): ts += lsweep
                if tier == "thorough" and mode == "ex":
                    ts += [list(t) for t in itertools.product(range(P), repeat=3)]
                ts += [[rng.randrange(P) for _ in range(rng.choice([3, 3, 4]))] for _ in range(nsample)]
            # batches keep a hang or crash attributable
            for b in range(0, len(ts), 3000):
                key = "%s/%s/%d" % (cid, mode, b)
                T[key] = ts[b:b+3000]
                cases.append(mk_case(key, "calls19", cid, mode, [[str(x) for x in t] for t in T[key]]))
    impl, culprits = vlib.run_impl_parallel(cases, procs=12, batch=40, timeout=300, mem_kb=10 * 1024 * 1024)
    fails, dis = [], []
    stats = {"calls": 0, "returned_value": 0, "returned_error": 0, "sleep_skipped": 0, "adapter_guarded_calls": 0, "body_reached": 0,
             "wrong_num_args": 0, "type_errors": 0, "by_arity": {}, "handwritten_entry_points": 0}
    def tuple_names(t): return [pool[i][0] for i in t]
    def one_case(c, t):
        return mk_case("replay", "calls19", c["args"][0], c["args"][1], [[str(x) for x in t]])["line"]
    for c, how in culprits:
        # narrow to the tuple: rerun the batch one tuple per case
        singles = [mk_case("%s#%d" % (c["id"], i), "calls19", c["args"][0], c["args"][1], [[str(x) for x in t]]) for i, t in enumerate(T[c["id"]])]
        r2, cul2 = vlib.run_impl_robust(singles, batch=4000, timeout=120, mem_kb=10 * 1024 * 1024)
        if cul2:
            for s, h in cul2[:3]:
                i = int(s["id"].split("#")[-1])
                fails.append((s["line"], "%s %s: the call %s the harness (fatal runtime error, not a recoverable panic)" % (c["args"][0], tuple_names(T[c["id"]][i]), "hangs" if h == "hang" else "kills")))
        else:
            fails.append((c["line"][:3000], "batch %s of the harness (not reproduced tuple by tuple)" % how))
    mcases = []
    for c in cases:
        r = impl.get(c["id"])
        if r is None: continue
        if not r.startswith("(ok"):
            fails.append((c["line"][:2000], "harness answer %s" % r[:200])); continue
        toks = r[4:-1].split(" ") if len(r) > 4 else []
        ts = T[c["id"]]
        if len(toks) != len(ts):
            fails.append((c["line"][:2000], "harness returned %d results for %d tuples" % (len(toks), len(ts)))); continue
        c["toks"] = toks
        for t, tok in zip(ts, toks):
            stats["calls"] += 1
            k = tok[0]
            if k == "B": stats["returned_value"] += 1
            elif k == "E": stats["returned_error"] += 1
            elif k == "S": stats["sleep_skipped"] += 1
            stats["by_arity"][str(len(t))] = stats["by_arity"].get(str(len(t)), 0) + 1
            if k == "P":
                fails.append((one_case(c, t), "%s(%s) [%s] panics: %s" % (c["args"][0], ", ".join(tuple_names(t)), c["args"][1], impl_msg(tok)[:300])))
            elif k == "N":
                fails.append((one_case(c, t), "%s(%s) [%s] returns a nil Object and no error" % (c["args"][0], ", ".join(tuple_names(t)), c["args"][1])))
            elif k == "X":
                fails.append((one_case(c, t), "%s(%s) [%s] does not return" % (c["args"][0], ", ".join(tuple_names(t)), c["args"][1])))
            elif k == "C":
                dis.append((one_case(c, t), "script form does not compile: %s" % impl_msg(tok)[:200]))
        mcases.append(mk_case(c["id"], "calls19", c["args"][0], c["args"][1], pool_sx, c["args"][2]))
    model, _ = vlib.run_model([m["line"] for m in mcases], timeout=1800)
    for c in cases:
        if "toks" not in c: continue
        m = model.get(c["id"])
        if m is None:
            dis.append((c["line"][:2000], "no model answer")); continue
        if m == "(handwritten)":
            stats["handwritten_entry_points"] += 1; continue
        msx = vlib.parse_sexp(m)[1:]
        for t, tok, mt in zip(T[c["id"]], c["toks"], msx):
            if tok == "S": continue
            stats["adapter_guarded_calls"] += 1
            if mt == "P" or (isinstance(mt, str) and mt.startswith(("U:", "?"))):
                dis.append((one_case(c, t), "adapter model answers %s for %s(%s)" % (mt, c["args"][0], ", ".join(tuple_names(t))))); continue
            exp = expected_msg(mt)
            if exp is None:
                stats["body_reached"] += 1; continue
            stats["wrong_num_args" if exp.startswith("Wrong") else "type_errors"] += 1
            got = impl_msg(tok)
            if got != exp:
                dis.append((one_case(c, t), "%s(%s) [%s]: adapter model expects %r, implementation answers %r" % (c["args"][0], ", ".join(tuple_names(t)), c["args"][1], exp, (got or tok)[:300])))
    # size guards: model vs implementation; results above 4 MiB are decided by the model only
    scs = [mk_case("z%d" % i, "size19", *a) for i, a in enumerate(size_cases(rng, tier))]
    smodel, _ = vlib.run_model([c["line"] for c in scs], timeout=600)
    run_these, model_only = [], 0
    for c in scs:
        m = smodel.get(c["id"]); c["model"] = m
        if m is None or m.startswith("(panic") or m.startswith("(fuel"):
            dis.append((c["line"], "size guard model answers %s" % m)); continue
        if m.startswith("(ok"):
            n = int(m[4:-1])
            if n > 4 * 1024 * 1024: model_only += 1; continue
        run_these.append(c)
    simpl, scul = vlib.run_impl_robust(run_these, batch=500, timeout=120, mem_kb=10 * 1024 * 1024)
    for c, how in scul:
        fails.append((c["line"], "size-driven call %s the harness" % ("hangs" if how == "hang" else "kills")))
    size_err = 0
    for c in run_these:
        i = simpl.get(c["id"])
        if i is None: continue
        if i.startswith("(panic"):
            fails.append((c["line"], "panics: %s" % binascii.unhexlify(i[7:-1].strip()).decode(errors="replace")[:200])); continue
        if i.startswith("(err"): size_err += 1
        if i != c["model"]:
            dis.append((c["line"], "size guard model answers %s, implementation %s" % (c["model"], i[:200])))
    for line, why in fails[:12]:
        rep.violation({"property": "C19", "kind": "oracle", "why": why, "case": line})
    if not fails:
        for line, why in dis[:10]:
            rep.violation({"property": "C19", "kind": "correspondence", "why": why, "case": line}, found=False)
    rep.coverage.update({
        "evaluations": stats["calls"] + len(scs), "distinct_nontrivial": stats["returned_value"] + stats["body_reached"],
        "rule": "every exported callable of the run-time tables (BuiltinsMap/BuiltinObjects, Module maps of fmt, json, strings, time; time and location methods by name call, error.New) x every tuple of length 0..2 (thorough: 0..3 through ValueEx) over a boundary pool of %d values of every type + sampled tuples of length 3..4 + a length sweep (bytes, strings and arrays of 14 lengths around internal buffer sizes, 48..65536, and strings and bytes ending inside a multi-byte sequence, an escape or a format verb, bare and after the start of a JSON document, and complete JSON documents with edge content (surrogate escapes at the end of a string, huge numbers, deep nesting), alone and with small second and third arguments), through Value, ValueEx, ValueEx with the tuple split into fixed and variadic arguments, and from a compiled script on a VM without recovery; each adapter-guarded call compared with the Coq adapter model (exact error text); size-driven functions on boundary (length, count) grids compared with the Coq size guard models; non-trivial = calls that returned a value or reached the body" % P,
        "samples": [cases[0]["line"][:300], scs[0]["line"], scs[-1]["line"]],
        "callables": len(cids), "pool": [p[0] for p in pool], "stats": stats,
        "size_cases": len(scs), "size_cases_model_only": model_only, "size_errors_seen": size_err,
        "disagreements": len(dis), "oracle_failures": len(fails)})

def replay(payload, br):
    print(payload.get("why"))
    line = payload.get("case", "")
    if line.startswith("(case"):
        impl, err = vlib.run_impl([line], timeout=120)
        print("implementation:", impl, err[-400:] if err else "")
        model, _ = vlib.run_model([line], timeout=120)
        print("model:", model)
    return 0
