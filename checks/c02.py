"""C02: compiled execution follows the documented source-level semantics."""
import vlib, semgen
from vlib import mk_case, hexs

TRUSTED = ["definitional interpreter Sem/Sem.v (extracted), written from the language documentation: left-to-right evaluation, right-hand side before target, block scoping, one cell per executed declaration, closures capturing cells, fixed/variadic/spread binding, destructuring, constants and iota, compound assignment, indexing, loop control; it has no notion of a tail call",
           "generator lib/semgen.py: emits each program both as the interpreter's AST and as uGO source text"]
ASSUMPTIONS = ["the fragment: int/bool/string/undefined values, arrays, closures, var/const/:=/=/op=, index assignment, destructuring, if/for/for-in/break/continue/return, calls with spread; maps, selectors, floats, chars, try/catch, imports and builtins other than len/append are outside the interpreter (their semantics is covered by C15, C03, C12, C19)",
               "append is used linearly (x = append(x, ...)) in generated programs: Go slice aliasing of appended arrays is outside the interpreter",
               "the slot theorem is about the symbol table model, tied to symbol_table.go by the operation-history correspondence of C13 / C10; no theorem relates the compiler's code generation to the interpreter: that relation is decided by differential execution only",
               "recursion depth stays small: the VM's stack limits are the subject of C06"]

DOC_PROGRAMS = [
    # (name, source, expected value in the harness notation); the documented forms, run on both sides
    ("tail-discard", "var f\nf = func(n) { if n == 0 { return 5 }; f(n - 1) }\nreturn f(3)\n",
     [["var", "f", "-"], ["set", "f", ["func", ["n"], "0", [["if", ["bin", "eq", ["v", "n"], ["i", "0"]], [["ret", ["i", "5"]]], []], ["expr", ["call", ["v", "f"], [["bin", "sub", ["v", "n"], ["i", "1"]]], "-"]]]]],
      ["ret", ["call", ["v", "f"], [["i", "3"]], "-"]]]),
    ("tail-return", "var f\nf = func(n, a) { if n == 0 { return a }; return f(n - 1, a + n) }\nreturn f(50, 0)\n",
     [["var", "f", "-"], ["set", "f", ["func", ["n", "a"], "0", [["if", ["bin", "eq", ["v", "n"], ["i", "0"]], [["ret", ["v", "a"]]], []], ["ret", ["call", ["v", "f"], [["bin", "sub", ["v", "n"], ["i", "1"]], ["bin", "add", ["v", "a"], ["v", "n"]]], "-"]]]]],
      ["ret", ["call", ["v", "f"], [["i", "50"], ["i", "0"]], "-"]]]),
]

BIN = {"add": "+", "sub": "-", "mul": "*", "quo": "/", "rem": "%", "and": "&", "or": "|", "xor": "^", "andnot": "&^", "shl": "<<", "shr": ">>",
       "lt": "<", "le": "<=", "gt": ">", "ge": ">="}
XLITS = [0, 1, 2, 3, 7, 5, 63, 64, 65, 2**62, 2**63 - 1]   # a negative literal is unary minus applied to a constant

def gen_cexpr(rng, d, nloc):
    """expression of the ExprComp fragment with literals in place of constant indexes"""
    k = rng.randrange(10) if d > 0 else rng.randrange(2)
    sub = lambda: gen_cexpr(rng, d - 1, nloc)
    if k == 0: return ["lit", rng.choice(XLITS)]
    if k == 1: return ["l", str(rng.randrange(nloc))]
    if k in (2, 3, 4): return ["bin", rng.choice(list(BIN)), sub(), sub()]
    if k == 5: return [rng.choice(["eq", "ne"]), sub(), sub()]
    if k == 6: return ["un", rng.choice(["sub", "not"]), sub()]
    if k == 7: return ["and", sub(), sub()]
    if k == 8: return ["or", sub(), sub()]
    return ["cond", sub(), sub(), sub()]

def render_cexpr(e, names):
    k = e[0]
    if k == "lit": return "(%d)" % e[1] if e[1] < 0 else str(e[1])
    if k == "l": return names[int(e[1])]
    if k == "bin": return "(%s %s %s)" % (render_cexpr(e[2], names), BIN[e[1]], render_cexpr(e[3], names))
    if k == "eq": return "(%s == %s)" % (render_cexpr(e[1], names), render_cexpr(e[2], names))
    if k == "ne": return "(%s != %s)" % (render_cexpr(e[1], names), render_cexpr(e[2], names))
    if k == "un": return "(%s%s)" % ("-" if e[1] == "sub" else "!", render_cexpr(e[2], names))
    if k == "and": return "(%s && %s)" % (render_cexpr(e[1], names), render_cexpr(e[2], names))
    if k == "or": return "(%s || %s)" % (render_cexpr(e[1], names), render_cexpr(e[2], names))
    return "(%s ? %s : %s)" % (render_cexpr(e[1], names), render_cexpr(e[2], names), render_cexpr(e[3], names))

def index_consts(e, consts):
    if e[0] == "lit": return ["k", str(consts.index(e[1]))]
    return [e[0]] + [index_consts(x, consts) if isinstance(x, list) else x for x in e[1:]]

def expr_compiler_cases(rng, tier, fails, dis, stats):
    """the expression compiler model (ExprComp) against the real compiler: same instruction listing, and
    real VM value = machine model value = source-level value"""
    n = 600 if tier == "quick" else 20000
    names = ["a", "b", "c"]
    argpool = [["i", "0"], ["i", "1"], ["i", "-3"], ["i", "7"], ["b", "1"], ["b", "0"], ["n"], ["i", str(2**62)], ["s", "x6162"], ["f", "3ff8000000000000"]]
    cases = []
    for i in range(n):
        e = gen_cexpr(rng, rng.choice([1, 2, 3, 4]), 3)
        args = [rng.choice(argpool) for _ in range(3)]
        src = "param (a, b, c)\nreturn %s\n" % render_cexpr(e, names)
        c = mk_case("x%d" % i, "exprcomp", hexs(src), ["args"] + args)
        c["e"], c["argv"], c["src"] = e, args, src
        cases.append(c)
    impl, _ = vlib.run_impl([c["line"] for c in cases], timeout=1200)
    mcases = []
    for c in cases:
        r = impl.get(c["id"])
        if r is None or not r.startswith("(exprcomp"):
            dis.append((c["src"], "harness answer %s" % str(r)[:200])); continue
        sx = vlib.parse_sexp(r)
        consts = [int(v[1]) for v in sx[2][1:] if v[0] == "i"]
        try: e2 = index_consts(c["e"], consts)
        except ValueError:
            dis.append((c["src"], "a literal of the expression is missing from the constant pool %s" % consts)); continue
        c["impl_code"], c["impl_res"] = vlib.sexp_str(sx[1][:-1]), vlib.sexp_str(sx[3])   # without the final RETURN
        m = mk_case(c["id"], "exprcomp", e2, sx[2][1:], c["argv"]); mcases.append(m)
    model, _ = vlib.run_model([m["line"] for m in mcases], timeout=1200)
    for c in cases:
        m = model.get(c["id"])
        if m is None or "impl_code" not in c: continue
        if not m.startswith("(exprcomp"):
            dis.append((c["src"], "model answer %s" % m[:200])); continue
        sx = vlib.parse_sexp(m)
        code, spec, mach = vlib.sexp_str(sx[1]), vlib.sexp_str(sx[2]), vlib.sexp_str(sx[3])
        stats["expr_cases"] = stats.get("expr_cases", 0) + 1
        if "inconclusive" in spec or "inconclusive" in mach: stats["expr_inconclusive"] = stats.get("expr_inconclusive", 0) + 1; continue
        if mach != spec:
            dis.append((c["src"], "the machine model run on the model's code gives %s, the source-level value is %s (contradicts theorem compile_correct: extraction or driver fault)" % (mach, spec)))
        if c["impl_res"] != spec:
            fails.append((c["src"], "compiled execution gives %s, the source-level evaluation of the expression gives %s (args %s)" % (c["impl_res"][:300], spec[:300], vlib.sexp_str(c["argv"]))))
        elif code != c["impl_code"]:
            dis.append((c["src"], "the compiler emits %s, the compiler model %s" % (c["impl_code"][:600], code[:600])))
        else: stats["expr_code_identical"] = stats.get("expr_code_identical", 0) + 1

def run(rep, br, proofs, rng, tier):
    n = 1500 if tier == "quick" else 40000
    cases, progs = [], {}
    kinds = {}
    for name, src, prog in DOC_PROGRAMS:
        progs[name] = (prog, src)
    for i in range(n):
        g = semgen.Gen(rng, max_depth=rng.choice([2, 3, 3, 4]))
        prog = g.program()
        progs["g%d" % i] = (prog, semgen.render(prog))
        for k, v in g.stats.items(): kinds[k] = kinds.get(k, 0) + v
    for name, (prog, src) in progs.items():
        cases.append(mk_case("o." + name, "run02", "opt", hexs(src)))
        cases.append(mk_case("n." + name, "run02", "noopt", hexs(src)))
        cases.append(mk_case("m." + name, "sem02", prog))
    impl, culprits = vlib.run_impl_parallel([c for c in cases if c["kind"] == "run02"], procs=12, batch=200, timeout=300)
    model, _ = vlib.run_model([c["line"] for c in cases if c["kind"] == "sem02"], timeout=1800)
    fails, dis = [], []
    stats = {"agree_value": 0, "agree_error": 0, "fuel": 0, "compile_error": 0, "optimizer_refused": 0}
    for c, how in culprits:
        fails.append((c["line"][:4000], "the harness %s on this program" % ("hangs" if how == "hang" else "dies")))
    for name, (prog, src) in progs.items():
        m = model.get("m." + name)
        if m is None or m.startswith("(model-failure"):
            dis.append((src, "no answer from the interpreter: %s" % m)); continue
        if m == "(fuel)":
            stats["fuel"] += 1; continue
        for mode in ("o", "n"):
            r = impl.get("%s.%s" % (mode, name))
            if r is None: continue
            if r.startswith("(compile-error"):
                if "Optimizer" in r and mode == "o": stats["optimizer_refused"] += 1
                else:
                    stats["compile_error"] += 1
                    dis.append((src, "does not compile: %s" % r[:200]))
                continue
            if r.startswith("(panic") or r.startswith("(timeout"):
                fails.append((src, "%s run: %s" % ("optimised" if mode == "o" else "unoptimised", r[:300]))); continue
            if r != m:
                fails.append((src, "%s run returns %s, the documented semantics gives %s" % ("optimised" if mode == "o" else "unoptimised", r[:400], m[:400])))
            elif mode == "n":
                stats["agree_value" if m.startswith("(ok") else "agree_error"] += 1
    expr_compiler_cases(rng, tier, fails, dis, stats)
    if stats["compile_error"] > n // 20 or stats["fuel"] > n // 5:
        dis.append(("", "generator health: %d programs do not compile, %d exceed the interpreter's fuel" % (stats["compile_error"], stats["fuel"])))
    for src, why in fails[:10]:
        rep.violation({"property": "C02", "kind": "oracle", "why": why, "source": src, "case": mk_case("replay", "run02", "noopt", hexs(src))["line"]})
    if not fails:
        for src, why in dis[:10]:
            rep.violation({"property": "C02", "kind": "correspondence", "why": why, "source": src}, found=False)
    rep.coverage.update({
        "evaluations": len(cases), "distinct_nontrivial": stats["agree_value"] + stats["agree_error"],
        "rule": "type-directed generated programs over the fragment (logging calls make evaluation order observable; closures over per-iteration and loop variables; counter factories; recursion in tail position, out of it and as a discarded last statement; variadic and spread calls with every count; destructuring with fewer and more elements; const groups with iota; shadowing blocks; index assignment with side-effecting index; break/continue/return in nested loops and functions) run compiled with and without the optimizer and on the Coq interpreter; values compared structurally; non-trivial = programs on which unoptimised, optimised and interpreter agree; expressions over constants, parameters, every binary and unary operator, == / !=, && / ||, ?: with int / bool / undefined / string / float arguments: the real compiler's instruction listing vs the Coq compiler model (byte positions, operands, jump targets), real VM value vs machine model vs source-level evaluation",
        "samples": [progs["g0"][1][:400], progs["g1"][1][:400]],
        "stats": stats, "statement_kinds": kinds, "disagreements": len(dis), "oracle_failures": len(fails)})

def replay(payload, br):
    print(payload.get("why")); print(payload.get("source"))
    line = payload.get("case", "")
    if line.startswith("(case"):
        impl, err = vlib.run_impl([line], timeout=120)
        print(impl, err[-400:])
    return 0
