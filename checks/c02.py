"""C02: compiled execution follows the documented source-level semantics."""
import vlib, semgen
from vlib import mk_case, hexs

TRUSTED = ["definitional interpreter Sem/Sem.v (extracted), written from the language documentation: left-to-right evaluation, right-hand side before target, block scoping, one cell per executed declaration, closures capturing cells, fixed/variadic/spread binding, destructuring, constants and iota, compound assignment, indexing, loop control; it has no notion of a tail call",
           "generator lib/semgen.py: emits each program both as the interpreter's AST and as uGO source text"]
ASSUMPTIONS = ["the fragment: int/bool/string/undefined values, arrays, closures, var/const/:=/=/op=, index assignment, destructuring, if/for/for-in/break/continue/return, calls with spread; maps, selectors, floats, chars, try/catch, imports and builtins other than len/append are outside the interpreter (their semantics is covered by C15, C03, C12, C19)",
               "append is used linearly (x = append(x, ...)) in generated programs: Go slice aliasing of appended arrays is outside the interpreter",
               "the slot theorem is about the symbol table model, tied to symbol_table.go by the operation-history correspondence of C13 / C10; no theorem relates the compiler's code generation to the interpreter: that relation is decided by differential execution only",
               "recursion depth stays small: the VM's stack limits are the subject of C06"]

DOC_PROGRAMS = [
    # (name, source, expected value in the harness notation); the documented forms, run on both sides
    ("tail-discard", "var f\nf = func(n) { if n == 0 { return 5 }; f(n - 1) }\nreturn f(3)\n",
     [["var", "f", "-"], ["set", "f", ["func", ["n"], "0", [["if", ["bin", "eq", ["v", "n"], ["i", "0"]], [["ret", ["i", "5"]]], []], ["expr", ["call", ["v", "f"], [["bin", "sub", ["v", "n"], ["i", "1"]]], "-"]]]]],
      ["ret", ["call", ["v", "f"], [["i", "3"]], "-"]]]),
    ("tail-return", "var f\nf = func(n, a) { if n == 0 { return a }; return f(n - 1, a + n) }\nreturn f(50, 0)\n",
     [["var", "f", "-"], ["set", "f", ["func", ["n", "a"], "0", [["if", ["bin", "eq", ["v", "n"], ["i", "0"]], [["ret", ["v", "a"]]], []], ["ret", ["call", ["v", "f"], [["bin", "sub", ["v", "n"], ["i", "1"]], ["bin", "add", ["v", "a"], ["v", "n"]]], "-"]]]]],
      ["ret", ["call", ["v", "f"], [["i", "50"], ["i", "0"]], "-"]]]),
]

BIN = {"add": "+", "sub": "-", "mul": "*", "quo": "/", "rem": "%", "and": "&", "or": "|", "xor": "^", "andnot": "&^", "shl": "<<", "shr": ">>",
       "lt": "<", "le": "<=", "gt": ">", "ge": ">="}
XLITS = [0, 1, 2, 3, 7, 5, 63, 64, 65, 2**62, 2**63 - 1]   # a negative literal is unary minus applied to a constant

def gen_cexpr(rng, d, nloc):
    """expression of the ExprComp fragment with literals in place of constant indexes"""
    k = rng.randrange(10) if d > 0 else rng.randrange(2)
    sub = lambda: gen_cexpr(rng, d - 1, nloc)
    if k == 0: return ["lit", rng.choice(XLITS)]
    if k == 1: return ["l", str(rng.randrange(nloc))]
    if k in (2, 3, 4): return ["bin", rng.choice(list(BIN)), sub(), sub()]
    if k == 5: return [rng.choice(["eq", "ne"]), sub(), sub()]
    if k == 6: return ["un", rng.choice(["sub", "not"]), sub()]
    if k == 7: return ["and", sub(), sub()]
    if k == 8: return ["or", sub(), sub()]
    return ["cond", sub(), sub(), sub()]

def render_cexpr(e, names):
    k = e[0]
    if k == "lit": return "(%d)" % e[1] if e[1] < 0 else str(e[1])
    if k == "l": return names[int(e[1])]
    if k == "bin": return "(%s %s %s)" % (render_cexpr(e[2], names), BIN[e[1]], render_cexpr(e[3], names))
    if k == "eq": return "(%s == %s)" % (render_cexpr(e[1], names), render_cexpr(e[2], names))
    if k == "ne": return "(%s != %s)" % (render_cexpr(e[1], names), render_cexpr(e[2], names))
    if k == "un": return "(%s%s)" % ("-" if e[1] == "sub" else "!", render_cexpr(e[2], names))
    if k == "and": return "(%s && %s)" % (render_cexpr(e[1], names), render_cexpr(e[2], names))
    if k == "or": return "(%s || %s)" % (render_cexpr(e[1], names), render_cexpr(e[2], names))
    return "(%s ? %s : %s)" % (render_cexpr(e[1], names), render_cexpr(e[2], names), render_cexpr(e[3], names))

def index_consts(e, consts):
    if e[0] == "lit": return ["k", str(consts.index(e[1]))]
    return [e[0]] + [index_consts(x, consts) if isinstance(x, list) else x for x in e[1:]]

def expr_compiler_cases(rng, tier, fails, dis, stats):
    """the expression compiler model (ExprComp) against the real compiler: same instruction listing, and
    real VM value = machine model value = source-level value"""
    n = 600 if tier == "quick" else 20000
    names = ["a", "b", "c"]
    argpool = [["i", "0"], ["i", "1"], ["i", "-3"], ["i", "7"], ["b", "1"], ["b", "0"], ["n"], ["i", str(2**62)], ["s", "x6162"], ["f", "3ff8000000000000"]]
    cases = []
    for i in range(n):
        e = gen_cexpr(rng, rng.choice([1, 2, 3, 4]), 3)
        args = [rng.choice(argpool) for _ in range(3)]
        src = "param (a, b, c)\nreturn %s\n" % render_cexpr(e, names)
        c = mk_case("x%d" % i, "exprcomp", hexs(src), ["args"] + args)
        c["e"], c["argv"], c["src"] = e, args, src
        cases.append(c)
    impl, _ = vlib.run_impl([c["line"] for c in cases], timeout=1200)
    mcases = []
    for c in cases:
        r = impl.get(c["id"])
        if r is None or not r.startswith("(exprcomp"):
            dis.append((c["src"], "harness answer %s" % str(r)[:200])); continue
        sx = vlib.parse_sexp(r)
        consts = [int(v[1]) for v in sx[2][1:] if v[0] == "i"]
        try: e2 = index_consts(c["e"], consts)
        except ValueError:
            dis.append((c["src"], "a literal of the expression is missing from the constant pool %s" % consts)); continue
        c["impl_code"], c["impl_res"] = vlib.sexp_str(sx[1][:-1]), vlib.sexp_str(sx[3])   # without the final RETURN
        m = mk_case(c["id"], "exprcomp", e2, sx[2][1:], c["argv"]); mcases.append(m)
    model, _ = vlib.run_model([m["line"] for m in mcases], timeout=1200)
    for c in cases:
        m = model.get(c["id"])
        if m is None or "impl_code" not in c: continue
        if not m.startswith("(exprcomp"):
            dis.append((c["src"], "model answer %s" % m[:200])); continue
        sx = vlib.parse_sexp(m)
        code, spec, mach = vlib.sexp_str(sx[1]), vlib.sexp_str(sx[2]), vlib.sexp_str(sx[3])
        stats["expr_cases"] = stats.get("expr_cases", 0) + 1
        if "inconclusive" in spec or "inconclusive" in mach: stats["expr_inconclusive"] = stats.get("expr_inconclusive", 0) + 1; continue
        if mach != spec:
            dis.append((c["src"], "the machine model run on the model's code gives %s, the source-level value is %s (contradicts theorem compile_correct: extraction or driver fault)" % (mach, spec)))
        if c["impl_res"] != spec:
            fails.append((c["src"], "compiled execution gives %s, the source-level evaluation of the expression gives %s (args %s)" % (c["impl_res"][:300], spec[:300], vlib.sexp_str(c["argv"]))))
        elif code != c["impl_code"]:
            dis.append((c["src"], "the compiler emits %s, the compiler model %s" % (c["impl_code"][:600], code[:600])))
        else: stats["expr_code_identical"] = stats.get("expr_code_identical", 0) + 1

def gen_texpr(rng, d, ty):
    """mostly well-typed expression: int-valued or bool-valued over int locals"""
    sub = lambda t: gen_texpr(rng, d - 1, t)
    if ty == "int":
        k = rng.randrange(8) if d > 0 else rng.randrange(2)
        if k == 0: return ["lit", rng.choice([0, 1, 2, 3, 5, 7, 63, 64])]
        if k == 1: return ["l", "0"]
        if k in (2, 3, 4): return ["bin", rng.choice(["add", "sub", "mul", "and", "or", "xor", "andnot"]), sub("int"), sub("int")]
        if k == 5: return ["bin", rng.choice(["quo", "rem", "shl", "shr"]), sub("int"), ["lit", rng.choice([1, 2, 3, 7])]]
        if k == 6: return ["un", "sub", sub("int")]
        return ["cond", sub("bool"), sub("int"), sub("int")]
    k = rng.randrange(6) if d > 0 else 0
    if k in (0, 1): return ["bin", rng.choice(["lt", "le", "gt", "ge"]), sub("int") if d > 0 else ["l", "0"], sub("int") if d > 0 else ["lit", rng.choice([0, 1, 3])]]
    if k == 2: return [rng.choice(["eq", "ne"]), sub("int"), sub("int")]
    if k == 3: return ["un", "not", sub("bool")]
    return [rng.choice(["and", "or"]), sub("bool"), sub("bool")]

class StmtGen:
    """statements of the StmtComp fragment over locals; tracks the slot of every name the way the
    symbol table assigns them (slot = number of live locals at the definition)"""
    def __init__(self, rng, nparams=3):
        self.rng = rng
        self.scopes = [[("a", 0), ("b", 1), ("c", 2)][:nparams]]
        self.frozen = set()     # loop variables: never assigned by generated bodies
        self.fresh = 0
        self.maxlive = nparams
        self.kinds = {}
    def live(self): return [x for sc in self.scopes for x in sc]
    def expr(self, d, ty=None):
        if self.rng.randrange(5) == 0: e = gen_cexpr(self.rng, d, 1)
        else: e = gen_texpr(self.rng, d, ty or self.rng.choice(["int", "int", "bool"]))
        return self.relocal(e)
    def relocal(self, e):
        if e[0] == "l": return ["l", str(self.rng.choice(self.live())[1])]
        return [e[0]] + [self.relocal(x) if isinstance(x, list) else x for x in e[1:]]
    def define(self):
        name = "v%d" % self.fresh; self.fresh += 1
        idx = len(self.live())
        self.scopes[-1].append((name, idx))
        self.maxlive = max(self.maxlive, idx + 1)
        return name, idx
    def block(self, d, loop):
        self.scopes.append([])
        out = [self.stmt(d, loop) for _ in range(self.rng.choice([1, 1, 2, 3]))]
        self.scopes.pop()
        return ["seq"] + out
    def stmt(self, d, loop):
        r = self.rng
        k = r.choice(["set", "set", "def", "exp", "if", "ifelse", "for", "forb", "ctl", "ret"]) if d > 0 else r.choice(["set", "def", "exp", "ctl"])
        if k == "ctl":
            k = r.choice(["break", "continue"]) if loop == "full" else ("break" if loop == "breakonly" else "set")
        if k == "ret" and r.randrange(3): k = "set"
        self.kinds[k] = self.kinds.get(k, 0) + 1
        if k == "set":
            cands = [x for x in self.live() if x[0] not in self.frozen]
            if not cands: return ["exp", self.expr(2)]
            return ["set", str(r.choice(cands)[1]), self.expr(r.choice([1, 2, 3]))]
        if k == "def":
            e = self.expr(r.choice([1, 2]))        # the initialiser does not see the new name
            name, idx = self.define()
            return ["def", str(idx), e]
        if k == "exp": return ["exp", self.expr(r.choice([1, 2, 3]))]
        if k == "if": return ["if", self.expr(2, "bool"), self.block(d - 1, loop)]
        if k == "ifelse":
            c = self.expr(2, "bool"); a = self.block(d - 1, loop)
            b = self.block(d - 1, loop) if r.randrange(3) else ["seq", self.stmt_in_scope("ifelse", d - 1, loop)]
            return ["ifelse", c, a, b]
        if k == "for":
            # for i := 0; i < K; i++ { body }
            self.scopes.append([])
            name, idx = self.define(); self.frozen.add(name)
            bound = r.choice([0, 1, 2, 3])
            body = self.block(d - 1, "full")
            self.scopes.pop()
            post = ["set", str(idx), ["bin", "add", ["l", str(idx)], ["lit", 1]]]
            return ["seq", ["def", str(idx), ["lit", 0]], ["for", ["bin", "lt", ["l", str(idx)], ["lit", bound]], body, post], ["forform", r.randrange(3)]]
        if k == "forb":
            # for cond { ...; break }
            self.scopes.append([])
            c = self.expr(2, "bool")
            self.scopes.append([])
            body = [self.stmt(d - 1, "breakonly") for _ in range(r.choice([0, 1, 2]))] + [["break"]]
            self.scopes.pop(); self.scopes.pop()
            return ["for", c, ["seq"] + body, ["skip"]]
        if k == "ret": return ["ret", self.expr(2)]
        return [k]
    def stmt_in_scope(self, what, d, loop):
        # `else if`: the else branch is an if statement, not a block
        self.kinds["elseif"] = self.kinds.get("elseif", 0) + 1
        c = self.expr(2, "bool"); a = self.block(d, loop)
        if self.rng.randrange(2): return ["if", c, a]
        return ["ifelse", c, a, self.block(d, loop)]

def render_cstmt(s, names, ind):
    """source text; names: slot -> name valid at this point (updated by definitions)"""
    pad = "  " * ind
    k = s[0]
    E = lambda e: render_cexpr(e, names)
    if k == "skip": return ""
    if k == "seq":
        saved = dict(names)
        out = []
        i = 1
        while i < len(s):
            x = s[i]
            if x[0] == "def" and i + 2 < len(s) and s[i + 1][0] == "for" and s[i + 2][0] == "forform":
                # the counting loop: init; cond; post
                saved2 = dict(names)
                idx = x[1]; names[int(idx)] = "i%s" % idx
                f = s[i + 1]
                post = ["i%s++" % idx, "i%s += 1" % idx, "i%s = i%s + 1" % (idx, idx)][s[i + 2][1]]
                out.append("%sfor i%s := 0; %s; %s {\n%s%s}\n" % (pad, idx, E(f[1]), post, render_cstmt(f[2], names, ind + 1), pad))
                names.clear(); names.update(saved2)
                i += 3; continue
            out.append(render_cstmt(x, names, ind)); i += 1
        names.clear(); names.update(saved)
        return "".join(out)
    if k == "set": return "%s%s = %s\n" % (pad, names[int(s[1])], E(s[2]))
    if k == "def":
        e = E(s[2]); names[int(s[1])] = "v%s_%d" % (s[1], len(e) % 7)
        return "%s%s := %s\n" % (pad, names[int(s[1])], e)
    if k == "exp": return "%s%s\n" % (pad, E(s[1]))
    if k == "if": return "%sif %s {\n%s%s}\n" % (pad, E(s[1]), render_cstmt(s[2], names, ind + 1), pad)
    if k == "ifelse":
        b = s[3]
        if len(b) == 2 and b[1][0] in ("if", "ifelse"):      # else if
            return "%sif %s {\n%s%s} else %s" % (pad, E(s[1]), render_cstmt(s[2], names, ind + 1), pad, render_cstmt(b[1], names, ind).lstrip())
        return "%sif %s {\n%s%s} else {\n%s%s}\n" % (pad, E(s[1]), render_cstmt(s[2], names, ind + 1), pad, render_cstmt(b, names, ind + 1), pad)
    if k == "for": return "%sfor %s {\n%s%s}\n" % (pad, E(s[1]), render_cstmt(s[2], names, ind + 1), pad)
    if k == "ret": return "%sreturn %s\n" % (pad, E(s[1]))
    return "%s%s\n" % (pad, k)

def strip_forms(s):
    if not isinstance(s, list): return s
    return [strip_forms(x) for x in s if not (isinstance(x, list) and x and x[0] == "forform")]

def index_consts_stmt(s, consts):
    k = s[0]
    if k in ("skip", "break", "continue"): return s
    if k == "seq": return ["seq"] + [index_consts_stmt(x, consts) for x in s[1:]]
    if k in ("set", "def"): return [k, s[1], index_consts(s[2], consts)]
    if k in ("exp", "ret"): return [k, index_consts(s[1], consts)]
    if k == "if": return [k, index_consts(s[1], consts), index_consts_stmt(s[2], consts)]
    if k == "ifelse": return [k, index_consts(s[1], consts), index_consts_stmt(s[2], consts), index_consts_stmt(s[3], consts)]
    if k == "for": return [k, index_consts(s[1], consts), index_consts_stmt(s[2], consts), index_consts_stmt(s[3], consts)]
    raise ValueError(k)

def stmt_compiler_cases(rng, tier, fails, dis, stats):
    """the statement compiler model (StmtComp) against the real compiler: same instruction listing
    (slots, byte positions, jump targets of if / else / for / break / continue), and real VM result =
    machine model result = source-level execution"""
    n = 500 if tier == "quick" else 15000
    argpool = [["i", "0"], ["i", "1"], ["i", "-3"], ["i", "7"], ["b", "1"], ["b", "0"], ["n"], ["i", str(2**62)], ["s", "x6162"], ["f", "3ff8000000000000"]]
    cases = []
    kinds = {}
    for i in range(n):
        g = StmtGen(rng)
        body = ["seq"] + [g.stmt(rng.choice([1, 2, 3]), None) for _ in range(rng.choice([1, 2, 3, 4]))]
        body.append(["ret", g.expr(2)])
        for k, v in g.kinds.items(): kinds[k] = kinds.get(k, 0) + v
        args = [rng.choice(argpool[:4] if rng.randrange(4) else argpool) for _ in range(3)]
        src = "param (a, b, c)\n" + render_cstmt(body, {0: "a", 1: "b", 2: "c"}, 0)
        c = mk_case("t%d" % i, "exprcomp", hexs(src), ["args"] + args)
        c["s"], c["argv"], c["src"], c["nloc"] = strip_forms(body), args, src, g.maxlive
        cases.append(c)
    impl, _ = vlib.run_impl([c["line"] for c in cases], timeout=1200)
    mcases = []
    for c in cases:
        r = impl.get(c["id"])
        if r is None or not r.startswith("(exprcomp"):
            dis.append((c["src"], "harness answer %s" % str(r)[:200])); continue
        sx = vlib.parse_sexp(r)
        consts = [int(v[1]) for v in sx[2][1:] if v[0] == "i"]
        try: s2 = index_consts_stmt(c["s"], consts)
        except ValueError:
            dis.append((c["src"], "a literal of the program is missing from the constant pool %s" % consts)); continue
        c["impl_code"], c["impl_res"] = vlib.sexp_str(sx[1]), vlib.sexp_str(sx[3])
        locs = c["argv"] + [["n"]] * (c["nloc"] - 3)
        mcases.append(mk_case(c["id"], "stmtcomp", s2, sx[2][1:], locs))
    model, _ = vlib.run_model([m["line"] for m in mcases], timeout=1200)
    for c in cases:
        m = model.get(c["id"])
        if m is None or "impl_code" not in c: continue
        if not m.startswith("(stmtcomp"):
            dis.append((c["src"], "model answer %s" % m[:200])); continue
        sx = vlib.parse_sexp(m)
        # Compiler.Bytecode appends RETURN 0 when the last instruction is not RETURN or when some jump
        # target was not met after its jump while scanning (every backward jump, i.e. every loop)
        listing = sx[1][1:]
        if any(it[1] in ("JUMP", "JUMPFALSY", "ANDJUMP", "ORJUMP") and int(it[2]) <= int(it[0]) for it in listing) or listing[-1][1] != "RETURN":
            end = int(listing[-1][0]) + {"RETURN": 2, "POP": 1}.get(listing[-1][1], 0)
            sx[1] = sx[1] + [[str(end), "RETURN", "0"]]
        code, spec, mach, wf = vlib.sexp_str(sx[1]), vlib.sexp_str(sx[2]), vlib.sexp_str(sx[3]), sx[4]
        stats["stmt_cases"] = stats.get("stmt_cases", 0) + 1
        if wf != "wf":
            dis.append((c["src"], "the generated statement is outside the theorem's well-formedness condition")); continue
        if "inconclusive" in spec: stats["stmt_inconclusive"] = stats.get("stmt_inconclusive", 0) + 1; continue
        if mach != spec:
            dis.append((c["src"], "the machine model run on the model's code gives %s, the source-level execution %s (contradicts theorem scompile_correct: extraction or driver fault)" % (mach, spec)))
        if c["impl_res"] != spec:
            fails.append((c["src"], "compiled execution gives %s, the source-level execution of the statements gives %s (args %s)" % (c["impl_res"][:300], spec[:300], vlib.sexp_str(c["argv"]))))
        elif code != c["impl_code"]:
            a, b = vlib.parse_sexp(c["impl_code"])[1:], vlib.parse_sexp(code)[1:]
            k = next((i for i, (x, y) in enumerate(zip(a, b)) if x != y), min(len(a), len(b)))
            dis.append((c["src"], "the compiler and the statement compiler model emit different code from instruction %d on: compiler %s, model %s" % (k, vlib.sexp_str(a[max(0, k - 2):k + 4]), vlib.sexp_str(b[max(0, k - 2):k + 4]))))
        else:
            stats["stmt_code_identical"] = stats.get("stmt_code_identical", 0) + 1
            stats["stmt_" + ("value" if spec.startswith("(ok") else "error")] = stats.get("stmt_" + ("value" if spec.startswith("(ok") else "error"), 0) + 1
    stats["stmt_kinds"] = kinds

def run(rep, br, proofs, rng, tier):
    n = 1500 if tier == "quick" else 40000
    cases, progs = [], {}
    kinds = {}
    for name, src, prog in DOC_PROGRAMS:
        progs[name] = (prog, src)
    for i in range(n):
        g = semgen.Gen(rng, max_depth=rng.choice([2, 3, 3, 4]))
        prog = g.program()
        progs["g%d" % i] = (prog, semgen.render(prog))
        for k, v in g.stats.items(): kinds[k] = kinds.get(k, 0) + v
    for name, (prog, src) in progs.items():
        cases.append(mk_case("o." + name, "run02", "opt", hexs(src)))
        cases.append(mk_case("n." + name, "run02", "noopt", hexs(src)))
        cases.append(mk_case("m." + name, "sem02", prog))
    impl, culprits = vlib.run_impl_parallel([c for c in cases if c["kind"] == "run02"], procs=12, batch=200, timeout=300)
    model, _ = vlib.run_model([c["line"] for c in cases if c["kind"] == "sem02"], timeout=1800)
    fails, dis = [], []
    stats = {"agree_value": 0, "agree_error": 0, "fuel": 0, "compile_error": 0, "optimizer_refused": 0}
    for c, how in culprits:
        fails.append((c["line"][:4000], "the harness %s on this program" % ("hangs" if how == "hang" else "dies")))
    for name, (prog, src) in progs.items():
        m = model.get("m." + name)
        if m is None or m.startswith("(model-failure"):
            dis.append((src, "no answer from the interpreter: %s" % m)); continue
        if m == "(fuel)":
            stats["fuel"] += 1; continue
        for mode in ("o", "n"):
            r = impl.get("%s.%s" % (mode, name))
            if r is None: continue
            if r.startswith("(compile-error"):
                if "Optimizer" in r and mode == "o": stats["optimizer_refused"] += 1
                else:
                    stats["compile_error"] += 1
                    dis.append((src, "does not compile: %s" % r[:200]))
                continue
            if r.startswith("(panic") or r.startswith("(timeout"):
                fails.append((src, "%s run: %s" % ("optimised" if mode == "o" else "unoptimised", r[:300]))); continue
            if r != m:
                fails.append((src, "%s run returns %s, the documented semantics gives %s" % ("optimised" if mode == "o" else "unoptimised", r[:400], m[:400])))
            elif mode == "n":
                stats["agree_value" if m.startswith("(ok") else "agree_error"] += 1
    expr_compiler_cases(rng, tier, fails, dis, stats)
    stmt_compiler_cases(rng, tier, fails, dis, stats)
    # forms outside the interpreter's fragment with the value the documented rules give (catch identifiers:
    # one variable per execution of the clause, like any declaration)
    loop = 'out := []\nfor f in fns { out = append(out, f()) }\nreturn out\n'
    FIXED = [("catch-var-per-iteration",
              'fns := []\nfor i := 0; i < 3; i++ { try { throw string(i) } catch e { fns = append(fns, func() { return e.Message }) } }\n' + loop,
              "(ok (a (s x30) (s x31) (s x32)))", "D02c", "(ok (a (s x32) (s x32) (s x32)))"),
             ("catch-var-copied-per-iteration",
              'fns := []\nfor i := 0; i < 3; i++ { try { throw string(i) } catch e { j := e.Message; fns = append(fns, func() { return j }) } }\n' + loop,
              "(ok (a (s x30) (s x31) (s x32)))", None, None),
             ("catch-var-in-function-calls",
              'fns := []\nmk := func(i) { try { throw string(i) } catch e { return func() { return e.Message } } }\nfor i := 0; i < 3; i++ { fns = append(fns, mk(i)) }\n' + loop,
              "(ok (a (s x30) (s x31) (s x32)))", None, None)]
    # destructuring from an array that shares its backing store with a longer one (a slice, an array grown by append):
    # the missing elements are undefined, the other array keeps its elements
    FIXED += [("destructure-from-slice", 'arr := [1, 2, 3]\nx, y := arr[:1]\nreturn [x, y, arr]\n', "(ok (a (i 1) (n) (a (i 1) (i 2) (i 3))))", None, None),
              ("destructure-assign-from-slice", 'arr := [1, 2, 3, 4]\nx := 0\ny := 0\nz := 0\nx, y, z = arr[1:2]\nreturn [x, y, z, arr]\n', "(ok (a (i 2) (n) (n) (a (i 1) (i 2) (i 3) (i 4))))", None, None),
              ("destructure-from-appended", 'base := [1, 2, 3, 4]\nshort := append(base[:1], 9)\na, b, c := short\nreturn [a, b, c, base, short]\n', "(ok (a (i 1) (i 9) (n) (a (i 1) (i 9) (i 3) (i 4)) (a (i 1) (i 9))))", None, None),
              ("destructure-in-function", 'f := func(v) { p, q, r := v[:2]; return [p, q, r] }\nw := [5, 6, 7]\nreturn [f(w), w]\n', "(ok (a (a (i 5) (i 6) (n)) (a (i 5) (i 6) (i 7))))", None, None)]
    fcases = [mk_case("k%d.%s" % (i, m), "run02", m, hexs(src)) for i, (_, src, _, _, _) in enumerate(FIXED) for m in ("opt", "noopt")]
    fimpl, _ = vlib.run_impl([c["line"] for c in fcases], timeout=300)
    known = {k["id"] for k in vlib.load_known("C02")}
    for i, (name, src, want, fid, wrong) in enumerate(FIXED):
        for m in ("opt", "noopt"):
            got = fimpl.get("k%d.%s" % (i, m))
            if got == want: continue
            if fid and fid in known and got == wrong:
                rep.known(fid, "a closure made in a catch clause captures the catch identifier; when the clause runs again in the same activation the closure sees the later error (program %s returns [2, 2, 2] for [0, 1, 2])" % name)
                continue
            fails.append((src, "%s (%s run): returns %s, the documented rules give %s" % (name, "optimised" if m == "opt" else "unoptimised", str(got)[:300], want)))
    if stats["compile_error"] > n // 20 or stats["fuel"] > n // 5:
        dis.append(("", "generator health: %d programs do not compile, %d exceed the interpreter's fuel" % (stats["compile_error"], stats["fuel"])))
    for src, why in fails[:10]:
        rep.violation({"property": "C02", "kind": "oracle", "why": why, "source": src, "case": mk_case("replay", "run02", "noopt", hexs(src))["line"]})
    if not fails:
        for src, why in dis[:10]:
            rep.violation({"property": "C02", "kind": "correspondence", "why": why, "source": src}, found=False)
    rep.coverage.update({
        "evaluations": len(cases), "distinct_nontrivial": stats["agree_value"] + stats["agree_error"],
        "rule": "type-directed generated programs over the fragment (logging calls make evaluation order observable; closures over per-iteration and loop variables; counter factories; recursion in tail position, out of it and as a discarded last statement; variadic and spread calls with every count; destructuring with fewer and more elements; const groups with iota; shadowing blocks; index assignment with side-effecting index; break/continue/return in nested loops and functions) run compiled with and without the optimizer and on the Coq interpreter; values compared structurally; non-trivial = programs on which unoptimised, optimised and interpreter agree; expressions over constants, parameters, every binary and unary operator, == / !=, && / ||, ?: with int / bool / undefined / string / float arguments: the real compiler's instruction listing vs the Coq compiler model (byte positions, operands, jump targets), real VM value vs machine model vs source-level evaluation",
        "samples": [progs["g0"][1][:400], progs["g1"][1][:400]],
        "stats": stats, "statement_kinds": kinds, "disagreements": len(dis), "oracle_failures": len(fails)})

def replay(payload, br):
    print(payload.get("why")); print(payload.get("source"))
    line = payload.get("case", "")
    if line.startswith("(case"):
        impl, err = vlib.run_impl([line], timeout=120)
        print(impl, err[-400:])
    return 0
