"""C02: compiled execution follows the documented source-level semantics."""
import vlib, semgen
from vlib import mk_case, hexs

TRUSTED = ["definitional interpreter Sem/Sem.v (extracted), written from the language documentation: left-to-right evaluation, right-hand side before target, block scoping, one cell per executed declaration, closures capturing cells, fixed/variadic/spread binding, destructuring, constants and iota, compound assignment, indexing, loop control; it has no notion of a tail call",
           "generator lib/semgen.py: emits each program both as the interpreter's AST and as uGO source text"]
ASSUMPTIONS = ["the fragment: int/bool/string/undefined values, arrays, closures, var/const/:=/=/op=, index assignment, destructuring, if/for/for-in/break/continue/return, calls with spread; maps, selectors, floats, chars, try/catch, imports and builtins other than len/append are outside the interpreter (their semantics is covered by C15, C03, C12, C19)",
               "append is used linearly (x = append(x, ...)) in generated programs: Go slice aliasing of appended arrays is outside the interpreter",
               "the slot theorem is about the symbol table model, tied to symbol_table.go by the operation-history correspondence of C13 / C10; no theorem relates the compiler's code generation to the interpreter: that relation is decided by differential execution only",
               "recursion depth stays small: the VM's stack limits are the subject of C06"]

DOC_PROGRAMS = [
    # (name, source, expected value in the harness notation); the documented forms, run on both sides
    ("tail-discard", "var f\nf = func(n) { if n == 0 { return 5 }; f(n - 1) }\nreturn f(3)\n",
     [["var", "f", "-"], ["set", "f", ["func", ["n"], "0", [["if", ["bin", "eq", ["v", "n"], ["i", "0"]], [["ret", ["i", "5"]]], []], ["expr", ["call", ["v", "f"], [["bin", "sub", ["v", "n"], ["i", "1"]]], "-"]]]]],
      ["ret", ["call", ["v", "f"], [["i", "3"]], "-"]]]),
    ("tail-return", "var f\nf = func(n, a) { if n == 0 { return a }; return f(n - 1, a + n) }\nreturn f(50, 0)\n",
     [["var", "f", "-"], ["set", "f", ["func", ["n", "a"], "0", [["if", ["bin", "eq", ["v", "n"], ["i", "0"]], [["ret", ["v", "a"]]], []], ["ret", ["call", ["v", "f"], [["bin", "sub", ["v", "n"], ["i", "1"]], ["bin", "add", ["v", "a"], ["v", "n"]]], "-"]]]]],
      ["ret", ["call", ["v", "f"], [["i", "50"], ["i", "0"]], "-"]]]),
]

def run(rep, br, proofs, rng, tier):
    n = 1500 if tier == "quick" else 40000
    cases, progs = [], {}
    kinds = {}
    for name, src, prog in DOC_PROGRAMS:
        progs[name] = (prog, src)
    for i in range(n):
        g = semgen.Gen(rng, max_depth=rng.choice([2, 3, 3, 4]))
        prog = g.program()
        progs["g%d" % i] = (prog, semgen.render(prog))
        for k, v in g.stats.items(): kinds[k] = kinds.get(k, 0) + v
    for name, (prog, src) in progs.items():
        cases.append(mk_case("o." + name, "run02", "opt", hexs(src)))
        cases.append(mk_case("n." + name, "run02", "noopt", hexs(src)))
        cases.append(mk_case("m." + name, "sem02", prog))
    impl, culprits = vlib.run_impl_parallel([c for c in cases if c["kind"] == "run02"], procs=12, batch=200, timeout=300)
    model, _ = vlib.run_model([c["line"] for c in cases if c["kind"] == "sem02"], timeout=1800)
    fails, dis = [], []
    stats = {"agree_value": 0, "agree_error": 0, "fuel": 0, "compile_error": 0, "optimizer_refused": 0}
    for c, how in culprits:
        fails.append((c["line"][:4000], "the harness %s on this program" % ("hangs" if how == "hang" else "dies")))
    for name, (prog, src) in progs.items():
        m = model.get("m." + name)
        if m is None or m.startswith("(model-failure"):
            dis.append((src, "no answer from the interpreter: %s" % m)); continue
        if m == "(fuel)":
            stats["fuel"] += 1; continue
        for mode in ("o", "n"):
            r = impl.get("%s.%s" % (mode, name))
            if r is None: continue
            if r.startswith("(compile-error"):
                if "Optimizer" in r and mode == "o": stats["optimizer_refused"] += 1
                else:
                    stats["compile_error"] += 1
                    dis.append((src, "does not compile: %s" % r[:200]))
                continue
            if r.startswith("(panic") or r.startswith("(timeout"):
                fails.append((src, "%s run: %s" % ("optimised" if mode == "o" else "unoptimised", r[:300]))); continue
            if r != m:
                fails.append((src, "%s run returns %s, the documented semantics gives %s" % ("optimised" if mode == "o" else "unoptimised", r[:400], m[:400])))
            elif mode == "n":
                stats["agree_value" if m.startswith("(ok") else "agree_error"] += 1
    if stats["compile_error"] > n // 20 or stats["fuel"] > n // 5:
        dis.append(("", "generator health: %d programs do not compile, %d exceed the interpreter's fuel" % (stats["compile_error"], stats["fuel"])))
    for src, why in fails[:10]:
        rep.violation({"property": "C02", "kind": "oracle", "why": why, "source": src, "case": mk_case("replay", "run02", "noopt", hexs(src))["line"]})
    if not fails:
        for src, why in dis[:10]:
            rep.violation({"property": "C02", "kind": "correspondence", "why": why, "source": src}, found=False)
    rep.coverage.update({
        "evaluations": len(cases), "distinct_nontrivial": stats["agree_value"] + stats["agree_error"],
        "rule": "type-directed generated programs over the fragment (logging calls make evaluation order observable; closures over per-iteration and loop variables; counter factories; recursion in tail position, out of it and as a discarded last statement; variadic and spread calls with every count; destructuring with fewer and more elements; const groups with iota; shadowing blocks; index assignment with side-effecting index; break/continue/return in nested loops and functions) run compiled with and without the optimizer and on the Coq interpreter; values compared structurally; non-trivial = programs on which unoptimised, optimised and interpreter agree",
        "samples": [progs["g0"][1][:400], progs["g1"][1][:400]],
        "stats": stats, "statement_kinds": kinds, "disagreements": len(dis), "oracle_failures": len(fails)})

def replay(payload, br):
    print(payload.get("why")); print(payload.get("source"))
    line = payload.get("case", "")
    if line.startswith("(case"):
        impl, err = vlib.run_impl([line], timeout=120)
        print(impl, err[-400:])
    return 0
