"""C15: operators obey their algebraic laws and the documented numeric semantics."""
import vlib, struct
from vlib import mk_case, hexs

TRUSTED = ["correspondence harness /verif/harness (Go) and extracted model /verif/ocaml/ugom (ExtrOcamlBasic only)",
           "SpecFloat (Coq.Floats) as the definition of IEEE-754 binary64 arithmetic"]
ASSUMPTIONS = ["string + float/container uses Go library formatting and is inconclusive in the correspondence",
               "NaN payload bits are not observable (canonical NaN)"]

def f(x): return "%016x" % struct.unpack(">Q", struct.pack(">d", x))[0]

def pool():
    P = []
    for z in [0, 1, -1, 2, -2, 31, 32, 33, 63, 64, 65, 97, 2**31-1, -2**31, 2**31, 2**32, 2**53, 2**53+1, 2**63-1, -2**63, -2**63+1]:
        P.append(["i", str(z)])
    for z in [0, 1, 2, 63, 64, 97, 2**32, 2**53+1, 2**63-1, 2**63, 2**64-1]:
        P.append(["u", str(z)])
    for x in [0.0, -0.0, 1.0, -1.0, 0.5, 1.5, -1.5, 97.0, float("inf"), float("-inf"), 2.0**53, 2.0**53+2, 2.0**63, 2.0**64, -2.0**63, 1e308, 5e-324, 1e-300, 3.0, 0.1]:
        P.append(["f", f(x)])
    P.append(["f", "7ff8000000000001"])
    for z in [0, 1, -1, 63, 97, 0x10FFFF, 2**31-1, -2**31, 0xD800, 233]:
        P.append(["c", str(z)])
    P += [["b", "0"], ["b", "1"], ["n"]]
    for s in [b"", b"a", b"b", b"ab", b"\xff", "é".encode()]:
        P.append(["s", hexs(s)]); P.append(["y", hexs(s)])
    one = [["i", "1"], ["u", "1"], ["f", f(1.0)], ["c", "1"], ["b", "1"]]
    P.append(["a"])
    for o in one: P.append(["a", o])
    P += [["a", ["a", ["i", "1"]], ["m", [hexs(b"a"), ["i", "1"]]]], ["a", ["f", "7ff8000000000001"]], ["a", ["n"]], ["a", ["i", "1"], ["i", "2"]]]
    P.append(["m"])
    for o in one: P.append(["m", [hexs(b"a"), o]])
    P += [["m", [hexs(b"a"), ["a", ["i", "1"]]]], ["m", [hexs(b"a"), ["i", "1"]], [hexs(b"b"), ["i", "2"]]],
          ["m", [hexs(b"a"), ["f", "7ff8000000000001"]]], ["m", [hexs(b"b"), ["i", "1"]]]]
    # maps of equal size whose key sets differ, the keys of one side holding undefined (a missing key reads as undefined)
    P += [["m", [hexs(b"a"), ["n"]]], ["m", [hexs(b"b"), ["n"]]], ["m", [hexs(b"x"), ["n"]], [hexs(b"y"), ["i", "1"]]], ["m", [hexs(b"z"), ["i", "2"]], [hexs(b"y"), ["f", f(1.0)]]],
          ["a", ["m", [hexs(b"a"), ["n"]]]], ["a", ["m", [hexs(b"b"), ["n"]]]]]
    P += [["sm"], ["sm", [hexs(b"a"), ["i", "1"]]], ["sm", [hexs(b"a"), ["u", "1"]], ], ["sm", [hexs(b"a"), ["n"]]], ["sm", [hexs(b"b"), ["n"]]]]
    P += [["e", "1", hexs(b"E"), hexs(b"m")], ["e", "2", hexs(b"E"), hexs(b"m")],
          ["re", "1", "1", hexs(b"E"), hexs(b"m")], ["re", "2", "1", hexs(b"E"), hexs(b"m")], ["re", "3", "2", hexs(b"E"), hexs(b"m")]]
    P += [["fn", hexs(b"f1")], ["fn", hexs(b"f2")]]
    return P

BINOPS = ["add", "sub", "mul", "quo", "rem", "and", "or", "xor", "andnot", "shl", "shr", "lt", "le", "gt", "ge"]
UNOPS = ["not", "sub", "xor", "add"]
NUM = {"i", "u", "f", "c", "b"}

def is_nan(v): return v[0] == "f" and v[1] == "7ff8000000000001"

def run(rep, br, proofs, rng, tier):
    P = pool()
    if tier == "thorough":
        # widen the pool with random 64-bit patterns
        for _ in range(40):
            P.append(["i", str(rng.randrange(-2**63, 2**63))]); P.append(["u", str(rng.randrange(0, 2**64))])
            b = rng.randrange(0, 2**64)
            if (b >> 52) & 0x7ff == 0x7ff and b & (2**52-1): b = 0x7ff8000000000001
            P.append(["f", "%016x" % b]); P.append(["c", str(rng.randrange(-2**31, 2**31))])
    else:
        for _ in range(6):
            P.append(["i", str(rng.randrange(-2**63, 2**63))]); P.append(["u", str(rng.randrange(0, 2**64))])
            b = rng.randrange(0, 2**64)
            if (b >> 52) & 0x7ff == 0x7ff and b & (2**52-1): b = 0x7ff8000000000001
            P.append(["f", "%016x" % b]); P.append(["c", str(rng.randrange(-2**31, 2**31))])
    cases = vlib.load_corpus("C15")
    n = len(P)
    for i in range(n):
        for j in range(n):
            a, b = P[i], P[j]
            for t in BINOPS:
                cases.append(mk_case("v.%s.%d.%d" % (t, i, j), "vmbinop", t, a, b))
            cases.append(mk_case("v.eq.%d.%d" % (i, j), "vmequal", a, b))
            cases.append(mk_case("v.ne.%d.%d" % (i, j), "vmnequal", a, b))
            if rng.random() < 0.05:
                for t in BINOPS:
                    cases.append(mk_case("d.%s.%d.%d" % (t, i, j), "binop", t, a, b))
                cases.append(mk_case("d.eq.%d.%d" % (i, j), "equal", a, b))
    for i in range(n):
        for t in UNOPS:
            cases.append(mk_case("v.u%s.%d" % (t, i), "vmunop", t, P[i]))
    # the same operations with the operands written as literals (the optimizer folds them)
    lit_cases = []
    for i in range(n):
        for j in range(n):
            if P[i][0] in ("i", "u", "f", "c", "b", "s", "n") and P[j][0] in ("i", "u", "f", "c", "b", "s", "n"):
                for t in BINOPS + ["==", "!="]:
                    lit_cases.append(mk_case("l.%s.%d.%d" % ({"==": "eq", "!=": "ne"}.get(t, t), i, j), "litbinop", t, P[i], P[j]))
    lit_impl, _ = vlib.run_impl([c["line"] for c in lit_cases], timeout=3000)
    def canon(c, out):
        return out
    impl, model, dis = vlib.correspond(cases, canon=canon, timeout=3000)
    inconclusive = 0
    real_dis = []
    for c in dis:
        if c["model"] is not None and "696e636f6e636c7573697665" in c["model"]:
            inconclusive += 1
        else:
            real_dis.append(c)
    # ---- property oracle: laws on the implementation's own answers
    fails = []
    def ans(t, i, j): return impl.get("v.%s.%d.%d" % (t, i, j))
    def okb(s):
        if s == "(ok (b 1))": return True
        if s == "(ok (b 0))": return False
        return None
    law_pairs = 0
    for c in cases:
        out = c["impl"]
        if out is None: fails.append((c["line"], "no output")); continue
        if out.startswith("(panic"): fails.append((c["line"], "Go panic instead of an error value: " + out))
    for i in range(n):
        for j in range(n):
            eq, eqr, ne = ans("eq", i, j), ans("eq", j, i), ans("ne", i, j)
            if eq != eqr: fails.append(("(pair %s %s)" % (vlib.sexp_str(P[i]), vlib.sexp_str(P[j])), "a == b is %s but b == a is %s" % (eq, eqr)))
            if {eq, ne} != {"(b 0)", "(b 1)"}: fails.append(("(pair %s %s)" % (vlib.sexp_str(P[i]), vlib.sexp_str(P[j])), "a != b is not the negation of a == b"))
            rel = [okb(ans(t, i, j)) for t in ("lt", "le", "gt", "ge")] + [okb(ans(t, j, i)) for t in ("lt", "le", "gt", "ge")]
            if None in rel: continue
            law_pairs += 1
            lt, le, gt, ge, rlt, rle, rgt, rge = rel
            e = eq == "(b 1)"
            pair = "(pair %s %s)" % (vlib.sexp_str(P[i]), vlib.sexp_str(P[j]))
            # (exactly one of <, ==, > holds - NaN aside; the other laws hold for NaN as well)
            if not (is_nan(P[i]) or is_nan(P[j])) and [lt, e, gt].count(True) != 1: fails.append((pair, "not exactly one of a<b, a==b, a>b: %s %s %s" % (lt, e, gt)))
            if le != (lt or e): fails.append((pair, "a<=b differs from a<b or a==b"))
            if ge != (gt or e): fails.append((pair, "a>=b differs from a>b or a==b"))
            if lt != rgt: fails.append((pair, "a<b differs from b>a"))
    # literal operands (constant folding) must give what the same operator gives on run-time operands
    lit_compared = 0
    for c in lit_cases:
        out = lit_impl.get(c["id"])
        if out is None or out == "(noliteral)": continue
        ref = impl.get("v" + c["id"][1:])
        if ref is None: continue
        if c["id"].startswith(("l.eq.", "l.ne.")): ref = "(ok %s)" % ref
        if ref.startswith("(err"): ref = "(err %s)" % vlib.parse_sexp(ref)[1]
        if "(f 7ff8" in out and "(f 7ff8" in ref: ref = out   # NaN payloads are not observable
        lit_compared += 1
        if out != ref:
            fails.append((c["line"], "with literal operands the script gives %s, the same operator on run-time operands gives %s" % (out[:200], ref[:200])))
    # results are values: using an operand again does not change an earlier result
    pur = []
    small = []
    for ty in ("y", "s", "a", "i", "c", "u", "m"):
        small += [v for v in P if v[0] == ty][:7]
    for i, a in enumerate(P):
        if a[0] not in ("y", "a", "s"): continue
        for j, p_ in enumerate(small):
            for k, q in enumerate(small[::3]):
                pur.append(mk_case("p.%d.%d.%d" % (i, j, k), "purity", a, p_, q))
    pur_impl, _ = vlib.run_impl([c["line"] for c in pur], timeout=3000)
    for c in pur:
        out = pur_impl.get(c["id"])
        if out is None: continue
        sx = vlib.parse_sexp(out)
        if vlib.sexp_str(sx[1]) != vlib.sexp_str(sx[2]):
            fails.append((c["line"], "b := a + p gives %s, but after c := a + q the same b reads %s" % (vlib.sexp_str(sx[1])[:200], vlib.sexp_str(sx[2])[:200])))
    # error kinds on numeric operands
    for c in cases:
        if c["kind"] == "vmbinop" and c["args"][1][0] in NUM and c["args"][2][0] in NUM and c["impl"] and c["impl"].startswith("(err"):
            name = vlib.unhex(vlib.parse_sexp(c["impl"])[1]).decode()
            if name not in ("TypeError", "ZeroDivisionError"):
                fails.append((c["line"], "undefined numeric operation raised " + name))
    for where, why in fails[:10]:
        rep.violation({"property": "C15", "kind": "oracle", "why": why, "case": where})
    if not fails:
        for c in real_dis[:10]:
            rep.violation({"property": "C15", "kind": "correspondence",
                           "why": "model (Value/Ops.v) and implementation disagree; the operator laws hold on every pool pair, so no failing input for the laws was found; the arithmetic theorems no longer apply to this operator arm",
                           "case": c["line"], "impl": c["impl"], "model": c["model"]}, found=False)
    nt = 0
    for c in cases:
        if c["impl"] and not (c["impl"].startswith("(err") and "756e737570706f72746564" in c["impl"]):
            nt += 1
    rep.coverage.update({
        "evaluations": len(cases), "distinct_nontrivial": nt,
        "rule": "exhaustive over pool x pool x (15 binary operators, ==, !=) through compiled scripts on a VM, plus unary operators and a 5% sample through direct method calls; every scalar pair also with the operands written as literals and compiled with the optimizer (constant folding); for bytes, array and string left operands, b := a + p is compared before and after a further a + q (results do not share storage); pool = boundary values of every builtin type + seeded random 64-bit patterns; non-trivial = the operation is not rejected as a plain unsupported-operand TypeError",
        "samples": [cases[0]["line"], cases[len(cases)//3]["line"], cases[-1]["line"]],
        "pool_size": n, "law_pairs_checked": law_pairs, "exhaustive": True, "literal_operand_cases_compared": lit_compared, "purity_cases": len(pur),
        "disagreements": len(real_dis), "inconclusive": inconclusive, "oracle_failures": len(fails),
    })

def replay(payload, br):
    line = payload.get("case", "")
    if not line.startswith("(case"):
        print("replay:", payload.get("why"), line); return 1
    impl, _ = vlib.run_impl([line]); model, _ = vlib.run_model([line])
    print("impl :", impl); print("model:", model)
    return 0 if impl == model else 1
