"""C10: evaluating fragments one by one equals evaluating them as one script."""
import vlib, proggen
from vlib import mk_case, hexs

TRUSTED = ["harness: Eval session vs fresh VM per prefix; errors compared by name and message (fragment line numbers restart)"]
ASSUMPTIONS = ["fragments are cut at top-level statement boundaries; a fragment may end with `return <expr>` (its value)",
               "a bare `{ ... }` at statement start is never generated (the parser reads it as a map literal)"]

MODS = ["cnt := 0\nreturn {next: func() { cnt += 1; return cnt }, k: 10}\n",
        "cnt := 100\nreturn {next: func() { cnt += 2; return cnt }, k: 20}\n"]

HAND = [
 (["a := 5\nf := func() { a += 1; return a }", "return f()", "a = 100\nprintln(a)", "return f() + a"], "return [a, f()]"),
 (["const (\n  x = iota\n  y\n  z\n)", "return [x, y, z]", "const w = x + 10\nv := w * 2", "return v"], "return [x, y, z, w, v]"),
 (["if true { t1 := 1; t2 := 2; t3 := t1 + t2 }\nq := 7", "r := 8\nif true { s1 := q + r }", "return q + r"], "return [q, r]"),
 (["m := import(\"m1\")\nn1 := m.next()", "m2 := import(\"m1\")\nreturn m2.next()", "return m.next()"], "return [m.k, n1]"),
 (["fs := []\nfor i := 0; i < 3; i++ { j := i; fs = append(fs, func() { j += 10; return j }) }", "return fs[0]()", "return [fs[0](), fs[2]()]"], "return [fs[1]()]"),
 (["x, y := [1, 2]", "x, y = [y, x]\nreturn [x, y]", "try { throw \"e\" } catch err { x = 50 } finally { y = 60 }"], "return [x, y]"),
 (["global g0\ng0 = 5", "g0 += 1\nreturn g0", "h := func() { g0 *= 2; return g0 }\nreturn h()"], "return g0"),
 (["len := func(a) { return 99 }", "return len([1, 2])", "string := 5\nreturn string + len(0)"], "return [len(1), string]"),
 (["a := 1", "b := a / 0", "c := 3"], "return [a]"),
 (["param (p, ...q)", "return [p, q]"], "return [p, q]"),
 # module state survives a later fragment that imports another module for the first time
 (["c := import(\"m1\")\nc.k = 5\nn0 := c.next()", "d := import(\"m2\")\nreturn d.k", "return [import(\"m1\").k, import(\"m1\").next(), c.next()]"], "return [c.k, d.k]"),
 (["return import(\"m2\").next()", "e := import(\"m1\")\ne.k += 1\\nreturn e.k", "return [import(\"m2\").next(), import(\"m1\").k]"], "return e.k"),
 # float constants across fragments
 (["a := -0.0", "b := 0.0", "return [string(a), string(b)]"], "return [string(a), string(b), string(0.0), string(-0.0)]"),
 (["a := 0.0", "b := -0.0\nc := 1.5", "return [string(a), string(b), c]"], "return [string(a), string(b)]"),
 # parameters declared by the first fragment and locals declared later
 (["param (p, ...q)", "c := 1\nreturn [p, q, c]", "d := [c]\nreturn [p, q, d]"], "return [p, q, c, d]"),
 (["param (p, q)\nw := 7", "return [p, q, w]"], "return [p, q, w]"),
 (["param (p, ...q)\nc := 1\nreturn [p, q, c]", "return [p, q, c]"], "return [p, q, c]"),
 (["param (...q)\nc := 1", "return [q, c]"], "return [q, c]"),
 # a literal constant of an earlier fragment, and the same name bound again in a nested scope of a later fragment
 (["const a = 5", "f := func(a) { return a * 2 }", "return f(10)"], "return [a, f(1)]"),
 (["const a = 5\nconst b = \"s\"", "s := 0\nfor a in [1, 2] { s += a }\nreturn s", "g := func() { b := 3; return b + 1 }\nreturn [g(), a + 1]"], "return [a, b, s, g()]"),
 (["const (\n  k0 = iota\n  k1\n)", "h := func(k1, ...k0) { return [k1 + 1, k0] }\nreturn h(7, 8)", "return [k0, k1, -k1]"], "return [k0, k1, h(1)]"),
 # function literals with the same text are different functions, in one script as in two fragments
 (["f := func(a) { return a + 1 }", "g := func(a) { return a + 1 }", "return [f == g, f != g, [f] == [g], f(1), g(2)]"], "return [f == g, {k: f} == {k: g}]"),
 (["f := func(a) { return a + 1 }\ng := func(a) { return a + 1 }", "h := func(a) { return a + 1 }\nreturn [f == g, f == h, g != h]"], "return [f == g, f == h, f == f]"),
 (["fs := [func() { return 1 }, func() { return 1 }]", "gs := [func() { return 1 }]\nreturn [fs[0] == fs[1], fs[0] == gs[0], fs == gs]"], "return [fs[0] == fs[1], fs[1] == gs[0]]"),
 # the host's arguments wait for a param statement of a later fragment (no variable declared before it)
 (["return 1 + 1", "param (p, q)\nreturn [p, q]", "return q"], "return [p, q]"),
 (["const k = 2\nglobal g0", "return k + 1", "param (p, ...q)", "w := [p, q]\nreturn w"], "return [p, q, w, k]"),
 (["println(1)", "param p", "param_used := p\nreturn p"], "return [p, param_used]"),
 # a param statement after variables exist (in the same or an earlier fragment)
 (["x := 1", "param ...v", "return x"], "return [x]"),
 (["x := 1\ny := 2", "param (a, ...v)", "return [x, y]"], "return [x, y]"),
 (["x := 1\nparam (a, b)", "return [x, a, b]"], "return [x]"),
]

FOLDABLE = [("len", 'len("abc")'), ("int", 'int("2")'), ("uint", 'uint("2")'), ("char", "char(65)"), ("float", 'float("1.5")'),
            ("string", "string(65)"), ("bool", "bool(0)"), ("bytes", 'bytes("a")'), ("contains", 'contains("abc", "b")'),
            ("typeName", "typeName(1)"), ("sprintf", 'sprintf("%d", 1)'), ("isInt", "isInt(1)"), ("error", 'error("x")'), ("isError", "isError(1)")]

def shadow_sessions(rng, tier):
    """a builtin name bound by every top-level binding form in one fragment and used - called on
    constant arguments, at top level and inside a function literal, and read as a value - in a
    later fragment: the name must keep the meaning the earlier fragment gave it"""
    out = []
    binds = ["%s := 5", "var %s = 5", "var %s", "const %s = 5", "const (\n  a0 = iota\n  %s\n)", "const k0 = 7\nconst %s = k0",
             "const %s = 2 + 3", "const %s = \"s\" + \"t\"", "global %s", "%s := func(...a) { return [\"mine\", a] }", "x0, %s := [1, 2]",
             "const (\n  %s = iota\n  b0\n)", "param %s"]
    names = FOLDABLE if tier != "quick" else rng.sample(FOLDABLE, 6)
    for name, call in names:
        for b in binds:
            bind = b % name
            uses = ["return %s" % call, "f9 := func() { return %s }\nreturn f9()" % call, "return [%s]" % name,
                    "y9 := %s\nreturn y9" % call]
            for u in uses:
                frags = [bind, u] if rng.randrange(2) else [bind, "z9 := 1", u]
                if not bind.startswith("param") and rng.randrange(3) == 0: frags = ["w9 := 0"] + frags
                out.append((frags, "return 0"))
    return out

def run(rep, br, proofs, rng, tier):
    n = 250 if tier == "quick" else 5000
    cases, fcases = [], []
    for i, (frags, probe) in enumerate(shadow_sessions(rng, tier)):
        for opt in ("opt", "noopt"):
            c = mk_case("s%d.%s" % (i, opt), "evalseq", opt, ["frags"] + [hexs(f.encode()) for f in frags], hexs(probe.encode()), *[hexs(m.encode()) for m in MODS])
            c["frags"], c["probe"] = frags, probe; cases.append(c)
    for i, (frags, probe) in enumerate(HAND):
        for opt in ("opt", "noopt"):
            c = mk_case("h%d.%s" % (i, opt), "evalseq", opt, ["frags"] + [hexs(f.encode()) for f in frags], hexs(probe.encode()), *[hexs(m.encode()) for m in MODS])
            c["frags"], c["probe"] = frags, probe; cases.append(c)
    g = proggen.Gen(rng, max_depth=2, modules=("m1", "m2"))
    for i in range(n):
        chunks, names, fns = g.program_stmts()
        # stateful use of modules, spread over the fragments
        for _ in range(rng.randrange(0, 5)):
            mname = rng.choice(["m1", "m2"])
            st = rng.choice(["out = append(out, import(\"%s\").next())" % mname, "out = append(out, import(\"%s\").k)" % mname,
                             "if true { mm := import(\"%s\"); mm.k = mm.k + %d }" % (mname, rng.randrange(1, 9)),
                             "out = append(out, func() { return import(\"%s\").next() }())" % mname])
            chunks.insert(rng.randrange(1, len(chunks) + 1), st)
        # cut into consecutive fragments
        cuts = sorted(set(rng.sample(range(1, len(chunks)), min(len(chunks) - 1, rng.randrange(1, 5))))) if len(chunks) > 1 else []
        import re
        frags, prev, declared = [], 0, []
        for cp in cuts + [len(chunks)]:
            body = "\n".join(chunks[prev:cp])
            for ch in chunks[prev:cp]:
                m = re.match(r"^([vfm]\d+) :=", ch)
                if m: declared.append(m.group(1))
            prev = cp
            if rng.random() < .5:
                body += "\nreturn %s" % rng.choice(declared + ["out", "len(out)"])
            frags.append(body)
        names = [x for x in names if x in declared and not x.startswith("m")]
        declared = [x for x in declared if not x.startswith("m")]
        probe = "return [%s]" % ", ".join(["out"] + names)
        c = mk_case("g%d" % i, "evalseq", rng.choice(["opt", "noopt"]), ["frags"] + [hexs(f.encode()) for f in frags], hexs(probe.encode()), *[hexs(m.encode()) for m in MODS])
        c["frags"], c["probe"] = frags, probe; cases.append(c)
        # the same session with a failing statement appended to its last fragment: the state kept after the failure
        if i % 2 == 0:
            fail = rng.choice(['throw "boom"', "[][1]", "out = append(out, 1 / (len(out) - len(out)))", "out[len(out) + 1] = 0"])
            fs = mk_case("f%d" % i, "evalfailstate", rng.choice(["opt", "noopt"]), ["frags"] + [hexs(x.encode()) for x in frags], hexs(fail.encode()), hexs(probe.encode()), *[hexs(m.encode()) for m in MODS])
            fs["frags"], fs["probe"], fs["fail"] = frags, probe, fail; fcases.append(fs)
    for j, (frags, fail, probe) in enumerate([(["x := 1", "x = 2\ny := 3"], 'throw "boom"', "return [x, y]"),
                                              (["a := [1]\nb := 5", "b = 6\na = append(a, b)\nc := a"], "[][1]", "return [a, b, c]"),
                                              (["param (p, q)\nw := p", "w = 9\nq = 8"], "w = q / (p - p)", "return [p, q, w]")]):
        fs = mk_case("fh%d" % j, "evalfailstate", "opt", ["frags"] + [hexs(x.encode()) for x in frags], hexs(fail.encode()), hexs(probe.encode()), *[hexs(m.encode()) for m in MODS])
        fs["frags"], fs["probe"], fs["fail"] = frags, probe, fail; fcases.append(fs)
    fimpl, _ = vlib.run_impl([c["line"] for c in fcases], timeout=3000)
    impl, _ = vlib.run_impl([c["line"] for c in cases], timeout=3000)
    fails, compared, nfrag = [], 0, 0
    for c in cases:
        out = impl.get(c["id"])
        if out is None: fails.append((c, "no output")); continue
        sx = vlib.parse_sexp(out)
        ev, ba = sx[1][1:], sx[2][1:]
        prev_out = b""
        if len(ev) != len(ba): fails.append((c, "different number of fragment results")); continue
        for k, (e, b) in enumerate(zip(ev, ba)):
            is_probe = e[0] == "probe"
            if is_probe: e, b = e[1], b[1]
            nfrag += 1
            eres, bres = vlib.sexp_str(e[0]), vlib.sexp_str(b[0])
            if "timeout" in eres or "timeout" in bres: break
            if b[0][0] == "compile-panic": fails.append((c, "batch compile panicked")); break
            # errors: the batch side wraps compile errors the same way; compare name+message
            if eres != bres:
                fails.append((c, "fragment %d: session gives %s, the concatenated script gives %s" % (k, eres[:300], bres[:300]))); break
            eo, bo = vlib.unhex(e[1]), vlib.unhex(b[1])
            if e[0][0] == "err":
                compared += 1; break
            if not is_probe:
                if bo != prev_out + eo:
                    fails.append((c, "fragment %d: printed output differs: session %r, batch adds %r" % (k, eo, bo[len(prev_out):]))); break
                prev_out = bo
            compared += 1
    fstate = 0
    for c in fcases:
        out = fimpl.get(c["id"])
        if out is None: fails.append((c, "no output")); continue
        if not out.startswith("(evalfailstate"):
            c["frags"] = c["frags"][:-1] + [c["frags"][-1] + "\n" + c["fail"]]
            fails.append((c, "the session with a failing last fragment: %s" % out[:300])); continue
        sx = vlib.parse_sexp(out)
        wf, wo, ba = vlib.sexp_str(sx[1]), vlib.sexp_str(sx[2]), vlib.sexp_str(sx[3])
        if wf.startswith("(skip") or wo.startswith("(skip") or "timeout" in wf + wo + ba: continue
        fstate += 1
        c["frags"] = c["frags"][:-1] + [c["frags"][-1] + "\n" + c["fail"]]
        if wf != wo:
            fails.append((c, "after the last fragment failed at its last statement (%s) the session's variables are %s; the statements before it ran, and without the failing statement they leave %s" % (c["fail"], wf[:300], wo[:300])))
        elif not ba.startswith("(skip") and wo != ba:
            fails.append((c, "session state %s differs from the concatenated script %s" % (wo[:300], ba[:300])))
    for c, why in fails[:10]:
        rep.violation({"property": "C10", "kind": "oracle", "why": why, "case": c["line"][:2000], "script": "\n//CUT\n".join(c["frags"]) + "\n//PROBE\n" + c["probe"]})
    rep.coverage.update({
        "evaluations": len(cases), "distinct_nontrivial": compared,
        "rule": "hand-made sessions (closure capture across a cut, const/iota groups, slot reuse after blocks, imports, per-iteration closures, destructuring, try, globals, shadowed builtins, a failing fragment, params), sessions binding a builtin name by every top-level binding form (:=, var, const literal / iota / alias / folded expression, global, function value, destructuring, param) and using it in a later fragment (called on constant arguments at top level and in a function literal, read as a value) and generated top-level statement lists cut at 1-4 random statement boundaries, fragments optionally ending in `return <expr>`; each fragment's value or error (name, message) and printed output in one Eval session is compared with the concatenation of the fragments so far run as one script on a fresh VM, and a probe fragment returning every declared name is compared at the end; half of the generated sessions are repeated with a statement that fails at run time appended to the last fragment (throw, index errors, division by zero), and the probe run after the failure must return the state the statements before it left; non-trivial = fragment results compared",
        "samples": ["\n//CUT\n".join(cases[0]["frags"]), "\n//CUT\n".join(cases[len(HAND)*2]["frags"])],
        "sessions": len(cases), "fragment_results_compared": compared, "oracle_failures": len(fails)})

def replay(payload, br):
    print(payload.get("why")); print(payload.get("script") or "")
    line = payload.get("case", "")
    if line.startswith("(case"):
        impl, _ = vlib.run_impl([line]); print("impl:", impl)
    return 1
