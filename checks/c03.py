"""C03: finally runs exactly once on every exit path and the pending outcome survives it."""
import vlib, functools, itertools
from vlib import mk_case

TRUSTED = ["correspondence harness (skeleton -> uGO script renderer in /verif/harness/c03.go) and extracted model ugom"]
ASSUMPTIONS = ["skeletons abstract scripts to their control structure; log/throw atoms are integers",
               "the spec SkelSem is written from docs/error-handling.md"]

ATOMS = [["log", "0"], ["break"], ["continue"], ["ret", "0"], ["throw", "0"], ["fail"]]

@functools.lru_cache(maxsize=None)
def stmts(n, inloop, calls):
    """all statements with exactly n nodes (as tuples)"""
    out = []
    if n == 1:
        for a in ATOMS:
            if a[0] in ("break", "continue") and not inloop: continue
            out.append(tuple(a))
        if calls: out.append(("call", "0"))
        return tuple(out)
    # loop
    for b in blocks(n - 1, True, calls):
        if len(b) > 0: out.append(("loop",) + b)
    # try: 1 + body + (catch: 1 + cb)? + (fin: 1 + fb)?
    for nb in range(0, n):
        rest = n - 1 - nb
        for body in blocks(nb, inloop, calls):
            # catch only
            if rest >= 1:
                for cb in blocks(rest - 1, inloop, calls):
                    for named in ("0", "1"):
                        out.append(("try", ("body",) + body, ("catch", named) + cb, ("nofin",)))
                for fb in blocks(rest - 1, inloop, calls):
                    out.append(("try", ("body",) + body, ("nocatch",), ("fin",) + fb))
            if rest >= 2:
                for nc in range(0, rest - 1):
                    nf = rest - 2 - nc
                    for cb in blocks(nc, inloop, calls):
                        for fb in blocks(nf, inloop, calls):
                            for named in ("0", "1"):
                                out.append(("try", ("body",) + body, ("catch", named) + cb, ("fin",) + fb))
    return tuple(out)

@functools.lru_cache(maxsize=None)
def blocks(n, inloop, calls):
    """statement lists of total size n, length <= 2"""
    if n == 0: return ((),)
    out = []
    for s in stmts(n, inloop, calls): out.append((s,))
    for k in range(1, n):
        for a in stmts(k, inloop, calls):
            for b in stmts(n - k, inloop, calls):
                out.append((a, b))
    return tuple(out)

def tolist(t):
    return [tolist(x) if isinstance(x, tuple) else x for x in t]

def renumber(prog):
    """give every log / ret / throw atom its own number so order and multiplicity are visible"""
    ctr = [0]
    def go(x):
        if isinstance(x, list):
            if x and x[0] in ("log", "ret", "throw") and len(x) == 2:
                ctr[0] += 1; return [x[0], str(ctr[0])]
            return [go(y) for y in x]
        return x
    return go(prog)

H = [("try", ("body",), ("nocatch",), ("fin",)),
     ("try", ("body", ("throw", "0")), ("catch", "0"), ("nofin",)),
     ("try", ("body", ("log", "0")), ("catch", "1"), ("fin", ("log", "0"))),
     ("loop", ("try", ("body", ("continue",)), ("nocatch",), ("fin",)))]

def contexts(s, hist_depth):
    """programs placing statement s (not in a loop) after histories and inside calls"""
    yield [("fn", s)]
    yield [("fn", s, ("log", "0"))]
    for h in H:
        yield [("fn", h, s, ("log", "0"))]
    if hist_depth >= 2:
        for h1 in H[:3]:
            for h2 in H[:2]:
                yield [("fn", h1, h2, s)]
    yield [("fn", s), ("fn", ("call", "0"), ("log", "0"))]
    yield [("fn", s), ("fn", ("try", ("body", ("call", "0")), ("catch", "1"), ("fin", ("log", "0"))), ("log", "0"))]
    yield [("fn", H[0], s), ("fn", H[1], ("try", ("body", ("call", "0")), ("nocatch",), ("fin", ("log", "0"))))]

def contexts_loop(s):
    yield [("fn", ("loop", s))]
    yield [("fn", H[0], ("loop", s, ("log", "0")), ("log", "0"))]
    yield [("fn", ("try", ("body", ("loop", s)), ("nocatch",), ("fin", ("log", "0"))), ("log", "0"))]
    yield [("fn", H[2], ("loop", ("try", ("body", s), ("nocatch",), ("fin", ("log", "0")))))]

def nontrivial(prog_sexp, out):
    """has a try statement and a non-normal exit somewhere"""
    txt = vlib.sexp_str(prog_sexp)
    return "(try" in txt and any(k in txt for k in ("(break)", "(continue)", "(ret", "(throw", "(fail)"))

def run(rep, br, proofs, rng, tier):
    maxn = 4 if tier == "quick" else 5
    progs = []
    for n in range(1, maxn + 1):
        for s in stmts(n, False, False):
            for p in contexts(s, 2 if n <= 3 else 1): progs.append(p)
        if n <= maxn - 1:
            for s in stmts(n, True, False):
                if "break" in str(s) or "continue" in str(s):
                    for p in contexts_loop(s): progs.append(p)
    # loops one node larger than the exhaustive bound whose body leaves a try statement by
    # break/continue, after every kind of completed try statement
    for s in stmts(maxn, True, False):
        if ("break" in str(s) or "continue" in str(s)) and "try" in str(s):
            for h in H:
                progs.append([("fn", h, ("loop", s), ("log", "0"))])
    # statements containing calls of f0, for several callee behaviours
    callees = [("fn", ("throw", "0")), ("fn", ("ret", "0")), ("fn", ("log", "0")), ("fn", ("fail",)),
               ("fn", ("try", ("body", ("throw", "0")), ("nocatch",), ("fin", ("log", "0")))),
               ("fn", ("try", ("body", ("ret", "0")), ("nocatch",), ("fin", ("log", "0"))))]
    for n in range(2, maxn + 1):
        for s in stmts(n, False, True):
            if "call" not in str(s): continue
            for cal in callees:
                progs.append([cal, ("fn", s, ("log", "0"))])
                if n <= maxn - 1:
                    progs.append([cal, ("fn", H[0], ("try", ("body", s), ("catch", "1"), ("fin", ("log", "0"))), ("log", "0"))])
        if n <= maxn - 1:
            for s in stmts(n, True, True):
                if "call" in str(s) and ("break" in str(s) or "continue" in str(s)):
                    for cal in callees[:2]:
                        progs.append([cal, ("fn", ("loop", s), ("log", "0"))])
    # try statements inside the catch and finally blocks of try statements (7-10 nodes, beyond the exhaustive bound):
    # every way of leaving the outer body x every way of leaving the inner body x every shape of the inner statement
    # x the block it sits in
    inner_shapes = lambda y: [("try", ("body", y), ("catch", "0"), ("nofin",)), ("try", ("body", y), ("catch", "1"), ("nofin",)),
                              ("try", ("body", y), ("nocatch",), ("fin", ("log", "0"))), ("try", ("body", y), ("catch", "1", ("log", "0")), ("fin", ("log", "0")))]
    for X in (("ret", "0"), ("throw", "0"), ("fail",), ("log", "0"), ("break",), ("continue",)):
        for Y in (("throw", "0"), ("fail",), ("log", "0"), ("ret", "0")):
            for inner in inner_shapes(Y):
                outers = [("try", ("body", X), ("nocatch",), ("fin", inner)),
                          ("try", ("body", X), ("catch", "0", inner), ("nofin",)),
                          ("try", ("body", X), ("catch", "1", inner), ("fin", ("log", "0"))),
                          ("try", ("body", X), ("catch", "0", ("log", "0")), ("fin", inner, ("log", "0"))),
                          ("try", ("body", ("log", "0"), X), ("nocatch",), ("fin", ("log", "0"), inner))]
                for o in outers:
                    if X[0] in ("break", "continue"):
                        progs.append([("fn", ("loop", o, ("log", "0")), ("log", "0"))])
                    else:
                        progs.append([("fn", o, ("log", "0"))])
                        progs.append([("fn", o), ("fn", ("try", ("body", ("call", "0")), ("catch", "1"), ("fin", ("log", "0"))), ("log", "0"))])
    # larger skeletons: seeded sample
    big = stmts(maxn + 1, False, False)
    k = 4000 if tier == "quick" else 60000
    for s in rng.sample(big, min(k, len(big))):
        progs.append([("fn", H[rng.randrange(len(H))], s, ("log", "0"))])
    seen = set(); cases = vlib.load_corpus("C03"); idx = 0
    for p in progs:
        pl = renumber(tolist(p))
        key = vlib.sexp_str(pl)
        if key in seen: continue
        seen.add(key)
        cases.append(mk_case("p%d" % idx, "skelvm", *pl)); idx += 1
    lines_vm = [c["line"] for c in cases]
    impl, _ = vlib.run_impl(lines_vm, timeout=3000)
    mvm, _ = vlib.run_model(lines_vm, timeout=3000)
    msem, _ = vlib.run_model([l.replace(" skelvm ", " skelsem ", 1) for l in lines_vm], timeout=3000)
    fails, dis, cdiff = [], [], []
    outcomes = {}
    for c in cases:
        i, v, s = impl.get(c["id"]), mvm.get(c["id"]), msem.get(c["id"])
        c["impl"], c["model"], c["sem"] = i, v, s
        if i is None: fails.append((c, "no output")); continue
        if v is not None and v.startswith("(compilers-differ"):
            cdiff.append(c); continue
        if i == "(compile-error)":
            if v != "(compile-error)": dis.append(c)
            continue
        k = i.split(")")[0]
        outcomes[k] = outcomes.get(k, 0) + 1
        if i != s: fails.append((c, "implementation differs from the specified semantics (SkelSem): impl %s, spec %s" % (i, s)))
        if i != v: dis.append(c)
    # the same skeletons with value-less return statements (a separate path of the compiler): every skeleton with a
    # return inside a try statement, compared with the specification up to the returned value
    import re
    def noval(x): return re.sub(r"\(r \d+\)", "(r u)", re.sub(r"\(return -?\d+\)", "(normal)", x)) if x else x
    bcases = [c for c in cases if "(ret" in c["line"] and "(try" in c["line"]]
    bimpl, _ = vlib.run_impl([c["line"].replace(" skelvm ", " skelvmb ", 1) for c in bcases], timeout=3000)
    bare_compared = 0
    for c in bcases:
        i, sm = bimpl.get(c["id"]), c["sem"]
        if i is None: fails.append((c, "no output (value-less returns)")); continue
        if i == "(compile-error)" and c["impl"] == "(compile-error)": continue
        bare_compared += 1
        if noval(i) != noval(sm):
            c = dict(c); c["line"] = c["line"].replace(" skelvm ", " skelvmb ", 1)
            fails.append((c, "with value-less return statements the implementation differs from the specified semantics (SkelSem, returned values ignored): impl %s, spec %s" % (i, sm)))
    # the same skeletons with every function literal written inside the try, catch or finally block of a try statement
    # of the main script: where a function is written makes no difference to what it does (skeletons with a loop)
    tcases = [c for c in cases if "(loop" in c["line"] and "(try" in c["line"]]
    if tier == "quick": tcases = tcases[::3]
    timpl, _ = vlib.run_impl([c["line"].replace(" skelvm ", " skelvmt ", 1) for c in tcases], timeout=3000)
    lexical_compared = 0
    for c in tcases:
        i = timpl.get(c["id"])
        if i is None: fails.append((c, "no output (function literals inside try statements)")); continue
        lexical_compared += 1
        if i != c["impl"]:
            c2 = dict(c); c2["line"] = c["line"].replace(" skelvm ", " skelvmt ", 1)
            fails.append((c2, "the functions behave differently when their literals are written inside a try statement of the main script: %s, outside %s" % (i, c["impl"])))
    for c, why in fails[:10]:
        rep.violation({"property": "C03", "kind": "oracle", "why": why, "case": c["line"], "impl": c["impl"], "sem": c["sem"], "model_vm": c["model"]})
    for c in cdiff[:10]:
        rep.violation({"property": "C03", "kind": "proof-obligation", "why": "the emit-and-patch compiler model (Skel.compile, written after compiler_nodes.go) and the declarative compiler of theorem C03_finally_once (SkelDecl.dcomp) emit different code for this skeleton: %s" % c["model"],
                       "case": c["line"], "impl": c["impl"], "model_vm": c["model"]}, found=False)
    if not fails:
        for c in dis[:10]:
            rep.violation({"property": "C03", "kind": "correspondence", "why": "SkelVM (model of the handler machine) and implementation disagree although the implementation meets the specification on every explored skeleton",
                           "case": c["line"], "impl": c["impl"], "model_vm": c["model"]}, found=False)
    nt = sum(1 for c in cases if nontrivial(c["args"], c["impl"]))
    rep.coverage.update({
        "evaluations": len(cases), "distinct_nontrivial": nt,
        "rule": "all skeleton statements with at most %d nodes (blocks of at most 2 statements) over exit kinds log/break/continue/return/throw/runtime-error at every position, each placed after 0-2 completed try statements, inside loops, and inside called functions; plus try statements nested in the catch and finally blocks of try statements (every exit of the outer body x every exit of the inner body x inner shape x block) and a seeded sample of size %d skeletons; distinct by program text; every skeleton with a return inside a try statement is run a second time with value-less return statements (returned values ignored in the comparison); skeletons with loops and try statements are run a third time with every function literal written inside the try, catch or finally block of a try statement of the main script; non-trivial = contains a try statement and a non-normal exit" % (maxn, maxn + 1),
        "samples": [cases[0]["line"], cases[len(cases)//2]["line"], cases[-1]["line"]],
        "exhaustive_up_to_nodes": maxn, "outcome_distribution": outcomes,
        "value_less_return_runs_compared": bare_compared, "lexically_nested_runs_compared": lexical_compared, "compilers_compared": len(cases), "compilers_differ": len(cdiff),
        "disagreements": len(dis), "oracle_failures": len(fails)})

def replay(payload, br):
    line = payload.get("case", "")
    if not line.startswith("(case"):
        print("replay:", payload.get("what")); return 1
    base = line.replace(" skelvmb ", " skelvm ", 1).replace(" skelvmt ", " skelvm ", 1)
    impl, _ = vlib.run_impl([line]); sem, _ = vlib.run_model([base.replace(" skelvm ", " skelsem ", 1)])
    src, _ = vlib.run_impl([base.replace(" skelvm ", " skelsrc ", 1)])
    for k, v in src.items(): print(v.replace("\\n", "\n").replace("_", " "))
    print("impl:", impl); print("spec:", sem)
    return 0 if impl == sem else 1
