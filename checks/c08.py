"""C08: many VMs may run one Bytecode concurrently."""
import vlib, proggen, re
from vlib import mk_case, hexs

NEED_RACE = True
GEN_TABLES = ["VMShare"]
TRUSTED = ["Go race detector (go build -race) as the observer of unsynchronised accesses; harness c08.go: N goroutines, one VM and one globals map each, released together, every outcome (value, error formatted with its stack trace, what the script left in its globals) compared with the solo outcome",
           "translator /verif/gen/vmshare.go: opcode cases of VM.loop reading vm.constants, assignments of vm.go targeting elements of shared data",
           "extracted validator share_check (Share/ShareCheck.v) run on the instruction stream of every compiled program; constant kinds (immutable / function / deep Copier / other) are classified by the harness"]
ASSUMPTIONS = ["the premise of the interleaving theorem - a VM step writes nothing reachable from the shared Bytecode - is established dynamically (race detector over the generated concurrent workloads) and syntactically for vm.go (no assignment to an element of constants, instructions, source maps, file set), not by a proof about Go code",
               "data races in Go library code called with per-VM arguments, and races that need a particular Go object type not in the workloads, are outside what the runs can show",
               "a VM keeps its module cache between runs by design; concurrent workers call Clear between their runs",
               "module values which are not Copier containers (custom Go objects) are shared between VMs by design; the validator reports them as unsupported rather than private"]

M1 = b"""
boom := func(z) { return 1 / z }
state := [0]
return {boom: boom, v: [1, 2], bump: func() { state[0] += 1; return state[0] }, name: "m1", nested: {a: [1]}}
"""
M2 = b"""
m1 := import("m1")
fmt := import("fmt")
return {twice: func(f, x) { return f(f(x)) }, show: func(x) { return fmt.Sprintf("%v|%d", x, m1.bump()) }, fail: func(msg) { throw error(msg) }}
"""

TEMPLATES = [
# module privacy: a script's changes to an imported builtin module never reach another VM
b"""global(inp, acc)
m := import("vmod")
m.k = m.k + inp
m.ns.n += 1
m.ns.depth.x = 5
m.arr[1] = m.arr[1] * 2
m.raw[0] = 9
m.sm.triple = 3
acc = append(acc, m.k)
return [m.k, m.ns.n, m.ns.depth.x, m.arr[1], m.raw, m.name, m.sm.triple]
""",
# ... also when the container is empty, at every nesting level and in every container kind
b"""global(inp, acc)
m := import("vmod")
before := [len(m.empty), len(m.emptysm), len(m.boxes.m), len(m.boxes.a[0]), len(m.boxes.sm.inner), len(m.emptyarr), len(m.boxes.a[1])]
m.empty.k = inp
m.emptysm.k = inp
m.boxes.m.z = 1
m.boxes.a[0].y = 2
m.boxes.sm.inner.x = 3
m.boxes.sm.top = 4
m.emptyarr = append(m.emptyarr, 5)
m.boxes.a[1] = append(m.boxes.a[1], 6)
m.boxes.a = append(m.boxes.a, 7)
acc = append(acc, len(m.empty))
return [before, len(m.empty), len(m.emptysm), len(m.boxes.m), len(m.boxes.a[0]), len(m.boxes.sm.inner), len(m.boxes.sm), len(m.boxes.a)]
""",
# errors with stack traces from two files, formatted concurrently
b"""global(inp, acc)
t := import("m1")
r := []
try { t.boom(0) } catch err { r = append(r, sprintf("%+v", err)) }
try { x := 1 / (inp - 7) } catch err { r = append(r, sprintf("%+v", err), string(err)) }
var f
f = func(n) { if n == 0 { return t.boom(n) }; return f(n - 1) + 1 }
try { f(3) } catch err { r = append(r, sprintf("%+v", err)) }
return r
""",
# error values of a builtin module (alone and in every container kind) are private per VM: throwing
# them records the throw position in the VM's own copy
b"""global(inp, acc)
e := import("emod")
r := []
try { throw e.rerr } catch x { r = append(r, sprintf("%+v", x)) }
f := func(v) { throw v }
try { f(e.box.rerr) } catch x { r = append(r, sprintf("%+v", x)) }
try { throw e.box.arr[0] } catch x { r = append(r, sprintf("%+v", x)) }
try { throw e.sm.rerr } catch x { r = append(r, sprintf("%+v", x)) }
try { throw e.err } catch x { r = append(r, sprintf("%+v", x), string(x)) }
try { f(e.box.arr[1]) } catch x { r = append(r, sprintf("%+v", x)) }
try { throw e.rerr } catch x { r = append(r, sprintf("%+v", x)) }
e.err.Message = "changed"
r = append(r, string(e.err), string(e.err.New("n")))
acc = append(acc, len(r))
if len(acc) > 0 { throw e.box.rerr }
""",
# Go modules whose value is bytes, an array, a sync map (a host Importable): changed in place, private per VM
b"""global(inp, acc)
cb := import("cbytes")
ca := import("carr")
cs := import("csm")
before := [cb[0], ca[0], ca[1][0], cs.k, len(cs.inner)]
for i := 0; i < 50; i++ { cb[0] += 1; ca[0] += 1; ca[1][0] += 1; cs.k += 1; cs.inner[string(i)] = i }
acc = append(acc, cb[0])
return [before, cb[0], ca[0], ca[1][0], cs.k, len(cs.inner), import("carr")[0]]
""",
# callbacks through pooled child VMs
b"""global(inp, acc)
s := import("strings")
m2 := import("m2")
k := inp
up := func(c) { k += 1; return c + 1 }
a := s.Map(up, "abcdef")
b := s.TrimFunc("  xx  ", func(c) { return c == ' ' })
c := s.FieldsFunc("a,b;c", func(c) { return c == ',' || c == ';' })
d := s.IndexFunc("hello", func(c) { return c == 'l' })
e := m2.twice(func(x) { return s.Map(up, x) }, "ab")
acc = append(acc, k)
return [a, b, c, d, e, k, m2.show(a)]
""",
# closures, per-iteration variables, source module state, sorting and json
b"""global(inp, acc)
j := import("json")
t := import("m1")
fs := []
for i := 0; i < 4; i++ { v := i * inp; fs = append(fs, func() { v += 1; return v }) }
out := []
for f in fs { out = append(out, f(), f()) }
out = append(out, t.bump(), t.bump(), t.v, t.nested.a)
t.v[0] = 100
t.nested.a = append(t.nested.a, 2)
doc := j.Marshal({a: out, b: sort([3, 1, 2])})
back := j.Unmarshal(doc)
return [out, string(doc), back, t.v, import("m1").v]
""",
# uncaught error: Run returns the error with its trace
b"""global(inp, acc)
m2 := import("m2")
acc = append(acc, 1)
m2.fail(sprintf("bad %d", inp))
""",
b"""global(inp, acc)
time := import("time")
d := time.ParseDuration("1h2m")
z := time.Date(2020, 1, 2, 3, 4, 5, 6, time.UTC())
fmt := import("fmt")
return [d, time.DurationString(d), z.Format("2006-01-02"), fmt.Sprintf("%v %q %5.2f", [1, "a"], "s", 1.5), time.Add(z, d).Unix()]
""",
]

def gen_program(rng):
    g = proggen.Gen(rng, max_depth=3, modules=("m1", "m2", "vmod", "strings"))
    src = g.program(rng.randrange(3, 9))
    return ("global(inp, acc)\n" + src).encode(), g

def run(rep, br, proofs, rng, tier):
    n = 400 if tier == "quick" else 6000
    cases, dumps = [], []
    progs = [(t, "template%d" % i) for i, t in enumerate(TEMPLATES)]
    kinds = {}
    for i in range(n):
        src, g = gen_program(rng)
        progs.append((src, "gen%d" % i))
        for k, v in g.stats.items(): kinds[k] = kinds.get(k, 0) + v
    for src, name in progs:
        nvm = rng.choice([2, 4, 8, 16]) if name.startswith("gen") else 12
        iters = 3 if name.startswith("gen") else (20 if tier == "quick" else 100)
        cases.append(mk_case(name, "conc", str(nvm), str(iters), hexs(src), hexs(M1), hexs(M2)))
        dumps.append(mk_case("d." + name, "sharedump", hexs(src), hexs(M1), hexs(M2)))
    # a host aborts some VMs while their callbacks run on pooled child VMs; the others are unaffected
    cases.append(mk_case("poolabort", "poolabort", "40" if tier == "quick" else "2000", "8"))
    # race harness in shards, so that a report is attributable
    shards = [cases[i::8] for i in range(8)]
    from concurrent.futures import ThreadPoolExecutor
    def run_shard(sh):
        return vlib.run_impl([c["line"] for c in sh], race=True, timeout=1500)
    fails, dis = [], []
    stats = {"ok": 0, "compile_error": 0, "nondeterministic": 0, "races": 0, "returned_error": 0}
    with ThreadPoolExecutor(8) as ex:
        results = list(ex.map(run_shard, shards))
    for sh, (res, err) in zip(shards, results):
        nr = err.count("WARNING: DATA RACE")
        if nr:
            stats["races"] += nr
            # narrow: one case per process
            culprit = None
            for c in sh:
                r1, e1 = vlib.run_impl([c["line"]] * 3, race=True, timeout=600)
                if "WARNING: DATA RACE" in e1:
                    culprit = (c, e1); break
            rep_txt = (culprit[1] if culprit else err)
            m = re.search(r"WARNING: DATA RACE.*?(?:==================|\Z)", rep_txt, re.S)
            fails.append(((culprit[0]["line"] if culprit else "\n".join(c["line"] for c in sh))[:6000],
                          "data race reported by the Go race detector while VMs share one Bytecode:\n" + (m.group(0)[:3000] if m else rep_txt[:3000])))
        for c in sh:
            r = res.get(c["id"])
            if r is None:
                fails.append((c["line"][:6000], "no result (harness died): %s" % err[-500:])); continue
            if c["kind"] == "poolabort":
                if r.startswith("(ok"): stats["runs_beside_aborted_vms"] = int(vlib.parse_sexp(r)[1])
                elif not r.startswith("(diff"): dis.append((c["line"], "harness answer %s" % r[:300]))
                else:
                    sx = vlib.parse_sexp(r)
                    fails.append((c["line"], "after / while other VMs over the same Bytecode were aborted by the host inside a callback on a pooled child VM, a VM that was not aborted returned %s; alone the script returns %s (round %s)" % (
                        vlib.unhex(sx[2]).decode(errors="replace")[:400] if len(sx) > 3 else r[:300], vlib.unhex(sx[3]).decode(errors="replace")[:400] if len(sx) > 3 else "", sx[1] if len(sx) > 1 else "")))
                continue
            if r.startswith("(ok"):
                stats["ok"] += 1
                if vlib.unhex(vlib.parse_sexp(r)[1]).startswith(b"err"): stats["returned_error"] += 1
            elif r.startswith("(compile-error"): stats["compile_error"] += 1
            elif r.startswith("(nondeterministic"): stats["nondeterministic"] += 1
            elif r.startswith("(leak"):
                sx = vlib.parse_sexp(r)
                fails.append((c["line"][:6000], "a second VM over the same Bytecode returned %s; the first VM (and a VM over a fresh compilation) returns %s: the first run changed something reachable from the Bytecode" % (vlib.unhex(sx[1]).decode(errors="replace")[:600], vlib.unhex(sx[2]).decode(errors="replace")[:600])))
            elif r.startswith("(diff"):
                sx = vlib.parse_sexp(r)
                fails.append((c["line"][:6000], "VM %s run %s returned %s, alone the script returns %s" % (sx[1], sx[2], vlib.unhex(sx[3]).decode(errors="replace")[:600], vlib.unhex(sx[4]).decode(errors="replace")[:600])))
            else:
                fails.append((c["line"][:6000], "unexpected harness answer %s" % r[:300]))
    # the sharing validator on the compiled form of every program
    dres, _ = vlib.run_impl([d["line"] for d in dumps], timeout=600)
    mlines, validated, rejected = [], 0, 0
    for d in dumps:
        r = dres.get(d["id"])
        if r is None or not r.startswith("(share"): continue
        sx = vlib.parse_sexp(r)
        mlines.append(vlib.sexp_str(["case", d["id"], "shareok"] + sx[1:]))
    mres, _ = vlib.run_model(mlines, timeout=600)
    for d in dumps:
        m = mres.get(d["id"])
        if m is None: continue
        if m == "(ok)": validated += 1
        else:
            rejected += 1
            dis.append((d["line"][:6000], "the sharing validator share_ok rejects the compiled program (%s): a constant may be exposed to scripts without a private copy, or the compiler emits an import pattern the model does not know" % m))
    if stats["compile_error"] > len(cases) // 3:
        dis.append(("", "%d of %d generated programs do not compile" % (stats["compile_error"], len(cases))))
    for line, why in fails[:10]:
        rep.violation({"property": "C08", "kind": "oracle", "why": why, "case": line})
    if not fails:
        for line, why in dis[:10]:
            rep.violation({"property": "C08", "kind": "correspondence", "why": why, "case": line}, found=False)
    rep.coverage.update({
        "evaluations": len(cases) + len(mlines), "distinct_nontrivial": stats["ok"],
        "rule": "templates (module privacy through every container of a builtin module, errors with stack traces from two files, callbacks through pooled child VMs, closures and source module state, uncaught errors, time/fmt/json) and type-directed generated programs with imports; each compiled once and run by 2..16 VMs on their own goroutines (3..40 runs each, Clear between runs) under the race detector; every outcome compared with the solo outcome; VMs aborted by the host from inside a callback on a pooled child VM (7 abort points, sequentially on one goroutine and concurrently) beside VMs that are not aborted and must return the solo outcome; the compiled form of every program through the Coq validator share_ok; non-trivial = programs whose concurrent runs all equal the solo run",
        "samples": [cases[0]["line"][:300], cases[len(TEMPLATES)]["line"][:300]],
        "stats": stats, "statement_kinds": kinds, "validated_programs": validated, "validator_rejections": rejected,
        "disagreements": len(dis), "oracle_failures": len(fails)})

def replay(payload, br):
    print(payload.get("why"))
    line = payload.get("case", "")
    if line.startswith("(case"):
        impl, err = vlib.run_impl([line.split("\n")[0]] * 3, race=True, timeout=600)
        print(impl, err[-3000:])
    return 0
