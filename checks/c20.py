"""C20: values cross the Go boundary without change."""
import vlib

def time_payload(rng):
    """a time value: unix nanoseconds in UTC or in a zone with a fixed offset; the zero time.Time, also carrying a zone"""
    k = rng.randrange(8)
    n = str(rng.choice([0, 1, -1, rng.randrange(-10**18, 10**18)]))
    if k <= 3: return n
    if k <= 5: return n + "@" + str(rng.choice([3600, -18000, 1, 50400]))
    if k == 6: return "zero"
    return "zero@" + str(rng.choice([3600, -18000, 1]))

from vlib import mk_case, hexs

TRUSTED = ["correspondence harness /verif/harness (Go) and extracted model /verif/ocaml/ugom (ExtrOcamlBasic only)"]
ASSUMPTIONS = ["registry converters of stdlib/time and stdlib/json are modelled as a tag table",
               "Go map iteration order is irrelevant (results compared with keys sorted)"]

INTS = [0, 1, -1, 127, -128, 255, 32767, -32768, 65535, 2**31-1, -2**31, 2**31, 2**32-1, 2**53+1, 2**63-1, -2**63]
UINTS = [0, 1, 255, 65535, 2**32-1, 2**63, 2**64-1]
FLOATS = ["0000000000000000", "8000000000000000", "3ff0000000000000", "bff8000000000000", "7ff0000000000000",
          "fff0000000000000", "7ff8000000000001", "0000000000000001", "7fefffffffffffff", "4340000000000001",
          "000fffffffffffff", "0010000000000000"]
F32 = ["00000000", "80000000", "3f800000", "7f800000", "ff800000", "7fc00000", "00000001", "007fffff", "00800000", "7f7fffff", "c0490fdb"]
CHARS = [0, 97, -1, 0x10FFFF, 2**31-1, -2**31, 0xD800]
RAWS = [b"{\"a\":1}\n", b" [1, 2]", b"\t", b"null ", b"\r\n\"s\"\r\n", b"\xc2\xa0 1", b"\x0b[]\x0c", b"{\"k\": \"v\"}"]      # raw JSON messages, with white space around
STRS = [b"", b"a", b"hello world", b"\xff\xfe", "héllo€".encode(), b"\x00", b"<tag>&"]
KEYS = [b"", b"a", b"b", b"key", b"\xff", "ü".encode(), b"__module_name__"]

def gen_scalar(rng):
    k = rng.randrange(9)
    if k == 0: return ["n"]
    if k == 1: return ["b", str(rng.randrange(2))]
    if k == 2: return ["i", str(rng.choice(INTS) if rng.random() < .7 else rng.randrange(-2**63, 2**63))]
    if k == 3: return ["u", str(rng.choice(UINTS) if rng.random() < .7 else rng.randrange(0, 2**64))]
    if k == 4: return ["f", rng.choice(FLOATS) if rng.random() < .7 else rand_f64(rng)]
    if k == 5: return ["c", str(rng.choice(CHARS) if rng.random() < .7 else rng.randrange(-2**31, 2**31))]
    if k == 6: return ["s", hexs(rng.choice(STRS))]
    if k == 7: return ["y", hexs(rng.choice(STRS))]
    return ["i", str(rng.randrange(-5, 5))]

def rand_f64(rng):
    b = rng.randrange(0, 2**64)
    e = (b >> 52) & 0x7ff
    if e == 0x7ff and (b & (2**52-1)) != 0:
        b = 0x7ff8000000000001
    return "%016x" % b

def gen_keys(rng, n):
    ks = set()
    while len(ks) < n:
        ks.add(rng.choice(KEYS) if rng.random() < .6 else bytes(rng.randrange(256) for _ in range(rng.randrange(1, 4))))
    return sorted(ks)

def gen_pvalue(rng, depth, plain=True):
    r = rng.random()
    if depth <= 0 or r < .45:
        if not plain and rng.random() < .3:
            k = rng.randrange(5)
            if k == 0: i = rng.randrange(1, 4); return ["e", str(i), hexs(b"error"), hexs(STRS[i])]
            if k == 1: return ["fn", hexs(b"f%d" % rng.randrange(3))]
            if k == 2: return ["o", hexs(b"time"), hexs(time_payload(rng).encode())]
            if k == 3: return ["o", hexs(b"rawMessage"), hexs(rng.choice(STRS + RAWS))]
            return ["o", hexs(b"location"), hexs(b"UTC")]
        return gen_scalar(rng)
    n = rng.choice([0, 0, 1, 2, 3])
    if r < .72:
        return ["a"] + [gen_pvalue(rng, depth-1, plain) for _ in range(n)]
    tag = "m" if (plain or rng.random() < .7) else "sm"
    return [tag] + [[hexs(k), gen_pvalue(rng, depth-1, plain)] for k in gen_keys(rng, n)]

def gen_goval(rng, depth, canonical=False):
    r = rng.random()
    if depth <= 0 or r < .5:
        if canonical:
            k = rng.randrange(8)
        else:
            k = rng.randrange(24)
        if k == 0: return ["nil"]
        if k == 1: return ["str", hexs(rng.choice(STRS))]
        if k == 2: return ["i64", str(rng.choice(INTS))]
        if k == 3: return ["u64", str(rng.choice(UINTS))]
        if k == 4: return ["f64", rng.choice(FLOATS) if rng.random() < .7 else rand_f64(rng)]
        if k == 5: return ["bool", str(rng.randrange(2))]
        if k == 6: return ["i32", str(rng.choice([x for x in INTS if -2**31 <= x < 2**31]))]
        if k == 7: return ["bytes", rng.choice(["nil"] + [hexs(s) for s in STRS])]
        if k == 8: return ["int", str(rng.choice(INTS))]
        if k == 9: return ["uint", str(rng.choice(UINTS))]
        if k == 10: return ["uptr", str(rng.choice(UINTS))]
        if k == 11: return ["u8", str(rng.choice([0, 1, 97, 255]))]
        if k == 12: return ["f32", rng.choice(F32) if rng.random() < .6 else "%08x" % rand_f32(rng)]
        if k == 13: return ["i8", str(rng.choice([0, 1, -1, 127, -128]))]
        if k == 14: return ["i16", str(rng.choice([0, -1, 32767, -32768]))]
        if k == 15: return ["u16", str(rng.choice([0, 1, 65535]))]
        if k == 16: return ["u32", str(rng.choice([0, 1, 2**32-1]))]
        if k == 17: return ["func", str(rng.randrange(2))]
        if k == 18: return ["err", hexs(rng.choice(STRS))]
        if k == 19: return ["dur", str(rng.choice(INTS))]
        if k == 20:
            t = rng.choice(["time.Time", "*time.Time", "*time.Location", "json.RawMessage"])
            if t == "time.Time": return ["reg", hexs(t), hexs(time_payload(rng).encode())]
            if t == "*time.Time": return ["reg", hexs(t), rng.choice(["nil", hexs(time_payload(rng).encode())])]
            if t == "*time.Location": return ["reg", hexs(t), rng.choice(["nil", hexs(b"UTC")])]
            return ["reg", hexs(t), rng.choice(["nil"] + [hexs(s) for s in STRS + RAWS])]
        if k == 21: return ["other", hexs(rng.choice(["main.otherType", "*main.otherType", "complex128", "[]int", "map[int]string", "chan int", "struct {}", "[]string"]))]
        if k == 22: return ["obj", gen_pvalue(rng, 1, plain=False)]
        return ["oslice"] + ([gen_pvalue(rng, 1, plain=False) for _ in range(rng.randrange(3))] if rng.random() < .7 else ["nil"])
    n = rng.choice([0, 1, 2, 3])
    if r < .75:
        if rng.random() < .15: return ["slice", "nil"]
        return ["slice"] + [gen_goval(rng, depth-1, canonical) for _ in range(n)]
    if rng.random() < .15: return ["map", "nil"]
    if not canonical and rng.random() < .15:
        return ["omap"] + ([[hexs(k), gen_pvalue(rng, 1, plain=False)] for k in gen_keys(rng, n)] if rng.random() < .7 else ["nil"])
    return ["map"] + [[hexs(k), gen_goval(rng, depth-1, canonical)] for k in gen_keys(rng, n)]

def rand_f32(rng):
    b = rng.randrange(0, 2**32)
    if (b >> 23) & 0xff == 0xff and (b & (2**23-1)) != 0:
        b = 0x7fc00000
    return b

def nontrivial(x):
    """rule: contains a container, a float, or an integer outside the int32 range"""
    if isinstance(x, str): return False
    if x and x[0] in ("a", "m", "sm", "slice", "map", "oslice", "omap", "f", "f64", "f32"): return True
    if x and x[0] in ("i", "u", "i64", "u64", "int", "uint", "uptr") and len(x) > 1 and isinstance(x[1], str):
        try: return abs(int(x[1])) >= 2**31
        except ValueError: return False
    return any(nontrivial(y) for y in x[1:])

def chars_to_ints(v):
    if isinstance(v, str): return v
    if v and v[0] == "c": return ["i", v[1]]
    return [chars_to_ints(y) if not isinstance(y, str) else y for y in v]

def canon_go(g):
    """expected print of a canonical Go value after the round trip (nil == empty)"""
    if g[0] == "bytes" and g[1] == "nil": return ["bytes", "x"]
    if g[0] == "slice":
        if g[1:] == ["nil"]: return ["slice"]
        return ["slice"] + [canon_go(x) for x in g[1:]]
    if g[0] == "map":
        if g[1:] == ["nil"]: return ["map"]
        return ["map"] + [[kv[0], canon_go(kv[1])] for kv in g[1:]]
    return g

def count_failing(x):
    if isinstance(x, str): return 0
    n = 1 if (x and x[0] in ("other", "i8", "i16", "u16", "u32", "reg")) else 0
    return n + sum(count_failing(y) for y in x[1:])

CONV_PREFIX = "(err x6572726f72 x" + b"cannot convert to object: ".hex()

def canon(c, out):
    """Go map iteration order decides which of several unsupported elements is reported."""
    if out.startswith(CONV_PREFIX) and count_failing(c["args"][0]) > 1:
        return CONV_PREFIX + "...)"
    return out

def has_other(x):
    """an unsupported Go type anywhere in the []any / map[string]any nesting"""
    if isinstance(x, str): return False
    if x and x[0] == "other": return True
    if x and x[0] in ("slice", "map"):
        return any(has_other(y[1] if x[0] == "map" and not isinstance(y, str) else y) for y in x[1:])
    return False

INT_HEADS = {"i64", "int", "uint", "u64", "uptr", "i32", "u8", "i8", "i16", "u16", "u32", "dur"}

def run(rep, br, proofs, rng, tier):
    n = 1500 if tier == "quick" else 40000
    cases = vlib.load_corpus("C20")
    idx = 0
    def add(kind, arg, **meta):
        nonlocal idx
        c = mk_case("g%d" % idx, kind, arg); c.update(meta); cases.append(c); idx += 1
    # boundary enumeration: every integer head x every boundary value
    for h, vals in [("i64", INTS), ("int", INTS), ("uint", UINTS), ("u64", UINTS), ("uptr", UINTS),
                    ("i32", [x for x in INTS if -2**31 <= x < 2**31]), ("u8", [0, 1, 97, 255]),
                    ("i8", [0, 1, -1, 127, -128]), ("i16", [0, -1, 32767, -32768]), ("u16", [0, 65535]),
                    ("u32", [0, 2**32-1]), ("dur", INTS)]:
        for v in vals:
            add("toobj", [h, str(v)]); add("toobjalt", [h, str(v)])
    for b in F32 + ["3dcccccd", "3e4ccccd", "3e99999a", "c02ccccd", "40490fdb", "3a83126f"] + ["%08x" % rand_f32(rng) for _ in range(40)]:
        add("toobj", ["f32", b]); add("toobjalt", ["f32", b])
    for i in range(n):
        k = i % 6
        depth = rng.choice([0, 1, 2, 3, 4, 6])
        if k == 0: add("toobj", gen_goval(rng, depth))
        elif k == 1: add("toobjalt", gen_goval(rng, depth))
        elif k == 2: add("toiface", gen_pvalue(rng, depth, plain=rng.random() < .5))
        elif k == 3: add("rtobj", gen_pvalue(rng, depth, plain=True), plain=True)
        elif k == 4: add("rtobjalt", gen_pvalue(rng, depth, plain=True), plain=True)
        else: add("rtgo", gen_goval(rng, depth, canonical=True), canonical=True)
    seen = set(); uniq = []
    for c in cases:
        key = c["line"].split(" ", 2)[2]
        if key in seen: continue
        seen.add(key); uniq.append(c)
    cases = uniq
    impl, model, dis = vlib.correspond(cases, canon=canon)
    # property oracle, evaluated on the implementation's own answers
    oracle_fail = []
    kinds = {}
    for c in cases:
        kinds[c["kind"]] = kinds.get(c["kind"], 0) + 1
        out = c["impl"]
        if out is None:
            oracle_fail.append((c, "no output from implementation")); continue
        if out.startswith("(panic"):
            oracle_fail.append((c, "conversion panicked")); continue
        a = c["args"][0]
        if c["kind"] == "rtobj":
            exp = "(ok %s)" % vlib.sexp_str(a)
            if out != exp: oracle_fail.append((c, "ToObject(ToInterface(v)) != v"))
        elif c["kind"] == "rtobjalt":
            exp = "(ok %s)" % vlib.sexp_str(chars_to_ints(a))
            if out != exp: oracle_fail.append((c, "ToObjectAlt(ToInterface(v)) != v (chars as ints)"))
        elif c["kind"] == "rtgo":
            exp = "(ok %s)" % vlib.sexp_str(canon_go(a))
            if out != exp: oracle_fail.append((c, "ToInterface(ToObject(g)) != g"))
        elif c["kind"] in ("toobj", "toobjalt") and a[0] in INT_HEADS:
            if out.startswith("(ok"):
                r = vlib.parse_sexp(out)[1]
                if r[0] not in ("i", "u", "c") or r[1] != a[1]:
                    oracle_fail.append((c, "integer width changed the numeric value"))
            elif c["kind"] == "toobjalt":
                oracle_fail.append((c, "ToObjectAlt rejected a supported integer width"))
        elif c["kind"] in ("toobj", "toobjalt") and a[0] == "reg" and a[1] in (hexs(b"time.Time"), hexs(b"*time.Time")) and a[2] != "nil":
            # a time value (instant and zone) arrives unchanged
            if out != "(ok (o %s %s))" % (hexs(b"time"), a[2]):
                oracle_fail.append((c, "a time.Time value changed on the way in: %s became %s" % (vlib.unhex(a[2]).decode(), out[:200])))
        elif c["kind"] in ("toobj", "toobjalt") and a[0] == "reg" and a[1] == hexs(b"json.RawMessage") and a[2] != "nil":
            # a raw JSON message arrives byte for byte
            if out != "(ok (o %s %s))" % (hexs(b"rawMessage"), a[2]):
                oracle_fail.append((c, "a json.RawMessage changed on the way in: %r became %s" % (vlib.unhex(a[2]), out[:200])))
        elif c["kind"] in ("toobj", "toobjalt") and a[0] == "f32":
            import struct
            x = struct.unpack(">f", struct.pack(">I", int(a[1], 16)))[0]
            if x == x:   # not NaN: the float64 with exactly the same numeric value
                exp = "(ok (f %016x))" % struct.unpack(">Q", struct.pack(">d", x))[0]
                if out != exp: oracle_fail.append((c, "float32 %r did not convert to the float with the same numeric value: %s, expected %s" % (x, out, exp)))
        elif c["kind"] in ("toobj", "toobjalt") and has_other(a):
            if not out.startswith("(err"): oracle_fail.append((c, "unsupported Go type (possibly nested) not reported as error"))
        if "(gonil)" in out:
            oracle_fail.append((c, "conversion produced a nil Object inside the result"))
    for c, why in oracle_fail[:10]:
        rep.violation({"property": "C20", "kind": "oracle", "why": why, "case": c["line"], "impl": c["impl"], "model": c["model"]})
    if not oracle_fail:
        for c in dis[:10]:
            rep.violation({"property": "C20", "kind": "correspondence", "why": "model and implementation disagree; the round-trip oracle found no failing input among the generated cases",
                           "case": c["line"], "impl": c["impl"], "model": c["model"]}, found=False)
    nt = sum(1 for c in cases if nontrivial(c["args"][0]))
    rep.coverage.update({
        "evaluations": len(cases), "distinct_nontrivial": nt,
        "rule": "cases generated from VERIF_SEED (boundary enumeration of every integer head + random nested values to depth 6); distinct by case text; non-trivial = contains a container, a float, or an integer outside the int32 range",
        "samples": [c["line"] for c in cases[:3]] + [c["line"] for c in cases[-3:]],
        "by_kind": kinds, "disagreements": len(dis), "oracle_failures": len(oracle_fail),
    })

def replay(payload, br):
    line = payload.get("case")
    if not line:
        print("replay: broken obligation, nothing to execute:", payload.get("what")); return 1
    impl, _ = vlib.run_impl([line]); model, _ = vlib.run_model([line])
    print("impl :", impl); print("model:", model)
    return 0 if impl == model else 1
