"""C14: calling a script function from Go equals calling it inside the script."""
import vlib, itertools
from vlib import mk_case, hexs

TRUSTED = ["harness Go callback `invoke` (ugo.NewInvoker(c.VM(), fn), pooled or not) and post-run Invoker calls",
           "extracted model of xOpCallCompiled / initLocals (VM/CallBinding.v)"]
ASSUMPTIONS = ["child VM internals (pool recycling) are decided by differential execution; the theorems cover the argument binding"]

MODS = ["hits := 0\nreturn {bump: func() { hits += 1; return hits }}\n"]

FUNCS = {
 "add": "add := func(a, b) { counter += 1; return a + b + counter }\n",
 "vr": "vr := func(a, ...r) { counter += len(r); return [a, r, counter] }\n",
 "vk": "kept := []\nvk := func(...r) { kept = append(kept, r); counter += len(kept); return kept }\n",
 "vw": "vw := func(a, ...r) { if len(r) > 0 { r[0] += a }; r = append(r, counter); return r }\n",
 "thr": "thr := func(x) { if x > 1 { throw error(\"big\") }; return x }\n",
 "rec": "var rec\nrec = func(n) { if n <= 0 { return counter }; return 1 + rec(n - 1) }\n",
 "tail": "var tail\ntail = func(n, acc) { if n <= 0 { return acc }; return tail(n - 1, acc + n) }\n",
 "disc": "var disc\ndisc = func(n) { if n <= 0 { return 7 }; counter += 1; disc(n - 1) }\n",
 "imp": "imp := func(k) { m := import(\"m1\"); return m.bump() + k }\n",
 "glob": "glob := func(v) { global g; g = v; return g }\n",
 "nest": "nest := func(a) { return add(a, a) + thr(1) }\n",
 "cat": "cat := func(x) { try { return thr(x) } catch e { return string(e) } finally { counter += 10 } }\n",
 "mk": "mk := func(k) { c := k; return func(d) { c += d; return c } }\nclo := mk(100)\n",
 "clo": "",
 "div": "div := func(a, b) { return a / b }\n",
 "cb": "cb := func(n) { return invoke(add, n, n) }\n",
 # a Go function the script calls panics and the function catches it (a Go panic that leaves an invoked function reaches
 # the Go caller as a panic report with a Go stack, not as the plain error an in-script caller catches: host panics are
 # outside the functions the property quantifies over, that form is not compared)
 "pan": "pan := func(x) { try { gopanic(x) } catch e { counter += 1; return [\"caught\", x] } finally { counter += 100 }; return \"none\" }\n",
}
ARITY = {"add": 2, "vr": None, "vk": None, "vw": None, "thr": 1, "rec": 1, "tail": 2, "disc": 1, "imp": 1, "glob": 1, "nest": 1, "cat": 1, "clo": 1, "div": 2, "cb": 1, "pan": 1}

def gen_seq(rng, names):
    seq = []
    for _ in range(rng.randrange(2, 9)):
        f = rng.choice(names)
        ar = ARITY[f]
        if ar is None: ar = rng.randrange(1, 5)
        vals = [str(rng.choice([0, 1, 2, 3, 5, -1, 40])) for _ in range(ar)]
        if f in ("rec", "tail", "disc"): vals[0] = str(rng.choice([0, 1, 3, 30]))
        seq.append([f] + vals)
    return seq

def run(rep, br, proofs, rng, tier):
    # (1) argument binding: exhaustive small enumeration, three entry points, model vs implementation
    vals = [["i", "1"], ["i", "2"], ["i", "3"], ["s", hexs(b"x")], ["n"], ["i", "6"]]
    arrs = [["a"], ["a", ["i", "7"]], ["a", ["i", "7"], ["i", "8"]], ["a", ["i", "7"], ["i", "8"], ["i", "9"]]]
    cases = []
    for np in range(0, 5):
        for variadic in ("0", "1"):
            if variadic == "1" and np == 0: continue
            for nargs in range(0, 7):
                base = vals[:nargs]
                for how in ("script", "run", "invoke"):
                    cases.append(mk_case("b.%d.%s.%d.%s" % (np, variadic, nargs, how), "callbind", str(np), variadic, "0", how, *base))
                if nargs >= 1:
                    for k, arr in enumerate(arrs + [["i", "5"]]):
                        cases.append(mk_case("s.%d.%s.%d.%d" % (np, variadic, nargs, k), "callbind", str(np), variadic, "1", "script", *(base[:nargs-1] + [arr])))
    impl, model, dis0 = vlib.correspond(cases, timeout=1200)
    dis, fails = [], []
    accepted = 0
    for c in cases:
        i, m = c["impl"], c["model"]
        if i is None or m is None: dis.append(c); continue
        if m == "(err)":
            if not i.startswith("(err"): dis.append(c)
        elif i != m: dis.append(c)
    # oracle on the implementation itself: run / invoke agree with the in-script call on accepted tuples
    byk = {c["id"]: c for c in cases}
    for c in cases:
        if c["args"][3] == "script" and c["args"][2] == "0" and c["impl"] and c["impl"].startswith("(ok"):
            accepted += 1
            for how in ("run", "invoke"):
                o = byk.get(c["id"][:-6] + how)
                if o and o["impl"] != c["impl"]:
                    fails.append((o, "%s binds the arguments differently from the in-script call: %s vs %s" % (how, o["impl"], c["impl"]), None))
    # (2) invoke twins
    n = 250 if tier == "quick" else 5000
    tcases = []
    for i in range(n):
        names = rng.sample([k for k in FUNCS if k != "clo"], rng.randrange(2, 6))
        if "nest" in names or "cb" in names:
            for d in ("add", "thr"):
                if d not in names: names.append(d)
        if "cat" in names and "thr" not in names: names.append("thr")
        order = [k for k in FUNCS if k in names]
        defs = "counter := 0\nstate := func() { return [counter] }\n" + "".join(FUNCS[k] for k in order)
        callable_names = [k for k in order] + (["clo"] if "mk" in order else [])
        callable_names = [k for k in callable_names if k != "mk"]
        if not callable_names: continue
        seq = gen_seq(rng, callable_names)
        for mode in ("direct", "callback-pooled", "callback-unpooled", "callback-kept-pooled", "callback-kept-unpooled", "callback-kept-cycled-pooled", "callback-pooled-after-abort", "post-pooled", "post-unpooled"):
            if mode.startswith("post") and any(s[0] == "cb" for s in seq) is False and False: pass
            c = mk_case("t%d.%s" % (i, mode), "invoketwin", mode, hexs(defs.encode()), ["seq"] + seq, *[hexs(m.encode()) for m in MODS])
            c["defs"], c["seq"], c["mode"], c["grp"] = defs, seq, mode, i
            tcases.append(c)
    impl_t, _ = vlib.run_impl([c["line"] for c in tcases], timeout=2400)
    groups = {}
    for c in tcases:
        c["impl"] = impl_t.get(c["id"]); groups.setdefault(c["grp"], []).append(c)
    compared = 0
    for gi, cs in groups.items():
        ref = next(c for c in cs if c["mode"] == "direct")
        if ref["impl"] is None or not ref["impl"].startswith("(ok"):
            if ref["impl"] is None or ref["impl"].startswith("(panic"): fails.append((ref, "direct run failed: %s" % ref["impl"], ref["defs"]))
            continue
        for c in cs:
            if c is ref: continue
            compared += 1
            if c["impl"] != ref["impl"]:
                fails.append((c, "%s differs from the in-script calls: %s vs %s" % (c["mode"], str(c["impl"])[:400], ref["impl"][:400]), c["defs"] + "\nseq: " + str(c["seq"])))
    for c, why, extra in fails[:10]:
        rep.violation({"property": "C14", "kind": "oracle", "why": why, "case": c["line"][:3000], "script": extra})
    if not fails:
        for c in dis[:10]:
            rep.violation({"property": "C14", "kind": "correspondence", "why": "argument binding model (VM/CallBinding.v) and implementation disagree", "case": c["line"], "impl": c["impl"], "model": c["model"]}, found=False)
    rep.coverage.update({
        "evaluations": len(cases) + len(tcases), "distinct_nontrivial": accepted + compared,
        "rule": "argument binding: every (0..4 parameters, fixed / variadic, 0..6 arguments, plain / spread with arrays of 0..3 elements or a non-array) through an in-script call, Run and Invoker.Invoke, implementation vs model and entry points against each other on accepted tuples; invoke twins: the host re-uses one argument buffer for all its Invoke calls; generated definitions (counters captured by closures, variadic incl. functions that keep or write through their variadic parameter, throwing, recursive incl. tail and discarded self calls, importing, global-writing, try/finally, nested callbacks, a panicking Go function caught inside the function; recovery enabled) x call sequences executed in-script, through a Go callback during the run (pooled / unpooled Invoker made per call, and one Invoker per function kept for the whole run so that its child VM is re-used, or acquired before and released after every call with every third call made after a Release without a new Acquire; and pooled calls made after another VM was aborted by its host while pooled child VMs ran callbacks for it) and after the run (pooled / unpooled), comparing every result, error text and the final captured state",
        "samples": [cases[5]["line"], tcases[0]["line"][:600]],
        "binding_cases": len(cases), "binding_accepted": accepted, "twin_runs_compared": compared,
        "disagreements": len(dis), "oracle_failures": len(fails)})

def replay(payload, br):
    print(payload.get("why")); print(payload.get("script") or "")
    line = payload.get("case", "")
    if line.startswith("(case"):
        impl, _ = vlib.run_impl([line]); print("impl:", impl)
    return 1
