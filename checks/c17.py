"""C17: the json module produces and accepts exactly standard JSON."""
import vlib, struct
from vlib import mk_case, hexs

TRUSTED = ["Go's encoding/json (go1.23) as the reference for Marshal of plain values, Unmarshal, Valid, Compact and Indent",
           "extracted recogniser json_valid and string escaping model (Json/Json.v)"]
ASSUMPTIONS = ["float text is produced by strconv and is compared with encoding/json, not modelled",
               "the recogniser json_valid is the executable statement of the RFC 8259 grammar (UTF-8 validity of raw bytes is not part of it, as in encoding/json)"]

STRS = [b"", b"a", b"hello world", b"\"quoted\\", b"\x00\x01\x08\x0c\n\r\t\x1f\x7f", b"<tag>&amp;", "é€𝄞".encode(), "\u2028\u2029".encode(),
        b"\xff\xfe", b"\xc3", b"\xe2\x82", b"\xf0\x9f\x98", b"\xed\xa0\x80", b"\xc0\xaf", b"\xf4\x90\x80\x80", b"a\xffb", b"\xef\xbf\xbd"]
def f(x): return "%016x" % struct.unpack(">Q", struct.pack(">d", x))[0]
FLOATS = [0.0, -0.0, 1.0, 1.5, 1e21, 1e20, 1e-7, 1e-6, 123456789.125, float("inf"), float("nan"), 5e-324, 1.7976931348623157e308, 100.0, 0.000001234]
# both signs of every magnitude around the switch points of the number format (1e-6, 1e21), float32-looking values
FLOATS += [-x for x in FLOATS if x == x and x != 0.0] + [9.999999999999999e20, -9.999999999999999e20, 1.5e21, -2.5e30, 9.999999999999999e-7, -9.999999999999999e-7, 1e-5, -1e-5, 3.4028234663852886e38, -1e300, float("-inf")]

def gen_val(rng, depth, plain=True):
    r = rng.random()
    if depth <= 0 or r < .5:
        k = rng.randrange(10 if plain else 14)
        if k == 0: return ["n"]
        if k == 1: return ["b", str(rng.randrange(2))]
        if k == 2: return ["i", str(rng.choice([0, 1, -1, 2**53+1, 2**63-1, -2**63]))]
        if k == 3: return ["u", str(rng.choice([0, 7, 2**64-1]))]
        if k == 4: return ["f", f(rng.choice(FLOATS))]
        if k == 5: return ["c", str(rng.choice([0, 97, 0x10ffff, -1]))]
        if k in (6, 7): return ["s", hexs(rng.choice(STRS) if rng.random() < .7 else bytes(rng.randrange(256) for _ in range(rng.randrange(0, 9))))]
        if k == 8: return ["y", hexs(rng.choice(STRS[:6]))]
        if k == 9: return ["s", hexs(b"k")]
        if k == 10: return ["fn", hexs(b"f1")]
        if k == 11: return ["e", "1", hexs(b"E"), hexs(b"m")]
        if k == 12: return ["sm", [hexs(b"a"), ["i", "1"]]]
        return ["re", "1", "1", hexs(b"E"), hexs(b"m")]
    n = rng.choice([0, 1, 2, 3])
    if r < .75: return ["a"] + [gen_val(rng, depth-1, plain) for _ in range(n)]
    keys = sorted(set(rng.choice([b"", b"a", b"b", b"<k>", "é".encode(), b"\xff", b"z\"q"]) for _ in range(n)))
    return ["m"] + [[hexs(k), gen_val(rng, depth-1, plain)] for k in keys]

def has_unsupported(v):
    if isinstance(v, str): return False
    if v and v[0] in ("fn", "e", "re"): return True
    return any(has_unsupported(x) for x in v[1:])

def has_nonfinite(v):
    if isinstance(v, str): return False
    if v and v[0] == "f" and v[1][:3] in ("7ff", "fff"): return True
    return any(has_nonfinite(x) for x in v[1:])

DOC_ATOMS = [b"null", b"true", b"false", b"0", b"-0", b"1.5", b"1e5", b"1E+2", b"-1.25e-3", b"\"s\"", b"\"\\u00e9\\n\"", b"[]", b"{}", b"[1,2]", b"{\"a\":1}",
             b"01", b"1.", b".5", b"+1", b"1e", b"\"\\x\"", b"\"\x01\"", b"[1,]", b"{\"a\":}", b"{a:1}", b"[1 2]", b"nul", b"tru", b"\"abc", b"{\"a\":1,}", b"--1", b"0x10",
             b"\"\\ud800\"", b"\"\\udc00\\ud800\"", b"1e400", b"-", b"[", b"{\"a\"", b" 1 ", b"\t[ 1 , 2 ]\n", b"1 2", b"{\"a\":1}x", b"\xef\xbb\xbf1", b"\"\xff\"",
             # raw (unescaped) characters inside string literals and keys: U+2028 / U+2029 and their neighbours, HTML characters, other non-ASCII
             b"\"a\xe2\x80\xa8b\"", b"\"\xe2\x80\xa9\"", b"\"\xe2\x80\xa7\xe2\x80\xaa\"", b"\"<>&\"", b"\"\xc3\xa9\xe2\x82\xac\xf0\x9f\x98\x80\"",
             b"{\"k\xe2\x80\xa8\":\"<\xe2\x80\xa9>\"}", b"[ \"a\xe2\x80\xa8b\" , 1 ]", b"\"\xe2\x80\"", b"\"\xe2\""]

def number_shapes():
    """every combination of sign, integer part, fraction and exponent shapes of the JSON number grammar, valid and not"""
    out = []
    for sign in (b"", b"-", b"+", b"--"):
        for ip in (b"", b"0", b"00", b"01", b"1", b"10", b"9007199254740993"):
            for fr in (b"", b".", b".0", b".5", b".05", b"..5"):
                for ex in (b"", b"e", b"e1", b"E+1", b"e-0", b"e+", b"e01", b"ee1"):
                    out.append(sign + ip + fr + ex)
    return out

def gen_doc(rng, depth):
    if depth <= 0 or rng.random() < .4: return rng.choice(DOC_ATOMS)
    k = rng.randrange(3)
    ws = lambda: rng.choice([b"", b" ", b"\n", b"\t "])
    if k == 0: return b"[" + ws() + (b"," + ws()).join(gen_doc(rng, depth-1) for _ in range(rng.randrange(0, 4))) + ws() + b"]"
    if k == 1: return b"{" + ws() + (b"," + ws()).join(b"\"k%d\"" % i + ws() + b":" + ws() + gen_doc(rng, depth-1) for i in range(rng.randrange(0, 4))) + b"}"
    d = bytearray(gen_doc(rng, depth-1))
    if d and rng.random() < .5: d[rng.randrange(len(d))] = rng.choice(b"[]{},:\"\\ e-+.0")
    return bytes(d)

def load_known():
    return vlib.load_known("C17")

def run(rep, br, proofs, rng, tier):
    n = 1500 if tier == "quick" else 30000
    cases = vlib.load_corpus("C17")
    for i, s in enumerate(STRS):
        for html in ("0", "1"): cases.append(mk_case("s%d.%s" % (i, html), "jsonstr", html, hexs(s)))
    for i in range(n):
        k = i % 4
        if k == 0: cases.append(mk_case("r%d" % i, "jsonstr", rng.choice(["0", "1"]), hexs(bytes(rng.choice([rng.randrange(256), rng.randrange(128), rng.choice(b"\"\\<>&\x08\x0c\n\xe2\x80\xa8\xa9\xc3\xa9\xff")]) for _ in range(rng.randrange(0, 12))))))
        elif k == 1: cases.append(mk_case("m%d" % i, "jsonmarshal", gen_val(rng, rng.choice([0, 1, 2, 3, 4]), plain=rng.random() < .8)))
        else: cases.append(mk_case("d%d" % i, "jsondoc", hexs(gen_doc(rng, rng.choice([0, 1, 2, 3])))))
    # strings and bytes of every length class (scratch buffers, the base64 streaming threshold at 1024 characters,
    # every remainder modulo 3), bare and nested
    k = 0
    for n in [0, 1, 2, 3, 4, 5, 46, 47, 48, 49, 63, 64, 65, 190, 191, 192, 193, 765, 766, 767, 768, 769, 770, 771, 772, 1022, 1023, 1024, 1025, 1026, 4095, 4096, 4097, 4098]:
        by = bytes((37 * j + n) % 256 for j in range(n))
        st = bytes((b"ab<\"\\\n\xc3\xa9q")[(j + n) % 9] for j in range(n))
        for v in (["y", hexs(by)], ["s", hexs(st)]):
            for w in (v, ["a", ["i", "1"], v], ["m", [hexs(b"k"), v]]):
                cases.append(mk_case("z%d" % k, "jsonmarshal", w)); k += 1
    for i, d in enumerate(number_shapes()):
        cases.append(mk_case("n%d" % i, "jsondoc", hexs(d if i % 3 else b"[" + d + b"]" if i % 2 else b"{\"a\":" + d + b"}")))
    impl, _ = vlib.run_impl([c["line"] for c in cases], timeout=2400)
    strcases = [c for c in cases if c["kind"] == "jsonstr"]
    model_s, _ = vlib.run_model([c["line"] for c in strcases], timeout=1200)
    fails, dis, vcases = [], [], []
    known = {k["id"]: k for k in load_known()}
    stats = {"marshal_equal": 0, "marshal_unsupported": 0, "docs_accepted": 0, "docs_rejected": 0}
    for c in cases:
        out = impl.get(c["id"]); c["impl"] = out
        if out is None or out.startswith("(panic"):
            fails.append((c, "no result or panic: %s" % str(out)[:200])); continue
        if c["kind"] == "jsonstr":
            m = model_s.get(c["id"]); c["model"] = m
            if m != out: dis.append(c)
            if out.startswith("x"): vcases.append((c, mk_case(c["id"] + ".v", "jsonvalid", out)))
        elif c["kind"] == "jsonmarshal":
            sx = vlib.parse_sexp(out); u, g = sx[1], sx[2]
            v = c["args"][0]
            if u[0] == "ok": vcases.append((c, mk_case(c["id"] + ".v", "jsonvalid", u[1])))
            if has_unsupported(v):
                stats["marshal_unsupported"] += 1
                continue   # validity of the output is checked by the validator below
            if has_nonfinite(v):
                if u[0] == "ok": fails.append((c, "Marshal accepted a NaN / Inf float"))
                continue
            if u[0] != g[0] or (u[0] == "ok" and u[1] != g[1]):
                fails.append((c, "Marshal differs from encoding/json: %s vs %s" % (vlib.unhex(u[1]) if u[0] == "ok" else u, vlib.unhex(g[1]) if g[0] == "ok" else g)))
            else: stats["marshal_equal"] += 1
        else:
            sx = vlib.parse_sexp(out)
            ures, gres, uval, gval, uc, gc, ui, gi = sx[1:9]
            if vlib.sexp_str(ures) != vlib.sexp_str(gres):
                # encoding/json decodes numbers to float64 as well: same notation
                fails.append((c, "Unmarshal differs from encoding/json: %s vs %s" % (vlib.sexp_str(ures)[:200], vlib.sexp_str(gres)[:200])))
            elif uval != gval: fails.append((c, "Valid differs from encoding/json"))
            elif vlib.sexp_str(uc) != vlib.sexp_str(gc): fails.append((c, "Compact differs from encoding/json"))
            elif vlib.sexp_str(ui) != vlib.sexp_str(gi): fails.append((c, "Indent differs from encoding/json"))
            stats["docs_accepted" if ures[0] == "ok" else "docs_rejected"] += 1
            # the recogniser agrees with Valid
            vc = mk_case(c["id"] + ".v", "jsonvalid", c["args"][0]); vc["expect"] = "(b 1)" if gval == ["b", "1"] else "(b 0)"
            vcases.append((c, vc))
    model_v, _ = vlib.run_model([v["line"] for _, v in vcases], timeout=1200)
    for c, v in vcases:
        got = model_v.get(v["id"])
        exp = v.get("expect", "(b 1)")
        if got != exp:
            if c["kind"] == "jsonmarshal" and has_unsupported(c["args"][0]) and "D17" in known:
                rep.known("D17", "Marshal of a value containing an object without JSON representation (function, error) emits nothing for it, e.g. {\"a\":,\"b\":1}")
                continue
            if c["kind"] == "jsondoc":
                dis.append(dict(c, model=got, why="recogniser json_valid disagrees with encoding/json Valid"))
            else:
                fails.append((c, "Marshal returned a syntactically invalid document: %s" % (vlib.unhex(v["args"][0]) if v["args"][0].startswith("x") else v["args"][0])))
    for c, why in fails[:10]:
        rep.violation({"property": "C17", "kind": "oracle", "why": why, "case": c["line"][:2000]})
    if not fails:
        for c in dis[:10]:
            rep.violation({"property": "C17", "kind": "correspondence", "why": c.get("why", "string escaping model (Json/Json.v) and Marshal disagree"), "case": c["line"][:2000], "impl": str(c.get("impl"))[:400], "model": str(c.get("model"))[:400]}, found=False)
    rep.coverage.update({
        "evaluations": len(cases) + len(vcases), "distinct_nontrivial": stats["marshal_equal"] + stats["docs_accepted"] + stats["docs_rejected"],
        "rule": "strings over control characters, quotes, HTML characters, U+2028/9, valid and every kind of invalid UTF-8, with and without HTML escaping: Marshal vs the Coq escaping model and the recogniser; strings and bytes of every length class (0..5, around 48, 64, 192, 768, 1024, 4096: scratch buffers and the base64 streaming threshold, every remainder modulo 3) bare and nested; nested values of every type (NaN/Inf, chars, bytes, non-UTF-8 keys, functions, errors, sync maps): Marshal vs encoding/json on ToInterface(v), and every output through the recogniser json_valid; documents (valid, near-valid, mutated, whitespace, every combination of sign / integer part / fraction / exponent shapes of the number grammar, bad escapes, truncated): Unmarshal, Valid, Compact and Indent vs encoding/json, and Valid vs the recogniser; non-trivial = outputs compared equal / documents classified",
        "samples": [cases[0]["line"], cases[len(STRS)*2+1]["line"], cases[-1]["line"]],
        "stats": stats, "validator_runs": len(vcases), "disagreements": len(dis), "oracle_failures": len(fails)})

def replay(payload, br):
    print(payload.get("why"))
    line = payload.get("case", "")
    if line.startswith("(case"):
        impl, _ = vlib.run_impl([line]); print("impl:", impl)
    return 1
