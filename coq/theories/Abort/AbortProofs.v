From Coq Require Import List Bool Arith Lia.
From Ugo Require Import Abort.Abort.
Import ListNotations.

Lemma rpc_eqb_eq x y : rpc_eqb x y = true -> x = y.
Proof. destruct x, y; simpl; try discriminate; try reflexivity. intros H. apply Bool.eqb_prop in H. congruence. Qed.
Lemma apc_eqb_eq x y : apc_eqb x y = true -> x = y.
Proof. destruct x, y; simpl; try discriminate; reflexivity. Qed.
Lemma st_eqb_eq x y : st_eqb x y = true -> x = y.
Proof.
  destruct x as [r1 c1 g1 p1 a1], y as [r2 c2 g2 p2 a2]. unfold st_eqb. simpl. intros H.
  repeat (apply andb_true_iff in H as [H ?]).
  apply Bool.eqb_prop in H. repeat match goal with E : Bool.eqb _ _ = true |- _ => apply Bool.eqb_prop in E end.
  match goal with E : rpc_eqb _ _ = true |- _ => apply rpc_eqb_eq in E end.
  match goal with E : apc_eqb _ _ = true |- _ => apply apc_eqb_eq in E end.
  congruence.
Qed.

Lemma mem_In s l : mem s l = true -> In s l.
Proof.
  unfold mem. intros H. apply existsb_exists in H as [x [Hin He]]. apply st_eqb_eq in He. subst. exact Hin.
Qed.

(* the explored set is closed under every move and contains the initial states *)
Definition closed (v : version) : bool :=
  forallb (fun s => forallb (fun s' => mem s' (states v)) (succs v s)) (states v).

Lemma closed_fixed : closed VFixed = true.
Proof. vm_compute. reflexivity. Qed.
Lemma closed_orig : closed VOrig = true.
Proof. vm_compute. reflexivity. Qed.
Lemma init_in v : In init (states v) /\ In init_stale (states v).
Proof. destruct v; split; apply mem_In; vm_compute; reflexivity. Qed.

Lemma step_in_succs v m s s' : step v m s = Some s' -> In s' (succs v s).
Proof.
  intros H. unfold succs. apply in_flat_map.
  exists m. split.
  - destruct m as [[| |]|]; simpl; auto.
  - rewrite H. left. reflexivity.
Qed.

Lemma reachable_in_closed v (S : list st) s :
  forallb (fun s => forallb (fun s' => mem s' S) (succs v s)) S = true ->
  In init S -> In init_stale S -> reachable v s -> In s S.
Proof.
  intros Hc Hi1 Hi2 R. induction R as [| | s m s' R IH Hs]; [exact Hi1 | exact Hi2 |].
  rewrite forallb_forall in Hc. specialize (Hc _ IH).
  rewrite forallb_forall in Hc. apply mem_In. apply Hc. eapply step_in_succs. exact Hs.
Qed.

Theorem reachable_in_states v s : closed v = true -> reachable v s -> In s (states v).
Proof.
  intros Hc R. pose proof (init_in v) as H. destruct H as [H1 H2]. unfold closed in Hc.
  exact (reachable_in_closed v (states v) s Hc H1 H2 R).
Qed.

(* continuations of the running goroutine alone *)
Inductive rpath (v : version) : nat -> st -> st -> Prop :=
| RP0 s : rpath v 0 s s
| RPS n s c s' s'' : rstep v c s = Some s' -> rpath v n s' s'' -> rpath v (S n) s s''.

Lemma rstep_in_rsuccs v c s s' : rstep v c s = Some s' -> In s' (rsuccs v s).
Proof.
  intros H. unfold rsuccs. apply in_flat_map. exists c. split; [destruct c; simpl; auto|]. rewrite H. left. reflexivity.
Qed.

Lemma done_stays v c s s' : is_done s = true -> rstep v c s = Some s' -> s' = s.
Proof. unfold is_done, rstep. destruct s as [rf cf rg p ap]; simpl. destruct p; try discriminate. intros _ H. inversion H. reflexivity. Qed.

Lemma rpath_done v n s s' : is_done s = true -> rpath v n s s' -> s' = s.
Proof.
  intros Hd P. induction P as [|n s c s1 s2 Hs P IH]; [reflexivity|].
  pose proof (done_stays v c s s1 Hd Hs). subst s1. apply IH. exact Hd.
Qed.

Lemma all_paths_done_sound v fuel : forall budget s,
  all_paths_done v fuel budget s = true -> forall n s', fuel <= n -> rpath v n s s' -> is_done s' = true.
Proof.
  induction fuel as [|fuel IH]; intros budget s H n s' Hn P.
  - simpl in H. destruct (is_done s) eqn:Hd; [|discriminate].
    rewrite (rpath_done v n s s' Hd P). exact Hd.
  - cbn [all_paths_done] in H. destruct (is_done s) eqn:Hd.
    + rewrite (rpath_done v n s s' Hd P). exact Hd.
    + destruct n as [|n]; [lia|]. inversion P as [|n0 s0 c s1 s2 Hs P']; subst.
      pose proof (rstep_in_rsuccs v c s s1 Hs) as Hin.
      destruct (is_exec s).
      * destruct budget as [|b]; [discriminate|]. rewrite forallb_forall in H.
        eapply IH; [apply H; exact Hin | | exact P']. lia.
      * rewrite forallb_forall in H. eapply IH; [apply H; exact Hin | | exact P']. lia.
Qed.

Definition bounded (v : version) : bool :=
  forallb (fun s => match a s with ADone => all_paths_done v step_bound instr_bound s | _ => true end) (states v).

Lemma bounded_fixed : bounded VFixed = true.
Proof. vm_compute. reflexivity. Qed.

(* The repaired protocol: in every state reachable under any interleaving of Abort (called any
   time after Run has been entered) with the steps of Run, Invoker.acquire, Invoke and the
   child's Run, once Abort has returned every continuation of the running goroutine ends within
   step_bound protocol steps - after at most instr_bound further instructions - whatever the
   script does (plain instructions, callbacks, returning). *)
Theorem abort_never_lost s n s' :
  reachable VFixed s -> a s = ADone -> step_bound <= n -> rpath VFixed n s s' -> is_done s' = true.
Proof.
  intros R Ha Hn P.
  pose proof (reachable_in_states VFixed s closed_fixed R) as Hin.
  pose proof bounded_fixed as Hb. unfold bounded in Hb. rewrite forallb_forall in Hb.
  specialize (Hb _ Hin). rewrite Ha in Hb.
  eapply all_paths_done_sound; eassumption.
Qed.

(* Abort any number of times: a VM whose flag is still set starts the next Run normally *)
Theorem stale_flag_cleared c s : rstep VFixed c init_stale = Some s -> root_flag s = false.
Proof. simpl. intros H. inversion H. reflexivity. Qed.

(* The protocol of the pinned commit loses aborts: a schedule after which Abort has returned and
   the child VM can run any number of instructions *)
Definition lost_schedule : list move :=
  [MRun ChPlain; MRun ChPlain; MRun ChPlain; MRun ChCallback; MRun ChPlain; MRun ChPlain; MRun ChPlain;
   MAbort; MAbort; MRun ChPlain; MRun ChPlain; MRun ChPlain].

Fixpoint spin (n : nat) (s : st) : st :=
  match n with O => s | S n => spin n (run VOrig [MRun ChPlain; MRun ChPlain] s) end.

Lemma run_reachable v ms : forall s, reachable v s -> reachable v (run v ms s).
Proof.
  induction ms as [|m ms IH]; intros s R; [exact R|].
  unfold run. cbn [fold_left]. destruct (step v m s) as [s'|] eqn:E.
  - apply IH. eapply ReachStep; eassumption.
  - apply IH. exact R.
Qed.

Theorem orig_protocol_loses_abort :
  let s := run VOrig lost_schedule init in
  reachable VOrig s /\ a s = ADone /\ forall n, is_done (spin n s) = false.
Proof.
  cbv zeta. split; [|split].
  - apply run_reachable. apply ReachInit.
  - vm_compute. reflexivity.
  - intros n. assert (H: forall m s, r s = CLoopCheck -> child_flag s = false -> is_done (spin m s) = false).
    { clear. induction m as [|m IH]; intros s Hr Hc; simpl.
      - unfold is_done. rewrite Hr. reflexivity.
      - apply IH; unfold run; simpl; unfold rstep; rewrite Hr, Hc; simpl; reflexivity. }
    apply H; vm_compute; reflexivity.
Qed.
