(* Replays the forced interleavings of the check on the protocol model: the running goroutine
   follows a scripted list of choices and is stopped at a named control point, where Abort is
   performed (entirely, or its first action there and the second at a later point). *)
From Coq Require Import List Bool Arith String.
From Ugo Require Import Abort.Abort.
Import ListNotations.
Local Open Scope string_scope.

(* the hook name the implementation reports when the running goroutine arrives at a point; the
   script's own sync calls are labelled by the driver *)
Definition label (p : rpc) : string :=
  match p with
  | RRunEnter => "run.enter.root" | RRunReset => "run.reset.root"
  | RInvAcquire => "invoke.acquire.root" | RInvAcquired => "invoke.acquired.child"
  | RInvChecked => "invoke.checked.child" | CRunEnter => "run.enter.child" | CRunReset => "run.reset.child"
  | _ => ""
  end.

(* a scripted instruction: the choice and, for a sync call, its label *)
Definition sinstr := (choice * string)%type.

Record drv := mkDrv { d_st : st; d_root : list sinstr; d_child : list sinstr; d_child0 : list sinstr;
                      d_go : list choice; d_seen : nat; d_started : bool; d_finished : bool; d_trace : list string }.

(* what the running goroutine does next, and the label of the point it is at now (if any) *)
Definition next_choice (d : drv) : choice * string * drv :=
  match r (d_st d) with
  | RExec => match d_root d with
             | (c, l) :: rest => (c, l, mkDrv (d_st d) rest (d_child d) (d_child0 d) (d_go d) (d_seen d) (d_started d) (d_finished d) (d_trace d))
             | [] => (ChPlain, "", d)            (* the script loops forever *)
             end
  | CExec => match d_child d with
             | (c, l) :: rest => (c, l, mkDrv (d_st d) (d_root d) rest (d_child0 d) (d_go d) (d_seen d) (d_started d) (d_finished d) (d_trace d))
             | [] => (ChPlain, "", d)
             end
  | GoBack => match d_go d with
              | c :: rest => (c, "", mkDrv (d_st d) (d_root d) (d_child0 d) (d_child0 d) rest (d_seen d) (d_started d) (d_finished d) (d_trace d))
              | [] => (ChFinish, "", d)
              end
  | _ => (ChPlain, "", d)
  end.

Definition abort_once (v : version) (s : st) : st := match astep v s with Some s' => s' | None => s end.

(* One driver step.  The point the goroutine is at is label (r s), or the sync label of the
   instruction it is executing.  At p1 (occurrence occ) Abort starts; without p2 it completes there. *)
Definition drive_step (v : version) (p1 : string) (occ : nat) (p2 : string) (d : drv) : drv :=
  let '(c, synclabel, d1) := next_choice d in
  let here := if String.eqb synclabel "" then label (r (d_st d1)) else synclabel in
  let trace := if String.eqb here "" then d_trace d1 else (d_trace d1 ++ [here])%list in
  let hit1 := negb (d_started d1) && String.eqb here p1 && negb (String.eqb here "") in
  let seen := if hit1 then S (d_seen d1) else d_seen d1 in
  let start := hit1 && Nat.eqb seen occ in
  let s0 := d_st d1 in
  let s1 := if start then (if String.eqb p2 "" then abort_once v (abort_once v s0) else abort_once v s0) else s0 in
  let fin1 := start && String.eqb p2 "" in
  let hit2 := d_started d1 && negb (d_finished d1) && negb (String.eqb p2 "") && String.eqb here p2 in
  let s2 := if hit2 then abort_once v s1 else s1 in
  let s3 := match rstep v c s2 with Some s' => s' | None => s2 end in
  mkDrv s3 (d_root d1) (d_child d1) (d_child0 d1) (d_go d1) seen (d_started d1 || start) (d_finished d1 || fin1 || hit2) trace.

Fixpoint drive (v : version) (p1 : string) (occ : nat) (p2 : string) (fuel : nat) (d : drv) : drv :=
  match fuel with
  | O => d
  | S fuel => if is_done (d_st d) then d else drive v p1 occ p2 fuel (drive_step v p1 occ p2 d)
  end.

Inductive doutcome := DAborted | DReturned | DHang | DUnreached.

(* scenarios of the harness *)
Definition scenario (name : string) : option (list sinstr * list sinstr * list choice) :=
  if String.eqb name "root" then Some ([(ChPlain, "script.a.root")], [], [])
  else if String.eqb name "child-loop" then
    Some ([(ChPlain, "script.a.root"); (ChCallback, "")], [(ChPlain, "script.c.child")], [])
  else if String.eqb name "child-ret" then
    Some ([(ChPlain, "script.a.root"); (ChCallback, ""); (ChPlain, "script.b.root")],
          [(ChPlain, "script.c.child"); (ChFinish, "")], [ChCallback; ChFinish])
  else None.

Definition run_scenario (v : version) (name p1 : string) (occ : nat) (p2 : string) : doutcome * list string :=
  match scenario name with
  | None => (DUnreached, [])
  | Some (root, child, go) =>
      let d := drive v p1 occ p2 400 (mkDrv init root child child go 0 false false []) in
      ((if negb (d_started d) then DUnreached
        else match r (d_st d) with RDone true => DAborted | RDone false => DReturned | _ => DHang end), d_trace d)
  end.
