(* The abort protocol of vm.go (C09): VM.Abort against Run, Invoker.acquire/Invoke and a child
   VM's Run, as a transition system over the protocol's control points.  Two versions: the
   protocol as it was at the pinned commit (VOrig) and as repaired (VFixed). *)
From Coq Require Import List Bool Arith.
Import ListNotations.

Inductive version := VOrig | VFixed.

(* control points of the running goroutine; R*: root VM, C*: child VM of an Invoker *)
Inductive rpc :=
| RRunEnter            (* Run called, abort flag not reset yet *)
| RRunReset            (* flag reset: Run has been entered *)
| RLoopCheck           (* top of the interpreter loop: load the flag *)
| RExec                (* flag was 0: execute one instruction *)
| RInvAcquire          (* Go callback: Invoker.acquire takes the pool lock and registers the child *)
| RInvAcquired         (* child registered *)
| RInvCheck            (* Invoke: load child.Aborted() *)
| RInvChecked          (* check passed, about to call child.Run *)
| CRunEnter            (* child.Run called *)
| CRunReset
| CLoopCheck
| CExec
| GoBack               (* child returned normally to the Go function: invoke again or release *)
| CRelease             (* release the child, back to the parent loop *)
| RDone (aborted : bool).

(* Abort: two actions in an order that depends on the version *)
Inductive apc := AIdle | AMid | ADone.

Record st := mkSt { root_flag : bool; child_flag : bool; registered : bool; r : rpc; a : apc }.

Definition init : st := mkSt false false false RRunEnter AIdle.
(* a VM whose flag is still set from an earlier abort starts the next run *)
Definition init_stale : st := mkSt true false false RRunEnter AIdle.

Definition is_done (s : st) : bool := match r s with RDone _ => true | _ => false end.

(* choices of the script: what the instruction at RExec / CExec is *)
Inductive choice := ChPlain | ChCallback | ChFinish.

(* one step of the running goroutine; None: the choice does not apply at this point *)
Definition rstep (v : version) (c : choice) (s : st) : option st :=
  let upd r' := Some (mkSt (root_flag s) (child_flag s) (registered s) r' (a s)) in
  match r s with
  | RRunEnter => Some (mkSt false (child_flag s) (registered s) RRunReset (a s))
  | RRunReset => upd RLoopCheck
  | RLoopCheck => if root_flag s then upd (RDone true) else upd RExec
  | RExec => match c with
             | ChPlain => upd RLoopCheck
             | ChCallback => upd RInvAcquire
             | ChFinish => upd (RDone false)
             end
  | RInvAcquire =>
      (* under the pool lock: the child is registered; the repaired protocol hands it the
         root's abort state, the original leaves the fresh child's flag at 0 *)
      Some (mkSt (root_flag s) (match v with VFixed => root_flag s | VOrig => false end) true RInvAcquired (a s))
  | RInvAcquired => upd RInvCheck
  | RInvCheck => if child_flag s then upd (RDone true) (* ErrVMAborted propagates *) else upd RInvChecked
  | RInvChecked => upd CRunEnter
  | CRunEnter =>
      (* child.Run: the original resets the child's flag like the root's, the repaired one does not *)
      Some (mkSt (root_flag s) (match v with VFixed => child_flag s | VOrig => false end) (registered s) CRunReset (a s))
  | CRunReset => upd CLoopCheck
  | CLoopCheck => if child_flag s then upd (RDone true) else upd CExec
  | CExec => match c with
             | ChPlain => upd CLoopCheck
             | ChFinish => upd GoBack
             | ChCallback => None            (* nested callbacks: see DESIGN.md *)
             end
  | GoBack => match c with
              | ChCallback => upd RInvCheck   (* Invoke again on the acquired child *)
              | _ => upd CRelease
              end
  | CRelease => Some (mkSt (root_flag s) false false RLoopCheck (a s))
  | RDone _ => Some s
  end.

(* one action of the aborting goroutine; Abort is only called once Run has been entered *)
Definition astep (v : version) (s : st) : option st :=
  let set_root := mkSt true (child_flag s) (registered s) (r s) in
  let set_pool := mkSt (root_flag s) (if registered s then true else child_flag s) (registered s) (r s) in
  match a s, v with
  | AIdle, _ => match r s with RRunEnter => None | _ =>
                  Some (match v with VOrig => set_pool AMid | VFixed => set_root AMid end) end
  | AMid, VOrig => Some (set_root ADone)
  | AMid, VFixed => Some (set_pool ADone)
  | ADone, _ => None
  end.

Inductive move := MRun (c : choice) | MAbort.

Definition step (v : version) (m : move) (s : st) : option st :=
  match m with MRun c => rstep v c s | MAbort => astep v s end.

(* every interleaving: any sequence of moves, inapplicable ones skipped *)
Definition run (v : version) (ms : list move) (s : st) : st :=
  fold_left (fun s m => match step v m s with Some s' => s' | None => s end) ms s.

Inductive reachable (v : version) : st -> Prop :=
| ReachInit : reachable v init
| ReachStale : reachable v init_stale
| ReachStep s m s' : reachable v s -> step v m s = Some s' -> reachable v s'.

(* ---- finite exploration ---- *)
Definition all_moves : list move := [MRun ChPlain; MRun ChCallback; MRun ChFinish; MAbort].
Definition all_choices : list choice := [ChPlain; ChCallback; ChFinish].

Definition succs (v : version) (s : st) : list st :=
  flat_map (fun m => match step v m s with Some s' => [s'] | None => [] end) all_moves.

Definition rsuccs (v : version) (s : st) : list st :=
  flat_map (fun c => match rstep v c s with Some s' => [s'] | None => [] end) all_choices.

Definition rpc_eqb (x y : rpc) : bool :=
  match x, y with
  | RRunEnter, RRunEnter | RRunReset, RRunReset | RLoopCheck, RLoopCheck | RExec, RExec
  | RInvAcquire, RInvAcquire | RInvAcquired, RInvAcquired | RInvCheck, RInvCheck | RInvChecked, RInvChecked
  | CRunEnter, CRunEnter | CRunReset, CRunReset | CLoopCheck, CLoopCheck | CExec, CExec | GoBack, GoBack | CRelease, CRelease => true
  | RDone b1, RDone b2 => Bool.eqb b1 b2
  | _, _ => false
  end.
Definition apc_eqb (x y : apc) : bool :=
  match x, y with AIdle, AIdle | AMid, AMid | ADone, ADone => true | _, _ => false end.
Definition st_eqb (x y : st) : bool :=
  Bool.eqb (root_flag x) (root_flag y) && Bool.eqb (child_flag x) (child_flag y) &&
  Bool.eqb (registered x) (registered y) && rpc_eqb (r x) (r y) && apc_eqb (a x) (a y).

Definition mem (s : st) (l : list st) : bool := existsb (st_eqb s) l.

Fixpoint explore (v : version) (fuel : nat) (seen frontier : list st) : list st :=
  match fuel with
  | O => seen
  | S fuel =>
      let new := fold_left (fun acc s => if mem s acc then acc else acc ++ [s])
                           (flat_map (succs v) frontier) seen in
      let fresh := skipn (List.length seen) new in
      match fresh with [] => new | _ => explore v fuel new fresh end
  end.

Definition states_fixed : list st := Eval vm_compute in explore VFixed 64 [init; init_stale] [init; init_stale].
Definition states_orig : list st := Eval vm_compute in explore VOrig 64 [init; init_stale] [init; init_stale].
Definition states (v : version) : list st := match v with VFixed => states_fixed | VOrig => states_orig end.

(* instructions still executed: a step from RExec / CExec is one instruction *)
Definition is_exec (s : st) : bool := match r s with RExec | CExec => true | _ => false end.

(* from s, every continuation of the running goroutine alone reaches RDone within `fuel` steps and
   executes at most `budget` further instructions *)
Fixpoint all_paths_done (v : version) (fuel budget : nat) (s : st) : bool :=
  if is_done s then true
  else match fuel with
       | O => false
       | S fuel =>
           if is_exec s then
             match budget with
             | O => false
             | S b => forallb (all_paths_done v fuel b) (rsuccs v s)
             end
           else forallb (all_paths_done v fuel budget) (rsuccs v s)
       end.

Definition step_bound : nat := 14.
Definition instr_bound : nat := 1.
