(* Facts about the skeleton specification and the handler machine (property C03). *)
From Coq Require Import List ZArith Bool Lia.
From Ugo Require Import Skel.Skel.
Import ListNotations.
Local Open Scope Z_scope.

(* the local block function inside [sem] is [sem_block] *)
Lemma sem_try_unfold table body catch fin :
  sem table (STry body catch fin) =
  let '(l1, o1) := sem_block table body in
  let '(l2, o2) :=
    match o1, catch with
    | OThrow e, Some (named, cb) =>
        let '(lc, oc) := sem_block table cb in
        ((if named : bool then [ECaught e] else []) ++ lc, oc)
    | _, _ => ([], o1)
    end in
  match fin with
  | None => (l1 ++ l2, o2)
  | Some fb =>
      let '(lf, of) := sem_block table fb in
      (l1 ++ l2 ++ lf, match of with ONormal => o2 | _ => of end)
  end.
Proof. reflexivity. Qed.

(* Specification level: whatever the try body and the catch block do, the events of the
   finally block occur exactly once, after them, and the pending outcome survives a finally
   block that completes normally. *)
Theorem spec_finally_once table body catch fb :
  exists lpre opre lf of,
    sem_block table fb = (lf, of) /\
    sem table (STry body catch (Some fb)) =
      (lpre ++ lf, match of with ONormal => opre | _ => of end) /\
    sem table (STry body catch None) = (lpre, opre).
Proof.
  rewrite !sem_try_unfold.
  destruct (sem_block table body) as [l1 o1].
  destruct (match o1, catch with
            | OThrow e, Some (named, cb) =>
                let '(lc, oc) := sem_block table cb in
                ((if named : bool then [ECaught e] else []) ++ lc, oc)
            | _, _ => ([], o1)
            end) as [l2 o2] eqn:E.
  destruct (sem_block table fb) as [lf of] eqn:F.
  exists (l1 ++ l2), o2, lf, of. repeat split. rewrite app_assoc. reflexivity.
Qed.

(* a caught error is not raised again: the outcome of try/catch without finally is the
   outcome of the catch block *)
Theorem spec_caught_not_reraised table body named cb e l1 :
  sem_block table body = (l1, OThrow e) ->
  exists lc oc, sem_block table cb = (lc, oc) /\
    sem table (STry body (Some (named, cb)) None) =
      (l1 ++ (if named : bool then [ECaught e] else []) ++ lc, oc).
Proof.
  intros H. rewrite sem_try_unfold, H. destruct (sem_block table cb) as [lc oc].
  exists lc, oc. split; reflexivity.
Qed.

(* machine level: THROW 0 with nothing pending pops exactly the completed handler, so a
   completed try statement leaves the handler stack as it found it *)
Lemma removelast_app1 {A} (l : list A) x : removelast (l ++ [x]) = l.
Proof. apply removelast_last. Qed.

Lemma last_handler_app hs h : last_handler (hs ++ [h]) = Some h.
Proof.
  unfold last_handler. rewrite map_app. simpl.
  induction (map Some hs) as [|a l IH]; simpl; [reflexivity|].
  destruct (l ++ [Some h]) eqn:E; [destruct l; discriminate | exact IH].
Qed.

Theorem throw0_pops_completed prog fn ip cd hs h st lp rest lg :
  nth_error prog fn = Some cd -> nth_error cd ip = Some IThrow0 ->
  h_err h = None -> h_has_ret h = false ->
  step prog {| frames := {| f_fn := fn; f_ip := ip; f_handlers := hs ++ [h]; f_stack := st; f_loops := lp |} :: rest;
               vlog := lg |} =
  Running {| frames := {| f_fn := fn; f_ip := S ip; f_handlers := hs; f_stack := st; f_loops := lp |} :: rest;
             vlog := lg |}.
Proof.
  intros Hp Hc He Hr. unfold step. simpl. rewrite Hp, Hc. rewrite last_handler_app, He, Hr.
  unfold upd_frame, pop_handler. simpl. rewrite removelast_app1. reflexivity.
Qed.
