(* Property C03: the try/catch/finally skeleton language.
   SkelSem  : big-step specification written from docs/error-handling.md.
   SkelComp : faithful to compileTryStmt / compileCatchStmt / compileBranchStmt /
              compileReturnStmt / loops of compiler_nodes.go (tryCatchIndex, lastTryCatchIndex,
              FINALIZER upto).
   SkelVM   : the handler machine of vm.go (xOpSetupTry/Catch/Finally, xOpThrow, OpFinalizer,
              findFinally, throw, handleThrownError across frames).
   Definitions only. *)
From Coq Require Import List ZArith Bool Lia.
Import ListNotations.
Local Open Scope Z_scope.

Inductive skel :=
| SLog (a : Z)
| STry (body : list skel) (catch : option (bool * list skel)) (fin : option (list skel))
| SLoop (body : list skel)            (* for i := 0; i < 2; i++ { body } *)
| SBreak | SContinue
| SReturn (a : Z)
| SThrow (a : Z)                       (* throw "t<a>" *)
| SFail                                (* a runtime error raised by an operator: 1/0 *)
| SCall (f : nat).                     (* L(f<f>()) : call, then log the returned value *)

(* a program: function bodies; function i may call only functions j < i; the last one is main *)
Definition program := list (list skel).

(* ------------------------------------------------------------------ specification *)

Inductive event :=
| ELog (a : Z)
| ECaught (e : Z)        (* catch variable observed: thrown atom, or -1 for the runtime error *)
| ERet (a : option Z).   (* value returned by a called function (None = undefined) *)

Inductive outcome := ONormal | OBreak | OContinue | OReturn (a : Z) | OThrow (e : Z).

Definition fsem := (list event * outcome)%type.

Section Sem.
  Variable table : list fsem.   (* meanings of the functions defined so far *)

  Fixpoint sem (s : skel) : fsem :=
    let sem_block := fix sem_block (l : list skel) : fsem :=
      match l with
      | [] => ([], ONormal)
      | x :: xs =>
          let '(l1, o1) := sem x in
          match o1 with
          | ONormal => let '(l2, o2) := sem_block xs in (l1 ++ l2, o2)
          | _ => (l1, o1)
          end
      end in
    match s with
    | SLog a => ([ELog a], ONormal)
    | SBreak => ([], OBreak)
    | SContinue => ([], OContinue)
    | SReturn a => ([], OReturn a)
    | SThrow a => ([], OThrow a)
    | SFail => ([], OThrow (-1))
    | SCall f =>
        match nth_error table f with
        | Some (lf, OReturn a) => (lf ++ [ERet (Some a)], ONormal)
        | Some (lf, OThrow e) => (lf, OThrow e)
        | Some (lf, _) => (lf ++ [ERet None], ONormal)
        | None => ([], OThrow (-2))
        end
    | SLoop body =>
        let '(l1, o1) := sem_block body in
        match o1 with
        | ONormal | OContinue =>
            let '(l2, o2) := sem_block body in
            (l1 ++ l2, match o2 with ONormal | OContinue | OBreak => ONormal | o => o end)
        | OBreak => (l1, ONormal)
        | o => (l1, o)
        end
    | STry body catch fin =>
        let '(l1, o1) := sem_block body in
        let '(l2, o2) :=
          match o1, catch with
          | OThrow e, Some (named, cb) =>
              let '(lc, oc) := sem_block cb in
              ((if named : bool then [ECaught e] else []) ++ lc, oc)
          | _, _ => ([], o1)
          end in
        match fin with
        | None => (l1 ++ l2, o2)
        | Some fb =>
            let '(lf, of) := sem_block fb in
            (l1 ++ l2 ++ lf, match of with ONormal => o2 | _ => of end)
        end
    end.

  Fixpoint sem_block (l : list skel) : fsem :=
    match l with
    | [] => ([], ONormal)
    | x :: xs =>
        let '(l1, o1) := sem x in
        match o1 with
        | ONormal => let '(l2, o2) := sem_block xs in (l1 ++ l2, o2)
        | _ => (l1, o1)
        end
    end.
End Sem.

Definition sem_fn (table : list fsem) (body : list skel) : fsem := sem_block table body.

Fixpoint sem_program_aux (table : list fsem) (p : program) : list fsem :=
  match p with
  | [] => table
  | b :: rest => sem_program_aux (table ++ [sem_fn table b]) rest
  end.

(* observable result of running the program: the log and main's outcome *)
Definition sem_program (p : program) : option fsem := last (map Some (sem_program_aux [] p)) None.

(* ------------------------------------------------------------------ compiler *)

Inductive instr :=
| ILog (a : Z)
| IPush (a : Z)
| ISetupTry (catch finally : nat)      (* 0 = none, as in the bytecode *)
| ISetupCatch (named : bool)           (* SETUPCATCH; then SETLOCAL+use (named) or POP *)
| ISetupFinally
| IThrow0
| IThrowUser (a : Z)
| IFail
| IJump (pos : nat)
| IFinalizer (upto : nat)
| IReturn (hasval : bool)
| ICall (f : nat)                      (* call f, push its result *)
| ILogTop                              (* L(top of stack) *)
| ILoopInit (k : nat) | ILoopTest (k : nat) (exit : nat) | ILoopIncr (k : nat).

Record loopctx := { lc_last_try : Z; lc_id : nat }.

Record cstate := {
  code : list instr;
  try_index : Z;                (* Compiler.tryCatchIndex, starts at -1 *)
  loops : list loopctx;         (* innermost first *)
  next_loop : nat;
  breaks : list (list nat);     (* per open loop: positions of JUMPs to patch *)
  conts : list (list nat);
  cerr : bool                   (* break/continue outside of a loop: compile error *)
}.

Definition emit (c : cstate) (i : instr) : cstate * nat :=
  ({| code := code c ++ [i]; try_index := try_index c; loops := loops c; next_loop := next_loop c;
      breaks := breaks c; conts := conts c; cerr := cerr c |}, length (code c)).

Fixpoint set_nth {A} (n : nat) (x : A) (l : list A) : list A :=
  match n, l with
  | O, _ :: t => x :: t
  | S n', h :: t => h :: set_nth n' x t
  | _, [] => []
  end.

Definition patch (c : cstate) (pos : nat) (i : instr) : cstate :=
  {| code := set_nth pos i (code c); try_index := try_index c; loops := loops c; next_loop := next_loop c;
     breaks := breaks c; conts := conts c; cerr := cerr c |}.

Definition with_try (c : cstate) (t : Z) : cstate :=
  {| code := code c; try_index := t; loops := loops c; next_loop := next_loop c;
     breaks := breaks c; conts := conts c; cerr := cerr c |}.

Definition add_break (c : cstate) (pos : nat) : cstate :=
  {| code := code c; try_index := try_index c; loops := loops c; next_loop := next_loop c;
     breaks := match breaks c with b :: r => (pos :: b) :: r | [] => [] end;
     conts := conts c; cerr := cerr c |}.
Definition add_cont (c : cstate) (pos : nat) : cstate :=
  {| code := code c; try_index := try_index c; loops := loops c; next_loop := next_loop c;
     breaks := breaks c;
     conts := match conts c with b :: r => (pos :: b) :: r | [] => [] end; cerr := cerr c |}.
Definition set_err (c : cstate) : cstate :=
  {| code := code c; try_index := try_index c; loops := loops c; next_loop := next_loop c;
     breaks := breaks c; conts := conts c; cerr := true |}.

Definition patch_jumps (c : cstate) (ps : list nat) (target : nat) : cstate :=
  fold_left (fun c p => patch c p (IJump target)) ps c.

Fixpoint compile (s : skel) (c : cstate) : cstate :=
  let compile_block := fix compile_block (l : list skel) (c : cstate) : cstate :=
    match l with [] => c | x :: xs => compile_block xs (compile x c) end in
  match s with
  | SLog a => fst (emit c (ILog a))
  | SThrow a => fst (emit c (IThrowUser a))
  | SFail => fst (emit c IFail)
  | SCall f => fst (emit (fst (emit c (ICall f))) ILogTop)
  | SReturn a =>
      let c := fst (emit c (IPush a)) in
      let c := if (-1 <? try_index c) then fst (emit c (IFinalizer 0)) else c in
      fst (emit c (IReturn true))
  | SBreak =>
      match loops c with
      | [] => set_err c
      | lp :: _ =>
          let c := if lc_last_try lp =? try_index c then c
                   else fst (emit c (IFinalizer (Z.to_nat (lc_last_try lp + 1)))) in
          let '(c, pos) := emit c (IJump 0) in add_break c pos
      end
  | SContinue =>
      match loops c with
      | [] => set_err c
      | lp :: _ =>
          let c := if lc_last_try lp =? try_index c then c
                   else fst (emit c (IFinalizer (Z.to_nat (lc_last_try lp + 1)))) in
          let '(c, pos) := emit c (IJump 0) in add_cont c pos
      end
  | SLoop body =>
      let k := next_loop c in
      let c := {| code := code c; try_index := try_index c;
                  loops := {| lc_last_try := try_index c; lc_id := k |} :: loops c;
                  next_loop := S k; breaks := [] :: breaks c; conts := [] :: conts c; cerr := cerr c |} in
      let c := fst (emit c (ILoopInit k)) in
      let '(c, test) := emit c (ILoopTest k 0) in
      let c := compile_block body c in
      let post := length (code c) in
      let c := fst (emit c (ILoopIncr k)) in
      let c := fst (emit c (IJump test)) in
      let exit := length (code c) in
      let c := patch c test (ILoopTest k exit) in
      let c := patch_jumps c (hd [] (breaks c)) exit in
      let c := patch_jumps c (hd [] (conts c)) post in
      {| code := code c; try_index := try_index c; loops := tl (loops c); next_loop := next_loop c;
         breaks := tl (breaks c); conts := tl (conts c); cerr := cerr c |}
  | STry body catch fin =>
      let c := with_try c (try_index c + 1) in
      let '(c, optry) := emit c (ISetupTry 0 0) in
      let c := compile_block body c in
      let '(c, opjump, catchpos) :=
        match catch with
        | None => (c, 0%nat, 0%nat)
        | Some (named, cb) =>
            let '(c, opjump) := emit c (IJump 0) in
            let catchpos := length (code c) in
            let c := fst (emit c (ISetupCatch named)) in
            (compile_block cb c, opjump, catchpos)
        end in
      let '(c, finallypos) := emit c ISetupFinally in
      let c := match fin with Some fb => compile_block fb c | None => c end in
      let c := with_try c (try_index c - 1) in
      let c := patch c optry (ISetupTry catchpos finallypos) in
      let c := match catch with Some _ => patch c opjump (IJump finallypos) | None => c end in
      fst (emit c IThrow0)
  end.

Fixpoint compile_block (l : list skel) (c : cstate) : cstate :=
  match l with [] => c | x :: xs => compile_block xs (compile x c) end.

Definition init_cstate : cstate :=
  {| code := []; try_index := -1; loops := []; next_loop := 0; breaks := []; conts := []; cerr := false |}.

(* a function body ends with the implicit RETURN 0 *)
Definition compile_fn (body : list skel) : option (list instr) :=
  let c := compile_block body init_cstate in
  if cerr c then None else Some (code c ++ [IReturn false]).

Fixpoint compile_program (p : program) : option (list (list instr)) :=
  match p with
  | [] => Some []
  | b :: rest =>
      match compile_fn b, compile_program rest with
      | Some cb, Some cr => Some (cb :: cr)
      | _, _ => None
      end
  end.

(* ------------------------------------------------------------------ the handler machine *)

Record handler := { h_sp : nat; h_catch : nat; h_finally : nat; h_return_to : nat; h_err : option Z; h_has_ret : bool }.
(* h_has_ret distinguishes "returnTo = 0" from a pending jump to instruction 0; the bytecode
   never has a FINALIZER at offset 0 (it follows at least the value push or a SETUPTRY) *)

Inductive sval := VAtom (a : Z) | VUndef | VErr (e : Z).

Record frame := {
  f_fn : nat; f_ip : nat; f_handlers : list handler;   (* innermost handler LAST, as the Go slice *)
  f_stack : list sval;                                  (* top of stack LAST *)
  f_loops : list (nat * nat)                            (* loop id -> counter *)
}.

Record vmstate := { frames : list frame (* current frame FIRST *); vlog : list event }.

Inductive vmres := Running (s : vmstate) | Done (l : list event) (o : outcome) | Stuck (why : nat).

Definition upd_frame (f : frame) ip hs st lp : frame :=
  {| f_fn := f_fn f; f_ip := ip; f_handlers := hs; f_stack := st; f_loops := lp |}.


Definition last_handler (hs : list handler) : option handler := last (map Some hs) None.
Definition pop_handler (hs : list handler) : list handler := removelast hs.
Definition set_last (hs : list handler) (h : handler) : list handler := removelast hs ++ [h].

Fixpoint get_loop (k : nat) (l : list (nat * nat)) : nat :=
  match l with [] => 0%nat | (k', v) :: r => if Nat.eqb k k' then v else get_loop k r end.
Fixpoint set_loop (k v : nat) (l : list (nat * nat)) : list (nat * nat) :=
  match l with
  | [] => [(k, v)]
  | (k', v') :: r => if Nat.eqb k k' then (k, v) :: r else (k', v') :: set_loop k v r
  end.

(* findFinally: pops handlers whose finally is 0 while index >= upto *)
Fixpoint find_finally (fuel : nat) (upto : nat) (hs : list handler) : list handler * nat :=
  match fuel with
  | O => (hs, 0%nat)
  | S fuel' =>
      match last_handler hs with
      | None => (hs, 0%nat)
      | Some h =>
          if Nat.ltb (length hs - 1) upto then (hs, 0%nat)
          else if Nat.eqb (h_finally h) 0 then find_finally fuel' upto (pop_handler hs)
          else (hs, h_finally h)
      end
  end.

(* handleThrownError on one frame: Some (frame') if handled there (ip set), None if the frame has
   no handler able to take it (all popped) *)
Fixpoint handle_thrown (fuel : nat) (f : frame) (e : Z) : option frame :=
  match fuel with
  | O => None
  | S fuel' =>
      match last_handler (f_handlers f) with
      | None => None
      | Some h =>
          let h' := {| h_sp := h_sp h; h_catch := h_catch h; h_finally := h_finally h;
                       h_return_to := h_return_to h; h_err := Some e; h_has_ret := h_has_ret h |} in
          if negb (Nat.eqb (h_catch h) 0) then
            Some (upd_frame f (h_catch h) (set_last (f_handlers f) h') (firstn (h_sp h) (f_stack f)) (f_loops f))
          else if negb (Nat.eqb (h_finally h) 0) then
            Some (upd_frame f (h_finally h) (set_last (f_handlers f) h') (firstn (h_sp h) (f_stack f)) (f_loops f))
          else
            handle_thrown fuel' (upd_frame f (f_ip f) (pop_handler (f_handlers f)) (f_stack f) (f_loops f)) e
      end
  end.

(* throw: current frame first, then the calling frames *)
Fixpoint throw_frames (fs : list frame) (e : Z) : option (list frame) :=
  match fs with
  | [] => None
  | f :: rest =>
      match handle_thrown (S (length (f_handlers f))) f e with
      | Some f' => Some (f' :: rest)
      | None => throw_frames rest e
      end
  end.

Definition do_throw (s : vmstate) (e : Z) : vmres :=
  match throw_frames (frames s) e with
  | Some fs => Running {| frames := fs; vlog := vlog s |}
  | None => Done (vlog s) (OThrow e)
  end.

Definition step (prog : list (list instr)) (s : vmstate) : vmres :=
  match frames s with
  | [] => Stuck 0
  | f :: rest =>
      match nth_error prog (f_fn f) with
      | None => Stuck 1
      | Some cd =>
          match nth_error cd (f_ip f) with
          | None => Stuck 2
          | Some i =>
              let next f' := Running {| frames := f' :: rest; vlog := vlog s |} in
              let ip1 := S (f_ip f) in
              match i with
              | ILog a => Running {| frames := upd_frame f ip1 (f_handlers f) (f_stack f) (f_loops f) :: rest;
                                     vlog := vlog s ++ [ELog a] |}
              | IPush a => next (upd_frame f ip1 (f_handlers f) (f_stack f ++ [VAtom a]) (f_loops f))
              | ISetupTry c fi =>
                  next (upd_frame f ip1
                          (f_handlers f ++ [{| h_sp := length (f_stack f); h_catch := c; h_finally := fi;
                                               h_return_to := 0; h_err := None; h_has_ret := false |}])
                          (f_stack f) (f_loops f))
              | ISetupCatch named =>
                  match last_handler (f_handlers f) with
                  | None =>
                      (* no handler: value = undefined *)
                      if named then Running {| frames := upd_frame f ip1 (f_handlers f) (f_stack f) (f_loops f) :: rest;
                                               vlog := vlog s |}
                      else next (upd_frame f ip1 (f_handlers f) (f_stack f) (f_loops f))
                  | Some h =>
                      let h' := {| h_sp := h_sp h; h_catch := 0; h_finally := h_finally h;
                                   h_return_to := h_return_to h; h_err := None; h_has_ret := h_has_ret h |} in
                      let f' := upd_frame f ip1 (set_last (f_handlers f) h') (f_stack f) (f_loops f) in
                      match named, h_err h with
                      | true, Some e => Running {| frames := f' :: rest; vlog := vlog s ++ [ECaught e] |}
                      | _, _ => Running {| frames := f' :: rest; vlog := vlog s |}
                      end
                  end
              | ISetupFinally =>
                  match last_handler (f_handlers f) with
                  | None => next (upd_frame f ip1 (f_handlers f) (f_stack f) (f_loops f))
                  | Some h =>
                      let h' := {| h_sp := h_sp h; h_catch := 0; h_finally := 0;
                                   h_return_to := h_return_to h; h_err := h_err h; h_has_ret := h_has_ret h |} in
                      next (upd_frame f ip1 (set_last (f_handlers f) h') (f_stack f) (f_loops f))
                  end
              | IThrow0 =>
                  match last_handler (f_handlers f) with
                  | None => next (upd_frame f ip1 (f_handlers f) (f_stack f) (f_loops f))
                  | Some h =>
                      match h_err h with
                      | Some e =>
                          do_throw {| frames := upd_frame f ip1 (pop_handler (f_handlers f)) (f_stack f) (f_loops f) :: rest;
                                      vlog := vlog s |} e
                      | None =>
                          if h_has_ret h then
                            next (upd_frame f (h_return_to h) (pop_handler (f_handlers f))
                                    (firstn (h_sp h) (f_stack f)) (f_loops f))
                          else next (upd_frame f ip1 (pop_handler (f_handlers f)) (f_stack f) (f_loops f))
                      end
                  end
              | IThrowUser a =>
                  do_throw {| frames := upd_frame f ip1 (f_handlers f) (f_stack f) (f_loops f) :: rest; vlog := vlog s |} a
              | IFail =>
                  do_throw {| frames := upd_frame f ip1 (f_handlers f) (f_stack f) (f_loops f) :: rest; vlog := vlog s |} (-1)
              | IJump pos => next (upd_frame f pos (f_handlers f) (f_stack f) (f_loops f))
              | IFinalizer upto =>
                  let '(hs, pos) := find_finally (S (length (f_handlers f))) upto (f_handlers f) in
                  if Nat.eqb pos 0 then next (upd_frame f ip1 hs (f_stack f) (f_loops f))
                  else
                    match last_handler hs with
                    | None => Stuck 3
                    | Some h =>
                        let h' := {| h_sp := length (f_stack f); h_catch := h_catch h; h_finally := h_finally h;
                                     h_return_to := f_ip f; h_err := None; h_has_ret := true |} in
                        next (upd_frame f pos (set_last hs h') (f_stack f) (f_loops f))
                    end
              | IReturn hasval =>
                  let v := if hasval then last (f_stack f) VUndef else VUndef in
                  match rest with
                  | [] => Done (vlog s) (match v with VAtom a => OReturn a | _ => ONormal end)
                  | parent :: rest' =>
                      Running {| frames := upd_frame parent (f_ip parent) (f_handlers parent)
                                             (f_stack parent ++ [v]) (f_loops parent) :: rest';
                                 vlog := vlog s |}
                  end
              | ICall g =>
                  Running {| frames := {| f_fn := g; f_ip := 0; f_handlers := []; f_stack := []; f_loops := [] |}
                                       :: upd_frame f ip1 (f_handlers f) (f_stack f) (f_loops f) :: rest;
                             vlog := vlog s |}
              | ILogTop =>
                  let v := last (f_stack f) VUndef in
                  Running {| frames := upd_frame f ip1 (f_handlers f) (removelast (f_stack f)) (f_loops f) :: rest;
                             vlog := vlog s ++ [ERet (match v with VAtom a => Some a | _ => None end)] |}
              | ILoopInit k => next (upd_frame f ip1 (f_handlers f) (f_stack f) (set_loop k 0 (f_loops f)))
              | ILoopTest k exit =>
                  if Nat.ltb (get_loop k (f_loops f)) 2 then next (upd_frame f ip1 (f_handlers f) (f_stack f) (f_loops f))
                  else next (upd_frame f exit (f_handlers f) (f_stack f) (f_loops f))
              | ILoopIncr k =>
                  next (upd_frame f ip1 (f_handlers f) (f_stack f) (set_loop k (S (get_loop k (f_loops f))) (f_loops f)))
              end
          end
      end
  end.

Fixpoint run (fuel : nat) (prog : list (list instr)) (s : vmstate) : vmres :=
  match fuel with
  | O => Stuck 99
  | S fuel' =>
      match step prog s with
      | Running s' => run fuel' prog s'
      | r => r
      end
  end.

Definition run_program (fuel : nat) (p : program) : option vmres :=
  match compile_program p with
  | None => None
  | Some prog =>
      Some (run fuel prog {| frames := [{| f_fn := (length prog - 1)%nat; f_ip := 0; f_handlers := [];
                                            f_stack := []; f_loops := [] |}]; vlog := [] |})
  end.
