(* Property C03: the emit-and-patch compiler of Skel.v and the declarative compiler of SkelDecl.v
   produce the same code for every well-formed program. *)
From Coq Require Import List ZArith Bool Lia Arith.
From Ugo Require Import Skel.Skel Skel.SkelProofs Skel.SkelDecl Skel.SkelSim.
Import ListNotations.
Local Open Scope Z_scope.

(* positions of the jumps emitted for break (isb = true) / continue (isb = false) statements that
   belong to the innermost enclosing loop, in compilation order *)
Fixpoint jpos (isb : bool) (p : nat) (ti : Z) (lt : option Z) (s : skel) : list nat :=
  let jposb := fix jposb (isb' : bool) (p' : nat) (ti' : Z) (lt' : option Z) (l : list skel) {struct l} : list nat :=
    match l with [] => [] | x :: xs => jpos isb' p' ti' lt' x ++ jposb isb' (p' + sz ti' lt' x)%nat ti' lt' xs end in
  match s with
  | SBreak => if isb then match lt with Some l => [if l =? ti then p else S p] | None => [] end else []
  | SContinue => if isb then [] else match lt with Some l => [if l =? ti then p else S p] | None => [] end
  | STry body catch fin =>
      let ti' := ti + 1 in
      let pafter := (S p + szb ti' lt body)%nat in
      let fpos := match catch with Some (_, cb) => (pafter + 2 + szb ti' lt cb)%nat | None => pafter end in
      jposb isb (S p) ti' lt body
      ++ match catch with Some (_, cb) => jposb isb (pafter + 2)%nat ti' lt cb | None => [] end
      ++ match fin with Some fb => jposb isb (S fpos) ti' lt fb | None => [] end
  | _ => []
  end.
Fixpoint jposb (isb : bool) (p : nat) (ti : Z) (lt : option Z) (l : list skel) : list nat :=
  match l with [] => [] | x :: xs => jpos isb p ti lt x ++ jposb isb (p + sz ti lt x)%nat ti lt xs end.

Lemma jpos_try isb p ti lt body catch fin :
  jpos isb p ti lt (STry body catch fin) =
  let ti' := ti + 1 in
  let pafter := (S p + szb ti' lt body)%nat in
  let fpos := match catch with Some (_, cb) => (pafter + 2 + szb ti' lt cb)%nat | None => pafter end in
  jposb isb (S p) ti' lt body
  ++ match catch with Some (_, cb) => jposb isb (pafter + 2)%nat ti' lt cb | None => [] end
  ++ match fin with Some fb => jposb isb (S fpos) ti' lt fb | None => [] end.
Proof. reflexivity. Qed.

Definition patch_list (cd : list instr) (ps : list nat) (i : instr) : list instr := fold_left (fun cd p => set_nth p i cd) ps cd.
Lemma patch_list_app cd a b i : patch_list cd (a ++ b) i = patch_list (patch_list cd a i) b i.
Proof. apply fold_left_app. Qed.

Lemma set_nth_app_r {A} (a b : list A) i x : set_nth (length a + i) x (a ++ b) = a ++ set_nth i x b.
Proof. induction a as [|y a IH]; cbn [length app Nat.add set_nth]; [reflexivity | rewrite IH; reflexivity]. Qed.

Definition retarget (isb : bool) (lp : lctx) (t : nat) : lctx :=
  match lp with
  | Some (l, b, c) => if isb then Some (l, t, c) else Some (l, b, t)
  | None => None
  end.
Lemma lt_of_retarget isb lp t : lt_of (retarget isb lp t) = lt_of lp.
Proof. destruct lp as [[[l b] c]|]; [destruct isb|]; reflexivity. Qed.

Definition retarget_ok (s : skel) : Prop := forall isb p ti k lp t pre suf, length pre = p ->
  patch_list (pre ++ dcomp p ti k lp s ++ suf) (rev (jpos isb p ti (lt_of lp) s)) (IJump t) = pre ++ dcomp p ti k (retarget isb lp t) s ++ suf.
Definition retarget_block_ok (l : list skel) : Prop := forall isb p ti k lp t pre suf, length pre = p ->
  patch_list (pre ++ dcb p ti k lp l ++ suf) (rev (jposb isb p ti (lt_of lp) l)) (IJump t) = pre ++ dcb p ti k (retarget isb lp t) l ++ suf.

Lemma retarget_jump p ti (pre suf : list instr) (tgt t : nat) : length pre = p ->
  forall l : Z,
  patch_list (pre ++ ((if l =? ti then [] else [IFinalizer (Z.to_nat (l + 1))]) ++ [IJump tgt]) ++ suf)
             (rev [if l =? ti then p else S p]) (IJump t)
  = pre ++ ((if l =? ti then [] else [IFinalizer (Z.to_nat (l + 1))]) ++ [IJump t]) ++ suf.
Proof.
  intros Hp l. cbn [rev app patch_list fold_left]. unfold patch_list. cbn [fold_left]. subst p. destruct (l =? ti); cbn [app].
  - rewrite <- (Nat.add_0_r (length pre)). rewrite set_nth_app_r. reflexivity.
  - replace (S (length pre)) with (length pre + 1)%nat by lia. rewrite set_nth_app_r. reflexivity.
Qed.

Theorem retarget_all : forall s, retarget_ok s.
Proof.
  apply (skel_ind2 retarget_ok retarget_block_ok); try (intros; intros isb p ti k lp t pre suf Hp; reflexivity).
  - (* break *)
    intros isb p ti k lp t pre suf Hp. destruct lp as [[[l b] c]|]; [|destruct isb; reflexivity].
    cbn [dcomp jpos lt_of retarget]. destruct isb; [|reflexivity].
    apply (retarget_jump p ti pre suf b t Hp l).
  - (* continue *)
    intros isb p ti k lp t pre suf Hp. destruct lp as [[[l b] c]|]; [|destruct isb; reflexivity].
    cbn [dcomp jpos lt_of retarget]. destruct isb; [reflexivity|].
    apply (retarget_jump p ti pre suf c t Hp l).
  - (* try *)
    intros body catch fin IHb IHc IHf isb p ti k lp t pre suf Hp.
    rewrite jpos_try, !dcomp_try. cbv zeta. rewrite !lt_of_retarget.
    set (ti' := ti + 1). set (lt := lt_of lp). set (lp' := retarget isb lp t).
    set (pafter := (S p + szb ti' lt body)%nat).
    set (fpos := match catch with Some (_, cb) => (pafter + 2 + szb ti' lt cb)%nat | None => pafter end).
    set (catchpos := match catch with Some _ => S pafter | None => 0%nat end).
    set (kc := (k + nlb body)%nat). set (kf := (kc + match catch with Some (_, cb) => nlb cb | None => 0 end)%nat).
    rewrite !rev_app_distr, !patch_list_app.
    (* the finally block *)
    set (catch0 := match catch with Some (named, cb) => IJump fpos :: ISetupCatch named :: dcb (pafter + 2) ti' kc lp cb | None => [] end).
    set (catch1 := match catch with Some (named, cb) => IJump fpos :: ISetupCatch named :: dcb (pafter + 2) ti' kc lp' cb | None => [] end).
    set (fb0 := match fin with Some fb => dcb (S fpos) ti' kf lp fb | None => [] end).
    set (fb1 := match fin with Some fb => dcb (S fpos) ti' kf lp' fb | None => [] end).
    assert (Hlc: length catch0 = match catch with Some (_, cb) => (2 + szb ti' lt cb)%nat | None => 0%nat end).
    { unfold catch0. destruct catch as [[named cb]|]; [cbn [length]; rewrite dcb_length; reflexivity | reflexivity]. }
    assert (Hf: patch_list (pre ++ (ISetupTry catchpos fpos :: dcb (S p) ti' k lp body ++ catch0 ++ ISetupFinally :: fb0 ++ [IThrow0]) ++ suf)
                  (rev match fin with Some fb => jposb isb (S fpos) ti' lt fb | None => [] end) (IJump t)
                = pre ++ (ISetupTry catchpos fpos :: dcb (S p) ti' k lp body ++ catch0 ++ ISetupFinally :: fb1 ++ [IThrow0]) ++ suf).
    { destruct fin as [fb|]; [|reflexivity]. cbn [optP] in IHf. unfold fb0, fb1.
      replace (pre ++ (ISetupTry catchpos fpos :: dcb (S p) ti' k lp body ++ catch0 ++ ISetupFinally :: dcb (S fpos) ti' kf lp fb ++ [IThrow0]) ++ suf)
        with ((pre ++ ISetupTry catchpos fpos :: dcb (S p) ti' k lp body ++ catch0 ++ [ISetupFinally]) ++ dcb (S fpos) ti' kf lp fb ++ ([IThrow0] ++ suf))
        by (repeat (rewrite <- ?app_assoc; cbn [app]); reflexivity).
      rewrite (IHf isb (S fpos) ti' kf lp t).
      - repeat (rewrite <- ?app_assoc; cbn [app]). reflexivity.
      - rewrite !app_length. cbn [length]. rewrite !app_length, dcb_length, Hlc. cbn [length]. unfold fpos, pafter. fold lt. destruct catch as [[named cb]|]; lia. }
    rewrite Hf.
    assert (Hc: patch_list (pre ++ (ISetupTry catchpos fpos :: dcb (S p) ti' k lp body ++ catch0 ++ ISetupFinally :: fb1 ++ [IThrow0]) ++ suf)
                  (rev match catch with Some (_, cb) => jposb isb (pafter + 2) ti' lt cb | None => [] end) (IJump t)
                = pre ++ (ISetupTry catchpos fpos :: dcb (S p) ti' k lp body ++ catch1 ++ ISetupFinally :: fb1 ++ [IThrow0]) ++ suf).
    { unfold catch0, catch1. destruct catch as [[named cb]|]; [|reflexivity]. cbn [optP option_map snd] in IHc.
      replace (pre ++ (ISetupTry catchpos fpos :: dcb (S p) ti' k lp body ++ (IJump fpos :: ISetupCatch named :: dcb (pafter + 2) ti' kc lp cb) ++ ISetupFinally :: fb1 ++ [IThrow0]) ++ suf)
        with ((pre ++ ISetupTry catchpos fpos :: dcb (S p) ti' k lp body ++ [IJump fpos; ISetupCatch named]) ++ dcb (pafter + 2) ti' kc lp cb ++ (ISetupFinally :: fb1 ++ [IThrow0] ++ suf))
        by (repeat (rewrite <- ?app_assoc; cbn [app]); reflexivity).
      rewrite (IHc isb (pafter + 2)%nat ti' kc lp t).
      - repeat (rewrite <- ?app_assoc; cbn [app]). reflexivity.
      - rewrite !app_length. cbn [length]. rewrite !app_length, dcb_length. cbn [length]. unfold pafter. fold lt. lia. }
    rewrite Hc.
    replace (pre ++ (ISetupTry catchpos fpos :: dcb (S p) ti' k lp body ++ catch1 ++ ISetupFinally :: fb1 ++ [IThrow0]) ++ suf)
      with ((pre ++ [ISetupTry catchpos fpos]) ++ dcb (S p) ti' k lp body ++ (catch1 ++ ISetupFinally :: fb1 ++ [IThrow0] ++ suf))
      by (repeat (rewrite <- ?app_assoc; cbn [app]); reflexivity).
    rewrite (IHb isb (S p) ti' k lp t) by (rewrite app_length; cbn [length]; lia).
    repeat (rewrite <- ?app_assoc; cbn [app]). reflexivity.
  - (* blocks *)
    intros x xs IHx IHxs isb p ti k lp t pre suf Hp. cbn [dcb jposb]. rewrite rev_app_distr, patch_list_app, !lt_of_retarget.
    replace (pre ++ (dcomp p ti k lp x ++ dcb (p + sz ti (lt_of lp) x) ti (k + nl x) lp xs) ++ suf)
      with ((pre ++ dcomp p ti k lp x) ++ dcb (p + sz ti (lt_of lp) x) ti (k + nl x) lp xs ++ suf) by (rewrite <- !app_assoc; reflexivity).
    rewrite (IHxs isb _ ti _ lp t) by (rewrite app_length, dcomp_length; lia).
    rewrite <- app_assoc. rewrite (IHx isb p ti k lp t pre _ Hp). rewrite <- !app_assoc. reflexivity.
Qed.

(* ---- the emit-and-patch compiler, unfolded *)
Definition mkc cd ti lps nlp bs cs er : cstate :=
  {| code := cd; try_index := ti; loops := lps; next_loop := nlp; breaks := bs; conts := cs; cerr := er |}.
Definition lt_c (c : cstate) : option Z := match loops c with l :: _ => Some (lc_last_try l) | [] => None end.
Definition lp0 (c : cstate) : lctx := match loops c with l :: _ => Some (lc_last_try l, 0%nat, 0%nat) | [] => None end.
Definition push (ps : list nat) (bs : list (list nat)) : list (list nat) := match bs with b :: r => (ps ++ b) :: r | [] => [] end.

Lemma push_nil bs : push [] bs = bs. Proof. destruct bs; reflexivity. Qed.
Lemma push_push a b bs : push a (push b bs) = push (a ++ b) bs.
Proof. destruct bs; cbn [push]; [reflexivity | rewrite app_assoc; reflexivity]. Qed.
Lemma lt_of_lp0 c : lt_of (lp0 c) = lt_c c.
Proof. unfold lp0, lt_c. destruct (loops c); reflexivity. Qed.

Lemma compile_try_unfold body catch fin c :
  compile (STry body catch fin) c =
      let c := with_try c (try_index c + 1) in
      let '(c, optry) := emit c (ISetupTry 0 0) in
      let c := compile_block body c in
      let '(c, opjump, catchpos) :=
        match catch with
        | None => (c, 0%nat, 0%nat)
        | Some (named, cb) =>
            let '(c, opjump) := emit c (IJump 0) in
            let catchpos := length (code c) in
            let c := fst (emit c (ISetupCatch named)) in
            (compile_block cb c, opjump, catchpos)
        end in
      let '(c, finallypos) := emit c ISetupFinally in
      let c := match fin with Some fb => compile_block fb c | None => c end in
      let c := with_try c (try_index c - 1) in
      let c := patch c optry (ISetupTry catchpos finallypos) in
      let c := match catch with Some _ => patch c opjump (IJump finallypos) | None => c end in
      fst (emit c IThrow0).
Proof. reflexivity. Qed.

Lemma compile_loop_unfold body c :
  compile (SLoop body) c =
      let k := next_loop c in
      let c := {| code := code c; try_index := try_index c;
                  loops := {| lc_last_try := try_index c; lc_id := k |} :: loops c;
                  next_loop := S k; breaks := [] :: breaks c; conts := [] :: conts c; cerr := cerr c |} in
      let c := fst (emit c (ILoopInit k)) in
      let '(c, test) := emit c (ILoopTest k 0) in
      let c := compile_block body c in
      let post := length (code c) in
      let c := fst (emit c (ILoopIncr k)) in
      let c := fst (emit c (IJump test)) in
      let exit := length (code c) in
      let c := patch c test (ILoopTest k exit) in
      let c := patch_jumps c (hd [] (breaks c)) exit in
      let c := patch_jumps c (hd [] (conts c)) post in
      {| code := code c; try_index := try_index c; loops := tl (loops c); next_loop := next_loop c;
         breaks := tl (breaks c); conts := tl (conts c); cerr := cerr c |}.
Proof. reflexivity. Qed.

Lemma patch_jumps_spec ps : forall c t,
  patch_jumps c ps t = mkc (patch_list (code c) ps (IJump t)) (try_index c) (loops c) (next_loop c) (breaks c) (conts c) (cerr c).
Proof.
  induction ps as [|p ps IH]; intros c t; unfold patch_jumps in *; cbn [fold_left patch_list].
  - destruct c; reflexivity.
  - rewrite IH. unfold patch, patch_list. cbn [code try_index loops next_loop breaks conts cerr fold_left]. reflexivity.
Qed.

Definition spec (s : skel) (c : cstate) : cstate :=
  mkc (code c ++ dcomp (length (code c)) (try_index c) (next_loop c) (lp0 c) s) (try_index c) (loops c) (next_loop c + nl s)
      (push (rev (jpos true (length (code c)) (try_index c) (lt_c c) s)) (breaks c))
      (push (rev (jpos false (length (code c)) (try_index c) (lt_c c) s)) (conts c)) (cerr c).
Definition specb (l : list skel) (c : cstate) : cstate :=
  mkc (code c ++ dcb (length (code c)) (try_index c) (next_loop c) (lp0 c) l) (try_index c) (loops c) (next_loop c + nlb l)
      (push (rev (jposb true (length (code c)) (try_index c) (lt_c c) l)) (breaks c))
      (push (rev (jposb false (length (code c)) (try_index c) (lt_c c) l)) (conts c)) (cerr c).

Definition comp_ok (nf : nat) (s : skel) : Prop := forall c, wfs (is_some (lt_c c)) nf s = true -> compile s c = spec s c.
Definition compb_ok (nf : nat) (l : list skel) : Prop := forall c, wfb (is_some (lt_c c)) nf l = true -> compile_block l c = specb l c.

Lemma simple_ok nf s i : (forall c, compile s c = fst (emit c i)) -> (forall p ti k lp, dcomp p ti k lp s = [i]) ->
  nl s = 0%nat -> (forall isb p ti lt, jpos isb p ti lt s = []) -> comp_ok nf s.
Proof.
  intros Hc Hd Hn Hj c _. rewrite Hc. unfold spec, emit, mkc. cbn [fst]. rewrite Hd, Hn, !Hj. cbn [rev]. rewrite !push_nil, Nat.add_0_r. reflexivity.
Qed.

Lemma ok_block_cons nf x xs : comp_ok nf x -> compb_ok nf xs -> compb_ok nf (x :: xs).
Proof.
  intros Hx Hxs c Hwf. cbn [wfb] in Hwf. apply andb_true_iff in Hwf. destruct Hwf as [Hwx Hwxs].
  cbn [compile_block]. rewrite (Hx c Hwx).
  assert (Hlt: lt_c (spec x c) = lt_c c) by reflexivity.
  rewrite (Hxs (spec x c)) by (rewrite Hlt; exact Hwxs).
  unfold specb, spec, mkc, lp0, lt_c. cbn [code try_index loops next_loop breaks conts cerr dcb jposb nlb].
  rewrite app_length, dcomp_length, !push_push, <- !rev_app_distr, <- app_assoc, Nat.add_assoc.
  replace (lt_of match loops c with l :: _ => Some (lc_last_try l, 0%nat, 0%nat) | [] => None end)
    with (match loops c with l :: _ => Some (lc_last_try l) | [] => None end) by (destruct (loops c); reflexivity).
  reflexivity.
Qed.

Lemma ok_block_nil nf : compb_ok nf [].
Proof.
  intros c _. unfold specb, mkc. cbn [compile_block dcb nlb jposb rev]. rewrite !push_nil, app_nil_r, Nat.add_0_r. destruct c; reflexivity.
Qed.

Lemma ok_return nf a : comp_ok nf (SReturn a).
Proof.
  intros c _. cbn [compile]. unfold spec, emit, mkc. cbn [fst code try_index loops next_loop breaks conts cerr dcomp nl jpos rev].
  rewrite !push_nil, Nat.add_0_r. destruct (-1 <? try_index c); cbn [fst code try_index loops next_loop breaks conts cerr app]; rewrite <- ?app_assoc; reflexivity.
Qed.

Lemma ok_jump nf (isb : bool) : comp_ok nf (if isb then SBreak else SContinue).
Proof.
  intros c Hwf. unfold spec, lp0, lt_c in *. destruct isb; cbn [compile wfs] in *;
    (destruct (loops c) as [|lp lps] eqn:El; [discriminate|]);
    cbn [dcomp jpos nl]; rewrite Nat.add_0_r;
    (destruct (lc_last_try lp =? try_index c) eqn:E; unfold emit, add_break, add_cont, mkc, push;
     cbn [fst snd code try_index loops next_loop breaks conts cerr app rev]; rewrite El, ?push_nil;
     [ destruct (breaks c), (conts c); rewrite ?app_nil_r; reflexivity
     | rewrite <- ?app_assoc, ?app_length; cbn [length app]; replace (length (code c) + 1)%nat with (S (length (code c))) by lia;
       destruct (breaks c), (conts c); reflexivity ]).
Qed.

Theorem retarget_block_all : forall l, retarget_block_ok l.
Proof.
  induction l as [|x xs IH]; intros isb p ti k lp t pre suf Hp; [reflexivity|].
  cbn [dcb jposb]. rewrite rev_app_distr, patch_list_app, !lt_of_retarget.
  replace (pre ++ (dcomp p ti k lp x ++ dcb (p + sz ti (lt_of lp) x) ti (k + nl x) lp xs) ++ suf)
    with ((pre ++ dcomp p ti k lp x) ++ dcb (p + sz ti (lt_of lp) x) ti (k + nl x) lp xs ++ suf) by (rewrite <- !app_assoc; reflexivity).
  rewrite (IH isb _ ti _ lp t) by (rewrite app_length, dcomp_length; lia).
  rewrite <- app_assoc. rewrite (retarget_all x isb p ti k lp t pre _ Hp). rewrite <- !app_assoc. reflexivity.
Qed.

Lemma ok_loop nf body : compb_ok nf body -> comp_ok nf (SLoop body).
Proof.
  intros Hb c Hwf. rewrite wfs_loop in Hwf. rewrite compile_loop_unfold. cbv zeta.
  set (k := next_loop c). set (ti := try_index c). set (p := length (code c)).
  set (c2 := {| code := (code c ++ [ILoopInit k]) ++ [ILoopTest k 0]; try_index := ti; loops := {| lc_last_try := ti; lc_id := k |} :: loops c;
                next_loop := S k; breaks := [] :: breaks c; conts := [] :: conts c; cerr := cerr c |}).
  assert (Hc2: compile_block body c2 = specb body c2) by (apply Hb; exact Hwf).
  unfold emit. cbn [fst snd code try_index loops next_loop breaks conts cerr]. fold k ti. fold c2. rewrite Hc2.
  unfold specb, spec, mkc, patch. unfold c2. cbn [code try_index loops next_loop breaks conts cerr fst snd].
  rewrite !patch_jumps_spec. unfold mkc. cbn [code try_index loops next_loop breaks conts cerr hd tl push].
  rewrite !app_nil_r, push_nil, push_nil.
  f_equal; [| unfold k; rewrite nl_loop; lia].
  (* the code *)
  rewrite dcomp_loop. cbv zeta. unfold lp0, lt_c. cbn [loops lc_last_try lt_of].
  rewrite !app_length. cbn [length]. fold p.
  replace (p + 1 + 1)%nat with (p + 2)%nat by lia.
  set (body0 := dcb (p + 2) ti (S k) (Some (ti, 0%nat, 0%nat)) body).
  assert (Hl0: length body0 = szb ti (Some ti) body) by (unfold body0; rewrite dcb_length; reflexivity).
  rewrite Hl0.
  set (post := (p + 2 + szb ti (Some ti) body)%nat). set (exit := (post + 1 + 1)%nat).
  replace (post + 2)%nat with exit by (unfold exit; lia).
  replace (((((code c ++ [ILoopInit k]) ++ [ILoopTest k 0]) ++ body0) ++ [ILoopIncr k]) ++ [IJump (p + 1)])
    with ((code c ++ [ILoopInit k]) ++ ILoopTest k 0 :: body0 ++ [ILoopIncr k; IJump (p + 1)])
    by (repeat (rewrite <- ?app_assoc; cbn [app]); reflexivity).
  replace (p + 1)%nat with (length (code c ++ [ILoopInit k]) + 0)%nat at 1 by (rewrite app_length; cbn [length]; fold p; lia).
  rewrite set_nth_app_r. cbn [set_nth].
  replace ((code c ++ [ILoopInit k]) ++ ILoopTest k exit :: body0 ++ [ILoopIncr k; IJump (p + 1)])
    with ((code c ++ [ILoopInit k; ILoopTest k exit]) ++ body0 ++ [ILoopIncr k; IJump (p + 1)])
    by (repeat (rewrite <- ?app_assoc; cbn [app]); reflexivity).
  assert (Hpre: length (code c ++ [ILoopInit k; ILoopTest k exit]) = (p + 2)%nat) by (rewrite app_length; cbn [length]; fold p; lia).
  unfold body0.
  pose proof (retarget_block_all body true (p + 2)%nat ti (S k) (Some (ti, 0%nat, 0%nat)) exit _ [ILoopIncr k; IJump (p + 1)] Hpre) as R1.
  cbn [lt_of retarget] in R1. rewrite R1.
  pose proof (retarget_block_all body false (p + 2)%nat ti (S k) (Some (ti, exit, 0%nat)) post _ [ILoopIncr k; IJump (p + 1)] Hpre) as R2.
  cbn [lt_of retarget] in R2. rewrite R2.
  unfold exit, post, k, ti.
  replace (p + 2 + szb (try_index c) (Some (try_index c)) body + 1 + 1)%nat with (p + 2 + szb (try_index c) (Some (try_index c)) body + 2)%nat by lia.
  repeat (rewrite <- ?app_assoc; cbn [app]). replace (p + 1)%nat with (S p) by lia. reflexivity.
Qed.

Lemma set_nth_len {A} (a : list A) x y b : set_nth (length a) y (a ++ x :: b) = a ++ y :: b.
Proof. rewrite <- (Nat.add_0_r (length a)). rewrite set_nth_app_r. reflexivity. Qed.

Ltac blk H :=
  match goal with
  | |- context [compile_block ?l ?X] =>
      rewrite (H X) by (unfold lt_c; cbn [loops]; assumption);
      unfold specb, mkc, lp0, lt_c; cbn [fst snd code try_index loops next_loop breaks conts cerr]
  end.

Lemma set_nth_at {A} n (a : list A) x y b : n = length a -> set_nth n y (a ++ x :: b) = a ++ y :: b.
Proof. intros ->. apply set_nth_len. Qed.

Ltac listeq := cbn [rev]; repeat (rewrite <- ?app_assoc; cbn [app]); repeat (f_equal; try lia).

Lemma ok_try_some nf body named cb fb : compb_ok nf body -> compb_ok nf cb -> compb_ok nf fb -> comp_ok nf (STry body (Some (named, cb)) (Some fb)).
Proof.
  intros Hb Hcb Hfb c Hwf. rewrite wfs_try in Hwf.
  apply andb_true_iff in Hwf. destruct Hwf as [Hwf Hwfb]. apply andb_true_iff in Hwf. destruct Hwf as [Hwb Hwcb].
  rewrite compile_try_unfold. cbv zeta.
  destruct c as [cd ti lps k bs cs er]. unfold lt_c in *. cbn [loops] in *.
  unfold with_try, emit. cbn [fst snd code try_index loops next_loop breaks conts cerr].
  blk Hb. blk Hcb. blk Hfb.
  unfold patch, spec, mkc, lp0, lt_c. cbn [fst snd code try_index loops next_loop breaks conts cerr].
  rewrite dcomp_try, !jpos_try, nl_try. cbv zeta.
  rewrite !app_length, !dcb_length. cbn [length].
  set (p := length cd).
  destruct lps as [|l0 lps0]; cbn [lt_of];
  (f_equal;
   [ (* code *)
     repeat (rewrite <- ?app_assoc; cbn [app]);
     rewrite (set_nth_at p cd) by reflexivity;
     match goal with |- context [set_nth ?n ?y (cd ++ ?st :: ?b0 ++ IJump 0 :: ?r)] =>
       replace (cd ++ st :: b0 ++ IJump 0 :: r) with ((cd ++ st :: b0) ++ IJump 0 :: r) by (rewrite <- app_assoc; reflexivity);
       rewrite (set_nth_at n (cd ++ st :: b0)) by (rewrite app_length; cbn [length]; rewrite dcb_length; cbn [lt_of]; lia)
     end;
     listeq
   | lia | lia
   | rewrite !push_push, !rev_app_distr; listeq
   | rewrite !push_push, !rev_app_distr; listeq ]).
Qed.

Lemma ok_try_nocatch nf body fb : compb_ok nf body -> compb_ok nf fb -> comp_ok nf (STry body None (Some fb)).
Proof.
  intros Hb Hfb c Hwf. rewrite wfs_try in Hwf.
  apply andb_true_iff in Hwf. destruct Hwf as [Hwf Hwfb]. apply andb_true_iff in Hwf. destruct Hwf as [Hwb _].
  rewrite compile_try_unfold. cbv zeta.
  destruct c as [cd ti lps k bs cs er]. unfold lt_c in *. cbn [loops] in *.
  unfold with_try, emit. cbn [fst snd code try_index loops next_loop breaks conts cerr].
  blk Hb. blk Hfb.
  unfold patch, spec, mkc, lp0, lt_c. cbn [fst snd code try_index loops next_loop breaks conts cerr].
  rewrite dcomp_try, !jpos_try, nl_try. cbv zeta.
  rewrite !app_length, !dcb_length. cbn [length].
  set (p := length cd).
  destruct lps as [|l0 lps0]; cbn [lt_of];
  (f_equal;
   [ repeat (rewrite <- ?app_assoc; cbn [app]); rewrite (set_nth_at p cd) by reflexivity; listeq
   | lia | lia
   | rewrite !push_push, !rev_app_distr; listeq
   | rewrite !push_push, !rev_app_distr; listeq ]).
Qed.

Theorem comp_all nf : forall s, comp_ok nf s.
Proof.
  apply (skel_ind2 (comp_ok nf) (compb_ok nf)).
  - intro a. apply (simple_ok nf (SLog a) (ILog a)); reflexivity.
  - apply (ok_jump nf true).
  - apply (ok_jump nf false).
  - apply ok_return.
  - intro a. apply (simple_ok nf (SThrow a) (IThrowUser a)); reflexivity.
  - apply (simple_ok nf SFail IFail); reflexivity.
  - intros f c _. cbn [compile]. unfold spec, emit, mkc. cbn [fst code try_index loops next_loop breaks conts cerr dcomp nl jpos rev].
    rewrite !push_nil, Nat.add_0_r, <- app_assoc. reflexivity.
  - intros body Hb. apply ok_loop. exact Hb.
  - intros body catch fin Hb Hc Hf.
    assert (Hf': compb_ok nf (match fin with Some fb => fb | None => [] end)) by (destruct fin; [exact Hf | apply ok_block_nil]).
    assert (Hgoal: comp_ok nf (STry body catch (Some (match fin with Some fb => fb | None => [] end)))).
    { destruct catch as [[named cb]|]; [apply ok_try_some | apply ok_try_nocatch]; assumption. }
    destruct fin as [fb|]; [exact Hgoal|]. exact Hgoal.
  - apply ok_block_nil.
  - intros x xs Hx Hxs. apply ok_block_cons; assumption.
Qed.

Theorem compb_all nf : forall l, compb_ok nf l.
Proof. induction l as [|x xs IH]; [apply ok_block_nil | apply ok_block_cons; [apply comp_all | exact IH]]. Qed.

Lemma compile_fn_eq nf body : wfb false nf body = true -> compile_fn body = Some (dcompile_fn body).
Proof.
  intro Hwf. unfold compile_fn. rewrite (compb_all nf body init_cstate) by exact Hwf.
  unfold specb, mkc, init_cstate, dcompile_fn, lp0, lt_c. cbn [code cerr loops try_index next_loop length app]. reflexivity.
Qed.

Lemma compile_program_from_eq : forall p n, wf_program_from n p = true -> compile_program p = Some (dcompile_program p).
Proof.
  induction p as [|b p IH]; intros n H; [reflexivity|].
  cbn [wf_program_from] in H. apply andb_true_iff in H. destruct H as [Hb Hp].
  cbn [compile_program dcompile_program map]. rewrite (compile_fn_eq n b Hb), (IH (S n) Hp). reflexivity.
Qed.

(* the two compilers agree on every well-formed program *)
Theorem compile_program_eq p : wf_program p = true -> compile_program p = Some (dcompile_program p).
Proof. apply compile_program_from_eq. Qed.

(* hence the simulation theorem holds for the emit-and-patch compiler *)
Theorem simulation_patching p : wf_program p = true -> p <> [] ->
  exists fuel, match run_program fuel p with Some (Done l o) => sem_program p = Some (l, o) | _ => False end.
Proof.
  intros Hwf Hne. destruct (simulation p Hwf Hne) as [fuel H]. exists fuel.
  unfold run_program. rewrite (compile_program_eq p Hwf). exact H.
Qed.
