(* Property C03: the handler machine running the compiled skeleton agrees with the specification,
   for every program (simulation proof).  Proofs only; the compiler is [dcomp] of SkelDecl.v. *)
From Coq Require Import List ZArith Bool Lia Arith.
From Ugo Require Import Skel.Skel Skel.SkelProofs Skel.SkelDecl.
Import ListNotations.
Local Open Scope Z_scope.

Definition mkf fn ip hs st lp : frame := {| f_fn := fn; f_ip := ip; f_handlers := hs; f_stack := st; f_loops := lp |}.
Definition mks fs lg : vmstate := {| frames := fs; vlog := lg |}.
Definition mkh sp c fi rt er hr : handler := {| h_sp := sp; h_catch := c; h_finally := fi; h_return_to := rt; h_err := er; h_has_ret := hr |}.

Section Machine.
Variable prog : list (list instr).

Inductive star : vmstate -> vmstate -> Prop :=
| star_refl s : star s s
| star_step s s' s'' : step prog s = Running s' -> star s' s'' -> star s s''.

Lemma star_trans a b c : star a b -> star b c -> star a c.
Proof. induction 1; intros; [assumption | econstructor; eauto]. Qed.
Lemma star_one a b : step prog a = Running b -> star a b.
Proof. intros. econstructor; [eassumption | constructor]. Qed.

(* the machine takes some steps and then its next step yields r *)
Definition reach (s : vmstate) (r : vmres) : Prop := exists m, star s m /\ step prog m = r.
Lemma reach_star a b r : star a b -> reach b r -> reach a r.
Proof. intros H [m [H1 H2]]. exists m. split; [eapply star_trans; eauto | exact H2]. Qed.
Lemma reach_running a b c : reach a (Running b) -> star b c -> star a c.
Proof. intros [m [H1 H2]] H. eapply star_trans; [exact H1|]. econstructor; eauto. Qed.

Lemma star_run a b : star a b -> forall r, (forall s, r <> Running s) -> step prog b = r -> exists fuel, run fuel prog a = r.
Proof.
  induction 1 as [s|s s' s'' Hs _ IH]; intros r Hr Hb.
  - exists 1%nat. cbn [run]. rewrite Hb. destruct r; try reflexivity. exfalso. eapply Hr. reflexivity.
  - destruct (IH r Hr Hb) as [fuel Hf]. exists (S fuel). cbn [run]. rewrite Hs. exact Hf.
Qed.

(* ---- one lemma per instruction *)
Section Steps.
Variables (fn : nat) (cd : list instr).
Hypothesis Hcd : nth_error prog fn = Some cd.
Variables (ip : nat) (hs : list handler) (st : list sval) (lps : list (nat * nat)) (rest : list frame) (lg : list event).
Notation S0 := (mks (mkf fn ip hs st lps :: rest) lg).

Ltac go H := unfold step; cbn [frames mks mkf f_fn f_ip f_handlers f_stack f_loops vlog]; rewrite Hcd, H; cbn [upd_frame mkf f_fn f_ip f_handlers f_stack f_loops]; try reflexivity.

Lemma st_log a : nth_error cd ip = Some (ILog a) -> step prog S0 = Running (mks (mkf fn (S ip) hs st lps :: rest) (lg ++ [ELog a])).
Proof. intro H. go H. Qed.
Lemma st_push a : nth_error cd ip = Some (IPush a) -> step prog S0 = Running (mks (mkf fn (S ip) hs (st ++ [VAtom a]) lps :: rest) lg).
Proof. intro H. go H. Qed.
Lemma st_setuptry c fi : nth_error cd ip = Some (ISetupTry c fi) ->
  step prog S0 = Running (mks (mkf fn (S ip) (hs ++ [mkh (length st) c fi 0 None false]) st lps :: rest) lg).
Proof. intro H. go H. Qed.
Lemma st_jump pos : nth_error cd ip = Some (IJump pos) -> step prog S0 = Running (mks (mkf fn pos hs st lps :: rest) lg).
Proof. intro H. go H. Qed.
Lemma st_throwuser a : nth_error cd ip = Some (IThrowUser a) -> step prog S0 = do_throw (mks (mkf fn (S ip) hs st lps :: rest) lg) a.
Proof. intro H. go H. Qed.
Lemma st_fail : nth_error cd ip = Some IFail -> step prog S0 = do_throw (mks (mkf fn (S ip) hs st lps :: rest) lg) (-1).
Proof. intro H. go H. Qed.
Lemma st_call g : nth_error cd ip = Some (ICall g) ->
  step prog S0 = Running (mks (mkf g 0 [] [] [] :: mkf fn (S ip) hs st lps :: rest) lg).
Proof. intro H. go H. Qed.
Lemma st_logtop : nth_error cd ip = Some ILogTop ->
  step prog S0 = Running (mks (mkf fn (S ip) hs (removelast st) lps :: rest)
                              (lg ++ [ERet (match last st VUndef with VAtom a => Some a | _ => None end)])).
Proof. intro H. go H. Qed.
Lemma st_loopinit k : nth_error cd ip = Some (ILoopInit k) -> step prog S0 = Running (mks (mkf fn (S ip) hs st (set_loop k 0 lps) :: rest) lg).
Proof. intro H. go H. Qed.
Lemma st_looptest k ex : nth_error cd ip = Some (ILoopTest k ex) ->
  step prog S0 = Running (mks (mkf fn (if Nat.ltb (get_loop k lps) 2 then S ip else ex) hs st lps :: rest) lg).
Proof. intro H. go H. destruct (Nat.ltb (get_loop k lps) 2); reflexivity. Qed.
Lemma st_loopincr k : nth_error cd ip = Some (ILoopIncr k) ->
  step prog S0 = Running (mks (mkf fn (S ip) hs st (set_loop k (S (get_loop k lps)) lps) :: rest) lg).
Proof. intro H. go H. Qed.
Lemma st_return_parent hv pf rest' : nth_error cd ip = Some (IReturn hv) -> rest = pf :: rest' ->
  step prog S0 = Running (mks (mkf (f_fn pf) (f_ip pf) (f_handlers pf) (f_stack pf ++ [if hv then last st VUndef else VUndef]) (f_loops pf) :: rest') lg).
Proof. intros H ->. go H. Qed.
Lemma st_return_main hv : nth_error cd ip = Some (IReturn hv) -> rest = [] ->
  step prog S0 = Done lg (match (if hv then last st VUndef else VUndef) with VAtom a => OReturn a | _ => ONormal end).
Proof. intros H ->. go H. Qed.
End Steps.

(* steps that look at the innermost handler *)
Section HSteps.
Variables (fn : nat) (cd : list instr).
Hypothesis Hcd : nth_error prog fn = Some cd.
Variables (ip : nat) (hs : list handler) (h : handler) (st : list sval) (lps : list (nat * nat)) (rest : list frame) (lg : list event).
Notation S0 := (mks (mkf fn ip (hs ++ [h]) st lps :: rest) lg).

Ltac go H := unfold step; cbn [frames mks mkf f_fn f_ip f_handlers f_stack f_loops vlog]; rewrite Hcd, H;
  cbn [upd_frame mkf f_fn f_ip f_handlers f_stack f_loops]; rewrite last_handler_app; unfold set_last, pop_handler; rewrite ?removelast_app1;
  cbn [upd_frame mkf f_fn f_ip f_handlers f_stack f_loops]; try reflexivity.

Lemma st_setupcatch named : nth_error cd ip = Some (ISetupCatch named) ->
  step prog S0 = Running (mks (mkf fn (S ip) (hs ++ [mkh (h_sp h) 0 (h_finally h) (h_return_to h) None (h_has_ret h)]) st lps :: rest)
                              (lg ++ match named, h_err h with true, Some e => [ECaught e] | _, _ => [] end)).
Proof. intro H. go H. destruct named, (h_err h); rewrite ?app_nil_r; reflexivity. Qed.
Lemma st_setupfinally : nth_error cd ip = Some ISetupFinally ->
  step prog S0 = Running (mks (mkf fn (S ip) (hs ++ [mkh (h_sp h) 0 0 (h_return_to h) (h_err h) (h_has_ret h)]) st lps :: rest) lg).
Proof. intro H. go H. Qed.
Lemma st_throw0_err e : nth_error cd ip = Some IThrow0 -> h_err h = Some e ->
  step prog S0 = do_throw (mks (mkf fn (S ip) hs st lps :: rest) lg) e.
Proof. intros H He. go H. rewrite He. reflexivity. Qed.
Lemma st_throw0_ret : nth_error cd ip = Some IThrow0 -> h_err h = None -> h_has_ret h = true ->
  step prog S0 = Running (mks (mkf fn (h_return_to h) hs (firstn (h_sp h) st) lps :: rest) lg).
Proof. intros H He Hr. go H. rewrite He, Hr. reflexivity. Qed.
Lemma st_throw0_none : nth_error cd ip = Some IThrow0 -> h_err h = None -> h_has_ret h = false ->
  step prog S0 = Running (mks (mkf fn (S ip) hs st lps :: rest) lg).
Proof. intros H He Hr. go H. rewrite He, Hr. reflexivity. Qed.
End HSteps.
End Machine.

(* ---- handlers that no longer catch anything: their finally block is running (or has run) *)
Definition dead (h : handler) : Prop := h_catch h = 0%nat /\ h_finally h = 0%nat.

Lemma last_handler_nil : last_handler [] = None.
Proof. reflexivity. Qed.

Lemma ff_stop fuel upto hs : (length hs <= upto)%nat -> find_finally fuel upto hs = (hs, 0%nat).
Proof.
  intro H. destruct fuel as [|fuel]; [reflexivity|]. cbn [find_finally].
  destruct (last_handler hs) as [h|] eqn:E; [|reflexivity].
  assert (Hl: (length hs - 1 < upto)%nat).
  { destruct hs; [discriminate|]. cbn [length] in *. lia. }
  apply Nat.ltb_lt in Hl. rewrite Hl. reflexivity.
Qed.

Lemma ff_dead ds : forall fuel upto hs, Forall dead ds -> (upto <= length hs)%nat -> (length ds < fuel)%nat ->
  find_finally fuel upto (hs ++ ds) = find_finally (fuel - length ds) upto hs.
Proof.
  induction ds as [|d ds IH] using rev_ind; intros fuel upto hs Hd Hu Hf.
  - rewrite app_nil_r. cbn [length]. rewrite Nat.sub_0_r. reflexivity.
  - apply Forall_app in Hd. destruct Hd as [Hds Hd1]. inversion Hd1 as [|? ? [Hc Hfi] _]; subst.
    rewrite app_length in *. cbn [length] in *.
    destruct fuel as [|fuel]; [lia|]. cbn [find_finally]. rewrite app_assoc, last_handler_app.
    assert (Hl: Nat.ltb (length ((hs ++ ds) ++ [d]) - 1) upto = false).
    { apply Nat.ltb_ge. rewrite !app_length. cbn [length]. lia. }
    rewrite Hl, Hfi. cbn [Nat.eqb]. unfold pop_handler. rewrite removelast_app1.
    rewrite IH by (try assumption; lia). f_equal. lia.
Qed.

Lemma ff_live fuel upto hs h : (0 < fuel)%nat -> (upto <= length hs)%nat -> h_finally h <> 0%nat ->
  find_finally fuel upto (hs ++ [h]) = (hs ++ [h], h_finally h).
Proof.
  intros Hf Hu Hn. destruct fuel as [|fuel]; [lia|]. cbn [find_finally]. rewrite last_handler_app.
  assert (Hl: Nat.ltb (length (hs ++ [h]) - 1) upto = false).
  { apply Nat.ltb_ge. rewrite app_length. cbn [length]. lia. }
  rewrite Hl. apply Nat.eqb_neq in Hn. rewrite Hn. reflexivity.
Qed.

Definition with_err (h : handler) (e : Z) : handler := mkh (h_sp h) (h_catch h) (h_finally h) (h_return_to h) (Some e) (h_has_ret h).

Lemma ht_nil fuel fn ip st lps e : handle_thrown fuel (mkf fn ip [] st lps) e = None.
Proof. destruct fuel; reflexivity. Qed.

Lemma ht_dead ds : forall fuel fn ip hs st lps e, Forall dead ds -> (length ds < fuel)%nat ->
  handle_thrown fuel (mkf fn ip (hs ++ ds) st lps) e = handle_thrown (fuel - length ds) (mkf fn ip hs st lps) e.
Proof.
  induction ds as [|d ds IH] using rev_ind; intros fuel fn ip hs st lps e Hd Hf.
  - rewrite app_nil_r. cbn [length]. rewrite Nat.sub_0_r. reflexivity.
  - apply Forall_app in Hd. destruct Hd as [Hds Hd1]. inversion Hd1 as [|? ? [Hc Hfi] _]; subst.
    rewrite app_length in *. cbn [length] in *.
    destruct fuel as [|fuel]; [lia|]. cbn [handle_thrown mkf f_handlers]. rewrite app_assoc, last_handler_app.
    rewrite Hc, Hfi. cbn [Nat.eqb negb]. unfold pop_handler, upd_frame. cbn [f_fn f_ip f_stack f_loops f_handlers]. rewrite removelast_app1.
    fold (mkf fn ip (hs ++ ds) st lps). rewrite IH by (try assumption; lia). f_equal. lia.
Qed.

Lemma ht_live fuel fn ip hs h st lps e : (0 < fuel)%nat -> (h_catch h <> 0%nat \/ h_finally h <> 0%nat) ->
  handle_thrown fuel (mkf fn ip (hs ++ [h]) st lps) e =
  Some (mkf fn (if Nat.eqb (h_catch h) 0 then h_finally h else h_catch h) (hs ++ [with_err h e]) (firstn (h_sp h) st) lps).
Proof.
  intros Hf Hl. destruct fuel as [|fuel]; [lia|]. cbn [handle_thrown mkf f_handlers]. rewrite last_handler_app.
  unfold set_last, upd_frame. cbn [f_fn f_ip f_stack f_loops f_handlers]. rewrite removelast_app1.
  destruct (Nat.eqb (h_catch h) 0) eqn:Ec; cbn [negb].
  - destruct (Nat.eqb (h_finally h) 0) eqn:Ef; cbn [negb]; [|reflexivity].
    apply Nat.eqb_eq in Ec, Ef. lia.
  - reflexivity.
Qed.

(* a throw in a frame whose handlers are hs ++ [h] ++ ds, h still able to take it *)
Lemma throw_here fn ip hs h ds st lps rest lg e : Forall dead ds -> (h_catch h <> 0%nat \/ h_finally h <> 0%nat) ->
  do_throw (mks (mkf fn ip ((hs ++ [h]) ++ ds) st lps :: rest) lg) e =
  Running (mks (mkf fn (if Nat.eqb (h_catch h) 0 then h_finally h else h_catch h) (hs ++ [with_err h e]) (firstn (h_sp h) st) lps :: rest) lg).
Proof.
  intros Hd Hl. unfold do_throw. cbn [frames mks throw_frames mkf f_handlers].
  fold (mkf fn ip ((hs ++ [h]) ++ ds) st lps). rewrite ht_dead by (try assumption; rewrite !app_length; cbn [length]; lia).
  rewrite ht_live by (try assumption; rewrite !app_length; cbn [length]; lia). reflexivity.
Qed.

(* a frame with dead handlers only passes the throw to its caller *)
Lemma throw_up fn ip ds st lps rest lg e : Forall dead ds ->
  do_throw (mks (mkf fn ip ds st lps :: rest) lg) e = do_throw (mks rest lg) e.
Proof.
  intros Hd. unfold do_throw. cbn [frames mks throw_frames mkf f_handlers].
  fold (mkf fn ip ds st lps). change ds with ([] ++ ds). rewrite ht_dead by (try assumption; cbn [app]; lia).
  rewrite ht_nil. reflexivity.
Qed.

Section FinSteps.
Variable prog : list (list instr).
Variables (fn : nat) (cd : list instr).
Hypothesis Hcd : nth_error prog fn = Some cd.
Variables (ip : nat) (st : list sval) (lps : list (nat * nat)) (rest : list frame) (lg : list event).

Lemma st_finalizer_found upto hs h ds : nth_error cd ip = Some (IFinalizer upto) ->
  Forall dead ds -> (upto <= length hs)%nat -> h_finally h <> 0%nat ->
  step prog (mks (mkf fn ip ((hs ++ [h]) ++ ds) st lps :: rest) lg) =
  Running (mks (mkf fn (h_finally h) (hs ++ [mkh (length st) (h_catch h) (h_finally h) ip None true]) st lps :: rest) lg).
Proof.
  intros H Hd Hu Hn. unfold step. cbn [frames mks mkf f_fn f_ip f_handlers f_stack f_loops vlog]. rewrite Hcd, H.
  rewrite ff_dead by (try assumption; rewrite ?app_length; cbn [length]; lia).
  rewrite ff_live by (try assumption; rewrite ?app_length; cbn [length]; lia).
  apply Nat.eqb_neq in Hn. rewrite Hn. rewrite last_handler_app. unfold set_last, upd_frame. rewrite removelast_app1.
  cbn [f_fn f_ip f_handlers f_stack f_loops]. reflexivity.
Qed.

Lemma st_finalizer_none upto hs ds : nth_error cd ip = Some (IFinalizer upto) ->
  Forall dead ds -> length hs = upto ->
  step prog (mks (mkf fn ip (hs ++ ds) st lps :: rest) lg) = Running (mks (mkf fn (S ip) hs st lps :: rest) lg).
Proof.
  intros H Hd Hu. unfold step. cbn [frames mks mkf f_fn f_ip f_handlers f_stack f_loops vlog]. rewrite Hcd, H.
  rewrite ff_dead by (try assumption; rewrite ?app_length; cbn [length]; lia).
  rewrite ff_stop by lia. cbn [Nat.eqb]. reflexivity.
Qed.
End FinSteps.

(* ---- induction over statements and blocks *)
Definition optP {A} (Q : A -> Prop) (o : option A) : Prop := match o with Some x => Q x | None => True end.
Section SkelInd.
  Variables (P : skel -> Prop) (Q : list skel -> Prop).
  Hypotheses (Hlog : forall a, P (SLog a)) (Hbreak : P SBreak) (Hcont : P SContinue) (Hret : forall a, P (SReturn a))
    (Hthrow : forall a, P (SThrow a)) (Hfail : P SFail) (Hcall : forall f, P (SCall f))
    (Hloop : forall body, Q body -> P (SLoop body))
    (Htry : forall body catch fin, Q body ->
            optP Q (option_map snd catch) -> optP Q fin -> P (STry body catch fin))
    (Hnil : Q []) (Hcons : forall x xs, P x -> Q xs -> Q (x :: xs)).
  Fixpoint skel_ind2 (s : skel) : P s :=
    let blk := fix blk (l : list skel) : Q l :=
      match l with [] => Hnil | x :: xs => Hcons x xs (skel_ind2 x) (blk xs) end in
    match s with
    | SLog a => Hlog a
    | SBreak => Hbreak
    | SContinue => Hcont
    | SReturn a => Hret a
    | SThrow a => Hthrow a
    | SFail => Hfail
    | SCall f => Hcall f
    | SLoop body => Hloop body (blk body)
    | STry body catch fin =>
        Htry body catch fin (blk body)
          (match catch as c return optP Q (option_map snd c) with Some pc => blk (snd pc) | None => I end)
          (match fin as c return optP Q c with Some fb => blk fb | None => I end)
    end.
  Fixpoint block_ind2 (l : list skel) : Q l :=
    match l with [] => Hnil | x :: xs => Hcons x xs (skel_ind2 x) (block_ind2 xs) end.
End SkelInd.

(* ---- unfolding of the nested block functions *)
Lemma sz_try ti lt body catch fin :
  sz ti lt (STry body catch fin) =
  (1 + szb (ti + 1) lt body + match catch with Some (_, cb) => 2 + szb (ti + 1) lt cb | None => 0 end
   + 1 + match fin with Some fb => szb (ti + 1) lt fb | None => 0 end + 1)%nat.
Proof. reflexivity. Qed.
Lemma sz_loop ti lt body : sz ti lt (SLoop body) = (2 + szb ti (Some ti) body + 2)%nat.
Proof. reflexivity. Qed.
Lemma nl_try body catch fin :
  nl (STry body catch fin) = (nlb body + match catch with Some (_, cb) => nlb cb | None => 0 end + match fin with Some fb => nlb fb | None => 0 end)%nat.
Proof. reflexivity. Qed.
Lemma nl_loop body : nl (SLoop body) = S (nlb body).
Proof. reflexivity. Qed.
Lemma wfs_try il nf body catch fin :
  wfs il nf (STry body catch fin) = wfb il nf body && match catch with Some (_, cb) => wfb il nf cb | None => true end
      && match fin with Some fb => wfb il nf fb | None => true end.
Proof. reflexivity. Qed.
Lemma wfs_loop il nf body : wfs il nf (SLoop body) = wfb true nf body.
Proof. reflexivity. Qed.
Lemma dcomp_loop p ti k lp body :
  dcomp p ti k lp (SLoop body) =
  let test := S p in
  let post := (p + 2 + szb ti (Some ti) body)%nat in
  let exit := (post + 2)%nat in
  ILoopInit k :: ILoopTest k exit :: dcb (p + 2)%nat ti (S k) (Some (ti, exit, post)) body ++ [ILoopIncr k; IJump test].
Proof. reflexivity. Qed.
Lemma dcomp_try p ti k lp body catch fin :
  dcomp p ti k lp (STry body catch fin) =
  let ti' := ti + 1 in
  let lt := lt_of lp in
  let pbody := S p in
  let pafter := (pbody + szb ti' lt body)%nat in
  let catchpos := match catch with Some _ => S pafter | None => 0%nat end in
  let finallypos := match catch with Some (_, cb) => (pafter + 2 + szb ti' lt cb)%nat | None => pafter end in
  let kc := (k + nlb body)%nat in
  let kf := (kc + match catch with Some (_, cb) => nlb cb | None => 0 end)%nat in
  ISetupTry catchpos finallypos :: dcb pbody ti' k lp body
  ++ match catch with
     | Some (named, cb) => IJump finallypos :: ISetupCatch named :: dcb (pafter + 2)%nat ti' kc lp cb
     | None => []
     end
  ++ ISetupFinally :: match fin with Some fb => dcb (S finallypos) ti' kf lp fb | None => [] end
  ++ [IThrow0].
Proof. reflexivity. Qed.
Lemma sem_loop_unfold table body :
  sem table (SLoop body) =
  let '(l1, o1) := sem_block table body in
  match o1 with
  | ONormal | OContinue =>
      let '(l2, o2) := sem_block table body in
      (l1 ++ l2, match o2 with ONormal | OContinue | OBreak => ONormal | o => o end)
  | OBreak => (l1, ONormal)
  | o => (l1, o)
  end.
Proof. reflexivity. Qed.

(* ---- code sizes *)
Lemma dcomp_length : forall s p ti k lp, length (dcomp p ti k lp s) = sz ti (lt_of lp) s.
Proof.
  apply (skel_ind2 (fun s => forall p ti k lp, length (dcomp p ti k lp s) = sz ti (lt_of lp) s)
                   (fun l => forall p ti k lp, length (dcb p ti k lp l) = szb ti (lt_of lp) l)).
  - reflexivity.
  - intros p ti k [[[l b] c]|]; cbn [dcomp sz lt_of]; [|reflexivity]. destruct (l =? ti); reflexivity.
  - intros p ti k [[[l b] c]|]; cbn [dcomp sz lt_of]; [|reflexivity]. destruct (l =? ti); reflexivity.
  - intros a p ti k lp. cbn [dcomp sz]. destruct (-1 <? ti); reflexivity.
  - reflexivity.
  - reflexivity.
  - reflexivity.
  - intros body IH p ti k lp. rewrite dcomp_loop, sz_loop. cbv zeta. cbn [length]. rewrite app_length, IH. cbn [length lt_of]. lia.
  - intros body catch fin IHb IHc IHf p ti k lp. rewrite dcomp_try, sz_try. cbv zeta. cbn [length].
    rewrite !app_length. cbn [length]. rewrite !app_length, IHb. cbn [length].
    destruct catch as [[named cb]|]; destruct fin as [fb|]; cbn [optP option_map snd length] in *; rewrite ?IHc, ?IHf; lia.
  - reflexivity.
  - intros x xs IHx IHxs p ti k lp. cbn [dcb szb]. rewrite app_length, IHx, IHxs. reflexivity.
Qed.
Lemma dcb_length l : forall p ti k lp, length (dcb p ti k lp l) = szb ti (lt_of lp) l.
Proof. induction l as [|x xs IH]; intros; cbn [dcb szb]; [reflexivity|]. rewrite app_length, dcomp_length, IH. reflexivity. Qed.

(* ---- code placed at a position *)
Definition code_at (cd : list instr) (p : nat) (c : list instr) : Prop :=
  forall i x, nth_error c i = Some x -> nth_error cd (p + i) = Some x.
Lemma code_at_app cd p c1 c2 : code_at cd p (c1 ++ c2) -> code_at cd p c1 /\ code_at cd (p + length c1) c2.
Proof.
  intro H. split; intros i x Hi.
  - apply H. rewrite nth_error_app1; [exact Hi|]. apply nth_error_Some. congruence.
  - rewrite <- Nat.add_assoc. apply H. rewrite nth_error_app2 by lia. replace (length c1 + i - length c1)%nat with i by lia. exact Hi.
Qed.
Lemma code_at_cons cd p i c : code_at cd p (i :: c) -> nth_error cd p = Some i /\ code_at cd (S p) c.
Proof.
  intro H. split.
  - rewrite <- (Nat.add_0_r p). apply H. reflexivity.
  - intros j x Hj. replace (S p + j)%nat with (p + S j)%nat by lia. apply H. exact Hj.
Qed.

(* ---- loop counters *)
Definition lagree (k : nat) (l1 l2 : list (nat * nat)) : Prop := forall j, (j < k)%nat -> get_loop j l1 = get_loop j l2.
Lemma lagree_refl k l : lagree k l l. Proof. intros j _. reflexivity. Qed.
Lemma lagree_trans k k' a b c : (k <= k')%nat -> lagree k a b -> lagree k' b c -> lagree k a c.
Proof. intros Hk H1 H2 j Hj. rewrite H1 by assumption. apply H2. lia. Qed.
Lemma get_set_same k v l : get_loop k (set_loop k v l) = v.
Proof. induction l as [|[k' v'] r IH]; cbn [set_loop get_loop]; [rewrite Nat.eqb_refl; reflexivity|].
  destruct (Nat.eqb k k') eqn:E; cbn [get_loop]; [rewrite Nat.eqb_refl; reflexivity | rewrite E; exact IH]. Qed.
Lemma get_set_other k j v l : j <> k -> get_loop j (set_loop k v l) = get_loop j l.
Proof. intro Hn. induction l as [|[k' v'] r IH]; cbn [set_loop get_loop].
  - apply Nat.eqb_neq in Hn. rewrite Hn. reflexivity.
  - destruct (Nat.eqb k k') eqn:E; cbn [get_loop].
    + apply Nat.eqb_eq in E. subst k'. apply Nat.eqb_neq in Hn. rewrite Hn. reflexivity.
    + destruct (Nat.eqb j k'); [reflexivity | exact IH]. Qed.
Lemma lagree_set k v l : lagree k l (set_loop k v l).
Proof. intros j Hj. symmetry. apply get_set_other. lia. Qed.

Lemma firstn_exact {A} (a b : list A) : firstn (length a) (a ++ b) = a.
Proof. induction a as [|x a IH]; cbn [length firstn app]; [destruct b; reflexivity | rewrite IH; reflexivity]. Qed.

Definition ovr (of o2 : outcome) : outcome := match of with ONormal => o2 | _ => of end.
Definition is_some {A} (o : option A) : bool := match o with Some _ => true | None => false end.

(* ================================================================== the simulation *)
Section Sim.
Variable prog : list (list instr).
Variable table : list fsem.
Variable nf : nat.                (* the functions below nf are defined; table holds their meanings *)
Variables (fn : nat) (cd : list instr).
Hypothesis Hcd : nth_error prog fn = Some cd.

(* calling function g from any frame behaves as its meaning says *)
Definition call_ok (g : nat) : Prop :=
  exists lf og, nth_error table g = Some (lf, og) /\
  forall cfn cip chs cst clps rest lg,
    let S0 := mks (mkf g 0 [] [] [] :: mkf cfn cip chs cst clps :: rest) lg in
    match og with
    | OReturn a => star prog S0 (mks (mkf cfn cip chs (cst ++ [VAtom a]) clps :: rest) (lg ++ lf))
    | OThrow e => exists gip ds gst glps, Forall dead ds /\
                  reach prog S0 (do_throw (mks (mkf g gip ds gst glps :: mkf cfn cip chs cst clps :: rest) (lg ++ lf)) e)
    | _ => star prog S0 (mks (mkf cfn cip chs (cst ++ [VUndef]) clps :: rest) (lg ++ lf))
    end.
Hypothesis Hcalls : forall g, (g < nf)%nat -> call_ok g.

Definition ret_point (ti : Z) (r : nat) : Prop :=
  (nth_error cd r = Some (IFinalizer 0) /\ nth_error cd (S r) = Some (IReturn true)) \/
  (ti = -1 /\ nth_error cd r = Some (IReturn true)).
Definition jmp_point (ti l : Z) (tgt r : nat) (ds : list handler) : Prop :=
  (nth_error cd r = Some (IFinalizer (Z.to_nat (l + 1))) /\ nth_error cd (S r) = Some (IJump tgt)) \/
  (l = ti /\ ds = [] /\ nth_error cd r = Some (IJump tgt)).

Definition jump_good (ti l : Z) (tgt : nat) (hs : list handler) (st : list sval) (lps : list (nat * nat)) (k : nat)
    (rest : list frame) (lg : list event) (S0 : vmstate) : Prop :=
  exists r ds junk lps', Forall dead ds /\ lagree k lps lps' /\ jmp_point ti l tgt r ds /\
    star prog S0 (mks (mkf fn r (hs ++ ds) (st ++ junk) lps' :: rest) lg).

(* what the machine has done when a statement with outcome o is over *)
Definition good (ti : Z) (lp : lctx) (pend : nat) (hs : list handler) (st : list sval) (lps : list (nat * nat)) (k : nat)
    (rest : list frame) (lg : list event) (o : outcome) (S0 : vmstate) : Prop :=
  match o with
  | ONormal => exists junk lps', lagree k lps lps' /\ star prog S0 (mks (mkf fn pend hs (st ++ junk) lps' :: rest) lg)
  | OThrow e => exists ip ds junk lps', Forall dead ds /\ lagree k lps lps' /\
       reach prog S0 (do_throw (mks (mkf fn ip (hs ++ ds) (st ++ junk) lps' :: rest) lg) e)
  | OReturn a => exists r ds junk lps', Forall dead ds /\ lagree k lps lps' /\ ret_point ti r /\
       star prog S0 (mks (mkf fn r (hs ++ ds) (st ++ junk ++ [VAtom a]) lps' :: rest) lg)
  | OBreak => match lp with Some (l, brk, _) => jump_good ti l brk hs st lps k rest lg S0 | None => False end
  | OContinue => match lp with Some (l, _, cont) => jump_good ti l cont hs st lps k rest lg S0 | None => False end
  end.

Definition ctx_ok (ti : Z) (lp : lctx) (hs : list handler) : Prop :=
  Z.of_nat (length hs) = ti + 1 /\ match lp with Some (l, _, _) => -1 <= l <= ti | None => True end.

Lemma good_pend ti lp pend pend' hs st lps k rest lg o S0 : o <> ONormal ->
  good ti lp pend hs st lps k rest lg o S0 -> good ti lp pend' hs st lps k rest lg o S0.
Proof. destruct o; try (intros; assumption). intro H. exfalso. apply H. reflexivity. Qed.

Lemma good_rebase ti lp pend hs st j lps lps1 k k1 rest lg o S0 S1 :
  star prog S0 S1 -> lagree k lps lps1 -> (k <= k1)%nat ->
  good ti lp pend hs (st ++ j) lps1 k1 rest lg o S1 -> good ti lp pend hs st lps k rest lg o S0.
Proof.
  intros Hs Hl Hk. destruct o; cbn [good].
  - intros [junk [lps' [Ha Hst]]]. exists (j ++ junk), lps'. split; [eapply lagree_trans; [exact Hk | exact Hl | exact Ha]|].
    rewrite app_assoc. eapply star_trans; eauto.
  - destruct lp as [[[l b] c]|]; [|exact (fun x => x)]. intros [r [ds [junk [lps' [Hd [Ha [Hj Hst]]]]]]].
    exists r, ds, (j ++ junk), lps'. repeat split; try assumption; [eapply lagree_trans; [exact Hk | exact Hl | exact Ha]|]. rewrite app_assoc. eapply star_trans; eauto.
  - destruct lp as [[[l b] c]|]; [|exact (fun x => x)]. intros [r [ds [junk [lps' [Hd [Ha [Hj Hst]]]]]]].
    exists r, ds, (j ++ junk), lps'. repeat split; try assumption; [eapply lagree_trans; [exact Hk | exact Hl | exact Ha]|]. rewrite app_assoc. eapply star_trans; eauto.
  - intros [r [ds [junk [lps' [Hd [Ha [Hr Hst]]]]]]].
    exists r, ds, (j ++ junk), lps'. repeat split; try assumption; [eapply lagree_trans; [exact Hk | exact Hl | exact Ha]|]. replace (st ++ (j ++ junk) ++ [VAtom a]) with ((st ++ j) ++ junk ++ [VAtom a]) by (rewrite <- !app_assoc; reflexivity). eapply star_trans; eauto.
  - intros [ip [ds [junk [lps' [Hd [Ha Hr]]]]]].
    exists ip, ds, (j ++ junk), lps'. repeat split; try assumption; [eapply lagree_trans; [exact Hk | exact Hl | exact Ha]|]. rewrite app_assoc. eapply reach_star; eauto.
Qed.

Lemma good_star ti lp pend hs st lps k rest lg o S0 S1 :
  star prog S0 S1 -> good ti lp pend hs st lps k rest lg o S1 -> good ti lp pend hs st lps k rest lg o S0.
Proof.
  intros Hs Hg. eapply (good_rebase ti lp pend hs st [] lps lps k k); [exact Hs | apply lagree_refl | lia |].
  rewrite app_nil_r. exact Hg.
Qed.

(* leaving a try statement whose handler is dead: the pending outcome concerns the enclosing handlers *)
Lemma good_lift ti lp pend pend' hs h st lps k rest lg o S0 :
  dead h -> -1 <= ti -> match lp with Some (l, _, _) => l <= ti | None => True end -> o <> ONormal ->
  good (ti + 1) lp pend' (hs ++ [h]) st lps k rest lg o S0 -> good ti lp pend hs st lps k rest lg o S0.
Proof.
  intros Hd Hti Hl Ho. destruct o; cbn [good]; [exfalso; apply Ho; reflexivity | | | |].
  - destruct lp as [[[l b] c]|]; [|exact (fun x => x)]. intros [r [ds [junk [lps' [Hds [Ha [Hj Hst]]]]]]].
    exists r, (h :: ds), junk, lps'. repeat split; try assumption; [constructor; assumption | | rewrite <- app_assoc in Hst; exact Hst].
    destruct Hj as [Hj|[Hj _]]; [left; exact Hj | lia].
  - destruct lp as [[[l b] c]|]; [|exact (fun x => x)]. intros [r [ds [junk [lps' [Hds [Ha [Hj Hst]]]]]]].
    exists r, (h :: ds), junk, lps'. repeat split; try assumption; [constructor; assumption | | rewrite <- app_assoc in Hst; exact Hst].
    destruct Hj as [Hj|[Hj _]]; [left; exact Hj | lia].
  - intros [r [ds [junk [lps' [Hds [Ha [Hr Hst]]]]]]].
    exists r, (h :: ds), junk, lps'. repeat split; try assumption; [constructor; assumption | | rewrite <- app_assoc in Hst; exact Hst].
    destruct Hr as [Hr|[Hr _]]; [left; exact Hr | lia].
  - intros [ip [ds [junk [lps' [Hds [Ha Hr]]]]]].
    exists ip, (h :: ds), junk, lps'. repeat split; try assumption; [constructor; assumption | rewrite <- app_assoc in Hr; exact Hr].
Qed.

Definition stmt_ok (s : skel) : Prop := forall p ti k lp hs st lps rest lg,
  code_at cd p (dcomp p ti k lp s) -> ctx_ok ti lp hs -> wfs (is_some lp) nf s = true ->
  good ti lp (p + sz ti (lt_of lp) s) hs st lps k rest (lg ++ fst (sem table s)) (snd (sem table s)) (mks (mkf fn p hs st lps :: rest) lg).
Definition block_ok (l : list skel) : Prop := forall p ti k lp hs st lps rest lg,
  code_at cd p (dcb p ti k lp l) -> ctx_ok ti lp hs -> wfb (is_some lp) nf l = true ->
  good ti lp (p + szb ti (lt_of lp) l) hs st lps k rest (lg ++ fst (sem_block table l)) (snd (sem_block table l)) (mks (mkf fn p hs st lps :: rest) lg).

Lemma ctx_inner ti lp hs h : ctx_ok ti lp hs -> ctx_ok (ti + 1) lp (hs ++ [h]).
Proof.
  intros [H1 H2]. split; [rewrite app_length; cbn [length]; lia|].
  destruct lp as [[[l b] c]|]; [lia | exact I].
Qed.

(* the finally part of a try statement, entered with any pending state recorded in the handler *)
Lemma run_finally fb ti lp hs hx stk lps1 k kf rest lg fpos :
  block_ok fb -> ctx_ok ti lp hs -> wfb (is_some lp) nf fb = true ->
  nth_error cd fpos = Some ISetupFinally -> code_at cd (S fpos) (dcb (S fpos) (ti + 1) kf lp fb) ->
  (k <= kf)%nat ->
  let h2 := mkh (h_sp hx) 0 0 (h_return_to hx) (h_err hx) (h_has_ret hx) in
  let S1 := mks (mkf fn fpos (hs ++ [hx]) stk lps1 :: rest) lg in
  let lf := fst (sem_block table fb) in
  match snd (sem_block table fb) with
  | ONormal => exists junk2 lps2, lagree k lps1 lps2 /\
      star prog S1 (mks (mkf fn (S fpos + szb (ti + 1) (lt_of lp) fb) (hs ++ [h2]) (stk ++ junk2) lps2 :: rest) (lg ++ lf))
  | o => forall pend, good ti lp pend hs stk lps1 k rest (lg ++ lf) o S1
  end.
Proof.
  intros Hfb Hctx Hwf Hsf Hcode Hk h2 S1 lf.
  assert (Hst: star prog S1 (mks (mkf fn (S fpos) (hs ++ [h2]) stk lps1 :: rest) lg)).
  { apply star_one. apply (st_setupfinally prog fn cd Hcd). exact Hsf. }
  pose proof (Hfb (S fpos) (ti + 1) kf lp (hs ++ [h2]) stk lps1 rest lg Hcode (ctx_inner _ _ _ h2 Hctx) Hwf) as Hg.
  fold lf in Hg. destruct Hctx as [Hlen Hlp].
  assert (Hd: dead h2) by (split; reflexivity).
  assert (Hlp': match lp with Some (l, _, _) => l <= ti | None => True end) by (destruct lp as [[[l b] c]|]; [lia | exact I]).
  assert (Hti: -1 <= ti) by lia.
  destruct (snd (sem_block table fb)) eqn:Eo.
  - cbn [good] in Hg. destruct Hg as [junk2 [lps2 [Ha Hs2]]]. exists junk2, lps2. split.
    + intros j Hj. apply Ha. lia.
    + eapply star_trans; [exact Hst | exact Hs2].
  - intro pend. eapply good_star; [exact Hst|]. eapply (good_rebase ti lp pend hs stk [] lps1 lps1 k kf); [apply star_refl | apply lagree_refl | exact Hk|].
    rewrite app_nil_r. eapply good_lift; try eassumption. discriminate.
  - intro pend. eapply good_star; [exact Hst|]. eapply (good_rebase ti lp pend hs stk [] lps1 lps1 k kf); [apply star_refl | apply lagree_refl | exact Hk|].
    rewrite app_nil_r. eapply good_lift; try eassumption. discriminate.
  - intro pend. eapply good_star; [exact Hst|]. eapply (good_rebase ti lp pend hs stk [] lps1 lps1 k kf); [apply star_refl | apply lagree_refl | exact Hk|].
    rewrite app_nil_r. eapply good_lift; try eassumption. discriminate.
  - intro pend. eapply good_star; [exact Hst|]. eapply (good_rebase ti lp pend hs stk [] lps1 lps1 k kf); [apply star_refl | apply lagree_refl | exact Hk|].
    rewrite app_nil_r. eapply good_lift; try eassumption. discriminate.
Qed.

(* a pending jump (break, continue) that has reached the finalizer with the handler h still live *)
Lemma jump_through_finally fb ti lp l tgt hs h st lps k kf rest lg S0 fpos :
  block_ok fb -> ctx_ok ti lp hs -> wfb (is_some lp) nf fb = true ->
  nth_error cd fpos = Some ISetupFinally -> code_at cd (S fpos) (dcb (S fpos) (ti + 1) kf lp fb) ->
  nth_error cd (S fpos + szb (ti + 1) (lt_of lp) fb) = Some IThrow0 ->
  (k <= kf)%nat -> fpos <> 0%nat -> h_finally h = fpos -> -1 <= l <= ti ->
  jump_good (ti + 1) l tgt (hs ++ [h]) st lps k rest lg S0 ->
  match snd (sem_block table fb) with
  | ONormal => jump_good ti l tgt hs st lps k rest (lg ++ fst (sem_block table fb)) S0
  | o => forall pend, good ti lp pend hs st lps k rest (lg ++ fst (sem_block table fb)) o S0
  end.
Proof.
  intros Hfb Hctx Hwf Hsf Hcode Ht0 Hk Hfp Hfin Hl [r [ds [junk [lps1 [Hds [Ha [Hj Hs01]]]]]]].
  destruct Hj as [[Hj1 Hj2]|[Hj _]]; [|lia].
  assert (Hlen: Z.of_nat (length hs) = ti + 1) by (destruct Hctx; assumption).
  set (stk := st ++ junk) in *.
  set (hx := mkh (length stk) (h_catch h) (h_finally h) r None true).
  assert (Hs1: star prog S0 (mks (mkf fn fpos (hs ++ [hx]) stk lps1 :: rest) lg)).
  { eapply star_trans; [exact Hs01|]. apply star_one. rewrite <- Hfin.
    apply (st_finalizer_found prog fn cd Hcd r stk lps1 rest lg _ hs h ds Hj1 Hds); [lia | rewrite Hfin; exact Hfp]. }
  pose proof (run_finally fb ti lp hs hx stk lps1 k kf rest lg fpos Hfb Hctx Hwf Hsf Hcode Hk) as R. cbv zeta in R.
  destruct (snd (sem_block table fb)) eqn:Eo.
  - destruct R as [junk2 [lps2 [Ha2 Hs2]]].
    exists r, [], junk, lps2. repeat split; [constructor | eapply lagree_trans; [apply Nat.le_refl | exact Ha | exact Ha2] | left; split; assumption |].
    rewrite app_nil_r. eapply star_trans; [exact Hs1|]. eapply star_trans; [exact Hs2|]. apply star_one.
    rewrite (st_throw0_ret prog fn cd Hcd _ hs _ _ _ _ _ Ht0) by reflexivity.
    cbn [mkh h_return_to h_sp hx]. unfold hx. cbn [h_sp h_return_to mkh]. rewrite firstn_exact. reflexivity.
  - intro pend. eapply (good_rebase ti lp pend hs st junk lps lps1 k k); [exact Hs1 | exact Ha | lia | apply R].
  - intro pend. eapply (good_rebase ti lp pend hs st junk lps lps1 k k); [exact Hs1 | exact Ha | lia | apply R].
  - intro pend. eapply (good_rebase ti lp pend hs st junk lps lps1 k k); [exact Hs1 | exact Ha | lia | apply R].
  - intro pend. eapply (good_rebase ti lp pend hs st junk lps lps1 k k); [exact Hs1 | exact Ha | lia | apply R].
Qed.

(* the end of a try statement: from the outcome o2 of its body / catch part (delivered at the
   finally position when normal) to the outcome of the whole statement *)
Lemma try_exit fb ti lp hs h st lps k kf rest lg o2 S0 fpos :
  block_ok fb -> ctx_ok ti lp hs -> wfb (is_some lp) nf fb = true ->
  nth_error cd fpos = Some ISetupFinally -> code_at cd (S fpos) (dcb (S fpos) (ti + 1) kf lp fb) ->
  nth_error cd (S fpos + szb (ti + 1) (lt_of lp) fb) = Some IThrow0 ->
  (k <= kf)%nat -> fpos <> 0%nat ->
  h_finally h = fpos -> h_err h = None -> h_has_ret h = false -> h_sp h = length st ->
  (forall e, o2 = OThrow e -> h_catch h = 0%nat) ->
  good (ti + 1) lp fpos (hs ++ [h]) st lps k rest lg o2 S0 ->
  good ti lp (S (S fpos + szb (ti + 1) (lt_of lp) fb)) hs st lps k rest (lg ++ fst (sem_block table fb))
       (ovr (snd (sem_block table fb)) o2) S0.
Proof.
  intros Hfb Hctx Hwf Hsf Hcode Ht0 Hk Hfp Hfin Herr Hhr Hsp Hcatch Hg. unfold ovr.
  assert (Hlen: Z.of_nat (length hs) = ti + 1) by (destruct Hctx; assumption).
  destruct o2; cbn [good] in Hg.
  - (* the body / catch part ended normally *)
    destruct Hg as [junk [lps1 [Ha Hs1]]].
    pose proof (run_finally fb ti lp hs h (st ++ junk) lps1 k kf rest lg fpos Hfb Hctx Hwf Hsf Hcode Hk) as R. cbv zeta in R.
    destruct (snd (sem_block table fb)) eqn:Eo;
      try (eapply (good_rebase ti lp _ hs st junk lps lps1 k k); [exact Hs1 | exact Ha | lia | apply R]).
    destruct R as [junk2 [lps2 [Ha2 Hs2]]]. cbn [good].
    exists (junk ++ junk2), lps2. split; [eapply lagree_trans; [apply Nat.le_refl | exact Ha | exact Ha2]|].
    rewrite app_assoc. eapply star_trans; [exact Hs1|]. eapply star_trans; [exact Hs2|]. apply star_one.
    apply (st_throw0_none prog fn cd Hcd _ hs _ _ _ _ _ Ht0); assumption.
  - (* break pending *)
    destruct lp as [[[l b] c]|]; [|contradiction].
    assert (Hl: -1 <= l <= ti) by (destruct Hctx as [_ Hl]; exact Hl).
    pose proof (jump_through_finally fb ti (Some (l, b, c)) l b hs h st lps k kf rest lg S0 fpos Hfb Hctx Hwf Hsf Hcode Ht0 Hk Hfp Hfin Hl Hg) as R.
    destruct (snd (sem_block table fb)) eqn:Eo; apply R.
  - (* continue pending *)
    destruct lp as [[[l b] c]|]; [|contradiction].
    assert (Hl: -1 <= l <= ti) by (destruct Hctx as [_ Hl]; exact Hl).
    pose proof (jump_through_finally fb ti (Some (l, b, c)) l c hs h st lps k kf rest lg S0 fpos Hfb Hctx Hwf Hsf Hcode Ht0 Hk Hfp Hfin Hl Hg) as R.
    destruct (snd (sem_block table fb)) eqn:Eo; apply R.
  - (* return pending *)
    destruct Hg as [r [ds [junk [lps1 [Hds [Ha [Hr Hs01]]]]]]].
    destruct Hr as [[Hr1 Hr2]|[Hr _]]; [|lia].
    set (stk := st ++ junk ++ [VAtom a]) in *.
    set (hx := mkh (length stk) (h_catch h) (h_finally h) r None true).
    assert (Hs1: star prog S0 (mks (mkf fn fpos (hs ++ [hx]) stk lps1 :: rest) lg)).
    { eapply star_trans; [exact Hs01|]. apply star_one. rewrite <- Hfin.
      apply (st_finalizer_found prog fn cd Hcd r stk lps1 rest lg _ hs h ds Hr1 Hds); [lia | rewrite Hfin; exact Hfp]. }
    pose proof (run_finally fb ti lp hs hx stk lps1 k kf rest lg fpos Hfb Hctx Hwf Hsf Hcode Hk) as R. cbv zeta in R.
    destruct (snd (sem_block table fb)) eqn:Eo;
      try (eapply (good_rebase ti lp _ hs st (junk ++ [VAtom a]) lps lps1 k k); [exact Hs1 | exact Ha | lia | apply R]).
    destruct R as [junk2 [lps2 [Ha2 Hs2]]]. cbn [good].
    exists r, [], junk, lps2. repeat split; [constructor | eapply lagree_trans; [apply Nat.le_refl | exact Ha | exact Ha2] | left; split; assumption |].
    rewrite app_nil_r. eapply star_trans; [exact Hs1|]. eapply star_trans; [exact Hs2|]. apply star_one.
    rewrite (st_throw0_ret prog fn cd Hcd _ hs _ _ _ _ _ Ht0) by reflexivity.
    unfold hx. cbn [h_sp h_return_to mkh]. rewrite firstn_exact. reflexivity.
  - (* an error pending: the handler has no catch part (any more) *)
    destruct Hg as [ip [ds [junk [lps1 [Hds [Ha Hr]]]]]].
    assert (Hc: h_catch h = 0%nat) by (apply (Hcatch e); reflexivity).
    rewrite throw_here in Hr by (try assumption; right; rewrite Hfin; exact Hfp).
    rewrite Hc, Hsp, firstn_exact in Hr. cbn [Nat.eqb] in Hr. rewrite Hfin in Hr.
    assert (Hs1: star prog S0 (mks (mkf fn fpos (hs ++ [with_err h e]) st lps1 :: rest) lg)) by (eapply reach_running; [exact Hr | apply star_refl]).
    pose proof (run_finally fb ti lp hs (with_err h e) st lps1 k kf rest lg fpos Hfb Hctx Hwf Hsf Hcode Hk) as R. cbv zeta in R.
    destruct (snd (sem_block table fb)) eqn:Eo;
      try (eapply good_star; [exact Hs1|]; eapply (good_rebase ti lp _ hs st [] lps lps1 k k); [apply star_refl | exact Ha | lia | rewrite app_nil_r; apply R]).
    destruct R as [junk2 [lps2 [Ha2 Hs2]]]. cbn [good].
    exists (S (S fpos + szb (ti + 1) (lt_of lp) fb)), [], junk2, lps2.
    repeat split; [constructor | eapply lagree_trans; [apply Nat.le_refl | exact Ha | exact Ha2] |].
    rewrite app_nil_r. eapply reach_star; [exact Hs1|]. eapply reach_star; [exact Hs2|].
    exists (mks (mkf fn (S fpos + szb (ti + 1) (lt_of lp) fb) (hs ++ [mkh (h_sp (with_err h e)) 0 0 (h_return_to (with_err h e)) (h_err (with_err h e)) (h_has_ret (with_err h e))]) (st ++ junk2) lps2 :: rest)
                (lg ++ fst (sem_block table fb))).
    split; [apply star_refl|]. apply (st_throw0_err prog fn cd Hcd _ hs _ _ _ _ _ e Ht0). reflexivity.
Qed.

(* ---- simple statements *)
Lemma ok_log a : stmt_ok (SLog a).
Proof.
  intros p ti k lp hs st lps rest lg Hc Hctx _. cbn [dcomp sem sz fst snd good] in *.
  apply code_at_cons in Hc. destruct Hc as [Hi _].
  exists [], lps. split; [apply lagree_refl|]. rewrite app_nil_r. replace (p + 1)%nat with (S p) by lia.
  apply star_one. apply (st_log prog fn cd Hcd). exact Hi.
Qed.

Lemma ok_throw a : stmt_ok (SThrow a).
Proof.
  intros p ti k lp hs st lps rest lg Hc Hctx _. cbn [dcomp sem sz fst snd good] in *.
  apply code_at_cons in Hc. destruct Hc as [Hi _].
  exists (S p), [], [], lps. split; [constructor|]; split; [apply lagree_refl|]. rewrite !app_nil_r.
  eexists. split; [apply star_refl|]. apply (st_throwuser prog fn cd Hcd). exact Hi.
Qed.

Lemma ok_fail : stmt_ok SFail.
Proof.
  intros p ti k lp hs st lps rest lg Hc Hctx _. cbn [dcomp sem sz fst snd good] in *.
  apply code_at_cons in Hc. destruct Hc as [Hi _].
  exists (S p), [], [], lps. split; [constructor|]; split; [apply lagree_refl|]. rewrite !app_nil_r.
  eexists. split; [apply star_refl|]. apply (st_fail prog fn cd Hcd). exact Hi.
Qed.

Lemma ok_return a : stmt_ok (SReturn a).
Proof.
  intros p ti k lp hs st lps rest lg Hc [Hlen _] _. cbn [dcomp sem sz fst snd good] in *.
  apply code_at_cons in Hc. destruct Hc as [Hi Hc].
  exists (S p), [], [], lps. split; [constructor|]; split; [apply lagree_refl|]; split.
  - destruct (-1 <? ti) eqn:E.
    + left. cbn [app] in Hc. apply code_at_cons in Hc. destruct Hc as [H1 Hc]. apply code_at_cons in Hc. destruct Hc as [H2 _]. split; assumption.
    + right. cbn [app] in Hc. apply code_at_cons in Hc. destruct Hc as [H1 _]. split; [apply Z.ltb_ge in E; lia | exact H1].
  - rewrite !app_nil_r. cbn [app]. apply star_one. apply (st_push prog fn cd Hcd). exact Hi.
Qed.

Lemma ok_break : stmt_ok SBreak.
Proof.
  intros p ti k lp hs st lps rest lg Hc Hctx Hwf. destruct lp as [[[l b] c]|]; [|discriminate].
  cbn [dcomp sem sz fst snd good lt_of] in *.
  exists p, [], [], lps. split; [constructor|]; split; [apply lagree_refl|]; split; [|rewrite !app_nil_r; apply star_refl].
  destruct (l =? ti) eqn:E; cbn [app] in Hc.
  - right. apply code_at_cons in Hc. destruct Hc as [H1 _]. split; [apply Z.eqb_eq; exact E|]. split; [reflexivity | exact H1].
  - left. apply code_at_cons in Hc. destruct Hc as [H1 Hc]. apply code_at_cons in Hc. destruct Hc as [H2 _]. split; assumption.
Qed.

Lemma ok_continue : stmt_ok SContinue.
Proof.
  intros p ti k lp hs st lps rest lg Hc Hctx Hwf. destruct lp as [[[l b] c]|]; [|discriminate].
  cbn [dcomp sem sz fst snd good lt_of] in *.
  exists p, [], [], lps. split; [constructor|]; split; [apply lagree_refl|]; split; [|rewrite !app_nil_r; apply star_refl].
  destruct (l =? ti) eqn:E; cbn [app] in Hc.
  - right. apply code_at_cons in Hc. destruct Hc as [H1 _]. split; [apply Z.eqb_eq; exact E|]. split; [reflexivity | exact H1].
  - left. apply code_at_cons in Hc. destruct Hc as [H1 Hc]. apply code_at_cons in Hc. destruct Hc as [H2 _]. split; assumption.
Qed.

Lemma ok_call f : stmt_ok (SCall f).
Proof.
  intros p ti k lp hs st lps rest lg Hc Hctx Hwf. cbn [wfs] in Hwf. apply Nat.ltb_lt in Hwf.
  destruct (Hcalls f Hwf) as [lf [og [Htab Hrun]]].
  cbn [dcomp sz] in *. apply code_at_cons in Hc. destruct Hc as [Hi Hc]. apply code_at_cons in Hc. destruct Hc as [Hi2 _].
  cbn [sem]. rewrite Htab.
  specialize (Hrun fn (S p) hs st lps rest lg). cbv zeta in Hrun.
  assert (Hs0: star prog (mks (mkf fn p hs st lps :: rest) lg) (mks (mkf f 0 [] [] [] :: mkf fn (S p) hs st lps :: rest) lg)).
  { apply star_one. apply (st_call prog fn cd Hcd). exact Hi. }
  assert (Hund: star prog (mks (mkf f 0 [] [] [] :: mkf fn (S p) hs st lps :: rest) lg) (mks (mkf fn (S p) hs (st ++ [VUndef]) lps :: rest) (lg ++ lf)) ->
                good ti lp (p + 2) hs st lps k rest (lg ++ lf ++ [ERet None]) ONormal (mks (mkf fn p hs st lps :: rest) lg)).
  { intro H. cbn [good]. exists [], lps. split; [apply lagree_refl|]. rewrite app_nil_r.
    eapply star_trans; [exact Hs0|]. eapply star_trans; [exact H|]. apply star_one.
    rewrite (st_logtop prog fn cd Hcd _ _ _ _ _ _ Hi2). rewrite last_last, removelast_last, app_assoc.
    replace (p + 2)%nat with (S (S p)) by lia. reflexivity. }
  destruct og; cbn [fst snd]; try (apply Hund; exact Hrun).
  - (* the function returns a value *)
    cbn [good]. exists [], lps. split; [apply lagree_refl|]. rewrite app_nil_r.
    eapply star_trans; [exact Hs0|]. eapply star_trans; [exact Hrun|]. apply star_one.
    rewrite (st_logtop prog fn cd Hcd _ _ _ _ _ _ Hi2). rewrite last_last, removelast_last, app_assoc.
    replace (p + 2)%nat with (S (S p)) by lia. reflexivity.
  - (* the function throws *)
    destruct Hrun as [gip [ds [gst [glps [Hds Hr]]]]]. rewrite throw_up in Hr by exact Hds.
    cbn [good]. exists (S p), [], [], lps. split; [constructor|]; split; [apply lagree_refl|]. rewrite !app_nil_r.
    eapply reach_star; [exact Hs0 | exact Hr].
Qed.

(* ---- blocks *)
Lemma ok_nil : block_ok [].
Proof.
  intros p ti k lp hs st lps rest lg _ _ _. cbn [sem_block szb fst snd good].
  exists [], lps. split; [apply lagree_refl|]. rewrite !app_nil_r, Nat.add_0_r. apply star_refl.
Qed.

Lemma ok_cons x xs : stmt_ok x -> block_ok xs -> block_ok (x :: xs).
Proof.
  intros Hx Hxs p ti k lp hs st lps rest lg Hc Hctx Hwf.
  cbn [dcb wfb szb] in *. apply andb_true_iff in Hwf. destruct Hwf as [Hwx Hwxs].
  apply code_at_app in Hc. destruct Hc as [Hcx Hcxs]. rewrite dcomp_length in Hcxs.
  pose proof (Hx p ti k lp hs st lps rest lg Hcx Hctx Hwx) as Hgx.
  cbn [sem_block]. destruct (sem table x) as [l1 o1]. cbn [fst snd] in Hgx.
  destruct o1; try (cbn [fst snd]; eapply good_pend; [discriminate | exact Hgx]).
  cbn [good] in Hgx. destruct Hgx as [junk [lps1 [Ha Hs1]]].
  pose proof (Hxs (p + sz ti (lt_of lp) x)%nat ti (k + nl x)%nat lp hs (st ++ junk) lps1 rest (lg ++ l1) Hcxs Hctx Hwxs) as Hgxs.
  destruct (sem_block table xs) as [l2 o2]. cbn [fst snd] in *.
  rewrite app_assoc, Nat.add_assoc. eapply good_rebase; [exact Hs1 | exact Ha | | exact Hgxs]. lia.
Qed.

(* ---- loops *)
Lemma jump_land ti tgt hs st lps k rest lg S0 :
  Z.of_nat (length hs) = ti + 1 -> jump_good ti ti tgt hs st lps k rest lg S0 ->
  exists junk lps', lagree k lps lps' /\ star prog S0 (mks (mkf fn tgt hs (st ++ junk) lps' :: rest) lg).
Proof.
  intros Hlen [r [ds [junk [lps' [Hds [Ha [Hj Hs]]]]]]]. exists junk, lps'. split; [exact Ha|].
  eapply star_trans; [exact Hs|]. destruct Hj as [[H1 H2]|[_ [Hnil H1]]].
  - eapply star_step; [apply (st_finalizer_none prog fn cd Hcd _ _ _ _ _ _ hs ds H1 Hds); lia|].
    apply star_one. apply (st_jump prog fn cd Hcd). exact H2.
  - subst ds. rewrite app_nil_r. apply star_one. apply (st_jump prog fn cd Hcd). exact H1.
Qed.

Lemma ok_loop body : block_ok body -> stmt_ok (SLoop body).
Proof.
  intros Hb p ti k lp hs st lps rest lg Hc Hctx Hwf.
  rewrite dcomp_loop in Hc. cbv zeta in Hc. rewrite wfs_loop in Hwf. rewrite sz_loop, sem_loop_unfold.
  assert (Hlen: Z.of_nat (length hs) = ti + 1) by (destruct Hctx; assumption).
  replace (p + 2)%nat with (S (S p)) in * by lia.
  set (post := (S (S p) + szb ti (Some ti) body)%nat) in *. set (exit := (post + 2)%nat) in *.
  set (lpb := Some (ti, exit, post)) in *.
  apply code_at_cons in Hc. destruct Hc as [Hinit Hc]. apply code_at_cons in Hc. destruct Hc as [Htest Hc].
  apply code_at_app in Hc. destruct Hc as [Hbody Hc]. rewrite dcb_length in Hc. cbn [lt_of lpb] in Hc. fold post in Hc.
  apply code_at_cons in Hc. destruct Hc as [Hincr Hc]. apply code_at_cons in Hc. destruct Hc as [Hjmp _].
  assert (Hctxb: ctx_ok ti lpb hs) by (split; [exact Hlen | cbn; lia]).
  replace (p + (2 + szb ti (Some ti) body + 2))%nat with exit by (unfold exit, post; lia).
  (* one iteration of the body, the counter being c *)
  assert (Hiter: forall stb lpsb lgb c, get_loop k lpsb = c ->
     let Sb := mks (mkf fn (S (S p)) hs stb lpsb :: rest) lgb in
     match snd (sem_block table body) with
     | ONormal | OContinue => exists junk lps', lagree k lpsb lps' /\ get_loop k lps' = S c /\
          star prog Sb (mks (mkf fn (S p) hs (stb ++ junk) lps' :: rest) (lgb ++ fst (sem_block table body)))
     | OBreak => exists junk lps', lagree k lpsb lps' /\
          star prog Sb (mks (mkf fn exit hs (stb ++ junk) lps' :: rest) (lgb ++ fst (sem_block table body)))
     | o => good ti lp exit hs stb lpsb k rest (lgb ++ fst (sem_block table body)) o Sb
     end).
  { intros stb lpsb lgb c Hcnt Sb.
    pose proof (Hb (S (S p)) ti (S k) lpb hs stb lpsb rest lgb Hbody Hctxb Hwf) as Hg. cbn [lt_of lpb] in Hg. fold post in Hg. fold Sb in Hg.
    assert (Hpost: forall junk lps', lagree (S k) lpsb lps' ->
              star prog Sb (mks (mkf fn post hs (stb ++ junk) lps' :: rest) (lgb ++ fst (sem_block table body))) ->
              exists junk0 lps0, lagree k lpsb lps0 /\ get_loop k lps0 = S c /\
                star prog Sb (mks (mkf fn (S p) hs (stb ++ junk0) lps0 :: rest) (lgb ++ fst (sem_block table body)))).
    { intros junk lps' Ha Hs. exists junk, (set_loop k (S (get_loop k lps')) lps'). split; [|split].
      - intros j Hj. rewrite get_set_other by lia. apply Ha. lia.
      - rewrite get_set_same. rewrite <- (Ha k) by lia. rewrite Hcnt. reflexivity.
      - eapply star_trans; [exact Hs|]. eapply star_step; [apply (st_loopincr prog fn cd Hcd); exact Hincr|].
        apply star_one. apply (st_jump prog fn cd Hcd). exact Hjmp. }
    destruct (snd (sem_block table body)) eqn:Eo; cbn [good] in Hg.
    - destruct Hg as [junk [lps' [Ha Hs]]]. eapply Hpost; eassumption.
    - destruct (jump_land ti exit hs stb lpsb (S k) rest _ Sb Hlen Hg) as [junk [lps' [Ha Hs]]].
      exists junk, lps'. split; [|exact Hs]. intros j Hj. apply Ha. lia.
    - destruct (jump_land ti post hs stb lpsb (S k) rest _ Sb Hlen Hg) as [junk [lps' [Ha Hs]]]. eapply Hpost; eassumption.
    - cbn [good]. destruct Hg as [r [ds [junk [lps' [Hds [Ha [Hr Hs]]]]]]]. exists r, ds, junk, lps'.
      split; [exact Hds|]. split; [intros j Hj; apply Ha; lia|]. split; assumption.
    - cbn [good]. destruct Hg as [ip [ds [junk [lps' [Hds [Ha Hr]]]]]]. exists ip, ds, junk, lps'.
      split; [exact Hds|]. split; [intros j Hj; apply Ha; lia|]. exact Hr. }
  (* entering the loop *)
  set (S0 := mks (mkf fn p hs st lps :: rest) lg).
  assert (Hent: star prog S0 (mks (mkf fn (S (S p)) hs st (set_loop k 0 lps) :: rest) lg)).
  { eapply star_step; [apply (st_loopinit prog fn cd Hcd); exact Hinit|].
    apply star_one. rewrite (st_looptest prog fn cd Hcd _ _ _ _ _ _ _ _ Htest). rewrite get_set_same. reflexivity. }
  pose proof (Hiter st (set_loop k 0 lps) lg 0%nat (get_set_same k 0 lps)) as H1. cbv zeta in H1.
  destruct (sem_block table body) as [l1 o1] eqn:Esem. cbn [fst snd] in *.
  assert (Hexit: forall junk lpsx lgx, lagree k lps lpsx -> star prog S0 (mks (mkf fn exit hs (st ++ junk) lpsx :: rest) lgx) ->
                 good ti lp exit hs st lps k rest lgx ONormal S0).
  { intros junk lpsx lgx Ha Hs. cbn [good]. exists junk, lpsx. split; assumption. }
  (* the second iteration, from the test with counter 1 *)
  assert (Hsecond: forall junk1 lps1, lagree k lps lps1 -> get_loop k lps1 = 1%nat ->
            star prog S0 (mks (mkf fn (S p) hs (st ++ junk1) lps1 :: rest) (lg ++ l1)) ->
            good ti lp exit hs st lps k rest (lg ++ l1 ++ l1)
                 (match o1 with ONormal | OContinue | OBreak => ONormal | o => o end) S0).
  { intros junk1 lps1 Ha1 Hc1 Hs1.
    assert (Hs1b: star prog S0 (mks (mkf fn (S (S p)) hs (st ++ junk1) lps1 :: rest) (lg ++ l1))).
    { eapply star_trans; [exact Hs1|]. apply star_one. rewrite (st_looptest prog fn cd Hcd _ _ _ _ _ _ _ _ Htest). rewrite Hc1. reflexivity. }
    pose proof (Hiter (st ++ junk1) lps1 (lg ++ l1) 1%nat Hc1) as H2. cbv zeta in H2. cbn [fst snd] in H2.
    rewrite app_assoc.
    assert (Hdone: forall junk lps', lagree k lps1 lps' -> get_loop k lps' = 2%nat ->
              star prog (mks (mkf fn (S (S p)) hs (st ++ junk1) lps1 :: rest) (lg ++ l1)) (mks (mkf fn (S p) hs ((st ++ junk1) ++ junk) lps' :: rest) ((lg ++ l1) ++ l1)) ->
              good ti lp exit hs st lps k rest ((lg ++ l1) ++ l1) ONormal S0).
    { intros junk lps' Ha Hc2 Hs. apply (Hexit (junk1 ++ junk) lps'); [eapply lagree_trans; [apply Nat.le_refl | exact Ha1 | exact Ha]|].
      rewrite app_assoc. eapply star_trans; [exact Hs1b|]. eapply star_trans; [exact Hs|]. apply star_one.
      rewrite (st_looptest prog fn cd Hcd _ _ _ _ _ _ _ _ Htest). rewrite Hc2. reflexivity. }
    destruct o1.
    - destruct H2 as [junk [lps' [Ha [Hc2 Hs]]]]. eapply Hdone; eassumption.
    - destruct H2 as [junk [lps' [Ha Hs]]]. apply (Hexit (junk1 ++ junk) lps'); [eapply lagree_trans; [apply Nat.le_refl | exact Ha1 | exact Ha]|].
      rewrite app_assoc. eapply star_trans; [exact Hs1b | exact Hs].
    - destruct H2 as [junk [lps' [Ha [Hc2 Hs]]]]. eapply Hdone; eassumption.
    - eapply good_rebase; [exact Hs1b | exact Ha1 | apply Nat.le_refl | exact H2].
    - eapply good_rebase; [exact Hs1b | exact Ha1 | apply Nat.le_refl | exact H2]. }
  assert (Hl0: lagree k lps (set_loop k 0 lps)) by apply lagree_set.
  destruct o1; cbn [fst snd].
  - destruct H1 as [junk [lps' [Ha [Hc1 Hs]]]]. apply (Hsecond junk lps'); [eapply lagree_trans; [apply Nat.le_refl | exact Hl0 | exact Ha] | exact Hc1 |].
    eapply star_trans; [exact Hent | exact Hs].
  - destruct H1 as [junk [lps' [Ha Hs]]]. apply (Hexit junk lps'); [eapply lagree_trans; [apply Nat.le_refl | exact Hl0 | exact Ha]|].
    eapply star_trans; [exact Hent | exact Hs].
  - destruct H1 as [junk [lps' [Ha [Hc1 Hs]]]]. apply (Hsecond junk lps'); [eapply lagree_trans; [apply Nat.le_refl | exact Hl0 | exact Ha] | exact Hc1 |].
    eapply star_trans; [exact Hent | exact Hs].
  - eapply (good_rebase ti lp exit hs st [] lps (set_loop k 0 lps) k k); [exact Hent | exact Hl0 | apply Nat.le_refl | rewrite app_nil_r; exact H1].
  - eapply (good_rebase ti lp exit hs st [] lps (set_loop k 0 lps) k k); [exact Hent | exact Hl0 | apply Nat.le_refl | rewrite app_nil_r; exact H1].
Qed.

(* ---- try / catch / finally *)
Lemma ok_try body catch fb :
  block_ok body -> optP block_ok (option_map snd catch) -> block_ok fb -> stmt_ok (STry body catch (Some fb)).
Proof.
  intros Hb Hcb Hfb p ti k lp hs st lps rest lg Hc Hctx Hwf.
  rewrite dcomp_try in Hc. cbv zeta in Hc. rewrite wfs_try in Hwf.
  apply andb_true_iff in Hwf. destruct Hwf as [Hwf Hwfin]. apply andb_true_iff in Hwf. destruct Hwf as [Hwbody Hwcatch].
  rewrite sz_try, sem_try_unfold.
  assert (Hlen: Z.of_nat (length hs) = ti + 1) by (destruct Hctx; assumption).
  set (S0 := mks (mkf fn p hs st lps :: rest) lg).
  set (pafter := (S p + szb (ti + 1) (lt_of lp) body)%nat) in *.
  apply code_at_cons in Hc. destruct Hc as [Hsetup Hc]. apply code_at_app in Hc. destruct Hc as [Hbody Hc].
  rewrite dcb_length in Hc. fold pafter in Hc.
  destruct catch as [[named cb]|]; cbn [optP option_map snd] in Hcb.
  - (* with a catch part *)
    set (fpos := (pafter + 2 + szb (ti + 1) (lt_of lp) cb)%nat) in *.
    set (kc := (k + nlb body)%nat) in *. set (kf := (kc + nlb cb)%nat) in *.
    cbn [app] in Hc. apply code_at_cons in Hc. destruct Hc as [Hjump Hc]. apply code_at_cons in Hc. destruct Hc as [Hsc Hc].
    apply code_at_app in Hc. destruct Hc as [Hccb Hc]. rewrite dcb_length in Hc.
    replace (S (S pafter) + szb (ti + 1) (lt_of lp) cb)%nat with fpos in Hc by (unfold fpos; lia).
    replace (pafter + 2)%nat with (S (S pafter)) in Hccb by lia.
    apply code_at_cons in Hc. destruct Hc as [Hsf Hc]. apply code_at_app in Hc. destruct Hc as [Hcfb Hc]. rewrite dcb_length in Hc.
    apply code_at_cons in Hc. destruct Hc as [Ht0 _].
    set (h := mkh (length st) (S pafter) fpos 0 None false).
    assert (Hs1: star prog S0 (mks (mkf fn (S p) (hs ++ [h]) st lps :: rest) lg)).
    { apply star_one. apply (st_setuptry prog fn cd Hcd). exact Hsetup. }
    pose proof (Hb (S p) (ti + 1) k lp (hs ++ [h]) st lps rest lg Hbody (ctx_inner _ _ _ h Hctx) Hwbody) as Hg1.
    fold pafter in Hg1.
    assert (Hexit: forall hX o2 lgx, h_finally hX = fpos -> h_err hX = None -> h_has_ret hX = false -> h_sp hX = length st ->
              (forall e, o2 = OThrow e -> h_catch hX = 0%nat) ->
              good (ti + 1) lp fpos (hs ++ [hX]) st lps k rest lgx o2 S0 ->
              good ti lp (S (S fpos + szb (ti + 1) (lt_of lp) fb)) hs st lps k rest (lgx ++ fst (sem_block table fb))
                   (ovr (snd (sem_block table fb)) o2) S0).
    { intros hX o2 lgx H1 H2 H3 H4 H5 H6.
      apply (try_exit fb ti lp hs hX st lps k kf rest lgx o2 S0 fpos); try assumption; unfold kf, kc, fpos; lia. }
    replace (p + (1 + szb (ti + 1) (lt_of lp) body + (2 + szb (ti + 1) (lt_of lp) cb) + 1 + szb (ti + 1) (lt_of lp) fb + 1))%nat
      with (S (S fpos + szb (ti + 1) (lt_of lp) fb)) by (unfold fpos, pafter; lia).
    destruct (sem_block table body) as [l1 o1]. cbn [fst snd] in Hg1.
    destruct (sem_block table fb) as [lf of] eqn:Ef. cbn [fst snd] in Hexit.
    destruct o1.
    + (* body normal: jump over the catch part *)
      cbn [fst snd]. rewrite app_nil_l, app_assoc. apply (Hexit h ONormal (lg ++ l1)); try reflexivity; [discriminate|].
      cbn [good] in *. destruct Hg1 as [junk [lps1 [Ha Hs]]]. exists junk, lps1. split; [exact Ha|].
      eapply star_trans; [exact Hs1|]. eapply star_trans; [exact Hs|]. apply star_one. apply (st_jump prog fn cd Hcd). exact Hjump.
    + cbn [fst snd]. rewrite app_nil_l, app_assoc. apply (Hexit h OBreak (lg ++ l1)); try reflexivity; [discriminate|].
      eapply good_star; [exact Hs1|]. eapply good_pend; [discriminate | exact Hg1].
    + cbn [fst snd]. rewrite app_nil_l, app_assoc. apply (Hexit h OContinue (lg ++ l1)); try reflexivity; [discriminate|].
      eapply good_star; [exact Hs1|]. eapply good_pend; [discriminate | exact Hg1].
    + cbn [fst snd]. rewrite app_nil_l, app_assoc. apply (Hexit h (OReturn a) (lg ++ l1)); try reflexivity; [discriminate|].
      eapply good_star; [exact Hs1|]. eapply good_pend; [discriminate | exact Hg1].
    + (* the body throws: the catch part runs *)
      cbn [good] in Hg1. destruct Hg1 as [ip [ds [junk [lps1 [Hds [Ha Hr]]]]]].
      rewrite throw_here in Hr by (try assumption; left; cbn; lia).
      cbn [h mkh h_catch h_sp Nat.eqb] in Hr. rewrite firstn_exact in Hr.
      set (h' := mkh (length st) 0 fpos 0 None false).
      assert (Hs2: star prog S0 (mks (mkf fn (S (S pafter)) (hs ++ [h']) st lps1 :: rest) ((lg ++ l1) ++ (if named then [ECaught e] else [])))).
      { eapply star_trans; [exact Hs1|]. eapply reach_running; [exact Hr|]. apply star_one.
        rewrite (st_setupcatch prog fn cd Hcd _ hs _ _ _ _ _ named Hsc). cbn [with_err h mkh h_sp h_finally h_return_to h_has_ret h_err].
        destruct named; reflexivity. }
      pose proof (Hcb (S (S pafter)) (ti + 1) kc lp (hs ++ [h']) st lps1 rest ((lg ++ l1) ++ (if named then [ECaught e] else [])) Hccb (ctx_inner _ _ _ h' Hctx) Hwcatch) as Hg2.
      replace (S (S pafter) + szb (ti + 1) (lt_of lp) cb)%nat with fpos in Hg2 by (unfold fpos; lia).
      destruct (sem_block table cb) as [lc oc]. cbn [fst snd] in *.
      replace (lg ++ l1 ++ ((if named then [ECaught e] else []) ++ lc) ++ lf) with ((((lg ++ l1) ++ (if named then [ECaught e] else [])) ++ lc) ++ lf)
        by (rewrite <- !app_assoc; reflexivity).
      apply (Hexit h' oc); try reflexivity.
      eapply (good_rebase (ti + 1) lp fpos (hs ++ [h']) st [] lps lps1 k kc); [exact Hs2 | exact Ha | unfold kc; lia | rewrite app_nil_r; exact Hg2].
  - (* without a catch part *)
    set (kf := (k + nlb body + 0)%nat) in *.
    cbn [app] in Hc. apply code_at_cons in Hc. destruct Hc as [Hsf Hc]. apply code_at_app in Hc. destruct Hc as [Hcfb Hc]. rewrite dcb_length in Hc.
    apply code_at_cons in Hc. destruct Hc as [Ht0 _].
    set (h := mkh (length st) 0 pafter 0 None false).
    assert (Hs1: star prog S0 (mks (mkf fn (S p) (hs ++ [h]) st lps :: rest) lg)).
    { apply star_one. apply (st_setuptry prog fn cd Hcd). exact Hsetup. }
    pose proof (Hb (S p) (ti + 1) k lp (hs ++ [h]) st lps rest lg Hbody (ctx_inner _ _ _ h Hctx) Hwbody) as Hg1.
    fold pafter in Hg1.
    replace (p + (1 + szb (ti + 1) (lt_of lp) body + 0 + 1 + szb (ti + 1) (lt_of lp) fb + 1))%nat
      with (S (S pafter + szb (ti + 1) (lt_of lp) fb)) by (unfold pafter; lia).
    destruct (sem_block table body) as [l1 o1]. cbn [fst snd] in Hg1.
    match goal with |- good _ _ _ _ _ _ _ _ (_ ++ fst ?X) _ _ =>
      assert (E2: X = (l1 ++ fst (sem_block table fb), ovr (snd (sem_block table fb)) o1))
        by (destruct o1; destruct (sem_block table fb); reflexivity); rewrite E2 end.
    cbn [fst snd]. rewrite app_assoc.
    apply (try_exit fb ti lp hs h st lps k kf rest (lg ++ l1) o1 S0 pafter); try assumption; try reflexivity; try (unfold kf, pafter; lia).
    eapply good_star; [exact Hs1 | exact Hg1].
Qed.

Lemma sem_try_none body catch : sem table (STry body catch None) = sem table (STry body catch (Some [])).
Proof.
  rewrite !sem_try_unfold. destruct (sem_block table body) as [l1 o1].
  match goal with |- (let '(l2, o2) := ?X in _) = _ => destruct X as [l2 o2] end.
  cbn [sem_block]. rewrite app_nil_r. reflexivity.
Qed.

Lemma ok_try_none body catch :
  block_ok body -> optP block_ok (option_map snd catch) -> stmt_ok (STry body catch None).
Proof.
  intros Hb Hcb p ti k lp hs st lps rest lg Hc Hctx Hwf.
  rewrite sem_try_none. exact (ok_try body catch [] Hb Hcb ok_nil p ti k lp hs st lps rest lg Hc Hctx Hwf).
Qed.

Theorem all_stmt_ok : forall s, stmt_ok s.
Proof.
  apply (skel_ind2 stmt_ok block_ok); try (intros; first [apply ok_log | apply ok_break | apply ok_continue | apply ok_return | apply ok_throw | apply ok_fail | apply ok_call | apply ok_nil]).
  - intros body Hb. apply ok_loop. exact Hb.
  - intros body catch fin Hb Hc Hf. destruct fin as [fb|]; [apply ok_try | apply ok_try_none]; assumption.
  - intros x xs Hx Hxs. apply ok_cons; assumption.
Qed.
Theorem all_block_ok : forall l, block_ok l.
Proof. induction l as [|x xs IH]; [apply ok_nil | apply ok_cons; [apply all_stmt_ok | exact IH]]. Qed.

(* ---- a whole function *)
Section Fn.
Variable body : list skel.
Hypothesis Hcode : cd = dcompile_fn body.
Hypothesis Hwf : wfb false nf body = true.

Lemma fn_good rest lg :
  good (-1) None (szb (-1) None body) [] [] [] 0 rest (lg ++ fst (sem_block table body)) (snd (sem_block table body))
       (mks (mkf fn 0 [] [] [] :: rest) lg).
Proof.
  apply (all_block_ok body 0%nat (-1) 0%nat None [] [] [] rest lg); [| split; [reflexivity | exact I] | exact Hwf].
  intros i x Hi. rewrite Hcode. unfold dcompile_fn. cbn [Nat.add]. rewrite nth_error_app1; [exact Hi|]. apply nth_error_Some. congruence.
Qed.

Lemma fn_last : nth_error cd (szb (-1) None body) = Some (IReturn false).
Proof.
  rewrite Hcode. unfold dcompile_fn. rewrite nth_error_app2 by (rewrite dcb_length; cbn [lt_of]; lia).
  rewrite dcb_length. cbn [lt_of]. rewrite Nat.sub_diag. reflexivity.
Qed.

(* the state from which the function returns: the next step is RETURN with this value on top *)
Lemma fn_returns rest lg :
  match snd (sem_block table body) with
  | ONormal => exists ip hs st lps, nth_error cd ip = Some (IReturn false) /\
       star prog (mks (mkf fn 0 [] [] [] :: rest) lg) (mks (mkf fn ip hs st lps :: rest) (lg ++ fst (sem_block table body)))
  | OReturn a => exists ip hs st lps, nth_error cd ip = Some (IReturn true) /\
       star prog (mks (mkf fn 0 [] [] [] :: rest) lg) (mks (mkf fn ip hs (st ++ [VAtom a]) lps :: rest) (lg ++ fst (sem_block table body)))
  | OThrow e => exists ip ds st lps, Forall dead ds /\
       reach prog (mks (mkf fn 0 [] [] [] :: rest) lg) (do_throw (mks (mkf fn ip ds st lps :: rest) (lg ++ fst (sem_block table body))) e)
  | _ => False
  end.
Proof.
  pose proof (fn_good rest lg) as Hg. destruct (snd (sem_block table body)); cbn [good] in Hg; try exact Hg.
  - destruct Hg as [junk [lps' [_ Hs]]]. exists (szb (-1) None body), [], ([] ++ junk), lps'. split; [exact fn_last | exact Hs].
  - destruct Hg as [r [ds [junk [lps' [Hds [_ [Hr Hs]]]]]]]. destruct Hr as [[H1 H2]|[_ H1]].
    + exists (S r), [], ([] ++ junk), lps'. split; [exact H2|]. eapply star_trans; [exact Hs|]. apply star_one.
      rewrite <- app_assoc. apply (st_finalizer_none prog fn cd Hcd _ _ _ _ _ _ [] ds H1 Hds). reflexivity.
    + exists r, ([] ++ ds), ([] ++ junk), lps'. split; [exact H1|]. rewrite <- app_assoc. exact Hs.
  - destruct Hg as [ip [ds [junk [lps' [Hds [_ Hr]]]]]]. exists ip, ds, ([] ++ junk), lps'. split; [exact Hds | exact Hr].
Qed.
End Fn.
End Sim.

(* ================================================================== whole programs *)
Lemma sem_ext t1 t2 nf : (forall f, (f < nf)%nat -> nth_error t1 f = nth_error t2 f) ->
  forall s il, wfs il nf s = true -> sem t1 s = sem t2 s.
Proof.
  intro Ht.
  apply (skel_ind2 (fun s => forall il, wfs il nf s = true -> sem t1 s = sem t2 s)
                   (fun l => forall il, wfb il nf l = true -> sem_block t1 l = sem_block t2 l)); try reflexivity.
  - intros f il H. cbn [wfs] in H. apply Nat.ltb_lt in H. cbn [sem]. rewrite (Ht f H). reflexivity.
  - intros body IH il H. rewrite wfs_loop in H. rewrite !sem_loop_unfold, (IH true H). reflexivity.
  - intros body catch fin IHb IHc IHf il H. rewrite wfs_try in H.
    apply andb_true_iff in H. destruct H as [H Hf]. apply andb_true_iff in H. destruct H as [Hb Hc].
    rewrite !sem_try_unfold, (IHb il Hb).
    destruct catch as [[named cb]|]; cbn [optP option_map snd] in IHc; [rewrite (IHc il Hc)|];
      (destruct fin as [fb|]; cbn [optP] in IHf; [rewrite (IHf il Hf)|]; reflexivity).
  - intros x xs IHx IHxs il H. cbn [wfb] in H. apply andb_true_iff in H. destruct H as [Hx Hxs].
    cbn [sem_block]. rewrite (IHx il Hx), (IHxs il Hxs). reflexivity.
Qed.
Lemma sem_block_ext t1 t2 nf : (forall f, (f < nf)%nat -> nth_error t1 f = nth_error t2 f) ->
  forall l il, wfb il nf l = true -> sem_block t1 l = sem_block t2 l.
Proof.
  intros Ht l. induction l as [|x xs IH]; intros il H; [reflexivity|].
  cbn [wfb] in H. apply andb_true_iff in H. destruct H as [Hx Hxs].
  cbn [sem_block]. rewrite (sem_ext t1 t2 nf Ht x il Hx), (IH il Hxs). reflexivity.
Qed.

Lemma aux_nth : forall p t i b, nth_error p i = Some b ->
  nth_error (sem_program_aux t p) (length t + i) = Some (sem_fn (firstn (length t + i) (sem_program_aux t p)) b)
  /\ exists ext, sem_program_aux t p = t ++ ext /\ length ext = length p.
Proof.
  assert (Hext: forall p t, exists ext, sem_program_aux t p = t ++ ext /\ length ext = length p).
  { induction p as [|b p IH]; intro t; cbn [sem_program_aux].
    - exists []. rewrite app_nil_r. split; reflexivity.
    - destruct (IH (t ++ [sem_fn t b])) as [ext [E L]]. exists (sem_fn t b :: ext). rewrite E, <- app_assoc. split; [reflexivity | cbn [length]; lia]. }
  induction p as [|b0 p IH]; intros t i b Hi; [destruct i; discriminate|]. split; [|apply Hext].
  cbn [sem_program_aux]. destruct i as [|i].
  - cbn [nth_error] in Hi. inversion Hi; subst b0. destruct (Hext p (t ++ [sem_fn t b])) as [ext [E _]]. rewrite E, Nat.add_0_r, <- app_assoc.
    rewrite nth_error_app2 by lia. rewrite Nat.sub_diag. cbn [app nth_error]. rewrite firstn_exact. reflexivity.
  - cbn [nth_error] in Hi. destruct (IH (t ++ [sem_fn t b0]) i b Hi) as [H _]. rewrite app_length in H. cbn [length] in H.
    replace (length t + S i)%nat with (length t + 1 + i)%nat by lia. exact H.
Qed.

Lemma wf_from_nth : forall p n g body, wf_program_from n p = true -> nth_error p g = Some body -> wfb false (n + g) body = true.
Proof.
  induction p as [|b p IH]; intros n g body H Hg; [destruct g; discriminate|].
  cbn [wf_program_from] in H. apply andb_true_iff in H. destruct H as [Hb Hp]. destruct g as [|g]; cbn [nth_error] in Hg.
  - inversion Hg; subst. rewrite Nat.add_0_r. exact Hb.
  - replace (n + S g)%nat with (S n + g)%nat by lia. apply IH; assumption.
Qed.

Lemma last_map_some {A} (l : list A) : l <> [] -> last (map Some l) None = nth_error l (length l - 1).
Proof.
  induction l as [|x l IH]; intro H; [contradiction|]. destruct l as [|y l]; [reflexivity|].
  change (last (map Some (x :: y :: l)) None) with (last (map Some (y :: l)) None). rewrite IH by discriminate.
  cbn [length]. replace (S (S (length l)) - 1)%nat with (S (length l - 0)) by lia. cbn [nth_error]. rewrite !Nat.sub_0_r.
  replace (S (length l) - 1)%nat with (length l) by lia. reflexivity.
Qed.

Lemma nth_firstn {A} (l : list A) : forall g f, (f < g)%nat -> nth_error (firstn g l) f = nth_error l f.
Proof.
  induction l as [|x l IH]; intros g f Hf; [destruct g; destruct f; reflexivity|].
  destruct g as [|g]; [lia|]. destruct f as [|f]; [reflexivity|]. cbn [firstn nth_error]. apply IH. lia.
Qed.

Section Program.
Variable p : program.
Hypothesis Hwf : wf_program p = true.
Let T := sem_program_aux [] p.
Let prog := dcompile_program p.

Lemma T_nth g body : nth_error p g = Some body -> nth_error T g = Some (sem_block T body).
Proof.
  intro Hg. destruct (aux_nth p [] g body Hg) as [H _]. cbn [length Nat.add] in H. fold T in H. rewrite H. f_equal. unfold sem_fn.
  apply (sem_block_ext _ _ g) with (il := false); [|exact (wf_from_nth p 0 g body Hwf Hg)].
  intros f Hf. apply nth_firstn. exact Hf.
Qed.

Lemma prog_nth g body : nth_error p g = Some body -> nth_error prog g = Some (dcompile_fn body).
Proof. intro H. unfold prog, dcompile_program. rewrite nth_error_map, H. reflexivity. Qed.

Lemma all_calls_ok : forall g, (g < length p)%nat -> call_ok prog T g.
Proof.
  intro g. induction g as [g IH] using lt_wf_ind. intro Hg.
  destruct (nth_error p g) as [body|] eqn:Eb; [|apply nth_error_None in Eb; lia].
  pose proof (T_nth g body Eb) as HT. pose proof (prog_nth g body Eb) as HP.
  pose proof (wf_from_nth p 0 g body Hwf Eb) as Hwb. cbn [Nat.add] in Hwb.
  assert (Hcalls: forall g', (g' < g)%nat -> call_ok prog T g') by (intros g' H; apply IH; lia).
  exists (fst (sem_block T body)), (snd (sem_block T body)). split; [rewrite HT; destruct (sem_block T body); reflexivity|].
  intros cfn cip chs cst clps rest lg. cbv zeta.
  pose proof (fn_returns prog T g g (dcompile_fn body) HP Hcalls body eq_refl Hwb (mkf cfn cip chs cst clps :: rest) lg) as H.
  destruct (snd (sem_block T body)); try contradiction.
  - destruct H as [ip [hs [st [lps [Hi Hs]]]]]. eapply star_trans; [exact Hs|]. apply star_one.
    rewrite (st_return_parent prog g _ HP ip hs st lps _ _ false (mkf cfn cip chs cst clps) rest Hi eq_refl). reflexivity.
  - destruct H as [ip [hs [st [lps [Hi Hs]]]]]. eapply star_trans; [exact Hs|]. apply star_one.
    rewrite (st_return_parent prog g _ HP ip hs _ lps _ _ true (mkf cfn cip chs cst clps) rest Hi eq_refl). rewrite last_last. reflexivity.
  - destruct H as [ip [ds [st [lps [Hds Hr]]]]]. exists ip, ds, st, lps. split; assumption.
Qed.

Theorem simulation : p <> [] ->
  exists fuel, match run fuel prog (mks [mkf (length prog - 1) 0 [] [] []] []) with
               | Done l o => sem_program p = Some (l, o)
               | _ => False
               end.
Proof.
  intro Hne. set (m := (length p - 1)%nat).
  assert (Hm: (m < length p)%nat) by (destruct p; [contradiction | cbn [length] in *; unfold m; cbn [length]; lia]).
  destruct (nth_error p m) as [body|] eqn:Eb; [|apply nth_error_None in Eb; lia].
  pose proof (T_nth m body Eb) as HT. pose proof (prog_nth m body Eb) as HP.
  pose proof (wf_from_nth p 0 m body Hwf Eb) as Hwb. cbn [Nat.add] in Hwb.
  assert (Hcalls: forall g', (g' < m)%nat -> call_ok prog T g') by (intros g' H; apply all_calls_ok; lia).
  assert (Hlen: length prog = length p) by (unfold prog, dcompile_program; apply map_length).
  assert (HTlen: length T = length p).
  { destruct (aux_nth p [] m body Eb) as [_ [ext [E L]]]. fold T in E. rewrite E. cbn [app]. exact L. }
  assert (Hsem: sem_program p = Some (sem_block T body)).
  { unfold sem_program. fold T. rewrite last_map_some by (intro E; rewrite E in HTlen; cbn in HTlen; lia). rewrite HTlen. fold m. exact HT. }
  rewrite Hlen. fold m. rewrite Hsem.
  pose proof (fn_returns prog T m m (dcompile_fn body) HP Hcalls body eq_refl Hwb [] []) as H. cbn [app] in H.
  destruct (sem_block T body) as [lf o]. cbn [fst snd] in H.
  destruct o; try contradiction.
  - destruct H as [ip [hs [st [lps [Hi Hs]]]]].
    destruct (star_run prog _ _ Hs (Done lf ONormal)) as [fuel Hf]; [discriminate | apply (st_return_main prog m _ HP ip hs st lps _ _ false Hi eq_refl)|].
    exists fuel. rewrite Hf. reflexivity.
  - destruct H as [ip [hs [st [lps [Hi Hs]]]]].
    destruct (star_run prog _ _ Hs (Done lf (OReturn a))) as [fuel Hf]; [discriminate | rewrite (st_return_main prog m _ HP ip hs _ lps _ _ true Hi eq_refl), last_last; reflexivity|].
    exists fuel. rewrite Hf. reflexivity.
  - destruct H as [ip [ds [st [lps [Hds [mid [Hs Hr]]]]]]]. rewrite throw_up in Hr by exact Hds.
    destruct (star_run prog _ _ Hs (Done lf (OThrow e))) as [fuel Hf]; [discriminate | exact Hr|].
    exists fuel. rewrite Hf. reflexivity.
Qed.
End Program.
