(* Property C03: a declarative presentation of the skeleton compiler.  [compile] of Skel.v follows
   compiler_nodes.go (emit, then patch jump operands); [dcomp] computes every position from the
   sizes of the parts.  SkelDeclEq.v proves that both produce the same code; the simulation proof
   (SkelSim.v) is about [dcomp].  Definitions only. *)
From Coq Require Import List ZArith Bool Lia.
From Ugo Require Import Skel.Skel.
Import ListNotations.
Local Open Scope Z_scope.

(* number of loops in a statement: loop identifiers are allocated in compilation order *)
Fixpoint nl (s : skel) : nat :=
  let nlb := fix nlb (l : list skel) : nat := match l with [] => 0%nat | x :: xs => (nl x + nlb xs)%nat end in
  match s with
  | SLoop body => S (nlb body)
  | STry body catch fin =>
      (nlb body + match catch with Some (_, cb) => nlb cb | None => 0 end + match fin with Some fb => nlb fb | None => 0 end)%nat
  | _ => 0%nat
  end.
Fixpoint nlb (l : list skel) : nat := match l with [] => 0%nat | x :: xs => (nl x + nlb xs)%nat end.

(* code size; ti: try index at the statement; lt: last-try index of the innermost loop, if any *)
Fixpoint sz (ti : Z) (lt : option Z) (s : skel) : nat :=
  let szb := fix szb (ti' : Z) (lt' : option Z) (l : list skel) {struct l} : nat :=
    match l with [] => 0%nat | x :: xs => (sz ti' lt' x + szb ti' lt' xs)%nat end in
  match s with
  | SLog _ | SThrow _ | SFail => 1%nat
  | SCall _ => 2%nat
  | SReturn _ => if -1 <? ti then 3%nat else 2%nat
  | SBreak | SContinue => match lt with Some l => if l =? ti then 1%nat else 2%nat | None => 0%nat end
  | SLoop body => (2 + szb ti (Some ti) body + 2)%nat
  | STry body catch fin =>
      let ti' := ti + 1 in
      (1 + szb ti' lt body
       + match catch with Some (_, cb) => 2 + szb ti' lt cb | None => 0 end
       + 1 + match fin with Some fb => szb ti' lt fb | None => 0 end + 1)%nat
  end.
Fixpoint szb (ti : Z) (lt : option Z) (l : list skel) : nat :=
  match l with [] => 0%nat | x :: xs => (sz ti lt x + szb ti lt xs)%nat end.

(* the loop context of a statement: last-try index of the loop, targets of break and continue *)
Definition lctx := option (Z * nat * nat)%type.
Definition lt_of (lp : lctx) : option Z := match lp with Some (l, _, _) => Some l | None => None end.

Fixpoint dcomp (p : nat) (ti : Z) (k : nat) (lp : lctx) (s : skel) : list instr :=
  let dcb := fix dcb (p' : nat) (ti' : Z) (k' : nat) (lp' : lctx) (l : list skel) {struct l} : list instr :=
    match l with
    | [] => []
    | x :: xs => dcomp p' ti' k' lp' x ++ dcb (p' + sz ti' (lt_of lp') x)%nat ti' (k' + nl x)%nat lp' xs
    end in
  match s with
  | SLog a => [ILog a]
  | SThrow a => [IThrowUser a]
  | SFail => [IFail]
  | SCall f => [ICall f; ILogTop]
  | SReturn a => IPush a :: (if -1 <? ti then [IFinalizer 0] else []) ++ [IReturn true]
  | SBreak =>
      match lp with
      | Some (l, brk, _) => (if l =? ti then [] else [IFinalizer (Z.to_nat (l + 1))]) ++ [IJump brk]
      | None => []
      end
  | SContinue =>
      match lp with
      | Some (l, _, cont) => (if l =? ti then [] else [IFinalizer (Z.to_nat (l + 1))]) ++ [IJump cont]
      | None => []
      end
  | SLoop body =>
      let test := S p in
      let post := (p + 2 + szb ti (Some ti) body)%nat in
      let exit := (post + 2)%nat in
      ILoopInit k :: ILoopTest k exit :: dcb (p + 2)%nat ti (S k) (Some (ti, exit, post)) body ++ [ILoopIncr k; IJump test]
  | STry body catch fin =>
      let ti' := ti + 1 in
      let lt := lt_of lp in
      let pbody := S p in
      let pafter := (pbody + szb ti' lt body)%nat in
      let catchpos := match catch with Some _ => S pafter | None => 0%nat end in
      let finallypos := match catch with Some (_, cb) => (pafter + 2 + szb ti' lt cb)%nat | None => pafter end in
      let kc := (k + nlb body)%nat in
      let kf := (kc + match catch with Some (_, cb) => nlb cb | None => 0 end)%nat in
      ISetupTry catchpos finallypos :: dcb pbody ti' k lp body
      ++ match catch with
         | Some (named, cb) => IJump finallypos :: ISetupCatch named :: dcb (pafter + 2)%nat ti' kc lp cb
         | None => []
         end
      ++ ISetupFinally :: match fin with Some fb => dcb (S finallypos) ti' kf lp fb | None => [] end
      ++ [IThrow0]
  end.
Fixpoint dcb (p : nat) (ti : Z) (k : nat) (lp : lctx) (l : list skel) : list instr :=
  match l with
  | [] => []
  | x :: xs => dcomp p ti k lp x ++ dcb (p + sz ti (lt_of lp) x)%nat ti (k + nl x)%nat lp xs
  end.

(* well-formed: break / continue only inside a loop (otherwise the compiler reports an error);
   calls only to functions defined before (index below [nf]) *)
Fixpoint wfs (inloop : bool) (nf : nat) (s : skel) : bool :=
  let wfb := fix wfb (inloop' : bool) (nf' : nat) (l : list skel) {struct l} : bool :=
    match l with [] => true | x :: xs => wfs inloop' nf' x && wfb inloop' nf' xs end in
  match s with
  | SBreak | SContinue => inloop
  | SCall f => Nat.ltb f nf
  | SLoop body => wfb true nf body
  | STry body catch fin =>
      wfb inloop nf body && match catch with Some (_, cb) => wfb inloop nf cb | None => true end
      && match fin with Some fb => wfb inloop nf fb | None => true end
  | _ => true
  end.
Fixpoint wfb (inloop : bool) (nf : nat) (l : list skel) : bool :=
  match l with [] => true | x :: xs => wfs inloop nf x && wfb inloop nf xs end.

Definition dcompile_fn (body : list skel) : list instr := dcb 0 (-1) 0 None body ++ [IReturn false].

Fixpoint wf_program_from (nf : nat) (p : program) : bool :=
  match p with [] => true | b :: rest => wfb false nf b && wf_program_from (S nf) rest end.
Definition wf_program (p : program) : bool := wf_program_from 0 p.

Definition dcompile_program (p : program) : list (list instr) := map dcompile_fn p.

(* the two compilers agree (tested here on the shapes of Properties/C03.v; proved in SkelDeclEq.v) *)
Example dcomp_agrees :
  let p := [[SLog 1; SReturn 4]; [STry [] None (Some []);
              STry [SLoop [STry [SBreak] None (Some [SLog 1]); SContinue]; SLog 2; SCall 0] (Some (true, [SLoop [SReturn 2]])) (Some [SLog 3])];
            [STry [SReturn 1] None (Some [STry [] None (Some [])]); SReturn 2]] in
  compile_program p = Some (dcompile_program p).
Proof. vm_compute. reflexivity. Qed.
