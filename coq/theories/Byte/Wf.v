(* Well-formedness of compiled functions: the validator run on every Bytecode the real
   compiler returns (property C05), defined over the regenerated opcode table. *)
From Coq Require Import List ZArith Bool String Lia.
From Ugo Require Import Base.Res Gen.OpTable Gen.Builtins Byte.Instr Byte.V1Conv.
Import ListNotations.
Local Open Scope Z_scope.

Definition opi (n : string) : Z := op_index opcodes_v2 n.

(* opcode numbers, computed once from the regenerated table *)
Definition c_OpAndJump : Z := Eval vm_compute in opi "OpAndJump".
Definition c_OpClosure : Z := Eval vm_compute in opi "OpClosure".
Definition c_OpConstant : Z := Eval vm_compute in opi "OpConstant".
Definition c_OpDefineLocal : Z := Eval vm_compute in opi "OpDefineLocal".
Definition c_OpGetBuiltin : Z := Eval vm_compute in opi "OpGetBuiltin".
Definition c_OpGetGlobal : Z := Eval vm_compute in opi "OpGetGlobal".
Definition c_OpGetLocal : Z := Eval vm_compute in opi "OpGetLocal".
Definition c_OpGetLocalPtr : Z := Eval vm_compute in opi "OpGetLocalPtr".
Definition c_OpJump : Z := Eval vm_compute in opi "OpJump".
Definition c_OpJumpFalsy : Z := Eval vm_compute in opi "OpJumpFalsy".
Definition c_OpLoadModule : Z := Eval vm_compute in opi "OpLoadModule".
Definition c_OpOrJump : Z := Eval vm_compute in opi "OpOrJump".
Definition c_OpReturn : Z := Eval vm_compute in opi "OpReturn".
Definition c_OpSetGlobal : Z := Eval vm_compute in opi "OpSetGlobal".
Definition c_OpSetLocal : Z := Eval vm_compute in opi "OpSetLocal".
Definition c_OpSetupTry : Z := Eval vm_compute in opi "OpSetupTry".
Definition c_OpStoreModule : Z := Eval vm_compute in opi "OpStoreModule".
Definition c_OpThrow : Z := Eval vm_compute in opi "OpThrow".

Record fn_ctx := {
  num_constants : Z;
  num_locals : Z;
  num_modules : Z;
  (* constants that are compiled functions: (index, number of free-variable slots the function's
     own instructions read or write) *)
  cfun_constants : list (Z * Z)
}.

Definition in_bounds (x hi : Z) : bool := (0 <=? x) && (x <? hi).

(* one decoded instruction (offset, opcode, operands) against the context and the set of
   instruction boundaries *)
Definition wf_instr (ctx : fn_ctx) (bounds : list Z) (d : Z * Z * list Z) : bool :=
  let '(off, op, args) := d in
  let arg i := nth i args (-1) in
  let is_bound t := existsb (Z.eqb t) bounds in
  if (op =? c_OpJump) || (op =? c_OpJumpFalsy) || (op =? c_OpAndJump) || (op =? c_OpOrJump) then
    is_bound (arg 0%nat)
  else if op =? c_OpSetupTry then
    ((arg 0%nat =? 0) || is_bound (arg 0%nat)) && is_bound (arg 1%nat)
  else if (op =? c_OpConstant) || (op =? c_OpGetGlobal) || (op =? c_OpSetGlobal) then
    in_bounds (arg 0%nat) (num_constants ctx)
  else if op =? c_OpClosure then
    (* the closure binds at least as many free variables as the function uses *)
    in_bounds (arg 0%nat) (num_constants ctx) &&
    existsb (fun c => Z.eqb (arg 0%nat) (fst c) && (snd c <=? arg 1%nat)) (cfun_constants ctx)
  else if op =? c_OpLoadModule then
    in_bounds (arg 0%nat) (num_constants ctx) && in_bounds (arg 1%nat) (num_modules ctx)
  else if op =? c_OpStoreModule then
    in_bounds (arg 0%nat) (num_modules ctx)
  else if (op =? c_OpGetLocal) || (op =? c_OpSetLocal) || (op =? c_OpDefineLocal) || (op =? c_OpGetLocalPtr) then
    in_bounds (arg 0%nat) (num_locals ctx)
  else if op =? c_OpGetBuiltin then
    in_bounds (arg 0%nat) num_builtin_types
  else if op =? c_OpReturn then
    (arg 0%nat =? 0) || (arg 0%nat =? 1)
  else if op =? c_OpThrow then
    (arg 0%nat =? 0) || (arg 0%nat =? 1)
  else true.

Definition wf_function (ctx : fn_ctx) (ins : list Z) : bool :=
  match decode_all (S (List.length ins)) opcodes_v2 ins 0 with
  | None => false                       (* unknown opcode or truncated operand *)
  | Some ds =>
      let bounds := map (fun d => fst (fst d)) ds ++ [Z.of_nat (List.length ins)] in
      forallb (wf_instr ctx bounds) ds &&
      (num_locals ctx <=? 256) &&
      (* Bytecode() ends every function with RETURN *)
      match ds with
      | [] => false
      | _ => let '(_, op, _) := last ds (0, 0, []) in op =? c_OpReturn
      end
  end.
