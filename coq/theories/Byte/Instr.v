(* Instruction encoding: OpcodeOperands tables (regenerated from the source on every run,
   Gen/OpTable.v), ReadOperands, MakeInstruction. *)
From Coq Require Import List ZArith Bool String Lia.
From Ugo Require Import Base.Res Gen.OpTable.
Import ListNotations.
Local Open Scope Z_scope.

Definition optable := list (string * list Z).

Definition widths_of (tbl : optable) (op : Z) : option (list Z) :=
  if op <? 0 then None else nth_error (map snd tbl) (Z.to_nat op).

Definition sumz (l : list Z) : Z := fold_right Z.add 0 l.

Fixpoint op_index_aux (tbl : optable) (name : string) (i : Z) : Z :=
  match tbl with
  | [] => -1
  | (n, _) :: r => if String.eqb n name then i else op_index_aux r name (i + 1)
  end.
Definition op_index (tbl : optable) (name : string) : Z := op_index_aux tbl name 0.

Definition be_value (bytes : list Z) : Z := fold_left (fun acc b => acc * 256 + b) bytes 0.

Fixpoint be_bytes_nat (w : nat) (v : Z) : list Z :=
  match w with
  | O => []
  | S w' => (v / 256 ^ Z.of_nat w') mod 256 :: be_bytes_nat w' v
  end.
Definition be_bytes (w : Z) (v : Z) : list Z := be_bytes_nat (Z.to_nat w) v.

(* ReadOperands: None where the Go code would index past the slice (panic) *)
Fixpoint read_operands (ws : list Z) (ins : list Z) : option (list Z) :=
  match ws with
  | [] => Some []
  | w :: r =>
      let n := Z.to_nat w in
      let pre := firstn n ins in
      (* fewer than n bytes left (measured on the prefix only: linear time) *)
      if Nat.ltb (List.length pre) n then None
      else match read_operands r (skipn n ins) with
           | Some rest => Some (be_value pre :: rest)
           | None => None
           end
  end.

Definition max_operand (w : Z) : Z :=
  if w =? 1 then 255 else if w =? 2 then 65535 else if w =? 4 then 2147483647 else 0.

Definition make_err : uerror := mkErr (String.list_byte_of_string "MakeInstruction") [].

(* MakeInstruction (version 2 table): error for a wrong operand count or an out-of-range operand *)
Definition make_instruction (tbl : optable) (op : Z) (args : list Z) : res (list Z) :=
  match widths_of tbl op with
  | None => GoPanic PkIndex            (* OpcodeOperands[op] out of range *)
  | Some ws =>
      if negb (Nat.eqb (List.length ws) (List.length args)) then Err make_err
      else if existsb (fun wa => (max_operand (fst wa) <? snd wa) || (snd wa <? 0)) (combine ws args) then Err make_err
      else Ok (op :: flat_map (fun wa => be_bytes (fst wa) (snd wa)) (combine ws args))
  end.

(* the byte layout written by MakeInstruction's switch (regenerated: make_layouts) is the
   big-endian layout implied by the operand widths, for every opcode *)
Definition layout_of_widths (ws : list Z) : list (nat * Z) :=
  let fix go (i : nat) (ws : list Z) : list (nat * Z) :=
    match ws with
    | [] => []
    | w :: r =>
        (fix bytes (k : nat) : list (nat * Z) :=
           match k with O => [] | S k' => (i, 8 * Z.of_nat k') :: bytes k' end) (Z.to_nat w) ++ go (S i) r
    end in go O ws.

Definition layouts_agree : bool :=
  forallb (fun p => let '((n1, ws), (n2, lay)) := p in
                    String.eqb n1 n2 &&
                    (if list_eq_dec (fun a b : nat * Z =>
                          match Nat.eq_dec (fst a) (fst b), Z.eq_dec (snd a) (snd b) with
                          | left e1, left e2 => left (match a, b return fst a = fst b -> snd a = snd b -> a = b with
                                                      | (a1, a2), (b1, b2) => fun h1 h2 => f_equal2 pair h1 h2 end e1 e2)
                          | right n, _ => right (fun h => n (f_equal fst h))
                          | _, right n => right (fun h => n (f_equal snd h))
                          end) lay (layout_of_widths ws) then true else false))
          (combine opcodes_v2 make_layouts)
  && Nat.eqb (List.length opcodes_v2) (List.length make_layouts).

(* v1 and v2 number the opcodes identically and differ only in the width of jump-class operands *)
Definition v1_v2_tables_agree : bool :=
  Nat.eqb (List.length opcodes_v1) (List.length opcodes_v2) &&
  forallb (fun p => let '((n1, w1), (n2, w2)) := p in
                    String.eqb n1 n2 &&
                    (if list_eq_dec Z.eq_dec w1 w2 then true
                     else (if list_eq_dec Z.eq_dec w1 (map (fun _ => 2) w1) then true else false) &&
                          (if list_eq_dec Z.eq_dec w2 (map (fun _ => 4) w1) then true else false)))
          (combine opcodes_v1 opcodes_v2).
