(* Faithful model of convCompFuncV1ToV2 (encoder/v1.go).  Definitions only. *)
From Coq Require Import List ZArith Bool String Lia.
From Ugo Require Import Base.Res Gen.OpTable Byte.Instr.
Import ListNotations.
Local Open Scope Z_scope.

Definition jump_names : list string := ["OpJump"; "OpJumpFalsy"; "OpAndJump"; "OpOrJump"; "OpSetupTry"]%string.
Definition jump_ops : list Z := map (op_index opcodes_v1) jump_names.
Definition jump_class (op : Z) : bool := existsb (Z.eqb op) jump_ops.

Definition conv_err (s : string) : uerror := mkErr (String.list_byte_of_string "v1") (String.list_byte_of_string s).

(* first pass: (end offset, total growth) of every widened instruction, ascending *)
Fixpoint pass1 (fuel : nat) (rest : list Z) (off : Z) (acc : list (Z * Z)) (total : Z) : res (list (Z * Z)) :=
  match fuel with
  | O => OutOfFuel
  | S f =>
      match rest with
      | [] => Ok (rev acc)
      | op :: tl =>
          match widths_of opcodes_v1 op with
          | None => Err (conv_err "invalid opcode")
          | Some ws =>
              let w := sumz ws in
              if Z.of_nat (List.length tl) <? w then Err (conv_err "truncated instruction")
              else if jump_class op then
                let total' := total + 2 * Z.of_nat (List.length ws) in
                pass1 f (skipn (Z.to_nat w) tl) (off + 1 + w) ((off + 1 + w, total') :: acc) total'
              else pass1 f (skipn (Z.to_nat w) tl) (off + 1 + w) acc total
          end
      end
  end.

(* relocate: target + growth of the widened instructions ending at or before target
   (sort.SearchInts over the ascending end offsets, modelled by its specification) *)
Definition relocate (ends : list (Z * Z)) (target : Z) : Z :=
  target + fold_left (fun g eg => if fst eg <=? target then snd eg else g) ends 0.

Fixpoint lookup_z (k : Z) (m : list (Z * Z)) : option Z :=
  match m with
  | [] => None
  | (k', v) :: r => if k =? k' then Some v else lookup_z k r
  end.

(* second pass: new instructions (reversed accumulation avoided: we append) and new source map *)
Fixpoint pass2 (fuel : nat) (ends : list (Z * Z)) (srcmap : list (Z * Z)) (rest : list Z) (off : Z)
         (newlen : Z) : res (list Z * list (Z * Z)) :=
  match fuel with
  | O => OutOfFuel
  | S f =>
      match rest with
      | [] => Ok ([], [])
      | op :: tl =>
          match widths_of opcodes_v1 op with
          | None => GoPanic PkIndex
          | Some ws =>
              let w := sumz ws in
              let sm := match lookup_z off srcmap with Some p => [(newlen, p)] | None => [] end in
              if jump_class op then
                match read_operands ws tl with
                | None => GoPanic PkIndex
                | Some operands =>
                    match make_instruction opcodes_v2 op (map (relocate ends) operands) with
                    | Ok inst =>
                        match pass2 f ends srcmap (skipn (Z.to_nat w) tl) (off + 1 + w) (newlen + Z.of_nat (List.length inst)) with
                        | Ok (is, ms) => Ok (inst ++ is, sm ++ ms)
                        | r => r
                        end
                    | Err e => Err e
                    | GoPanic k => GoPanic k
                    | OutOfFuel => OutOfFuel
                    end
                end
              else
                match pass2 f ends srcmap (skipn (Z.to_nat w) tl) (off + 1 + w) (newlen + 1 + w) with
                | Ok (is, ms) => Ok (op :: firstn (Z.to_nat w) tl ++ is, sm ++ ms)
                | r => r
                end
          end
      end
  end.

Definition conv_comp_func (ins : list Z) (srcmap : list (Z * Z)) : res (list Z * list (Z * Z)) :=
  match pass1 (S (List.length ins)) ins 0 [] 0 with
  | Ok [] => Ok (ins, srcmap)
  | Ok ends => pass2 (S (List.length ins)) ends srcmap ins 0 0
  | Err e => Err e
  | GoPanic k => GoPanic k
  | OutOfFuel => OutOfFuel
  end.

(* ---- offset-free view of an instruction stream: jump operands as instruction indices ---- *)

Fixpoint decode_all (fuel : nat) (tbl : optable) (rest : list Z) (off : Z) : option (list (Z * Z * list Z)) :=
  match fuel with
  | O => None
  | S f =>
      match rest with
      | [] => Some []
      | op :: tl =>
          match widths_of tbl op with
          | None => None
          | Some ws =>
              match read_operands ws tl with
              | None => None
              | Some args =>
                  match decode_all f tbl (skipn (Z.to_nat (sumz ws)) tl) (off + 1 + sumz ws) with
                  | Some r => Some ((off, op, args) :: r)
                  | None => None
                  end
              end
          end
      end
  end.

Fixpoint index_of (offs : list Z) (t : Z) (i : Z) : option Z :=
  match offs with
  | [] => None
  | o :: r => if o =? t then Some i else index_of r t (i + 1)
  end.

Fixpoint map_opt {A B} (f : A -> option B) (l : list A) : option (list B) :=
  match l with
  | [] => Some []
  | x :: r => match f x, map_opt f r with Some y, Some ys => Some (y :: ys) | _, _ => None end
  end.

(* abstract program: (opcode, operands) with jump-class operands replaced by the index of the
   instruction that starts at the target offset (the end of the stream is index n) *)
Definition abstract (tbl : optable) (ins : list Z) : option (list (Z * list Z)) :=
  match decode_all (S (List.length ins)) tbl ins 0 with
  | None => None
  | Some ds =>
      let offs := map (fun d => fst (fst d)) ds ++ [Z.of_nat (List.length ins)] in
      map_opt (fun d => let '(off, op, args) := d in
                        if jump_class op then
                          match map_opt (fun t => index_of offs t 0) args with
                          | Some idx => Some (op, idx)
                          | None => None
                          end
                        else Some (op, args)) ds
  end.

(* source map keyed by instruction index; keys that are not instruction starts are dropped *)
Definition abstract_srcmap (tbl : optable) (ins : list Z) (srcmap : list (Z * Z)) : option (list (Z * Z)) :=
  match decode_all (S (List.length ins)) tbl ins 0 with
  | None => None
  | Some ds =>
      Some (flat_map (fun id => let '(i, d) := id in
                                match lookup_z (fst (fst d)) srcmap with
                                | Some p => [(i, p)]
                                | None => []
                                end)
                     (combine (map Z.of_nat (seq 0 (List.length ds))) ds))
  end.

(* validator run on the real converter's output *)
Definition reloc_ok (ins1 : list Z) (sm1 : list (Z * Z)) (ins2 : list Z) (sm2 : list (Z * Z)) : bool :=
  match abstract opcodes_v1 ins1, abstract opcodes_v2 ins2,
        abstract_srcmap opcodes_v1 ins1 sm1, abstract_srcmap opcodes_v2 ins2 sm2 with
  | Some a1, Some a2, Some m1, Some m2 =>
      (if list_eq_dec (fun x y : Z * list Z =>
            match Z.eq_dec (fst x) (fst y), list_eq_dec Z.eq_dec (snd x) (snd y) with
            | left e1, left e2 => left (match x, y return fst x = fst y -> snd x = snd y -> x = y with
                                        | (a, b), (c, d) => fun h1 h2 => f_equal2 pair h1 h2 end e1 e2)
            | right n, _ => right (fun h => n (f_equal fst h))
            | _, right n => right (fun h => n (f_equal snd h))
            end) a1 a2 then true else false) &&
      (if list_eq_dec (fun x y : Z * Z =>
            match Z.eq_dec (fst x) (fst y), Z.eq_dec (snd x) (snd y) with
            | left e1, left e2 => left (match x, y return fst x = fst y -> snd x = snd y -> x = y with
                                        | (a, b), (c, d) => fun h1 h2 => f_equal2 pair h1 h2 end e1 e2)
            | right n, _ => right (fun h => n (f_equal fst h))
            | _, right n => right (fun h => n (f_equal snd h))
            end) m1 m2 then true else false)
  | _, _, _, _ => false
  end.
