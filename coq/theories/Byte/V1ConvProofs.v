(* Property C11: the version 1 -> version 2 converter relocates every jump operand and every
   source map key: the converted function denotes the same abstract program.  Proofs only. *)
From Coq Require Import List ZArith Bool String Lia Arith.
From Ugo Require Import Base.Res Gen.OpTable Byte.Instr Byte.InstrProofs Byte.V1Conv.
Import ListNotations.
Local Open Scope Z_scope.

(* ---- the two opcode tables, opcode by opcode *)
Fixpoint zlist_eqb (a b : list Z) : bool :=
  match a, b with
  | [], [] => true
  | x :: a', y :: b' => (x =? y) && zlist_eqb a' b'
  | _, _ => false
  end.
Lemma zlist_eqb_eq a : forall b, zlist_eqb a b = true -> a = b.
Proof.
  induction a as [|x a IH]; intros [|y b] H; try discriminate; [reflexivity|].
  cbn [zlist_eqb] in H. apply andb_true_iff in H. destruct H as [H1 H2]. apply Z.eqb_eq in H1. subst. f_equal. apply IH. exact H2.
Qed.

Definition tbl_rel_at (i : nat) : bool :=
  let op := Z.of_nat i in
  match widths_of opcodes_v1 op, widths_of opcodes_v2 op with
  | Some w1, Some w2 =>
      forallb (fun w => 0 <=? w) w1 &&
      (if jump_class op then zlist_eqb w1 (map (fun _ => 2) w1) && zlist_eqb w2 (map (fun _ => 4) w1) && negb (Nat.eqb (List.length w1) 0)
       else zlist_eqb w1 w2)
  | None, None => true
  | _, _ => false
  end.
Definition tbl_rel_b : bool :=
  forallb tbl_rel_at (seq 0 (List.length opcodes_v1)) && Nat.eqb (List.length opcodes_v1) (List.length opcodes_v2).
Lemma tbl_rel_true : tbl_rel_b = true.
Proof. vm_compute. reflexivity. Qed.

Lemma widths_range tbl op ws : widths_of tbl op = Some ws -> 0 <= op /\ (Z.to_nat op < List.length tbl)%nat.
Proof.
  unfold widths_of. destruct (Z.ltb_spec op 0) as [Hlt|Hge]; [discriminate|]. intro H. split; [assumption|].
  assert (Hn: nth_error (map snd tbl) (Z.to_nat op) <> None) by congruence.
  apply nth_error_Some in Hn. rewrite map_length in Hn. exact Hn.
Qed.

Lemma tbl_rel op ws1 : widths_of opcodes_v1 op = Some ws1 ->
  Forall (fun w => 0 <= w) ws1 /\
  if jump_class op then ws1 = map (fun _ => 2) ws1 /\ widths_of opcodes_v2 op = Some (map (fun _ => 4) ws1) /\ ws1 <> []
  else widths_of opcodes_v2 op = Some ws1.
Proof.
  intro H. destruct (widths_range _ _ _ H) as [H0 Hr].
  pose proof tbl_rel_true as T. unfold tbl_rel_b in T. apply andb_true_iff in T. destruct T as [T _].
  rewrite forallb_forall in T. specialize (T (Z.to_nat op)).
  assert (Hin: In (Z.to_nat op) (seq 0 (List.length opcodes_v1))) by (apply in_seq; lia).
  specialize (T Hin). unfold tbl_rel_at in T. rewrite Z2Nat.id in T by lia. rewrite H in T.
  destruct (widths_of opcodes_v2 op) as [w2|]; [|discriminate].
  apply andb_true_iff in T. destruct T as [Tn T]. split.
  - apply Forall_forall. intros w Hw. rewrite forallb_forall in Tn. apply Z.leb_le. apply Tn. exact Hw.
  - destruct (jump_class op).
    + apply andb_true_iff in T. destruct T as [T T3]. apply andb_true_iff in T. destruct T as [T1 T2].
      apply zlist_eqb_eq in T1, T2. split; [exact T1|]. split; [rewrite T2; reflexivity|].
      intro E. rewrite E in T3. discriminate.
    + apply zlist_eqb_eq in T. subst. reflexivity.
Qed.

Lemma sumz_const c l : sumz (map (fun _ : Z => c) l) = c * Z.of_nat (List.length l).
Proof. induction l as [|x l IH]; cbn [map sumz fold_right List.length]; [lia|]. fold (sumz (map (fun _ : Z => c) l)). rewrite IH. lia. Qed.
Lemma sumz_nonneg l : Forall (fun w => 0 <= w) l -> 0 <= sumz l.
Proof. induction 1 as [|x l Hx _ IH]; cbn [sumz fold_right]; [lia|]. fold (sumz l). lia. Qed.

(* ---- decoded instruction lists: offsets, growth, relocation *)
Definition dinst := (Z * Z * list Z)%type.
Definition d_off (d : dinst) : Z := fst (fst d).
Definition d_op (d : dinst) : Z := snd (fst d).
Definition opw (op : Z) : Z := match widths_of opcodes_v1 op with Some ws => sumz ws | None => 0 end.
Definition opn (op : Z) : Z := match widths_of opcodes_v1 op with Some ws => Z.of_nat (List.length ws) | None => 0 end.
Definition isz (d : dinst) : Z := 1 + opw (d_op d).
Definition grow (d : dinst) : Z := if jump_class (d_op d) then 2 * opn (d_op d) else 0.

Fixpoint chain (ds : list dinst) (off : Z) : Prop :=
  match ds with [] => True | d :: r => d_off d = off /\ 0 <= opw (d_op d) /\ chain r (off + isz d) end.
Fixpoint endoff (ds : list dinst) (off : Z) : Z := match ds with [] => off | d :: r => endoff r (off + isz d) end.
Fixpoint tot (ds : list dinst) (total : Z) : Z := match ds with [] => total | d :: r => tot r (total + grow d) end.
Fixpoint ends_of (ds : list dinst) (total : Z) : list (Z * Z) :=
  match ds with
  | [] => []
  | d :: r => if jump_class (d_op d) then (d_off d + isz d, total + grow d) :: ends_of r (total + grow d) else ends_of r total
  end.
Fixpoint newoffs (ds : list dinst) (total : Z) : list Z :=
  match ds with [] => [] | d :: r => (d_off d + total) :: newoffs r (total + grow d) end.

Definition F (t : Z) (ends : list (Z * Z)) (g : Z) : Z := fold_left (fun g eg => if fst eg <=? t then snd eg else g) ends g.
Lemma relocate_F ends t : relocate ends t = t + F t ends 0. Proof. reflexivity. Qed.

Lemma grow_nonneg d : 0 <= grow d.
Proof. unfold grow, opn. destruct (jump_class (d_op d)); [|lia]. destruct (widths_of opcodes_v1 (d_op d)); lia. Qed.

Lemma F_skip t ends : forall g, (forall e, In e ends -> t < fst e) -> F t ends g = g.
Proof.
  induction ends as [|e r IH]; intros g H; [reflexivity|]. unfold F in *. cbn [fold_left].
  assert (He: t < fst e) by (apply H; left; reflexivity). destruct (Z.leb_spec (fst e) t); [lia|]. apply IH. intros e' Hin. apply H. right. exact Hin.
Qed.
Lemma F_in t ends : forall g, F t ends g = g \/ exists e, In e ends /\ F t ends g = snd e.
Proof.
  induction ends as [|e r IH]; intros g; [left; reflexivity|]. unfold F in *. cbn [fold_left].
  destruct (Z.leb_spec (fst e) t).
  - destruct (IH (snd e)) as [H1|[e' [Hin H1]]]; right; [exists e | exists e']; split; auto; [left; reflexivity | right; exact Hin].
  - destruct (IH g) as [H1|[e' [Hin H1]]]; [left; exact H1 | right; exists e'; split; [right; exact Hin | exact H1]].
Qed.
Lemma F_ge t ends g : (forall e, In e ends -> g <= snd e) -> g <= F t ends g.
Proof. intro H. destruct (F_in t ends g) as [E|[e [Hin E]]]; rewrite E; [lia | apply H; exact Hin]. Qed.

Lemma ends_of_fst ds : forall off total e, chain ds off -> In e (ends_of ds total) -> off < fst e.
Proof.
  induction ds as [|d r IH]; intros off total e Hc Hin; [contradiction|].
  cbn [chain] in Hc. destruct Hc as [Ho [Hw Hc]]. cbn [ends_of] in Hin. unfold isz in *.
  destruct (jump_class (d_op d)).
  - destruct Hin as [<-|Hin]; [cbn [fst]; lia|]. specialize (IH _ _ _ Hc Hin). lia.
  - specialize (IH _ _ _ Hc Hin). lia.
Qed.
Lemma ends_of_snd ds : forall total e, In e (ends_of ds total) -> total <= snd e.
Proof.
  induction ds as [|d r IH]; intros total e Hin; [contradiction|]. cbn [ends_of] in Hin. pose proof (grow_nonneg d).
  destruct (jump_class (d_op d)).
  - destruct Hin as [<-|Hin]; [cbn [snd]; lia|]. specialize (IH _ _ Hin). lia.
  - apply IH. exact Hin.
Qed.

Lemma index_of_ge offs : forall t i j lo, (forall o, In o offs -> lo <= o) -> index_of offs t i = Some j -> lo <= t.
Proof.
  induction offs as [|o r IH]; intros t i j lo H Hi; [discriminate|]. cbn [index_of] in Hi.
  destruct (Z.eqb_spec o t); [subst; apply H; left; reflexivity|]. eapply IH; [|exact Hi]. intros o' Hin. apply H. right. exact Hin.
Qed.

Lemma offs_ge ds : forall off o, chain ds off -> In o (map d_off ds ++ [endoff ds off]) -> off <= o.
Proof.
  induction ds as [|d r IH]; intros off o Hc Hin.
  - cbn in Hin. destruct Hin as [<-|[]]. lia.
  - cbn [chain] in Hc. destruct Hc as [Ho [Hw Hc]]. cbn [map app endoff] in Hin. unfold isz in *.
    destruct Hin as [<-|Hin]; [lia|]. specialize (IH _ _ Hc Hin). lia.
Qed.

(* the index of a target among the old offsets is the index of the relocated target among the new ones *)
Lemma reloc_index ds : forall off total t i j, chain ds off ->
  index_of (map d_off ds ++ [endoff ds off]) t i = Some j ->
  index_of (newoffs ds total ++ [endoff ds off + tot ds total]) (t + F t (ends_of ds total) total) i = Some j.
Proof.
  induction ds as [|d r IH]; intros off total t i j Hc Hi.
  - cbn in *. destruct (Z.eqb_spec off t); [|discriminate]. subst. unfold F. cbn. rewrite Z.eqb_refl. exact Hi.
  - pose proof Hc as Hc0. cbn [chain] in Hc. destruct Hc as [Ho [Hw Hc]]. cbn [map app endoff index_of] in Hi.
    cbn [newoffs app endoff tot index_of].
    destruct (Z.eqb_spec (d_off d) t) as [E|E].
    + rewrite F_skip by (intros e Hin; pose proof (ends_of_fst _ _ _ _ Hc0 Hin); lia).
      subst t. rewrite Z.eqb_refl. exact Hi.
    + assert (Hge: off + isz d <= t).
      { eapply index_of_ge; [|exact Hi]. intros o Hin. eapply offs_ge; eassumption. }
      assert (Hg: total + grow d <= F t (ends_of r (total + grow d)) (total + grow d)) by (apply F_ge; intros e Hin; eapply ends_of_snd; exact Hin).
      pose proof (grow_nonneg d) as Hgn. assert (Hisz: isz d = 1 + opw (d_op d)) by reflexivity.
      cbn [ends_of]. destruct (jump_class (d_op d)) eqn:Ej.
      * unfold F. cbn [fold_left fst snd]. destruct (Z.leb_spec (d_off d + isz d) t); [|lia].
        fold (F t (ends_of r (total + grow d)) (total + grow d)).
        destruct (Z.eqb_spec (d_off d + total) (t + F t (ends_of r (total + grow d)) (total + grow d))); [lia|].
        apply (IH _ _ _ _ _ Hc Hi).
      * assert (Hg0: grow d = 0) by (unfold grow; rewrite Ej; reflexivity). rewrite Hg0, Z.add_0_r in *.
        destruct (Z.eqb_spec (d_off d + total) (t + F t (ends_of r total) total)); [lia|].
        apply (IH _ _ _ _ _ Hc Hi).
Qed.

(* ---- reading operands *)
Lemma read_operands_len ws : forall l args, Forall (fun w => 0 <= w) ws -> read_operands ws l = Some args ->
  sumz ws <= Z.of_nat (List.length l) /\ List.length args = List.length ws.
Proof.
  induction ws as [|w ws IH]; intros l args Hn H.
  - cbn in H. inversion H; subst. cbn. split; [lia | reflexivity].
  - inversion Hn as [|? ? Hw Hws]; subst. cbn [read_operands] in H.
    destruct (Nat.ltb_spec (List.length (firstn (Z.to_nat w) l)) (Z.to_nat w)) as [Hl|Hl]; [discriminate|].
    destruct (read_operands ws (skipn (Z.to_nat w) l)) as [rest|] eqn:Er; [|discriminate]. inversion H; subst.
    destruct (IH _ _ Hws Er) as [H1 H2]. rewrite skipn_length in H1. rewrite firstn_length in Hl.
    cbn [sumz fold_right List.length]. fold (sumz ws). split; [lia | rewrite H2; reflexivity].
Qed.

Lemma read_prefix ws : forall l args r, Forall (fun w => 0 <= w) ws -> read_operands ws l = Some args ->
  read_operands ws (firstn (Z.to_nat (sumz ws)) l ++ r) = Some args.
Proof.
  induction ws as [|w ws IH]; intros l args r Hn H; [exact H|].
  inversion Hn as [|? ? Hw Hws]; subst. pose proof (read_operands_len _ _ _ Hn H) as [Hlen _].
  cbn [read_operands] in *.
  destruct (Nat.ltb_spec (List.length (firstn (Z.to_nat w) l)) (Z.to_nat w)) as [Hl|Hl]; [discriminate|].
  destruct (read_operands ws (skipn (Z.to_nat w) l)) as [rest|] eqn:Er; [|discriminate]. inversion H; subst.
  cbn [sumz fold_right] in *. fold (sumz ws) in *. pose proof (sumz_nonneg ws Hws) as Hs.
  set (n := Z.to_nat w) in *. set (s := Z.to_nat (sumz ws)).
  replace (Z.to_nat (w + sumz ws)) with (n + s)%nat by (unfold n, s; lia).
  assert (Hll: (n + s <= List.length l)%nat) by (unfold n, s; lia).
  assert (E1: firstn n (firstn (n + s) l ++ r) = firstn n l).
  { rewrite firstn_app. rewrite firstn_firstn. replace (Nat.min n (n + s)) with n by lia.
    rewrite firstn_length. replace (n - Nat.min (n + s) (List.length l))%nat with 0%nat by lia. cbn [firstn]. apply app_nil_r. }
  assert (E2: skipn n (firstn (n + s) l ++ r) = firstn s (skipn n l) ++ r).
  { rewrite skipn_app. rewrite firstn_length. replace (n - Nat.min (n + s) (List.length l))%nat with 0%nat by lia. cbn [skipn].
    rewrite skipn_firstn_comm. replace (n + s - n)%nat with s by lia. reflexivity. }
  rewrite E1, E2. destruct (Nat.ltb_spec (List.length (firstn n l)) n); [lia|].
  pose proof (IH _ _ r Hws Er) as IH2. fold s in IH2. rewrite IH2. reflexivity.
Qed.

(* ---- the converted instruction list and source map, as functions of the decoded list *)
Definition d_args (d : dinst) : list Z := snd d.
Fixpoint conv_ds (ends : list (Z * Z)) (ds : list dinst) (newlen : Z) : list dinst :=
  match ds with
  | [] => []
  | d :: r => (newlen, d_op d, if jump_class (d_op d) then map (relocate ends) (d_args d) else d_args d)
              :: conv_ds ends r (newlen + isz d + grow d)
  end.
Fixpoint smap (srcmap : list (Z * Z)) (ds : list dinst) (newlen : Z) : list (Z * Z) :=
  match ds with
  | [] => []
  | d :: r => match lookup_z (d_off d) srcmap with Some p => [(newlen, p)] | None => [] end ++ smap srcmap r (newlen + isz d + grow d)
  end.
Definition jumps_ok (ends : list (Z * Z)) (ds : list dinst) : Prop :=
  forall d t, In d ds -> jump_class (d_op d) = true -> In t (d_args d) -> 0 <= relocate ends t <= 2147483647.

Lemma skipn_firstn_app {A} (l r : list A) n : (n <= List.length l)%nat -> skipn n (firstn n l ++ r) = r.
Proof. intro H. apply skipn_app_len. rewrite firstn_length. lia. Qed.

(* ---- decoding, step by step *)
Lemma decode_step f tbl op tl off ds : decode_all (S f) tbl (op :: tl) off = Some ds ->
  exists ws args r, widths_of tbl op = Some ws /\ read_operands ws tl = Some args /\
    decode_all f tbl (skipn (Z.to_nat (sumz ws)) tl) (off + 1 + sumz ws) = Some r /\ ds = (off, op, args) :: r.
Proof.
  cbn [decode_all]. destruct (widths_of tbl op) as [ws|]; [|discriminate].
  destruct (read_operands ws tl) as [args|] eqn:Er; [|discriminate].
  destruct (decode_all f tbl (skipn (Z.to_nat (sumz ws)) tl) (off + 1 + sumz ws)) as [r|] eqn:Ed; [|discriminate].
  intro H. inversion H. exists ws, args, r. split; [reflexivity|]. split; [exact Er|]. split; [exact Ed | reflexivity].
Qed.

Lemma dec_struct f : forall rest off ds, decode_all f opcodes_v1 rest off = Some ds ->
  chain ds off /\ endoff ds off = off + Z.of_nat (List.length rest) /\ (List.length ds < f)%nat.
Proof.
  induction f as [|f IH]; intros rest off ds H; [discriminate|].
  destruct rest as [|op tl]; [inversion H; cbn; repeat split; lia|].
  destruct (decode_step _ _ _ _ _ _ H) as [ws [args [r [Hw [Hr [Hd ->]]]]]].
  destruct (tbl_rel _ _ Hw) as [Hn _]. destruct (read_operands_len _ _ _ Hn Hr) as [Hlen _].
  destruct (IH _ _ _ Hd) as [Hc [He Hl]]. pose proof (sumz_nonneg _ Hn) as Hs.
  assert (Hopw: opw op = sumz ws) by (unfold opw; rewrite Hw; reflexivity).
  cbn [chain endoff List.length]. unfold isz, d_off, d_op. cbn [fst snd]. rewrite Hopw.
  replace (off + (1 + sumz ws)) with (off + 1 + sumz ws) by lia.
  repeat split; try lia; [exact Hc|]. rewrite He, skipn_length. cbn [List.length]. lia.
Qed.

Lemma pass1_spec f : forall rest off ds, decode_all f opcodes_v1 rest off = Some ds ->
  forall f1 acc total, (List.length ds < f1)%nat -> pass1 f1 rest off acc total = Ok (rev acc ++ ends_of ds total).
Proof.
  induction f as [|f IH]; intros rest off ds H f1 acc total Hf1; [discriminate|].
  destruct f1 as [|f1]; [lia|].
  destruct rest as [|op tl]; [inversion H; cbn; rewrite app_nil_r; reflexivity|].
  destruct (decode_step _ _ _ _ _ _ H) as [ws [args [r [Hw [Hr [Hd ->]]]]]].
  destruct (tbl_rel _ _ Hw) as [Hn _]. destruct (read_operands_len _ _ _ Hn Hr) as [Hlen _].
  cbn [pass1]. rewrite Hw. destruct (Z.ltb_spec (Z.of_nat (List.length tl)) (sumz ws)); [lia|].
  assert (Hisz: isz (off, op, args) = 1 + sumz ws) by (unfold isz, opw, d_op; cbn [fst snd]; rewrite Hw; reflexivity).
  assert (Hgrow: grow (off, op, args) = if jump_class op then 2 * Z.of_nat (List.length ws) else 0)
    by (unfold grow, opn, d_op; cbn [fst snd]; rewrite Hw; reflexivity).
  cbn [ends_of List.length] in *. rewrite Hisz, Hgrow. unfold d_op, d_off. cbn [fst snd].
  destruct (jump_class op).
  - rewrite (IH _ _ _ Hd) by lia. cbn [rev]. rewrite <- app_assoc. cbn [app].
    replace (off + (1 + sumz ws)) with (off + 1 + sumz ws) by lia. reflexivity.
  - apply (IH _ _ _ Hd). lia.
Qed.

Lemma tot_shift ds : forall g, tot ds g = g + tot ds 0.
Proof. induction ds as [|d r IH]; intro g; cbn [tot]; [lia|]. rewrite (IH (g + grow d)), (IH (0 + grow d)). lia. Qed.

Lemma pass2_spec f : forall rest off ds, decode_all f opcodes_v1 rest off = Some ds ->
  forall ends srcmap newlen f2 f3, (List.length ds < f2)%nat -> (List.length ds < f3)%nat -> jumps_ok ends ds ->
  exists out, pass2 f2 ends srcmap rest off newlen = Ok (out, smap srcmap ds newlen) /\
    Z.of_nat (List.length out) = Z.of_nat (List.length rest) + tot ds 0 /\
    decode_all f3 opcodes_v2 out newlen = Some (conv_ds ends ds newlen).
Proof.
  induction f as [|f IH]; intros rest off ds H ends srcmap newlen f2 f3 Hf2 Hf3 Hj; [discriminate|].
  destruct f2 as [|f2]; [lia|]. destruct f3 as [|f3]; [lia|].
  destruct rest as [|op tl]; [inversion H; exists []; cbn; repeat split; reflexivity|].
  destruct (decode_step _ _ _ _ _ _ H) as [ws [args [r [Hw [Hr [Hd ->]]]]]].
  destruct (tbl_rel _ _ Hw) as [Hn Ht]. destruct (read_operands_len _ _ _ Hn Hr) as [Hlen Hal].
  pose proof (sumz_nonneg _ Hn) as Hs.
  set (d := (off, op, args)) in *.
  assert (Hisz: isz d = 1 + sumz ws) by (unfold isz, opw, d_op, d; cbn [fst snd]; rewrite Hw; reflexivity).
  assert (Hgrow: grow d = if jump_class op then 2 * Z.of_nat (List.length ws) else 0)
    by (unfold grow, opn, d_op, d; cbn [fst snd]; rewrite Hw; reflexivity).
  assert (Hjr: jumps_ok ends r) by (intros d' t Hin; apply Hj; right; exact Hin).
  cbn [List.length] in Hf2, Hf3.
  cbn [pass2 smap conv_ds tot]. rewrite Hw. unfold d_off, d_op, d_args. cbn [fst snd d].
  fold d. rewrite Hisz, Hgrow. rewrite (tot_shift r (0 + _)).
  destruct (jump_class op) eqn:Ej.
  - (* a jump-class instruction: re-encoded with relocated operands *)
    destruct Ht as [Hw2s [Hw2 Hne]]. rewrite Hr.
    assert (Hmk: exists inst, make_instruction opcodes_v2 op (map (relocate ends) args) = Ok inst).
    { unfold make_instruction. rewrite Hw2. rewrite !map_length, Hal, Nat.eqb_refl. cbn [negb].
      destruct (existsb _ _) eqn:Ex; [|eexists; reflexivity].
      apply existsb_exists in Ex. destruct Ex as [[w a] [Hin Hbad]]. cbn [fst snd] in Hbad.
      pose proof (in_combine_l _ _ _ _ Hin) as Hwin. pose proof (in_combine_r _ _ _ _ Hin) as Hain.
      apply in_map_iff in Hwin. destruct Hwin as [? [<- _]]. apply in_map_iff in Hain. destruct Hain as [t [<- Htin]].
      assert (Hrange: 0 <= relocate ends t <= 2147483647) by (apply (Hj d t); [left; reflexivity | unfold d_op, d; cbn; exact Ej | exact Htin]).
      unfold max_operand in Hbad. cbn in Hbad. apply orb_true_iff in Hbad. destruct Hbad as [Hb|Hb]; [apply Z.ltb_lt in Hb | apply Z.ltb_lt in Hb]; lia. }
    destruct Hmk as [inst Hmk]. rewrite Hmk.
    destruct (make_instruction_roundtrip op _ inst [] Hmk) as [ws2 [body [Hw2' [Hinst [_ Hbl]]]]].
    rewrite Hw2 in Hw2'. inversion Hw2'; subst ws2. rewrite sumz_const in Hbl.
    assert (Hws2: sumz ws = 2 * Z.of_nat (List.length ws)) by (rewrite Hw2s at 1; rewrite sumz_const; reflexivity).
    assert (Hil: Z.of_nat (List.length inst) = 1 + sumz ws + 2 * Z.of_nat (List.length ws)) by (rewrite Hinst; cbn [List.length]; lia).
    destruct (IH _ _ _ Hd ends srcmap (newlen + Z.of_nat (List.length inst)) f2 f3 ltac:(lia) ltac:(lia) Hjr) as [is [Hp2 [Hlo Hdec]]].
    rewrite Hp2. exists (inst ++ is). split; [|split].
    + rewrite Hil. replace (newlen + (1 + sumz ws) + 2 * Z.of_nat (List.length ws)) with (newlen + (1 + sumz ws + 2 * Z.of_nat (List.length ws))) by lia. reflexivity.
    + rewrite app_length, Nat2Z.inj_add, Hlo, Hil, skipn_length. cbn [List.length]. lia.
    + rewrite Hinst. cbn [app decode_all]. rewrite Hw2.
      destruct (make_instruction_roundtrip op _ inst is Hmk) as [ws2 [body2 [Hw2'' [Hinst2 [Hread _]]]]].
      rewrite Hinst in Hinst2. inversion Hinst2; subst body2. rewrite Hw2 in Hw2''. inversion Hw2''; subst ws2.
      rewrite Hread. rewrite sumz_const.
      rewrite skipn_app_len by lia.
      replace (newlen + 1 + 4 * Z.of_nat (List.length ws)) with (newlen + Z.of_nat (List.length inst)) by lia.
      rewrite Hdec. rewrite Hil.
      replace (newlen + (1 + sumz ws) + 2 * Z.of_nat (List.length ws)) with (newlen + (1 + sumz ws + 2 * Z.of_nat (List.length ws))) by lia. reflexivity.
  - (* any other instruction: copied *)
    destruct (IH _ _ _ Hd ends srcmap (newlen + 1 + sumz ws) f2 f3 ltac:(lia) ltac:(lia) Hjr) as [is [Hp2 [Hlo Hdec]]].
    rewrite Hp2. exists (op :: firstn (Z.to_nat (sumz ws)) tl ++ is). split; [|split].
    + rewrite Z.add_0_r. replace (newlen + (1 + sumz ws)) with (newlen + 1 + sumz ws) by lia. reflexivity.
    + cbn [List.length]. rewrite app_length, firstn_length, Nat2Z.inj_succ, Nat2Z.inj_add, Hlo, skipn_length. lia.
    + cbn [decode_all]. rewrite Ht. rewrite (read_prefix ws tl args is Hn Hr).
      rewrite skipn_firstn_app by lia. rewrite Hdec. rewrite Z.add_0_r.
      replace (newlen + (1 + sumz ws)) with (newlen + 1 + sumz ws) by lia. reflexivity.
Qed.

(* ---- programs without jump-class instructions are left alone *)
Lemma ends_nil ds : forall total, ends_of ds total = [] -> Forall (fun d => jump_class (d_op d) = false) ds.
Proof.
  induction ds as [|d r IH]; intros total H; [constructor|]. cbn [ends_of] in H.
  destruct (jump_class (d_op d)) eqn:E; [discriminate|]. constructor; [exact E | eapply IH; exact H].
Qed.

Lemma decode_nojump f : forall rest off ds, decode_all f opcodes_v1 rest off = Some ds ->
  Forall (fun d => jump_class (d_op d) = false) ds -> decode_all f opcodes_v2 rest off = Some ds.
Proof.
  induction f as [|f IH]; intros rest off ds H Hnj; [discriminate|].
  destruct rest as [|op tl]; [exact H|].
  destruct (decode_step _ _ _ _ _ _ H) as [ws [args [r [Hw [Hr [Hd ->]]]]]].
  inversion Hnj as [|? ? Hj Hnj']; subst. unfold d_op in Hj. cbn [fst snd] in Hj.
  destruct (tbl_rel _ _ Hw) as [_ Ht]. rewrite Hj in Ht.
  cbn [decode_all]. rewrite Ht, Hr, (IH _ _ _ Hd Hnj'). reflexivity.
Qed.

(* ---- bounds on relocated targets *)
Lemma ends_of_bound ds : forall off total e, chain ds off ->
  (forall d, In d ds -> jump_class (d_op d) = true -> grow d <= isz d) ->
  In e (ends_of ds total) -> snd e - total <= fst e - off.
Proof.
  induction ds as [|d r IH]; intros off total e Hc Hg Hin; [contradiction|].
  cbn [chain] in Hc. destruct Hc as [Ho [Hw Hc]]. cbn [ends_of] in Hin.
  assert (Hgr: forall d', In d' r -> jump_class (d_op d') = true -> grow d' <= isz d') by (intros; apply Hg; [right|]; assumption).
  pose proof (grow_nonneg d) as Hgn. assert (Hisz: 1 <= isz d) by (unfold isz; lia).
  destruct (jump_class (d_op d)) eqn:Ej.
  - assert (Hgd: grow d <= isz d) by (apply Hg; [left; reflexivity | exact Ej]).
    destruct Hin as [<-|Hin]; [cbn [fst snd]; lia|]. specialize (IH _ _ _ Hc Hgr Hin). lia.
  - specialize (IH _ _ _ Hc Hgr Hin). lia.
Qed.

Lemma F_le ds off t : chain ds off -> (forall d, In d ds -> jump_class (d_op d) = true -> grow d <= isz d) ->
  off <= t -> F t (ends_of ds 0) 0 <= t - off.
Proof.
  intros Hc Hg Ht. destruct (F_in t (ends_of ds 0) 0) as [E|[e [Hin E]]]; rewrite E; [lia|].
  pose proof (ends_of_bound _ _ _ _ Hc Hg Hin) as Hb.
  (* the entry chosen by the fold ends at or before t *)
  assert (Hle: forall ends g, F t ends g = g \/ exists e', In e' ends /\ F t ends g = snd e' /\ fst e' <= t).
  { induction ends as [|e0 r IH]; intro g; [left; reflexivity|]. unfold F in *. cbn [fold_left].
    destruct (Z.leb_spec (fst e0) t).
    - destruct (IH (snd e0)) as [H1|[e' [Hi [H1 H2]]]]; right; [exists e0 | exists e']; repeat split; auto; [left; reflexivity | right; exact Hi].
    - destruct (IH g) as [H1|[e' [Hi [H1 H2]]]]; [left; exact H1 | right; exists e'; repeat split; auto; right; exact Hi]. }
  destruct (Hle (ends_of ds 0) 0) as [E0|[e' [Hin' [E' Hfe]]]].
  - rewrite <- E, E0. lia.
  - pose proof (ends_of_bound _ _ _ _ Hc Hg Hin') as Hb'. rewrite <- E, E'. lia.
Qed.

Definition bytes_ok (l : list Z) : Prop := Forall (fun b => 0 <= b < 256) l.

Lemma Forall_skipn {A} (P : A -> Prop) n : forall l, Forall P l -> Forall P (skipn n l).
Proof. induction n as [|n IH]; intros l H; [exact H|]. destruct l; [constructor|]. inversion H; subst. cbn [skipn]. apply IH. assumption. Qed.

Lemma all2 ws : ws = map (fun _ : Z => 2) ws -> Forall (fun w => w = 2) ws.
Proof. induction ws as [|w ws IH]; intro H; [constructor|]. cbn [map] in H. inversion H as [[H1 H2]]. constructor; [reflexivity|]. rewrite <- H2. apply IH. exact H2. Qed.

Lemma read2_bound ws : forall l args, bytes_ok l -> Forall (fun w => w = 2) ws -> read_operands ws l = Some args ->
  Forall (fun a => 0 <= a <= 65535) args.
Proof.
  induction ws as [|w ws IH]; intros l args Hb Hw H; [inversion H; constructor|].
  inversion Hw as [|? ? Hw2 Hws]; subst.
  cbn [read_operands] in H. change (Z.to_nat 2) with 2%nat in H.
  destruct (Nat.ltb_spec (List.length (firstn 2 l)) 2) as [Hl|Hl]; [discriminate|].
  destruct (read_operands ws (skipn 2 l)) as [rest|] eqn:Er; [|discriminate]. inversion H; subst args.
  constructor.
  - destruct l as [|b1 [|b2 l']]; cbn in Hl; try lia. inversion Hb as [|? ? H1 Hb']; subst. inversion Hb' as [|? ? H2 _]; subst.
    cbn. lia.
  - apply (IH (skipn 2 l) rest); [apply Forall_skipn; exact Hb | exact Hws | exact Er].
Qed.

Lemma dec_args f : forall rest off ds, decode_all f opcodes_v1 rest off = Some ds -> bytes_ok rest ->
  forall d, In d ds -> jump_class (d_op d) = true ->
  Forall (fun a => 0 <= a <= 65535) (d_args d) /\ grow d <= isz d.
Proof.
  induction f as [|f IH]; intros rest off ds H Hb d Hin Hj; [discriminate|].
  destruct rest as [|op tl]; [inversion H; subst; contradiction|].
  destruct (decode_step _ _ _ _ _ _ H) as [ws [args [r [Hw [Hr [Hd ->]]]]]].
  inversion Hb as [|? ? _ Hbt]; subst.
  destruct Hin as [<-|Hin].
  - unfold d_op, d_args in *. cbn [fst snd] in *. destruct (tbl_rel _ _ Hw) as [_ Ht]. rewrite Hj in Ht. destruct Ht as [H2 _].
    split; [apply (read2_bound ws tl); [exact Hbt | apply all2; exact H2 | exact Hr]|].
    unfold grow, isz, opw, opn, d_op. cbn [fst snd]. rewrite Hj, Hw. rewrite H2 at 2. rewrite sumz_const. lia.
  - apply (IH _ _ _ Hd (Forall_skipn _ _ _ Hbt) d Hin Hj).
Qed.

Lemma conv_offs ends ds : forall off total, chain ds off -> map d_off (conv_ds ends ds (off + total)) = newoffs ds total.
Proof.
  induction ds as [|d r IH]; intros off total Hc; [reflexivity|]. cbn [chain] in Hc. destruct Hc as [Ho [_ Hc]].
  cbn [conv_ds map newoffs]. unfold d_off at 1. cbn [fst]. rewrite Ho. f_equal.
  replace (off + total + isz d + grow d) with ((off + isz d) + (total + grow d)) by lia. apply IH. exact Hc.
Qed.

Definition absf (offs : list Z) (d : dinst) : option (Z * list Z) :=
  let '(off, op, args) := d in
  if jump_class op then
    match map_opt (fun t => index_of offs t 0) args with
    | Some idx => Some (op, idx)
    | None => None
    end
  else Some (op, args).

Lemma abs_conv ends offs1 offs2 : (forall t j, index_of offs1 t 0 = Some j -> index_of offs2 (relocate ends t) 0 = Some j) ->
  forall ds nl a, map_opt (absf offs1) ds = Some a -> map_opt (absf offs2) (conv_ds ends ds nl) = Some a.
Proof.
  intro Hrel. induction ds as [|d r IH]; intros nl a H; [exact H|].
  cbn [map_opt conv_ds] in *. destruct d as [[off op] args]. unfold d_op, d_args. cbn [fst snd].
  destruct (absf offs1 (off, op, args)) as [x|] eqn:E1; [|discriminate].
  destruct (map_opt (absf offs1) r) as [xs|] eqn:E2; [|discriminate]. inversion H; subst a.
  rewrite (IH _ _ eq_refl).
  assert (E3: absf offs2 (nl, op, if jump_class op then map (relocate ends) args else args) = Some x).
  { cbn [absf] in *. destruct (jump_class op); [|exact E1].
    destruct (map_opt (fun t => index_of offs1 t 0) args) as [idx|] eqn:E4; [|discriminate]. inversion E1; subst x.
    assert (E5: map_opt (fun t => index_of offs2 t 0) (map (relocate ends) args) = Some idx).
    { clear - E4 Hrel. revert idx E4. induction args as [|t ts IHa]; intros idx E4; [exact E4|].
      cbn [map map_opt] in *. destruct (index_of offs1 t 0) as [j|] eqn:Ej; [|discriminate].
      destruct (map_opt (fun t0 => index_of offs1 t0 0) ts) as [js|]; [|discriminate]. inversion E4; subst idx.
      rewrite (Hrel _ _ Ej), (IHa _ eq_refl). reflexivity. }
    rewrite E5. reflexivity. }
  rewrite E3. reflexivity.
Qed.

Lemma abstract_unfold tbl ins : abstract tbl ins =
  match decode_all (S (List.length ins)) tbl ins 0 with
  | None => None
  | Some ds => map_opt (absf (map d_off ds ++ [Z.of_nat (List.length ins)])) ds
  end.
Proof.
  unfold abstract. destruct (decode_all _ _ _ _) as [ds|]; [|reflexivity].
  induction ds as [|d r _]; [reflexivity|]. f_equal.
Qed.

(* ---- source map *)
Lemma lookup_none k m : (forall e, In e m -> fst e <> k) -> lookup_z k m = None.
Proof.
  induction m as [|[k' v] r IH]; intro H; [reflexivity|]. cbn [lookup_z].
  destruct (Z.eqb_spec k k'); [exfalso; apply (H (k', v)); [left; reflexivity | cbn; lia]|]. apply IH. intros e Hin. apply H. right. exact Hin.
Qed.
Lemma lookup_app_skip k m1 m2 : (forall e, In e m1 -> fst e <> k) -> lookup_z k (m1 ++ m2) = lookup_z k m2.
Proof.
  induction m1 as [|[k' v] r IH]; intro H; [reflexivity|]. cbn [app lookup_z].
  destruct (Z.eqb_spec k k'); [exfalso; apply (H (k', v)); [left; reflexivity | cbn; lia]|]. apply IH. intros e Hin. apply H. right. exact Hin.
Qed.

Lemma smap_keys sm ds : forall off nl e, chain ds off -> In e (smap sm ds nl) -> nl <= fst e.
Proof.
  induction ds as [|d r IH]; intros off nl e Hc Hin; [contradiction|]. cbn [chain] in Hc. destruct Hc as [_ [Hw Hc]].
  cbn [smap] in Hin. apply in_app_or in Hin. pose proof (grow_nonneg d). unfold isz in *. destruct Hin as [Hin|Hin].
  - destruct (lookup_z (d_off d) sm); [|contradiction]. destruct Hin as [<-|[]]. cbn. lia.
  - specialize (IH _ _ _ Hc Hin). lia.
Qed.

Definition smf (m : list (Z * Z)) (id : Z * dinst) : list (Z * Z) :=
  match lookup_z (d_off (snd id)) m with Some p => [(fst id, p)] | None => [] end.

Lemma smap_conv ends sm ds : forall off nl pre idx, chain ds off -> (forall e, In e pre -> fst e < nl) ->
  List.length idx = List.length ds ->
  flat_map (smf (pre ++ smap sm ds nl)) (combine idx (conv_ds ends ds nl)) = flat_map (smf sm) (combine idx ds).
Proof.
  induction ds as [|d r IH]; intros off nl pre idx Hc Hpre Hl; [destruct idx; reflexivity|].
  destruct idx as [|i idx]; [discriminate|]. pose proof Hc as Hc0. cbn [chain] in Hc. destruct Hc as [_ [Hw Hc]].
  cbn [conv_ds combine flat_map smap]. pose proof (grow_nonneg d) as Hg. assert (Hsz: 1 <= isz d) by (unfold isz; lia).
  f_equal.
  - unfold smf. cbn [fst snd]. unfold d_off at 1. cbn [fst].
    rewrite lookup_app_skip by (intros e Hin; specialize (Hpre e Hin); lia).
    destruct (lookup_z (d_off d) sm) as [p|].
    + cbn [app lookup_z]. rewrite Z.eqb_refl. reflexivity.
    + cbn [app]. rewrite lookup_none; [reflexivity|]. intros e Hin. pose proof (smap_keys _ _ _ _ _ Hc Hin). lia.
  - rewrite app_assoc. apply (IH (off + isz d)); [exact Hc | | cbn in Hl; lia].
    intros e Hin. apply in_app_or in Hin. destruct Hin as [Hin|Hin]; [specialize (Hpre e Hin); lia|].
    destruct (lookup_z (d_off d) sm); [|contradiction]. destruct Hin as [<-|[]]. cbn [fst]. lia.
Qed.

Lemma srcmap_unfold tbl ins sm : abstract_srcmap tbl ins sm =
  match decode_all (S (List.length ins)) tbl ins 0 with
  | None => None
  | Some ds => Some (flat_map (smf sm) (combine (map Z.of_nat (seq 0 (List.length ds))) ds))
  end.
Proof.
  unfold abstract_srcmap. destruct (decode_all _ _ _ _) as [ds|]; [|reflexivity]. f_equal.
  apply flat_map_ext. intros [i d]. reflexivity.
Qed.

Lemma conv_ds_length ends ds : forall nl, List.length (conv_ds ends ds nl) = List.length ds.
Proof. induction ds as [|d r IH]; intro nl; cbn [conv_ds List.length]; [reflexivity | rewrite IH; reflexivity]. Qed.

Lemma tot_nonneg ds : forall g, g <= tot ds g.
Proof. induction ds as [|d r IH]; intro g; cbn [tot]; [lia|]. pose proof (grow_nonneg d). specialize (IH (g + grow d)). lia. Qed.

(* ---- the theorem *)
Theorem conv_relocates ins sm a : bytes_ok ins -> abstract opcodes_v1 ins = Some a ->
  exists ins2 sm2, conv_comp_func ins sm = Ok (ins2, sm2) /\
    abstract opcodes_v2 ins2 = Some a /\
    abstract_srcmap opcodes_v2 ins2 sm2 = abstract_srcmap opcodes_v1 ins sm.
Proof.
  intros Hb Ha. rewrite abstract_unfold in Ha. rewrite srcmap_unfold.
  destruct (decode_all (S (List.length ins)) opcodes_v1 ins 0) as [ds|] eqn:Hd; [|discriminate].
  destruct (dec_struct _ _ _ _ Hd) as [Hc [He Hl]]. cbn [Z.add] in He.
  pose proof (pass1_spec _ _ _ _ Hd (S (List.length ins)) [] 0 Hl) as Hp1. cbn [rev app] in Hp1.
  unfold conv_comp_func. rewrite Hp1.
  destruct (ends_of ds 0) as [|e0 ends0] eqn:Eends.
  - (* no jump-class instruction: the function is returned as it is *)
    exists ins, sm. pose proof (decode_nojump _ _ _ _ Hd (ends_nil _ _ Eends)) as Hd2.
    split; [reflexivity|]. rewrite abstract_unfold, srcmap_unfold, Hd2. split; [exact Ha | reflexivity].
  - rewrite <- Eends. set (ends := ends_of ds 0) in *.
    assert (Hgi: forall d, In d ds -> jump_class (d_op d) = true -> grow d <= isz d) by (intros d Hin Hj; apply (dec_args _ _ _ _ Hd Hb d Hin Hj)).
    (* every jump operand is an instruction offset, and relocates into range *)
    set (offs1 := map d_off ds ++ [Z.of_nat (List.length ins)]) in *.
    assert (Hargs: forall d t, In d ds -> jump_class (d_op d) = true -> In t (d_args d) -> exists j, index_of offs1 t 0 = Some j).
    { clear - Ha. revert a Ha. generalize offs1. intro offs. induction ds as [|d r IH]; intros a Ha d0 t Hin Hj Ht; [contradiction|].
      cbn [map_opt] in Ha. destruct (absf offs d) as [x|] eqn:E1; [|discriminate].
      destruct (map_opt (absf offs) r) as [xs|] eqn:E2; [|discriminate].
      destruct Hin as [<-|Hin]; [|apply (IH _ eq_refl d0 t Hin Hj Ht)].
      destruct d as [[off op] args]. unfold d_op, d_args in *. cbn [fst snd absf] in *. rewrite Hj in E1.
      destruct (map_opt (fun t0 => index_of offs t0 0) args) as [idx|] eqn:E3; [|discriminate].
      clear - E3 Ht. revert idx E3. induction args as [|t0 ts IHa]; intros idx E3; [contradiction|].
      cbn [map_opt] in E3. destruct (index_of offs t0 0) as [j|] eqn:Ej; [|discriminate].
      destruct (map_opt (fun t1 => index_of offs t1 0) ts) as [js|]; [|discriminate].
      destruct Ht as [<-|Ht]; [exists j; exact Ej | apply (IHa Ht _ eq_refl)]. }
    assert (Hjok: jumps_ok ends ds).
    { intros d t Hin Hj Ht. destruct (Hargs d t Hin Hj Ht) as [j Hidx].
      destruct (dec_args _ _ _ _ Hd Hb d Hin Hj) as [Hbd _]. rewrite Forall_forall in Hbd. specialize (Hbd t Ht).
      assert (H0: 0 <= t).
      { eapply (index_of_ge offs1 t 0 j 0); [|exact Hidx]. intros o Ho. unfold offs1 in Ho. rewrite <- He in Ho. eapply offs_ge; eassumption. }
      rewrite relocate_F. pose proof (F_le ds 0 t Hc Hgi H0) as Hf.
      assert (Hf0: 0 <= F t ends 0) by (apply F_ge; intros e Hin'; unfold ends in Hin'; eapply ends_of_snd; exact Hin').
      unfold ends in *. lia. }
    assert (Hlen: (List.length ds <= List.length ins)%nat) by lia.
    destruct (pass2_spec _ _ _ _ Hd ends sm 0 (S (List.length ins)) (S (List.length ins + Z.to_nat (tot ds 0))) Hl ltac:(lia) Hjok) as [out [Hp2 [Hlo Hdec]]].
    exists out, (smap sm ds 0). split; [exact Hp2|].
    assert (Hlout: List.length out = (List.length ins + Z.to_nat (tot ds 0))%nat) by (pose proof (tot_nonneg ds 0); lia).
    rewrite abstract_unfold, srcmap_unfold, Hlout, Hdec. split.
    + apply (abs_conv ends offs1); [|exact Ha].
      intros t j Hidx. rewrite relocate_F.
      replace (conv_ds ends ds 0) with (conv_ds ends ds (0 + 0)) by reflexivity. rewrite (conv_offs ends ds 0 0 Hc).
      pose proof (reloc_index ds 0 0 t 0 j Hc) as R. rewrite He in R. fold offs1 in R. specialize (R Hidx).
      replace (Z.of_nat (List.length ins + Z.to_nat (tot ds 0))) with (Z.of_nat (List.length ins) + tot ds 0) by (pose proof (tot_nonneg ds 0); lia).
      exact R.
    + f_equal. rewrite conv_ds_length.
      apply (smap_conv ends sm ds 0 0 [] (map Z.of_nat (seq 0 (List.length ds))) Hc); [intros e []|].
      rewrite map_length, seq_length. reflexivity.
Qed.
