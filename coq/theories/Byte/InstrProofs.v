(* MakeInstruction / ReadOperands: totality on table opcodes and round trip (C05, C11). *)
From Coq Require Import List ZArith Bool String Lia.
From Ugo Require Import Base.Res Gen.OpTable Byte.Instr.
Import ListNotations.
Local Open Scope Z_scope.

Lemma be_bytes_nat_length w v : List.length (be_bytes_nat w v) = w.
Proof. induction w; simpl; congruence. Qed.

Lemma be_value_aux l acc : fold_left (fun a b => a * 256 + b) l acc = acc * 256 ^ Z.of_nat (List.length l) + be_value l.
Proof.
  unfold be_value. revert acc. induction l as [|x xs IH]; intros acc.
  - simpl. lia.
  - cbn [fold_left List.length]. rewrite IH. rewrite (IH (0 * 256 + x)).
    rewrite Nat2Z.inj_succ, Z.pow_succ_r by lia. ring.
Qed.

Lemma be_value_cons x xs : be_value (x :: xs) = x * 256 ^ Z.of_nat (List.length xs) + be_value xs.
Proof. unfold be_value at 1. cbn [fold_left]. rewrite be_value_aux. lia. Qed.

Lemma be_value_be_bytes w v : 0 <= v < 256 ^ Z.of_nat w -> be_value (be_bytes_nat w v) = v.
Proof.
  revert v. induction w as [|w IH]; intros v Hv.
  - simpl in *. unfold be_value. simpl. lia.
  - cbn [be_bytes_nat]. rewrite be_value_cons, be_bytes_nat_length.
    rewrite Nat2Z.inj_succ, Z.pow_succ_r in Hv by lia.
    assert (Hp: 0 < 256 ^ Z.of_nat w) by (apply Z.pow_pos_nonneg; lia).
    assert (Hq: 0 <= v / 256 ^ Z.of_nat w < 256).
    { split; [apply Z.div_pos; lia | apply Z.div_lt_upper_bound; lia]. }
    rewrite (Z.mod_small (v / 256 ^ Z.of_nat w)) by lia.
    (* the remaining bytes encode v mod 256^w *)
    assert (Hrec: be_bytes_nat w v = be_bytes_nat w (v mod 256 ^ Z.of_nat w)).
    { clear IH Hq.
      (* bytes of index below w do not see the digits above *)
      assert (G: forall k, (k <= w)%nat -> be_bytes_nat k v = be_bytes_nat k (v mod 256 ^ Z.of_nat w)).
      { induction k as [|k IHk]; intros Hk; [reflexivity|].
        cbn [be_bytes_nat]. rewrite IHk by lia. f_equal.
        assert (E: Z.of_nat w = Z.of_nat k + (Z.of_nat w - Z.of_nat k)) by lia.
        assert (0 < 256 ^ Z.of_nat k) by (apply Z.pow_pos_nonneg; lia).
        assert (Hw: 256 ^ Z.of_nat w = 256 ^ Z.of_nat k * 256 ^ (Z.of_nat w - Z.of_nat k)).
        { rewrite <- Z.pow_add_r by lia. f_equal. lia. }
        rewrite Hw. rewrite Z.rem_mul_r by (try lia; apply Z.pow_nonzero; lia).
        rewrite Z.mul_comm, Z.div_add by lia.
        rewrite (Z.div_small (v mod 256 ^ Z.of_nat k)) by (apply Z.mod_pos_bound; lia).
        rewrite Z.add_0_l.
        replace (Z.of_nat w - Z.of_nat k) with (1 + (Z.of_nat w - Z.of_nat k - 1)) by lia.
        rewrite Z.pow_add_r by lia. change (256 ^ 1) with 256.
        rewrite Z.rem_mul_r by (try lia; apply Z.pow_nonzero; lia).
        rewrite Z.mul_comm, Z.mod_add by lia. rewrite Z.mod_mod by lia. reflexivity. }
      apply G. lia. }
    rewrite Hrec, IH by (apply Z.mod_pos_bound; lia).
    rewrite (Z.div_mod v (256 ^ Z.of_nat w)) at 3 by lia. ring.
Qed.

Lemma firstn_app_len {A} (l r : list A) n : n = List.length l -> firstn n (l ++ r) = l.
Proof. intros ->. rewrite firstn_app, Nat.sub_diag, firstn_all. simpl. apply app_nil_r. Qed.
Lemma skipn_app_len {A} (l r : list A) n : n = List.length l -> skipn n (l ++ r) = r.
Proof. intros ->. rewrite skipn_app, Nat.sub_diag, skipn_all. reflexivity. Qed.

(* reading back the operands written by MakeInstruction, whatever follows *)
Lemma read_operands_encoded ws args rest :
  List.length ws = List.length args ->
  forallb (fun wa => (0 <=? fst wa) && (0 <=? snd wa) && (snd wa <? 256 ^ fst wa)) (combine ws args) = true ->
  read_operands ws (flat_map (fun wa => be_bytes (fst wa) (snd wa)) (combine ws args) ++ rest) = Some args.
Proof.
  revert args. induction ws as [|w ws IH]; intros [|a args] Hl Hr; try discriminate; [reflexivity|].
  cbn [combine flat_map forallb] in *. apply andb_true_iff in Hr as [Ha Hr].
  apply andb_true_iff in Ha as [Ha Ha3]. apply andb_true_iff in Ha as [Ha1 Ha2]. simpl in Ha1, Ha2, Ha3.
  apply Z.leb_le in Ha1, Ha2. apply Z.ltb_lt in Ha3.
  cbn [read_operands fst snd]. unfold be_bytes. rewrite <- app_assoc.
  pose proof (be_bytes_nat_length (Z.to_nat w) a) as Hlen.
  rewrite skipn_app_len by (symmetry; exact Hlen). rewrite firstn_app_len by (symmetry; exact Hlen).
  destruct (Nat.ltb_spec (List.length (be_bytes_nat (Z.to_nat w) a)) (Z.to_nat w)) as [H|H]; [lia|].
  change (flat_map (fun wa : Z * Z => be_bytes_nat (Z.to_nat (fst wa)) (snd wa)) (combine ws args))
    with (flat_map (fun wa : Z * Z => be_bytes (fst wa) (snd wa)) (combine ws args)).
  rewrite IH by (try exact Hr; simpl in Hl; lia).
  rewrite be_value_be_bytes by (rewrite Z2Nat.id by lia; lia). reflexivity.
Qed.

Lemma max_operand_lt w a : (w = 1 \/ w = 2 \/ w = 4) -> a <= max_operand w -> a < 256 ^ w.
Proof. intros [-> | [-> | ->]]; unfold max_operand; simpl; lia. Qed.

(* operand widths of the regenerated table are 1, 2 or 4 *)
Definition widths_ok : bool :=
  forallb (fun e => forallb (fun w => (w =? 1) || (w =? 2) || (w =? 4)) (snd e)) opcodes_v2.
Lemma widths_ok_true : widths_ok = true.
Proof. vm_compute. reflexivity. Qed.

Lemma widths_of_ok op ws : widths_of opcodes_v2 op = Some ws -> Forall (fun w => w = 1 \/ w = 2 \/ w = 4) ws.
Proof.
  unfold widths_of. destruct (op <? 0); [discriminate|]. intros H.
  apply nth_error_In in H. apply in_map_iff in H as [[n ws'] [E Hin]]. simpl in E. subst ws'.
  pose proof widths_ok_true as Hw. unfold widths_ok in Hw. rewrite forallb_forall in Hw.
  specialize (Hw _ Hin). simpl in Hw. rewrite forallb_forall in Hw.
  apply Forall_forall. intros w Hwin. specialize (Hw _ Hwin).
  apply orb_true_iff in Hw as [Hw|Hw]; [apply orb_true_iff in Hw as [Hw|Hw]|]; apply Z.eqb_eq in Hw; auto.
Qed.

(* MakeInstruction never panics on an opcode of the table; an out-of-range operand is an error;
   an accepted instruction reads back to the same operands *)
Theorem make_instruction_total op args :
  0 <= op < Z.of_nat (List.length opcodes_v2) -> is_panic (make_instruction opcodes_v2 op args) = false.
Proof.
  intros Hop. unfold make_instruction, widths_of.
  destruct (Z.ltb_spec op 0); [lia|].
  destruct (nth_error (map snd opcodes_v2) (Z.to_nat op)) as [ws|] eqn:E.
  - destruct (negb _); [reflexivity|]. destruct (existsb _ _); reflexivity.
  - apply nth_error_None in E. rewrite map_length in E. lia.
Qed.

Theorem make_instruction_roundtrip op args bytes rest :
  make_instruction opcodes_v2 op args = Ok bytes ->
  exists ws body, widths_of opcodes_v2 op = Some ws /\ bytes = op :: body /\
                  read_operands ws (body ++ rest) = Some args /\
                  Z.of_nat (List.length body) = sumz ws.
Proof.
  unfold make_instruction. destruct (widths_of opcodes_v2 op) as [ws|] eqn:Ew; [|discriminate].
  destruct (Nat.eqb (List.length ws) (List.length args)) eqn:El; [|discriminate]. cbn [negb].
  destruct (existsb _ _) eqn:Ex; [discriminate|]. intros H. inversion H; subst. clear H.
  apply Nat.eqb_eq in El. pose proof (widths_of_ok _ _ Ew) as Hws.
  exists ws, (flat_map (fun wa => be_bytes (fst wa) (snd wa)) (combine ws args)). repeat split.
  - apply read_operands_encoded; [exact El|].
    apply forallb_forall. intros [w a] Hin. simpl.
    assert (Hw: w = 1 \/ w = 2 \/ w = 4).
    { rewrite Forall_forall in Hws. apply Hws. eapply in_combine_l; exact Hin. }
    assert (Hne: ((max_operand w <? a) || (a <? 0)) = false).
    { destruct ((max_operand w <? a) || (a <? 0)) eqn:E; [|reflexivity].
      assert (existsb (fun wa => (max_operand (fst wa) <? snd wa) || (snd wa <? 0)) (combine ws args) = true).
      { apply existsb_exists. exists (w, a). split; [exact Hin | exact E]. }
      congruence. }
    apply orb_false_iff in Hne as [H1 H2]. apply Z.ltb_ge in H1, H2.
    apply andb_true_iff; split; [apply andb_true_iff; split|].
    + apply Z.leb_le. destruct Hw as [-> | [-> | ->]]; lia.
    + apply Z.leb_le. exact H2.
    + apply Z.ltb_lt. apply max_operand_lt; assumption.
  - clear Ex Ew. revert args El. induction ws as [|w ws IH]; intros [|a args] El; try discriminate; [reflexivity|].
    cbn [combine flat_map]. rewrite app_length. unfold be_bytes at 1. rewrite be_bytes_nat_length.
    inversion Hws as [|? ? Hw Hws']; subst. cbn [sumz fold_right]. cbn [fst].
    rewrite Nat2Z.inj_add, Z2Nat.id by (destruct Hw as [-> | [-> | ->]]; lia).
    rewrite IH by (try assumption; simpl in El; lia). reflexivity.
Qed.
