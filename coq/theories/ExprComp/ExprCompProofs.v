(* Correctness of the expression compiler against the source-level evaluation (C02). *)
From Coq Require Import List ZArith Bool Lia.
From Ugo Require Import Base.Res Value.PValue Value.Ops ExprComp.ExprComp.
Import ListNotations.
Local Open Scope Z_scope.

Lemma isize_pos i : 1 <= xisize i.
Proof. destruct i; simpl; lia. Qed.

Lemma csize_nonneg l : 0 <= xcsize l.
Proof. induction l as [|i r IH]; simpl; [lia|]. pose proof (isize_pos i). lia. Qed.

Lemma csize_app a b : xcsize (a ++ b) = xcsize a + xcsize b.
Proof. induction a as [|i r IH]; simpl; [lia|]. rewrite IH. lia. Qed.

Lemma fetch_skip pre rest k : 0 <= k -> xfetch (pre ++ rest) (xcsize pre + k) = xfetch rest k.
Proof.
  induction pre as [|i r IH]; intros Hk; [simpl; f_equal; lia|].
  cbn [app xcsize xfetch]. pose proof (isize_pos i). pose proof (csize_nonneg r).
  destruct (Z.eqb_spec (xisize i + xcsize r + k) 0); [lia|].
  destruct (Z.ltb_spec (xisize i + xcsize r + k) (xisize i)); [lia|].
  replace (xisize i + xcsize r + k - xisize i) with (xcsize r + k) by lia. apply IH. exact Hk.
Qed.

Lemma fetch_at pre i post : xfetch (pre ++ i :: post) (xcsize pre) = Some i.
Proof. replace (xcsize pre) with (xcsize pre + 0) by lia. rewrite fetch_skip by lia. reflexivity. Qed.

Section Correct.
Variable consts : list pvalue.

Inductive mstar (code : list xinstr) : mstate -> mstate -> Prop :=
| MRefl s : mstar code s s
| MStep pc locals st s' : mstar code (xmstep consts code pc locals st) s' -> mstar code (XRunning pc locals st) s'.

Lemma mstar_trans code s1 s2 s3 : mstar code s1 s2 -> mstar code s2 s3 -> mstar code s1 s3.
Proof. induction 1 as [|pc locals st s' H IH]; intros H2; [exact H2|]. apply MStep. apply IH. exact H2. Qed.

Lemma mstar_one code pc locals st s : xmstep consts code pc locals st = s -> mstar code (XRunning pc locals st) s.
Proof. intros <-. apply MStep. apply MRefl. Qed.

(* what running the code of e means *)
Definition runs (locals : list pvalue) (code : list xinstr) (p : Z) (e : cexpr) (st : list pvalue) : Prop :=
  match xceval consts locals e with
  | Ok v => mstar code (XRunning p locals st) (XRunning (p + xcsize (xcompile p e)) locals (v :: st))
  | Err err => mstar code (XRunning p locals st) (XThrown err)
  | _ => True                 (* a constant or local index out of range: excluded by the validator of C05 *)
  end.

Lemma step_fetch code pre i post pc locals st :
  code = pre ++ i :: post -> pc = xcsize pre ->
  xmstep consts code pc locals st =
  match i, st with
  | XIConst c, _ => match nth_error consts c with Some v => XRunning (pc + 3) locals (v :: st) | None => XCrashed end
  | XIGetLocal k, _ => match nth_error locals k with Some v => XRunning (pc + 2) locals (v :: st) | None => XCrashed end
  | XIBinOp t, r :: l :: st' => match binop t l r with Ok v => XRunning (pc + 2) locals (v :: st') | Err e => XThrown e | _ => XCrashed end
  | XIEqual, r :: l :: st' => XRunning (pc + 1) locals (vm_equal l r :: st')
  | XINotEqual, r :: l :: st' => XRunning (pc + 1) locals (vm_not_equal l r :: st')
  | XIUnary t, v :: st' => match unop t v with Ok w => XRunning (pc + 2) locals (w :: st') | Err e => XThrown e | _ => XCrashed end
  | XIAndJump t, v :: st' => match is_falsy v with Some true => XRunning t locals st | Some false => XRunning (pc + 5) locals st' | None => XThrown (mkErr [] []) end
  | XIOrJump t, v :: st' => match is_falsy v with Some true => XRunning (pc + 5) locals st' | Some false => XRunning t locals st | None => XThrown (mkErr [] []) end
  | XIJumpFalsy t, v :: st' => match is_falsy v with Some true => XRunning t locals st' | Some false => XRunning (pc + 5) locals st' | None => XThrown (mkErr [] []) end
  | XIJump t, _ => XRunning t locals st
  | XISetLocal k, v :: st' | XIDefineLocal k, v :: st' => match set_local locals k v with Some l' => XRunning (pc + 2) l' st' | None => XCrashed end
  | XIPop, _ :: st' => XRunning (pc + 1) locals st'
  | XIReturn, v :: _ => XReturned v
  | _, _ => XCrashed
  end.
Proof. intros -> ->. unfold xmstep. rewrite fetch_at. reflexivity. Qed.

Theorem compile_correct : forall locals e pre post st,
  runs locals (pre ++ xcompile (xcsize pre) e ++ post) (xcsize pre) e st.
Proof.
  intros locals. induction e as [c|i|t a IHa b IHb|a IHa b IHb|a IHa b IHb|t a IHa|a IHa b IHb|a IHa b IHb|c IHc a IHa b IHb];
    intros pre post st; unfold runs; cbn [xceval xcompile].
  - (* constant *)
    destruct (nth_error consts c) as [v|] eqn:E; [|exact I]. cbn [xcsize xisize].
    apply mstar_one. erewrite step_fetch; [|reflexivity|reflexivity]. cbv beta iota. rewrite E. f_equal; try lia.
  - destruct (nth_error locals i) as [v|] eqn:E; [|exact I]. cbn [xcsize xisize].
    apply mstar_one. erewrite step_fetch; [|reflexivity|reflexivity]. cbv beta iota. rewrite E. f_equal; try lia.
  - (* binary operator *)
    set (p := xcsize pre). set (ca := xcompile p a). set (cb := xcompile (p + xcsize ca) b).
    specialize (IHa pre (cb ++ [XIBinOp t] ++ post) st). unfold runs in IHa. fold p ca in IHa.
    replace (pre ++ (ca ++ cb ++ [XIBinOp t]) ++ post) with (pre ++ ca ++ cb ++ [XIBinOp t] ++ post) by (rewrite <- !app_assoc; reflexivity).
    destruct (xceval consts locals a) as [va|ea| |]; cbn [bind]; try exact I; [|exact IHa].
    specialize (IHb (pre ++ ca) ([XIBinOp t] ++ post) (va :: st)). unfold runs in IHb. rewrite csize_app in IHb. fold p cb in IHb.
    rewrite <- app_assoc in IHb.
    destruct (xceval consts locals b) as [vb|eb| |]; cbn [bind]; try exact I.
    + destruct (binop t va vb) as [v|err|k|] eqn:Eb; try exact I.
      * eapply mstar_trans; [exact IHa|]. eapply mstar_trans; [exact IHb|]. apply mstar_one. erewrite (step_fetch _ (pre ++ ca ++ cb) (XIBinOp t) post); [| rewrite <- !app_assoc; reflexivity | rewrite !csize_app; fold p; lia]. cbv beta iota.
        rewrite Eb. f_equal; try (rewrite !csize_app; cbn [xcsize xisize]; lia).
      * eapply mstar_trans; [exact IHa|]. eapply mstar_trans; [exact IHb|]. apply mstar_one.
        erewrite (step_fetch _ (pre ++ ca ++ cb) (XIBinOp t) post); [| rewrite <- !app_assoc; reflexivity | rewrite !csize_app; fold p; lia]. cbv beta iota.
        rewrite Eb. reflexivity.
    + eapply mstar_trans; [exact IHa|]. exact IHb.
  - (* == *)
    set (p := xcsize pre). set (ca := xcompile p a). set (cb := xcompile (p + xcsize ca) b).
    specialize (IHa pre (cb ++ [XIEqual] ++ post) st). unfold runs in IHa. fold p ca in IHa.
    replace (pre ++ (ca ++ cb ++ [XIEqual]) ++ post) with (pre ++ ca ++ cb ++ [XIEqual] ++ post) by (rewrite <- !app_assoc; reflexivity).
    destruct (xceval consts locals a) as [va|ea| |]; cbn [bind]; try exact I; [|exact IHa].
    specialize (IHb (pre ++ ca) ([XIEqual] ++ post) (va :: st)). unfold runs in IHb. rewrite csize_app in IHb. fold p cb in IHb.
    rewrite <- app_assoc in IHb.
    destruct (xceval consts locals b) as [vb|eb| |]; cbn [bind]; try exact I.
    + eapply mstar_trans; [exact IHa|]. eapply mstar_trans; [exact IHb|].
      apply mstar_one. erewrite (step_fetch _ (pre ++ ca ++ cb) XIEqual post); [| rewrite <- !app_assoc; reflexivity | rewrite !csize_app; fold p; lia]. cbv beta iota.
      f_equal; try (rewrite !csize_app; cbn [xcsize xisize]; lia).
    + eapply mstar_trans; [exact IHa|]. exact IHb.
  - (* != *)
    set (p := xcsize pre). set (ca := xcompile p a). set (cb := xcompile (p + xcsize ca) b).
    specialize (IHa pre (cb ++ [XINotEqual] ++ post) st). unfold runs in IHa. fold p ca in IHa.
    replace (pre ++ (ca ++ cb ++ [XINotEqual]) ++ post) with (pre ++ ca ++ cb ++ [XINotEqual] ++ post) by (rewrite <- !app_assoc; reflexivity).
    destruct (xceval consts locals a) as [va|ea| |]; cbn [bind]; try exact I; [|exact IHa].
    specialize (IHb (pre ++ ca) ([XINotEqual] ++ post) (va :: st)). unfold runs in IHb. rewrite csize_app in IHb. fold p cb in IHb.
    rewrite <- app_assoc in IHb.
    destruct (xceval consts locals b) as [vb|eb| |]; cbn [bind]; try exact I.
    + eapply mstar_trans; [exact IHa|]. eapply mstar_trans; [exact IHb|].
      apply mstar_one. erewrite (step_fetch _ (pre ++ ca ++ cb) XINotEqual post); [| rewrite <- !app_assoc; reflexivity | rewrite !csize_app; fold p; lia]. cbv beta iota.
      f_equal; try (rewrite !csize_app; cbn [xcsize xisize]; lia).
    + eapply mstar_trans; [exact IHa|]. exact IHb.
  - (* unary *)
    set (p := xcsize pre). set (ca := xcompile p a).
    specialize (IHa pre ([XIUnary t] ++ post) st). unfold runs in IHa. fold p ca in IHa.
    replace (pre ++ (ca ++ [XIUnary t]) ++ post) with (pre ++ ca ++ [XIUnary t] ++ post) by (rewrite <- !app_assoc; reflexivity).
    destruct (xceval consts locals a) as [va|ea| |]; cbn [bind]; try exact I; [|exact IHa].
    destruct (unop t va) as [v|err|k|] eqn:Eu; try exact I.
    + eapply mstar_trans; [exact IHa|]. apply mstar_one.
      erewrite (step_fetch _ (pre ++ ca) (XIUnary t) post); [| rewrite <- !app_assoc; reflexivity | rewrite !csize_app; fold p; lia]. cbv beta iota.
      rewrite Eu. f_equal; try (rewrite !csize_app; cbn [xcsize xisize]; lia).
    + eapply mstar_trans; [exact IHa|]. apply mstar_one.
      erewrite (step_fetch _ (pre ++ ca) (XIUnary t) post); [| rewrite <- !app_assoc; reflexivity | rewrite !csize_app; fold p; lia]. cbv beta iota.
      rewrite Eu. reflexivity.
  - (* && *)
    set (p := xcsize pre). set (ca := xcompile p a). set (cb := xcompile (p + xcsize ca + 5) b).
    set (tgt := p + xcsize ca + 5 + xcsize cb).
    specialize (IHa pre (XIAndJump tgt :: cb ++ post) st). unfold runs in IHa. fold p ca in IHa.
    replace (pre ++ (ca ++ XIAndJump tgt :: cb) ++ post) with (pre ++ ca ++ XIAndJump tgt :: cb ++ post) by (rewrite <- !app_assoc; reflexivity).
    destruct (xceval consts locals a) as [va|ea| |]; cbn [bind]; try exact I; [|exact IHa].
    unfold xtruthy. destruct (is_falsy va) as [[|]|] eqn:Ef; cbn [bind negb].
    + (* falsy: the value stays, jump over b *)
      eapply mstar_trans; [exact IHa|]. apply mstar_one.
      erewrite (step_fetch _ (pre ++ ca) (XIAndJump tgt) (cb ++ post)); [| rewrite <- !app_assoc; reflexivity | rewrite !csize_app; fold p; lia]. cbv beta iota.
      rewrite Ef. f_equal; try (unfold tgt; rewrite !csize_app; cbn [xcsize xisize]; lia).
    + (* xtruthy: pop and evaluate b *)
      specialize (IHb (pre ++ ca ++ [XIAndJump tgt]) post st). unfold runs in IHb.
      rewrite !csize_app in IHb. cbn [xcsize xisize] in IHb. fold p in IHb.
      replace (p + (xcsize ca + (5 + 0))) with (p + xcsize ca + 5) in IHb by lia. fold cb in IHb.
      replace ((pre ++ ca ++ [XIAndJump tgt]) ++ cb ++ post) with (pre ++ ca ++ XIAndJump tgt :: cb ++ post) in IHb by (rewrite <- !app_assoc; reflexivity).
      destruct (xceval consts locals b) as [vb|eb| |]; try exact I.
      * eapply mstar_trans; [exact IHa|]. eapply MStep.
        erewrite (step_fetch _ (pre ++ ca) (XIAndJump tgt) (cb ++ post)); [| rewrite <- !app_assoc; reflexivity | rewrite !csize_app; fold p; lia]. cbv beta iota.
        rewrite Ef. replace (p + xcsize ca + 5) with (p + xcsize ca + 5) by lia.
        replace (p + xcsize (ca ++ XIAndJump tgt :: cb)) with (p + xcsize ca + 5 + xcsize cb) by (rewrite csize_app; cbn [xcsize xisize]; lia).
        exact IHb.
      * eapply mstar_trans; [exact IHa|]. eapply MStep.
        erewrite (step_fetch _ (pre ++ ca) (XIAndJump tgt) (cb ++ post)); [| rewrite <- !app_assoc; reflexivity | rewrite !csize_app; fold p; lia]. cbv beta iota.
        rewrite Ef. exact IHb.
    + eapply mstar_trans; [exact IHa|]. apply mstar_one.
      erewrite (step_fetch _ (pre ++ ca) (XIAndJump tgt) (cb ++ post)); [| rewrite <- !app_assoc; reflexivity | rewrite !csize_app; fold p; lia]. cbv beta iota.
      rewrite Ef. reflexivity.
  - (* || *)
    set (p := xcsize pre). set (ca := xcompile p a). set (cb := xcompile (p + xcsize ca + 5) b).
    set (tgt := p + xcsize ca + 5 + xcsize cb).
    specialize (IHa pre (XIOrJump tgt :: cb ++ post) st). unfold runs in IHa. fold p ca in IHa.
    replace (pre ++ (ca ++ XIOrJump tgt :: cb) ++ post) with (pre ++ ca ++ XIOrJump tgt :: cb ++ post) by (rewrite <- !app_assoc; reflexivity).
    destruct (xceval consts locals a) as [va|ea| |]; cbn [bind]; try exact I; [|exact IHa].
    unfold xtruthy. destruct (is_falsy va) as [[|]|] eqn:Ef; cbn [bind negb].
    + specialize (IHb (pre ++ ca ++ [XIOrJump tgt]) post st). unfold runs in IHb.
      rewrite !csize_app in IHb. cbn [xcsize xisize] in IHb. fold p in IHb.
      replace (p + (xcsize ca + (5 + 0))) with (p + xcsize ca + 5) in IHb by lia. fold cb in IHb.
      replace ((pre ++ ca ++ [XIOrJump tgt]) ++ cb ++ post) with (pre ++ ca ++ XIOrJump tgt :: cb ++ post) in IHb by (rewrite <- !app_assoc; reflexivity).
      destruct (xceval consts locals b) as [vb|eb| |]; try exact I.
      * eapply mstar_trans; [exact IHa|]. eapply MStep.
        erewrite (step_fetch _ (pre ++ ca) (XIOrJump tgt) (cb ++ post)); [| rewrite <- !app_assoc; reflexivity | rewrite !csize_app; fold p; lia]. cbv beta iota.
        rewrite Ef.
        replace (p + xcsize (ca ++ XIOrJump tgt :: cb)) with (p + xcsize ca + 5 + xcsize cb) by (rewrite csize_app; cbn [xcsize xisize]; lia).
        exact IHb.
      * eapply mstar_trans; [exact IHa|]. eapply MStep.
        erewrite (step_fetch _ (pre ++ ca) (XIOrJump tgt) (cb ++ post)); [| rewrite <- !app_assoc; reflexivity | rewrite !csize_app; fold p; lia]. cbv beta iota.
        rewrite Ef. exact IHb.
    + eapply mstar_trans; [exact IHa|]. apply mstar_one.
      erewrite (step_fetch _ (pre ++ ca) (XIOrJump tgt) (cb ++ post)); [| rewrite <- !app_assoc; reflexivity | rewrite !csize_app; fold p; lia]. cbv beta iota.
      rewrite Ef. f_equal; try (unfold tgt; rewrite !csize_app; cbn [xcsize xisize]; lia).
    + eapply mstar_trans; [exact IHa|]. apply mstar_one.
      erewrite (step_fetch _ (pre ++ ca) (XIOrJump tgt) (cb ++ post)); [| rewrite <- !app_assoc; reflexivity | rewrite !csize_app; fold p; lia]. cbv beta iota.
      rewrite Ef. reflexivity.
  - (* c ? a : b *)
    set (p := xcsize pre). set (cc := xcompile p c). set (ca := xcompile (p + xcsize cc + 5) a).
    set (t1 := p + xcsize cc + 5 + xcsize ca + 5). set (cb := xcompile t1 b). set (t2 := t1 + xcsize cb).
    specialize (IHc pre (XIJumpFalsy t1 :: ca ++ XIJump t2 :: cb ++ post) st). unfold runs in IHc. fold p cc in IHc.
    replace (pre ++ (cc ++ XIJumpFalsy t1 :: ca ++ XIJump t2 :: cb) ++ post)
      with (pre ++ cc ++ XIJumpFalsy t1 :: ca ++ XIJump t2 :: cb ++ post) by (rewrite <- ?app_assoc; cbn [app]; rewrite <- ?app_assoc; reflexivity).
    destruct (xceval consts locals c) as [vc|ec| |]; cbn [bind]; try exact I; [|exact IHc].
    assert (Hsz: p + xcsize (cc ++ XIJumpFalsy t1 :: ca ++ XIJump t2 :: cb) = t2).
    { unfold t2, t1. rewrite csize_app. cbn [xcsize xisize]. rewrite csize_app. cbn [xcsize xisize]. lia. }
    unfold xtruthy. destruct (is_falsy vc) as [[|]|] eqn:Ef; cbn [bind negb].
    + (* falsy: jump to b *)
      specialize (IHb (pre ++ cc ++ XIJumpFalsy t1 :: ca ++ [XIJump t2]) post st). unfold runs in IHb.
      assert (Hp: xcsize (pre ++ cc ++ XIJumpFalsy t1 :: ca ++ [XIJump t2]) = t1).
      { unfold t1. rewrite !csize_app. cbn [xcsize xisize]. rewrite csize_app. cbn [xcsize xisize]. fold p. lia. }
      rewrite Hp in IHb. fold cb in IHb.
      replace ((pre ++ cc ++ XIJumpFalsy t1 :: ca ++ [XIJump t2]) ++ cb ++ post)
        with (pre ++ cc ++ XIJumpFalsy t1 :: ca ++ XIJump t2 :: cb ++ post) in IHb by (rewrite <- ?app_assoc; cbn [app]; rewrite <- ?app_assoc; reflexivity).
      destruct (xceval consts locals b) as [vb|eb| |]; try exact I.
      * eapply mstar_trans; [exact IHc|]. eapply MStep.
        erewrite (step_fetch _ (pre ++ cc) (XIJumpFalsy t1) (ca ++ XIJump t2 :: cb ++ post)); [| rewrite <- !app_assoc; reflexivity | rewrite !csize_app; fold p; lia]. cbv beta iota.
        rewrite Ef. rewrite Hsz. unfold t2. exact IHb.
      * eapply mstar_trans; [exact IHc|]. eapply MStep.
        erewrite (step_fetch _ (pre ++ cc) (XIJumpFalsy t1) (ca ++ XIJump t2 :: cb ++ post)); [| rewrite <- !app_assoc; reflexivity | rewrite !csize_app; fold p; lia]. cbv beta iota.
        rewrite Ef. exact IHb.
    + (* xtruthy: a, then jump over b *)
      specialize (IHa (pre ++ cc ++ [XIJumpFalsy t1]) (XIJump t2 :: cb ++ post) st). unfold runs in IHa.
      assert (Hp: xcsize (pre ++ cc ++ [XIJumpFalsy t1]) = p + xcsize cc + 5).
      { rewrite !csize_app. cbn [xcsize xisize]. fold p. lia. }
      rewrite Hp in IHa. fold ca in IHa.
      replace ((pre ++ cc ++ [XIJumpFalsy t1]) ++ ca ++ XIJump t2 :: cb ++ post)
        with (pre ++ cc ++ XIJumpFalsy t1 :: ca ++ XIJump t2 :: cb ++ post) in IHa by (rewrite <- !app_assoc; reflexivity).
      destruct (xceval consts locals a) as [va|ea| |]; try exact I.
      * eapply mstar_trans; [exact IHc|]. eapply MStep.
        erewrite (step_fetch _ (pre ++ cc) (XIJumpFalsy t1) (ca ++ XIJump t2 :: cb ++ post)); [| rewrite <- !app_assoc; reflexivity | rewrite !csize_app; fold p; lia]. cbv beta iota.
        rewrite Ef. eapply mstar_trans; [exact IHa|]. apply mstar_one.
        erewrite (step_fetch _ (pre ++ cc ++ XIJumpFalsy t1 :: ca) (XIJump t2) (cb ++ post));
          [| rewrite <- ?app_assoc; cbn [app]; rewrite <- ?app_assoc; reflexivity | rewrite ?csize_app; cbn [xcsize xisize]; rewrite ?csize_app; fold p; lia]. cbv beta iota.
        rewrite Hsz. reflexivity.
      * eapply mstar_trans; [exact IHc|]. eapply MStep.
        erewrite (step_fetch _ (pre ++ cc) (XIJumpFalsy t1) (ca ++ XIJump t2 :: cb ++ post)); [| rewrite <- !app_assoc; reflexivity | rewrite !csize_app; fold p; lia]. cbv beta iota.
        rewrite Ef. exact IHa.
    + eapply mstar_trans; [exact IHc|]. apply mstar_one.
      erewrite (step_fetch _ (pre ++ cc) (XIJumpFalsy t1) (ca ++ XIJump t2 :: cb ++ post)); [| rewrite <- !app_assoc; reflexivity | rewrite !csize_app; fold p; lia]. cbv beta iota.
      rewrite Ef. reflexivity.
Qed.

End Correct.
