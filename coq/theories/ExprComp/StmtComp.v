(* Compilation of statements over local variables (C02): assignment and definition of a local,
   expression statements, if / else, for loops with break and continue, return; the code the
   compiler emits (compileAssignStmt, compileIfStmt, compileForStmt, compileBranchStmt,
   compileReturnStmt of compiler_nodes.go, jump targets as absolute byte positions) and the
   source-level execution.  Expressions and the machine are those of ExprComp.v. *)
From Coq Require Import List ZArith Bool.
From Ugo Require Import Base.Res Value.PValue Value.Ops ExprComp.ExprComp.
Import ListNotations.
Local Open Scope Z_scope.

Inductive cstmt :=
| TSkip
| TSeq (a b : cstmt)
| TSet (i : nat) (e : cexpr)            (* x = e *)
| TDef (i : nat) (e : cexpr)            (* x := e *)
| TExp (e : cexpr)                      (* e as a statement: its value is popped *)
| TIf (c : cexpr) (a : cstmt)            (* if without else *)
| TIfElse (c : cexpr) (a b : cstmt)
| TFor (c : cexpr) (body post : cstmt)  (* for ; c ; post { body } *)
| TBreak | TContinue
| TRet (e : cexpr).

(* ---- source-level execution *)
Inductive sout := QNormal | QBreak | QContinue | QReturn (v : pvalue).

Fixpoint sexec (fuel : nat) (consts locals : list pvalue) (s : cstmt) : res (sout * list pvalue) :=
  match fuel with
  | O => OutOfFuel
  | S fuel =>
      match s with
      | TSkip => Ok (QNormal, locals)
      | TSeq a b =>
          do r <- sexec fuel consts locals a;
          match fst r with
          | QNormal => sexec fuel consts (snd r) b
          | o => Ok (o, snd r)
          end
      | TSet i e | TDef i e =>
          do v <- xceval consts locals e;
          match set_local locals i v with Some l' => Ok (QNormal, l') | None => GoPanic PkIndex end
      | TExp e => do _ <- xceval consts locals e; Ok (QNormal, locals)
      | TRet e => do v <- xceval consts locals e; Ok (QReturn v, locals)
      | TBreak => Ok (QBreak, locals)
      | TContinue => Ok (QContinue, locals)
      | TIf c a =>
          do vc <- xceval consts locals c; do t <- xtruthy vc;
          if t then sexec fuel consts locals a else Ok (QNormal, locals)
      | TIfElse c a b =>
          do vc <- xceval consts locals c; do t <- xtruthy vc;
          if t then sexec fuel consts locals a else sexec fuel consts locals b
      | TFor c body post =>
          do vc <- xceval consts locals c; do t <- xtruthy vc;
          if negb t then Ok (QNormal, locals)
          else
            do r <- sexec fuel consts locals body;
            match fst r with
            | QBreak => Ok (QNormal, snd r)
            | QReturn v => Ok (QReturn v, snd r)
            | QNormal | QContinue =>
                do r2 <- sexec fuel consts (snd r) post;
                match fst r2 with
                | QNormal => sexec fuel consts (snd r2) (TFor c body post)
                | o => Ok (o, snd r2)        (* not produced by a compiled post statement *)
                end
            end
      end
  end.

(* ---- well-formed statements: the post statement of a for loop is a simple statement (the
   parser accepts nothing else there): no break, continue, return, if or loop inside it *)
Fixpoint noctl (s : cstmt) : bool :=
  match s with
  | TSkip | TSet _ _ | TDef _ _ | TExp _ => true
  | TSeq a b => noctl a && noctl b
  | _ => false
  end.

Fixpoint wf (s : cstmt) : bool :=
  match s with
  | TSeq a b => wf a && wf b
  | TIf _ a => wf a
  | TIfElse _ a b => wf a && wf b
  | TFor _ body post => wf body && noctl post && wf post
  | _ => true
  end.

(* ---- code size, independent of positions *)
Definition esize (e : cexpr) : Z := xcsize (xcompile 0 e).

Fixpoint ssize (s : cstmt) : Z :=
  match s with
  | TSkip => 0
  | TSeq a b => ssize a + ssize b
  | TSet _ e | TDef _ e => esize e + 2
  | TExp e => esize e + 1
  | TRet e => esize e + 2
  | TBreak | TContinue => 5
  | TIf c a => esize c + 5 + ssize a
  | TIfElse c a b => esize c + 5 + ssize a + 5 + ssize b
  | TFor c body post => esize c + 5 + ssize body + ssize post + 5
  end.

(* code for s at byte position p; brk / cont: targets of break and continue of the innermost loop *)
Fixpoint scompile (p brk cont : Z) (s : cstmt) : list xinstr :=
  match s with
  | TSkip => []
  | TSeq a b => scompile p brk cont a ++ scompile (p + ssize a) brk cont b
  | TSet i e => xcompile p e ++ [XISetLocal i]
  | TDef i e => xcompile p e ++ [XIDefineLocal i]
  | TExp e => xcompile p e ++ [XIPop]
  | TRet e => xcompile p e ++ [XIReturn]
  | TBreak => [XIJump brk]
  | TContinue => [XIJump cont]
  | TIf c a =>
      xcompile p c ++ XIJumpFalsy (p + esize c + 5 + ssize a) :: scompile (p + esize c + 5) brk cont a
  | TIfElse c a b =>
      let l1 := p + esize c + 5 + ssize a + 5 in
      xcompile p c ++ XIJumpFalsy l1 :: scompile (p + esize c + 5) brk cont a ++ XIJump (l1 + ssize b) :: scompile l1 brk cont b
  | TFor c body post =>
      let lbody := p + esize c + 5 in
      let lpost := lbody + ssize body in
      let lend := lpost + ssize post + 5 in
      xcompile p c ++ XIJumpFalsy lend :: scompile lbody lend lpost body ++ scompile lpost lend lpost post ++ [XIJump p]
  end.
