(* Compilation of expressions (C02): the fragment of compiler_nodes.go that compiles constants,
   locals, unary and binary operators, == / !=, short-circuit && / || and the conditional
   expression, the corresponding instructions of vm.go, and the source-level evaluation of the
   same expressions.  Operators are those of the operator model of C15 (Value/Ops.v). *)
From Coq Require Import List ZArith Bool.
From Ugo Require Import Base.Res Value.PValue Value.Ops.
Import ListNotations.
Local Open Scope Z_scope.

Inductive cexpr :=
| XConst (c : nat)                 (* index into the constant pool *)
| XLocal (i : nat)
| XBin (t : tok) (a b : cexpr)     (* OpBinaryOp *)
| XEq (a b : cexpr) | XNe (a b : cexpr)
| XUn (t : tok) (a : cexpr)
| XAnd (a b : cexpr) | XOr (a b : cexpr)
| XCond (c a b : cexpr).

(* ---- source-level evaluation: left to right, && / || yield an operand, ?: evaluates one branch *)
Definition xtruthy (v : pvalue) : res bool :=
  match is_falsy v with Some b => Ok (negb b) | None => Err (mkErr [] []) end.

Fixpoint xceval (consts locals : list pvalue) (e : cexpr) : res pvalue :=
  match e with
  | XConst c => match nth_error consts c with Some v => Ok v | None => GoPanic PkIndex end
  | XLocal i => match nth_error locals i with Some v => Ok v | None => GoPanic PkIndex end
  | XBin t a b => do va <- xceval consts locals a; do vb <- xceval consts locals b; binop t va vb
  | XEq a b => do va <- xceval consts locals a; do vb <- xceval consts locals b; Ok (vm_equal va vb)
  | XNe a b => do va <- xceval consts locals a; do vb <- xceval consts locals b; Ok (vm_not_equal va vb)
  | XUn t a => do va <- xceval consts locals a; unop t va
  | XAnd a b => do va <- xceval consts locals a; do t <- xtruthy va; if t then xceval consts locals b else Ok va
  | XOr a b => do va <- xceval consts locals a; do t <- xtruthy va; if t then Ok va else xceval consts locals b
  | XCond c a b => do vc <- xceval consts locals c; do t <- xtruthy vc; if t then xceval consts locals a else xceval consts locals b
  end.

(* ---- instructions, with the byte sizes of the version 2 format *)
Inductive xinstr :=
| XIConst (c : nat) | XIGetLocal (i : nat)
| XIBinOp (t : tok) | XIEqual | XINotEqual | XIUnary (t : tok)
| XIAndJump (target : Z) | XIOrJump (target : Z) | XIJumpFalsy (target : Z) | XIJump (target : Z)
| XISetLocal (i : nat) | XIDefineLocal (i : nat) | XIPop | XIReturn.   (* statements: StmtComp.v *)

Definition xisize (i : xinstr) : Z :=
  match i with
  | XIConst _ => 3 | XIGetLocal _ => 2 | XIBinOp _ => 2 | XIEqual => 1 | XINotEqual => 1 | XIUnary _ => 2
  | XIAndJump _ | XIOrJump _ | XIJumpFalsy _ | XIJump _ => 5
  | XISetLocal _ | XIDefineLocal _ => 2 | XIPop => 1 | XIReturn => 2
  end.

Fixpoint xcsize (l : list xinstr) : Z := match l with [] => 0 | i :: r => xisize i + xcsize r end.

(* compileBinaryExpr / compileLogical / compileUnaryExpr / compileCondExpr / compileIdent: code for e
   placed at byte position p; jump targets are absolute positions *)
Fixpoint xcompile (p : Z) (e : cexpr) : list xinstr :=
  match e with
  | XConst c => [XIConst c]
  | XLocal i => [XIGetLocal i]
  | XBin t a b => let ca := xcompile p a in ca ++ xcompile (p + xcsize ca) b ++ [XIBinOp t]
  | XEq a b => let ca := xcompile p a in ca ++ xcompile (p + xcsize ca) b ++ [XIEqual]
  | XNe a b => let ca := xcompile p a in ca ++ xcompile (p + xcsize ca) b ++ [XINotEqual]
  | XUn t a => xcompile p a ++ [XIUnary t]
  | XAnd a b =>
      let ca := xcompile p a in
      let cb := xcompile (p + xcsize ca + 5) b in
      ca ++ XIAndJump (p + xcsize ca + 5 + xcsize cb) :: cb
  | XOr a b =>
      let ca := xcompile p a in
      let cb := xcompile (p + xcsize ca + 5) b in
      ca ++ XIOrJump (p + xcsize ca + 5 + xcsize cb) :: cb
  | XCond c a b =>
      let cc := xcompile p c in
      let ca := xcompile (p + xcsize cc + 5) a in
      let cb := xcompile (p + xcsize cc + 5 + xcsize ca + 5) b in
      cc ++ XIJumpFalsy (p + xcsize cc + 5 + xcsize ca + 5) :: ca ++ XIJump (p + xcsize cc + 5 + xcsize ca + 5 + xcsize cb) :: cb
  end.

(* ---- the machine: instruction at a byte position, one step, bounded run *)
Fixpoint xfetch (code : list xinstr) (pc : Z) : option xinstr :=
  match code with
  | [] => None
  | i :: r => if pc =? 0 then Some i else if pc <? xisize i then None else xfetch r (pc - xisize i)
  end.

Inductive mstate := XRunning (pc : Z) (locals stack : list pvalue) | XThrown (e : uerror) | XCrashed | XReturned (v : pvalue).

Fixpoint set_local (l : list pvalue) (i : nat) (v : pvalue) : option (list pvalue) :=
  match l, i with
  | [], _ => None
  | _ :: t, O => Some (v :: t)
  | h :: t, S i => match set_local t i v with Some t' => Some (h :: t') | None => None end
  end.

Definition xmstep (consts : list pvalue) (code : list xinstr) (pc : Z) (locals st : list pvalue) : mstate :=
  match xfetch code pc with
  | None => XCrashed
  | Some i =>
      match i, st with
      | XIConst c, _ => match nth_error consts c with Some v => XRunning (pc + 3) locals (v :: st) | None => XCrashed end
      | XIGetLocal k, _ => match nth_error locals k with Some v => XRunning (pc + 2) locals (v :: st) | None => XCrashed end
      | XIBinOp t, r :: l :: st' =>
          match binop t l r with
          | Ok v => XRunning (pc + 2) locals (v :: st') | Err e => XThrown e | _ => XCrashed
          end
      | XIEqual, r :: l :: st' => XRunning (pc + 1) locals (vm_equal l r :: st')
      | XINotEqual, r :: l :: st' => XRunning (pc + 1) locals (vm_not_equal l r :: st')
      | XIUnary t, v :: st' =>
          match unop t v with
          | Ok w => XRunning (pc + 2) locals (w :: st') | Err e => XThrown e | _ => XCrashed
          end
      | XIAndJump t, v :: st' =>
          match is_falsy v with
          | Some true => XRunning t locals st            (* keep the value, jump *)
          | Some false => XRunning (pc + 5) locals st'   (* pop, fall through *)
          | None => XThrown (mkErr [] [])
          end
      | XIOrJump t, v :: st' =>
          match is_falsy v with
          | Some true => XRunning (pc + 5) locals st'
          | Some false => XRunning t locals st
          | None => XThrown (mkErr [] [])
          end
      | XIJumpFalsy t, v :: st' =>
          match is_falsy v with
          | Some true => XRunning t locals st'
          | Some false => XRunning (pc + 5) locals st'
          | None => XThrown (mkErr [] [])
          end
      | XIJump t, _ => XRunning t locals st
      | XISetLocal k, v :: st' | XIDefineLocal k, v :: st' =>
          match set_local locals k v with Some l' => XRunning (pc + 2) l' st' | None => XCrashed end
      | XIPop, _ :: st' => XRunning (pc + 1) locals st'
      | XIReturn, v :: _ => XReturned v
      | _, _ => XCrashed
      end
  end.

(* run until the program counter reaches `stop` *)
Fixpoint xmrun (fuel : nat) (consts : list pvalue) (code : list xinstr) (stop : Z) (s : mstate) : mstate :=
  match fuel with
  | O => s
  | S fuel =>
      match s with
      | XRunning pc locals st => if pc =? stop then s else xmrun fuel consts code stop (xmstep consts code pc locals st)
      | _ => s
      end
  end.

(* number of xsteps the code of e takes at most *)
Fixpoint xsteps (e : cexpr) : nat :=
  match e with
  | XConst _ | XLocal _ => 1
  | XBin _ a b | XEq a b | XNe a b => xsteps a + xsteps b + 1
  | XUn _ a => xsteps a + 1
  | XAnd a b | XOr a b => xsteps a + xsteps b + 1
  | XCond c a b => xsteps c + xsteps a + xsteps b + 2
  end.
