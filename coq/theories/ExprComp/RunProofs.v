(* The executable runner xmrun reaches every terminal state the step relation reaches (C02): the
   theorems about mstar speak about the function which the correspondence check executes. *)
From Coq Require Import List ZArith Bool Lia.
From Ugo Require Import Base.Res Value.PValue Value.Ops ExprComp.ExprComp ExprComp.ExprCompProofs ExprComp.StmtComp ExprComp.StmtCompProofs.
Import ListNotations.
Local Open Scope Z_scope.

Lemma xisize_pos i : 0 < xisize i.
Proof. destruct i; cbn [xisize]; lia. Qed.

Lemma xfetch_end code : forall pc, xcsize code <= pc -> xfetch code pc = None.
Proof.
  induction code as [|i r IH]; intros pc H; [reflexivity|]. cbn [xfetch xcsize] in *. pose proof (xisize_pos i).
  assert (0 <= xcsize r) by (clear; induction r as [|j r IH]; cbn [xcsize]; [lia | pose proof (xisize_pos j); lia]).
  destruct (Z.eqb_spec pc 0); [lia|]. destruct (Z.ltb_spec pc (xisize i)); [reflexivity|]. apply IH. lia.
Qed.

Definition terminal (s : mstate) : Prop := match s with XRunning _ _ _ => False | _ => True end.

Theorem mstar_xmrun consts code s s' : mstar consts code s s' -> terminal s' -> s' <> XCrashed ->
  exists fuel, xmrun fuel consts code (xcsize code) s = s'.
Proof.
  induction 1 as [s|pc locals st s' H IH]; intros Ht Hc.
  - exists 1%nat. destruct s; try contradiction; reflexivity.
  - destruct (Z.eqb_spec pc (xcsize code)) as [E|E].
    + (* at the end of the code the next step crashes: the run could not have reached s' *)
      exfalso. unfold xmstep in H. rewrite xfetch_end in H by lia.
      inversion H; subst. apply Hc. reflexivity.
    + destruct (IH Ht Hc) as [fuel Hf]. exists (S fuel). cbn [xmrun].
      destruct (Z.eqb_spec pc (xcsize code)); [contradiction | exact Hf].
Qed.

(* compiled function bodies, executed by the bounded runner *)
Theorem function_body_runs consts fuel s locals : wf s = true ->
  match sexec fuel consts locals s with
  | Ok (QReturn v, _) => exists n, xmrun n consts (scompile 0 0 0 s) (ssize s) (XRunning 0 locals []) = XReturned v
  | Err e => exists n, xmrun n consts (scompile 0 0 0 s) (ssize s) (XRunning 0 locals []) = XThrown e
  | _ => True
  end.
Proof.
  intro Hwf. pose proof (function_body_correct consts fuel s locals Hwf) as H.
  assert (Esz: xcsize (scompile 0 0 0 s) = ssize s) by apply scompile_size.
  destruct (sexec fuel consts locals s) as [[o l']|e| |]; try exact I.
  - destruct o; try exact I. destruct (mstar_xmrun _ _ _ _ H I) as [n Hn]; [discriminate|]. exists n. rewrite <- Esz. exact Hn.
  - destruct (mstar_xmrun _ _ _ _ H I) as [n Hn]; [discriminate|]. exists n. rewrite <- Esz. exact Hn.
Qed.
