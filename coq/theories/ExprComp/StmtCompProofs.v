(* Correctness of the statement compiler (C02): whenever the source-level execution of a statement
   terminates, the machine running the compiled code from the same locals reaches the matching
   configuration: the position after the code (normal end), the target of break / continue, the
   returned value, or the thrown error - with the same locals. *)
From Coq Require Import List ZArith Bool Lia.
From Ugo Require Import Base.Res Value.PValue Value.Ops ExprComp.ExprComp ExprComp.ExprCompProofs ExprComp.StmtComp.
Import ListNotations.
Local Open Scope Z_scope.

Lemma xcompile_size e : forall p q, xcsize (xcompile p e) = xcsize (xcompile q e).
Proof.
  induction e as [c|i|t a IHa b IHb|a IHa b IHb|a IHa b IHb|t a IHa|a IHa b IHb|a IHa b IHb|c IHc a IHa b IHb];
    intros p q; cbn [xcompile]; cbv zeta; rewrite ?csize_app; cbn [xcsize xisize]; rewrite ?csize_app; cbn [xcsize xisize];
    repeat match goal with
           | |- context [xcsize (xcompile ?x a)] => lazymatch x with 0 => fail | _ => rewrite (IHa x 0) end
           | |- context [xcsize (xcompile ?x b)] => lazymatch x with 0 => fail | _ => rewrite (IHb x 0) end
           | |- context [xcsize (xcompile ?x c)] => lazymatch x with 0 => fail | _ => rewrite (IHc x 0) end
           end; try reflexivity; try lia.
Qed.

Lemma esize_eq p e : xcsize (xcompile p e) = esize e.
Proof. unfold esize. apply xcompile_size. Qed.

Lemma scompile_size s : forall p brk cont, xcsize (scompile p brk cont s) = ssize s.
Proof.
  induction s as [|a IHa b IHb|i e|i e|e|c a IHa|c a IHa b IHb|c body IHb post IHp| | |e]; intros p brk cont; cbn [scompile ssize]; cbv zeta;
    rewrite ?csize_app; cbn [xcsize xisize]; rewrite ?csize_app; cbn [xcsize xisize]; rewrite ?esize_eq, ?IHa, ?IHb, ?IHp; lia.
Qed.

Lemma noctl_wf s : noctl s = true -> wf s = true.
Proof. induction s; cbn [noctl wf]; intro H; try reflexivity; try discriminate. apply andb_true_iff in H. destruct H as [H1 H2]. rewrite IHs1, IHs2; auto. Qed.

Lemma noctl_normal consts s : noctl s = true -> forall fuel locals o l', sexec fuel consts locals s = Ok (o, l') -> o = QNormal.
Proof.
  induction s as [|a IHa b IHb|i e|i e|e|c a IHa|c a IHa b IHb|c body IHb post IHp| | |e]; cbn [noctl]; intro H; try discriminate;
    intros [|fuel] locals o l'; cbn [sexec]; try discriminate.
  - intro E. inversion E. reflexivity.
  - apply andb_true_iff in H. destruct H as [H1 H2].
    destruct (sexec fuel consts locals a) as [[oa la]|ea| |] eqn:Ea; cbn [bind fst snd]; try discriminate.
    rewrite (IHa H1 _ _ _ _ Ea). apply (IHb H2).
  - destruct (xceval consts locals e) as [v| | |]; cbn [bind]; try discriminate. destruct (set_local locals i v); try discriminate. intro E. inversion E. reflexivity.
  - destruct (xceval consts locals e) as [v| | |]; cbn [bind]; try discriminate. destruct (set_local locals i v); try discriminate. intro E. inversion E. reflexivity.
  - destruct (xceval consts locals e); cbn [bind]; try discriminate. intro E. inversion E. reflexivity.
Qed.

Section Correct.
Variable consts : list pvalue.
Notation star := (mstar consts).

Definition final (p brk cont : Z) (s : cstmt) (o : sout) (l st : list pvalue) : mstate :=
  match o with
  | QNormal => XRunning (p + ssize s) l st
  | QBreak => XRunning brk l st
  | QContinue => XRunning cont l st
  | QReturn v => XReturned v
  end.

Definition sruns (fuel : nat) (code : list xinstr) (p brk cont : Z) (s : cstmt) (locals st : list pvalue) : Prop :=
  wf s = true ->
  match sexec fuel consts locals s with
  | Ok (o, l') => star code (XRunning p locals st) (final p brk cont s o l' st)
  | Err e => star code (XRunning p locals st) (XThrown e)
  | _ => True
  end.

(* an expression inside a larger code *)
Lemma expr_run code pre post e locals st :
  code = pre ++ xcompile (xcsize pre) e ++ post ->
  match xceval consts locals e with
  | Ok v => star code (XRunning (xcsize pre) locals st) (XRunning (xcsize pre + esize e) locals (v :: st))
  | Err er => star code (XRunning (xcsize pre) locals st) (XThrown er)
  | _ => True
  end.
Proof.
  intros ->. pose proof (compile_correct consts locals e pre post st) as H. unfold runs in H.
  rewrite esize_eq in H. exact H.
Qed.

Lemma one code pre i post pc locals st s :
  code = pre ++ i :: post -> pc = xcsize pre ->
  (xmstep consts code pc locals st = s) -> star code (XRunning pc locals st) s.
Proof. intros _ _ H. apply mstar_one. exact H. Qed.

Ltac usewf H :=
  unfold sruns in H;
  match type of H with
  | (?w = true -> _) => let W := fresh "W" in assert (W : w = true) by (first [assumption | apply noctl_wf; assumption]); specialize (H W); clear W
  end.

Ltac fetch pre' i' post' :=
  erewrite (step_fetch consts _ pre' i' post'); [| repeat match goal with x := _ |- _ => subst x end; rewrite <- ?app_assoc; cbn [app]; rewrite <- ?app_assoc; reflexivity
                                                 | repeat match goal with x := _ |- _ => subst x end;
                                                   rewrite ?csize_app; cbn [xcsize xisize]; rewrite ?csize_app, ?esize_eq, ?scompile_size; cbn [xcsize xisize];
                                                   rewrite ?csize_app, ?esize_eq, ?scompile_size; cbn [xcsize xisize]; lia];
  cbv beta iota.

Theorem scompile_correct : forall fuel s locals pre post brk cont st,
  sruns fuel (pre ++ scompile (xcsize pre) brk cont s ++ post) (xcsize pre) brk cont s locals st.
Proof.
  induction fuel as [|fuel IH]; intros s locals pre post brk cont st; unfold sruns; intro Hwf; [exact I|].
  set (p := xcsize pre).
  destruct s as [|a b|i e|i e|e|c a|c a b|c body pst| | |e]; cbn [sexec scompile]; cbv zeta; cbn [wf] in Hwf;
    repeat match goal with H : _ && _ = true |- _ => apply andb_true_iff in H; let H1 := fresh "Hwf" in destruct H as [H H1] end.
  - (* skip *) cbn [final ssize app]. replace (p + 0) with p by lia. apply MRefl.
  - (* sequence *)
    pose proof (IH a locals pre (scompile (p + ssize a) brk cont b ++ post) brk cont st) as Ha. usewf Ha. fold p in Ha.
    replace (pre ++ (scompile p brk cont a ++ scompile (p + ssize a) brk cont b) ++ post)
      with (pre ++ scompile p brk cont a ++ scompile (p + ssize a) brk cont b ++ post) by (rewrite <- !app_assoc; reflexivity).
    destruct (sexec fuel consts locals a) as [[oa la]|ea| |]; cbn [bind fst snd]; try exact I; [|exact Ha].
    destruct oa; try exact Ha.
    pose proof (IH b la (pre ++ scompile p brk cont a) post brk cont st) as Hb. usewf Hb.
    rewrite csize_app, scompile_size in Hb. fold p in Hb. rewrite <- app_assoc in Hb.
    destruct (sexec fuel consts la b) as [[ob lb]|eb| |]; try exact I.
    + eapply mstar_trans; [exact Ha|]. cbn [final] in *. destruct ob; cbn [final ssize] in *; try exact Hb.
      replace (p + (ssize a + ssize b)) with (p + ssize a + ssize b) by lia. exact Hb.
    + eapply mstar_trans; [exact Ha|]. exact Hb.
  - (* x = e *)
    pose proof (expr_run (pre ++ (xcompile p e ++ [XISetLocal i]) ++ post) pre ([XISetLocal i] ++ post) e locals st) as He. fold p in He.
    rewrite <- app_assoc in He. specialize (He eq_refl).
    destruct (xceval consts locals e) as [v|er| |]; cbn [bind]; try exact I; [|rewrite <- app_assoc; exact He].
    destruct (set_local locals i v) as [l'|] eqn:Es; [|exact I].
    rewrite <- app_assoc. eapply mstar_trans; [exact He|]. apply mstar_one.
    fetch (pre ++ xcompile p e) (XISetLocal i) post. rewrite Es. cbn [final ssize]. f_equal. lia.
  - (* x := e *)
    pose proof (expr_run (pre ++ (xcompile p e ++ [XIDefineLocal i]) ++ post) pre ([XIDefineLocal i] ++ post) e locals st) as He. fold p in He.
    rewrite <- app_assoc in He. specialize (He eq_refl).
    destruct (xceval consts locals e) as [v|er| |]; cbn [bind]; try exact I; [|rewrite <- app_assoc; exact He].
    destruct (set_local locals i v) as [l'|] eqn:Es; [|exact I].
    rewrite <- app_assoc. eapply mstar_trans; [exact He|]. apply mstar_one.
    fetch (pre ++ xcompile p e) (XIDefineLocal i) post. rewrite Es. cbn [final ssize]. f_equal. lia.
  - (* expression statement *)
    pose proof (expr_run (pre ++ (xcompile p e ++ [XIPop]) ++ post) pre ([XIPop] ++ post) e locals st) as He. fold p in He.
    rewrite <- app_assoc in He. specialize (He eq_refl).
    destruct (xceval consts locals e) as [v|er| |]; cbn [bind]; try exact I; [|rewrite <- app_assoc; exact He].
    rewrite <- app_assoc. eapply mstar_trans; [exact He|]. apply mstar_one.
    fetch (pre ++ xcompile p e) XIPop post. cbn [final ssize]. f_equal. lia.
  - (* if without else *)
    set (lend := p + esize c + 5 + ssize a). set (la := p + esize c + 5).
    pose proof (expr_run (pre ++ (xcompile p c ++ XIJumpFalsy lend :: scompile la brk cont a) ++ post) pre
                         (XIJumpFalsy lend :: scompile la brk cont a ++ post) c locals st) as Hc. fold p in Hc.
    rewrite <- app_assoc in Hc. specialize (Hc eq_refl).
    replace (pre ++ (xcompile p c ++ XIJumpFalsy lend :: scompile la brk cont a) ++ post)
      with (pre ++ xcompile p c ++ XIJumpFalsy lend :: scompile la brk cont a ++ post) by (rewrite <- !app_assoc; reflexivity).
    destruct (xceval consts locals c) as [vc|er| |]; cbn [bind]; try exact I; [|exact Hc].
    unfold xtruthy. destruct (is_falsy vc) as [[|]|] eqn:Ef; cbn [bind negb].
    + (* falsy: jump over the body *)
      eapply mstar_trans; [exact Hc|]. apply mstar_one.
      fetch (pre ++ xcompile p c) (XIJumpFalsy lend) (scompile la brk cont a ++ post). rewrite Ef. cbn [final ssize]. f_equal. unfold lend. lia.
    + pose proof (IH a locals (pre ++ xcompile p c ++ [XIJumpFalsy lend]) post brk cont st) as Ha. usewf Ha.
      rewrite !csize_app, esize_eq in Ha. cbn [xcsize xisize] in Ha. fold p in Ha.
      replace (p + (esize c + (5 + 0))) with la in Ha by (unfold la; lia).
      replace ((pre ++ xcompile p c ++ [XIJumpFalsy lend]) ++ scompile la brk cont a ++ post)
        with (pre ++ xcompile p c ++ XIJumpFalsy lend :: scompile la brk cont a ++ post) in Ha by (rewrite <- !app_assoc; reflexivity).
      destruct (sexec fuel consts locals a) as [[oa l']|ea| |]; try exact I.
      * eapply mstar_trans; [exact Hc|]. eapply MStep.
        fetch (pre ++ xcompile p c) (XIJumpFalsy lend) (scompile la brk cont a ++ post). rewrite Ef.
        replace (p + esize c + 5) with la by (unfold la; lia).
        destruct oa; cbn [final ssize] in *; try exact Ha.
        replace (p + (esize c + 5 + ssize a)) with (la + ssize a) by (unfold la; lia). exact Ha.
      * eapply mstar_trans; [exact Hc|]. eapply MStep.
        fetch (pre ++ xcompile p c) (XIJumpFalsy lend) (scompile la brk cont a ++ post). rewrite Ef.
        replace (p + esize c + 5) with la by (unfold la; lia). exact Ha.
    + eapply mstar_trans; [exact Hc|]. apply mstar_one.
      fetch (pre ++ xcompile p c) (XIJumpFalsy lend) (scompile la brk cont a ++ post). rewrite Ef. reflexivity.
  - (* if with else *)
    set (l2 := p + esize c + 5 + ssize a + 5 + ssize b). set (l1 := p + esize c + 5 + ssize a + 5). set (la := p + esize c + 5).
    set (ca := scompile la brk cont a). set (cb := scompile l1 brk cont b).
    assert (Hcode: pre ++ (xcompile p c ++ XIJumpFalsy l1 :: ca ++ XIJump l2 :: cb) ++ post
                 = pre ++ xcompile p c ++ XIJumpFalsy l1 :: ca ++ XIJump l2 :: cb ++ post)
      by (rewrite <- !app_assoc; cbn [app]; rewrite <- ?app_assoc; reflexivity).
    rewrite Hcode.
    pose proof (expr_run _ pre (XIJumpFalsy l1 :: ca ++ XIJump l2 :: cb ++ post) c locals st eq_refl) as Hc. fold p in Hc.
    destruct (xceval consts locals c) as [vc|er| |]; cbn [bind]; try exact I; [|exact Hc].
    unfold xtruthy. destruct (is_falsy vc) as [[|]|] eqn:Ef; cbn [bind negb].
    + (* falsy: the else branch *)
      pose proof (IH b locals (pre ++ xcompile p c ++ XIJumpFalsy l1 :: ca ++ [XIJump l2]) post brk cont st) as Hb. usewf Hb.
      assert (Hp: xcsize (pre ++ xcompile p c ++ XIJumpFalsy l1 :: ca ++ [XIJump l2]) = l1).
      { rewrite !csize_app. cbn [xcsize xisize]. rewrite csize_app. cbn [xcsize xisize]. unfold ca. rewrite esize_eq, scompile_size. fold p. unfold l1. lia. }
      rewrite Hp in Hb. fold cb in Hb.
      replace ((pre ++ xcompile p c ++ XIJumpFalsy l1 :: ca ++ [XIJump l2]) ++ cb ++ post)
        with (pre ++ xcompile p c ++ XIJumpFalsy l1 :: ca ++ XIJump l2 :: cb ++ post) in Hb by (rewrite <- !app_assoc; cbn [app]; rewrite <- ?app_assoc; reflexivity).
      destruct (sexec fuel consts locals b) as [[ob l']|eb| |]; try exact I.
      * eapply mstar_trans; [exact Hc|]. eapply MStep.
        fetch (pre ++ xcompile p c) (XIJumpFalsy l1) (ca ++ XIJump l2 :: cb ++ post). rewrite Ef.
        destruct ob; cbn [final ssize] in *; try exact Hb.
        replace (p + (esize c + 5 + ssize a + 5 + ssize b)) with (l1 + ssize b) by (unfold l1; lia). exact Hb.
      * eapply mstar_trans; [exact Hc|]. eapply MStep.
        fetch (pre ++ xcompile p c) (XIJumpFalsy l1) (ca ++ XIJump l2 :: cb ++ post). rewrite Ef. exact Hb.
    + (* truthy: the then branch, then jump over the else branch *)
      pose proof (IH a locals (pre ++ xcompile p c ++ [XIJumpFalsy l1]) (XIJump l2 :: cb ++ post) brk cont st) as Ha. usewf Ha.
      rewrite !csize_app, esize_eq in Ha. cbn [xcsize xisize] in Ha. fold p in Ha.
      replace (p + (esize c + (5 + 0))) with la in Ha by (unfold la; lia). fold ca in Ha.
      replace ((pre ++ xcompile p c ++ [XIJumpFalsy l1]) ++ ca ++ XIJump l2 :: cb ++ post)
        with (pre ++ xcompile p c ++ XIJumpFalsy l1 :: ca ++ XIJump l2 :: cb ++ post) in Ha by (rewrite <- !app_assoc; reflexivity).
      destruct (sexec fuel consts locals a) as [[oa l']|ea| |]; try exact I.
      * eapply mstar_trans; [exact Hc|]. eapply MStep.
        fetch (pre ++ xcompile p c) (XIJumpFalsy l1) (ca ++ XIJump l2 :: cb ++ post). rewrite Ef.
        replace (p + esize c + 5) with la by (unfold la; lia).
        destruct oa; cbn [final ssize] in *; try exact Ha.
        eapply mstar_trans; [exact Ha|]. apply mstar_one.
        fetch (pre ++ xcompile p c ++ XIJumpFalsy l1 :: ca) (XIJump l2) (cb ++ post).
        f_equal. unfold l2. lia.
      * eapply mstar_trans; [exact Hc|]. eapply MStep.
        fetch (pre ++ xcompile p c) (XIJumpFalsy l1) (ca ++ XIJump l2 :: cb ++ post). rewrite Ef.
        replace (p + esize c + 5) with la by (unfold la; lia). exact Ha.
    + eapply mstar_trans; [exact Hc|]. apply mstar_one.
      fetch (pre ++ xcompile p c) (XIJumpFalsy l1) (ca ++ XIJump l2 :: cb ++ post). rewrite Ef. reflexivity.
  - (* for loop *)
    set (lend := p + esize c + 5 + ssize body + ssize pst + 5). set (lpost := p + esize c + 5 + ssize body). set (lbody := p + esize c + 5).
    set (cbody := scompile lbody lend lpost body). set (cpost := scompile lpost lend lpost pst).
    assert (Hcode: pre ++ (xcompile p c ++ XIJumpFalsy lend :: cbody ++ cpost ++ [XIJump p]) ++ post
                 = pre ++ xcompile p c ++ XIJumpFalsy lend :: cbody ++ cpost ++ XIJump p :: post)
      by (rewrite <- !app_assoc; cbn [app]; rewrite <- ?app_assoc; reflexivity).
    assert (Hloop: forall lcs, sruns fuel (pre ++ xcompile p c ++ XIJumpFalsy lend :: cbody ++ cpost ++ XIJump p :: post) p brk cont (TFor c body pst) lcs st).
    { intro lcs. pose proof (IH (TFor c body pst) lcs pre post brk cont st) as H. cbn [scompile] in H. cbv zeta in H. rewrite <- Hcode. exact H. }
    assert (Wfor: wf (TFor c body pst) = true) by (cbn [wf]; rewrite Hwf, Hwf0, Hwf1; reflexivity).
    rewrite Hcode. set (code := pre ++ xcompile p c ++ XIJumpFalsy lend :: cbody ++ cpost ++ XIJump p :: post) in *.
    pose proof (expr_run code pre (XIJumpFalsy lend :: cbody ++ cpost ++ XIJump p :: post) c locals st eq_refl) as Hc. fold p in Hc.
    destruct (xceval consts locals c) as [vc|er| |]; cbn [bind]; try exact I; [|exact Hc].
    unfold xtruthy. destruct (is_falsy vc) as [[|]|] eqn:Ef; cbn [bind negb].
    + (* condition false: leave the loop *)
      eapply mstar_trans; [exact Hc|]. apply mstar_one.
      fetch (pre ++ xcompile p c) (XIJumpFalsy lend) (cbody ++ cpost ++ XIJump p :: post). rewrite Ef. cbn [final ssize].
      f_equal. unfold lend. lia.
    + (* one iteration *)
      assert (Hstep: star code (XRunning (p + esize c) locals (vc :: st)) (XRunning lbody locals st)).
      { apply mstar_one. fetch (pre ++ xcompile p c) (XIJumpFalsy lend) (cbody ++ cpost ++ XIJump p :: post). rewrite Ef. f_equal. }
      pose proof (IH body locals (pre ++ xcompile p c ++ [XIJumpFalsy lend]) (cpost ++ XIJump p :: post) lend lpost st) as Hb. usewf Hb.
      assert (Hpb: xcsize (pre ++ xcompile p c ++ [XIJumpFalsy lend]) = lbody).
      { rewrite !csize_app, esize_eq. cbn [xcsize xisize]. fold p. unfold lbody. lia. }
      rewrite Hpb in Hb. fold cbody in Hb.
      replace ((pre ++ xcompile p c ++ [XIJumpFalsy lend]) ++ cbody ++ cpost ++ XIJump p :: post) with code in Hb
        by (unfold code; rewrite <- !app_assoc; reflexivity).
      destruct (sexec fuel consts locals body) as [[ob lb]|eb| |]; cbn [bind fst snd]; try exact I;
        [|eapply mstar_trans; [exact Hc|]; eapply mstar_trans; [exact Hstep | exact Hb]].
      assert (Hpp: xcsize (pre ++ xcompile p c ++ XIJumpFalsy lend :: cbody) = lpost).
      { rewrite !csize_app. cbn [xcsize xisize]. unfold cbody. rewrite esize_eq, scompile_size. fold p. unfold lpost. lia. }
      (* after the body (normal end or continue): post statement, jump back, the rest of the loop *)
      assert (Hrest: star code (XRunning lpost lb st)
                       (match (do r2 <- sexec fuel consts lb pst;
                               match fst r2 with
                               | QNormal => sexec fuel consts (snd r2) (TFor c body pst)
                               | o => Ok (o, snd r2)
                               end) with
                        | Ok (o, l') => final p brk cont (TFor c body pst) o l' st
                        | Err e => XThrown e
                        | _ => XRunning lpost lb st
                        end)).
      { pose proof (IH pst lb (pre ++ xcompile p c ++ XIJumpFalsy lend :: cbody) (XIJump p :: post) lend lpost st) as Hp. usewf Hp.
        rewrite Hpp in Hp. fold cpost in Hp.
        assert (Hce: (pre ++ xcompile p c ++ XIJumpFalsy lend :: cbody) ++ cpost ++ XIJump p :: post = code).
        { unfold code. rewrite <- !app_assoc. cbn [app]. rewrite <- ?app_assoc. reflexivity. }
        rewrite Hce in Hp.
        destruct (sexec fuel consts lb pst) as [[op lp]|ep| |] eqn:Ep; cbn [bind fst snd]; try apply MRefl; [|exact Hp].
        assert (Hn: op = QNormal) by (eapply noctl_normal; [|exact Ep]; assumption). subst op. cbn [final] in Hp.
        (* back to the condition *)
          assert (Hj: star code (XRunning (lpost + ssize pst) lp st) (XRunning p lp st)).
          { apply mstar_one. fetch (pre ++ xcompile p c ++ XIJumpFalsy lend :: cbody ++ cpost) (XIJump p) post. reflexivity. }
          pose proof (Hloop lp Wfor) as Hl2.
          destruct (sexec fuel consts lp (TFor c body pst)) as [[o2 l2]|e2| |]; try apply MRefl.
          + eapply mstar_trans; [exact Hp|]. eapply mstar_trans; [exact Hj | exact Hl2].
          + eapply mstar_trans; [exact Hp|]. eapply mstar_trans; [exact Hj | exact Hl2]. }
      destruct ob; cbn [final] in Hb.
      * (* body ended normally *)
        replace (lbody + ssize body) with lpost in Hb by (unfold lpost; lia).
        destruct (do r2 <- sexec fuel consts lb pst; match fst r2 with QNormal => sexec fuel consts (snd r2) (TFor c body pst) | o => Ok (o, snd r2) end)
          as [[o l']|e| |]; try exact I;
          (eapply mstar_trans; [exact Hc|]; eapply mstar_trans; [exact Hstep|]; eapply mstar_trans; [exact Hb | exact Hrest]).
      * (* break *)
        cbn [final ssize]. eapply mstar_trans; [exact Hc|]. eapply mstar_trans; [exact Hstep|].
        replace (p + (esize c + 5 + ssize body + ssize pst + 5)) with lend by (unfold lend; lia). exact Hb.
      * (* continue *)
        destruct (do r2 <- sexec fuel consts lb pst; match fst r2 with QNormal => sexec fuel consts (snd r2) (TFor c body pst) | o => Ok (o, snd r2) end)
          as [[o l']|e| |]; try exact I;
          (eapply mstar_trans; [exact Hc|]; eapply mstar_trans; [exact Hstep|]; eapply mstar_trans; [exact Hb | exact Hrest]).
      * (* return *)
        cbn [final]. eapply mstar_trans; [exact Hc|]. eapply mstar_trans; [exact Hstep | exact Hb].
    + eapply mstar_trans; [exact Hc|]. apply mstar_one.
      fetch (pre ++ xcompile p c) (XIJumpFalsy lend) (cbody ++ cpost ++ XIJump p :: post). rewrite Ef. reflexivity.
  - (* break *) apply mstar_one. cbn [app]. fetch pre (XIJump brk) post. reflexivity.
  - (* continue *) apply mstar_one. cbn [app]. fetch pre (XIJump cont) post. reflexivity.
  - (* return *)
    pose proof (expr_run (pre ++ (xcompile p e ++ [XIReturn]) ++ post) pre ([XIReturn] ++ post) e locals st) as He. fold p in He.
    rewrite <- app_assoc in He. specialize (He eq_refl).
    destruct (xceval consts locals e) as [v|er| |]; cbn [bind]; try exact I; [|rewrite <- app_assoc; exact He].
    rewrite <- app_assoc. eapply mstar_trans; [exact He|]. apply mstar_one.
    fetch (pre ++ xcompile p e) XIReturn post. reflexivity.
Qed.
End Correct.

(* a whole function body: code at position 0, empty stack *)
Theorem function_body_correct consts fuel s locals : wf s = true ->
  match sexec fuel consts locals s with
  | Ok (QReturn v, _) => mstar consts (scompile 0 0 0 s) (XRunning 0 locals []) (XReturned v)
  | Ok (QNormal, l') => mstar consts (scompile 0 0 0 s) (XRunning 0 locals []) (XRunning (ssize s) l' [])
  | Ok (_, _) => True          (* break / continue outside a loop: rejected by the real compiler *)
  | Err e => mstar consts (scompile 0 0 0 s) (XRunning 0 locals []) (XThrown e)
  | _ => True
  end.
Proof.
  intro Hwf. pose proof (scompile_correct consts fuel s locals [] [] 0 0 [] Hwf) as H.
  cbn [xcsize app] in H. rewrite app_nil_r in H.
  destruct (sexec fuel consts locals s) as [[o l']|e| |]; try exact I; [|exact H].
  destruct o; cbn [final] in H; try exact I; exact H.
Qed.
