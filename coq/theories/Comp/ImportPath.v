(* Names of file modules (importers/importers.go: FileImporter.Name, Fork; Go's path/filepath Clean,
   Join, IsAbs, Abs on a Unix system).  Property C12: the compiler's module store is keyed by the
   name the importer returns, so one file must get one name however the import is spelled.

   A path is handled as the list of its elements between the separators (the driver splits a path
   string at every '/' and joins the result with '/'): "" and "." elements are skipped, ".." removes
   the element before it, at the root it is dropped, in a relative path it is kept in front. *)
From Coq Require Import List Bool String.
Import ListNotations.
Local Open Scope string_scope.

Record path := { p_abs : bool; p_segs : list string }.

Definition is_skip (s : string) : bool := String.eqb s "" || String.eqb s ".".
Definition is_up (s : string) : bool := String.eqb s "..".

(* the stack of elements (innermost first) after walking l from the stack acc *)
Fixpoint walk (acc : list string) (abs : bool) (l : list string) : list string :=
  match l with
  | [] => acc
  | s :: r =>
      if is_skip s then walk acc abs r
      else if is_up s then
        match acc with
        | a :: acc' => if is_up a then walk (s :: acc) abs r else walk acc' abs r
        | [] => if abs then walk [] abs r else walk [s] abs r
        end
      else walk (s :: acc) abs r
  end.

Definition norm (abs : bool) (l : list string) : list string := rev (walk [] abs l).

(* filepath.Clean *)
Definition clean (p : path) : path := {| p_abs := p_abs p; p_segs := norm (p_abs p) (p_segs p) |}.

(* filepath.Join(a, b) for a relative b (an empty a contributes the element "", which is skipped) *)
Definition join (a b : path) : path :=
  {| p_abs := p_abs a; p_segs := norm (p_abs a) (p_segs a ++ p_segs b) |}.

(* filepath.Abs in the process directory cwd *)
Definition abs_path (cwd p : path) : path := if p_abs p then clean p else join cwd p.

(* FileImporter.Name for the work directory wd and the import name (not empty) *)
Definition fi_name (cwd wd name : path) : path :=
  if p_abs name then clean name else abs_path cwd (join wd name).

(* FileImporter.Fork: the work directory of a module is the directory of its name *)
Definition fi_fork (name : path) : path :=
  {| p_abs := p_abs name; p_segs := removelast (p_segs name) |}.

(* ---- specification: the place an import denotes ----
   Start at the root, walk through the process directory, the work directory and the import name
   (an absolute work directory or name starts again at the root). *)
Definition resolve (cwd wd name : path) : list string :=
  if p_abs name then norm true (p_segs name)
  else if p_abs wd then norm true (p_segs wd ++ p_segs name)
  else norm true (p_segs cwd ++ p_segs wd ++ p_segs name).
