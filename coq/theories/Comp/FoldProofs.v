(* Soundness of the folding tables against the operator model (C01). *)
From Coq Require Import List ZArith Bool Lia Floats.SpecFloat.
From Ugo Require Import Base.Res Base.GoInt Base.GoFloat Value.PValue Value.Ops Comp.Fold.
Import ListNotations.
Local Open Scope Z_scope.

(* whatever the table folds is what the VM computes at run time *)
Theorem fold_binop_sound t l r e :
  fold_binop t l r = Some e -> binop t (lit_value l) (lit_value r) = Ok (lit_value e).
Proof.
  destruct l as [a|a|a|a|a|a| ], r as [b|b|b|b|b|b| ]; simpl; try discriminate.
  - (* ints *)
    unfold fold_binop_ints, int_int_binop, int_binop. destruct t; try discriminate;
      try (intros H; inversion H; subst; reflexivity).
    + destruct (b =? 0); [discriminate|]. intros H; inversion H; reflexivity.
    + destruct (b =? 0); [discriminate|]. intros H; inversion H; reflexivity.
    + cbn [andb]. destruct (b <? 0); [discriminate|]. intros H; inversion H; reflexivity.
    + cbn [andb]. destruct (b <? 0); [discriminate|]. intros H; inversion H; reflexivity.
  - (* floats *)
    unfold fold_binop_floats, float_float_binop. destruct t; try discriminate;
      try (intros H; inversion H; subst; reflexivity).
    destruct (feqb b (S754_zero false)); [discriminate|]. intros H; inversion H; reflexivity.
  - (* strings *)
    destruct t; try discriminate. intros H; inversion H; reflexivity.
Qed.

Theorem fold_unop_sound t x e :
  fold_unop t x = Some e -> unop t (lit_value x) = Ok (lit_value e).
Proof.
  destruct x as [a|a|a|a|a|a| ]; simpl; try discriminate; destruct t; try discriminate;
    intros H; inversion H; subst; reflexivity.
Qed.

(* the table never folds where the VM raises an error: a refused fold leaves the expression
   to be evaluated (and possibly rejected) by the evaluator, it is never turned into a value *)
Theorem fold_binop_only_ok t l r e :
  fold_binop t l r = Some e -> exists v, binop t (lit_value l) (lit_value r) = Ok v.
Proof. intros H. eexists. apply fold_binop_sound. exact H. Qed.

(* literal conditions: the rewrite to a BoolLit agrees with run-time truthiness *)
Theorem literal_falsy_sound e : is_falsy (lit_value e) = Some (is_literal_falsy e).
Proof. destruct e; reflexivity. Qed.

