From Coq Require Import List ZArith Bool Floats.SpecFloat Lia.
From Ugo Require Import Base.Res Value.PValue Value.Ops Comp.Fold Comp.FoldExpr.
Import ListNotations.
Local Open Scope Z_scope.

Lemma bstr_eqb_eq a : forall b, bstr_eqb a b = true -> a = b.
Proof.
  induction a as [|x a IH]; intros [|y b] H; cbn in H; try discriminate; [reflexivity|].
  apply andb_prop in H as [H1 H2]. apply Byte.byte_dec_bl in H1. subst y. f_equal. apply IH. exact H2.
Qed.

Lemma sf_eqb_eq a b : sf_eqb a b = true -> a = b.
Proof.
  destruct a, b; cbn; intro H; try discriminate; try reflexivity.
  - apply eqb_prop in H. subst. reflexivity.
  - apply eqb_prop in H. subst. reflexivity.
  - apply andb_prop in H as [H H3]. apply andb_prop in H as [H1 H2].
    apply eqb_prop in H1. apply Pos.eqb_eq in H2. apply Z.eqb_eq in H3. subst. reflexivity.
Qed.

Lemma lit_eqb_eq a b : lit_eqb a b = true -> a = b.
Proof.
  destruct a, b; cbn; intro H; try discriminate; try reflexivity;
    try (apply Z.eqb_eq in H; subst; reflexivity).
  - apply sf_eqb_eq in H. subst. reflexivity.
  - apply bstr_eqb_eq in H. subst. reflexivity.
  - apply eqb_prop in H. subst. reflexivity.
Qed.

Lemma tok_eqb_eq a b : tok_eqb a b = true -> a = b.
Proof. destruct a, b; cbn; intro H; try discriminate; reflexivity. Qed.

Lemma value_is_lit_sound v l : value_is_lit v l = true -> v = lit_value l.
Proof.
  destruct v, l; cbn; intro H; try discriminate; try reflexivity;
    try (apply Z.eqb_eq in H; subst; reflexivity).
  - apply eqb_prop in H. subst. reflexivity.
  - apply sf_eqb_eq in H. subst. reflexivity.
  - apply bstr_eqb_eq in H. subst. reflexivity.
Qed.

(* constant evaluation is evaluation: the outcome does not depend on the locals *)
Lemma ceval_sound e : forall r locals, ceval e = Some r -> oeval locals e = r.
Proof.
  induction e as [l|i|t a IHa b IHb|a IHa b IHb|a IHa b IHb|t a IHa|a IHa b IHb|a IHa b IHb|c IHc a IHa b IHb|id];
    intros r locals H; cbn [ceval] in H; try discriminate; cbn [oeval].
  - inversion H. reflexivity.
  - destruct (ceval a) as [[va| | |]|] eqn:Ea; cbn [cbind] in H; try discriminate;
      rewrite (IHa _ locals eq_refl); try (inversion H; reflexivity).
    destruct (ceval b) as [[vb| | |]|] eqn:Eb; cbn [cbind] in H; try discriminate;
      cbn [bind]; rewrite (IHb _ locals eq_refl); inversion H; reflexivity.
  - destruct (ceval a) as [[va| | |]|] eqn:Ea; cbn [cbind] in H; try discriminate;
      rewrite (IHa _ locals eq_refl); try (inversion H; reflexivity).
    destruct (ceval b) as [[vb| | |]|] eqn:Eb; cbn [cbind] in H; try discriminate;
      cbn [bind]; rewrite (IHb _ locals eq_refl); inversion H; reflexivity.
  - destruct (ceval a) as [[va| | |]|] eqn:Ea; cbn [cbind] in H; try discriminate;
      rewrite (IHa _ locals eq_refl); try (inversion H; reflexivity).
    destruct (ceval b) as [[vb| | |]|] eqn:Eb; cbn [cbind] in H; try discriminate;
      cbn [bind]; rewrite (IHb _ locals eq_refl); inversion H; reflexivity.
  - destruct (ceval a) as [[va| | |]|] eqn:Ea; cbn [cbind] in H; try discriminate;
      rewrite (IHa _ locals eq_refl); inversion H; reflexivity.
  - destruct (ceval a) as [[va| | |]|] eqn:Ea; cbn [cbind] in H; try discriminate;
      rewrite (IHa _ locals eq_refl); try (inversion H; reflexivity).
    cbn [bind]. unfold ctruth in H. destruct (otruthy va) as [[|]| | |]; cbn [bind]; try (inversion H; reflexivity).
    apply IHb. exact H.
  - destruct (ceval a) as [[va| | |]|] eqn:Ea; cbn [cbind] in H; try discriminate;
      rewrite (IHa _ locals eq_refl); try (inversion H; reflexivity).
    cbn [bind]. unfold ctruth in H. destruct (otruthy va) as [[|]| | |]; cbn [bind]; try (inversion H; reflexivity).
    apply IHb. exact H.
  - destruct (ceval c) as [[vc| | |]|] eqn:Ec; cbn [cbind] in H; try discriminate;
      rewrite (IHc _ locals eq_refl); try (inversion H; reflexivity).
    cbn [bind]. unfold ctruth in H. destruct (otruthy vc) as [[|]| | |]; cbn [bind]; try (inversion H; reflexivity).
    + apply IHa. exact H.
    + apply IHb. exact H.
Qed.

Lemma const_value_sound e l locals : const_value_is e l = true -> oeval locals e = Ok (lit_value l).
Proof.
  unfold const_value_is. intro H. destruct (ceval e) as [[v| | |]|] eqn:E; try discriminate.
  rewrite (ceval_sound e _ locals E). apply value_is_lit_sound in H. subst. reflexivity.
Qed.

Lemma const_truth_sound c b locals :
  const_truth_is c b = true -> exists v, oeval locals c = Ok v /\ otruthy v = Ok b.
Proof.
  unfold const_truth_is. intro H. destruct (ceval c) as [[v| | |]|] eqn:E; try discriminate.
  exists v. split; [apply (ceval_sound c _ locals E)|]. destruct (otruthy v) as [t| | |]; try discriminate.
  apply eqb_prop in H. subst. reflexivity.
Qed.

(* the validator is sound: related trees have the same outcome for all values of the variables *)
Theorem fold_ok_sound e : forall e' locals, fold_ok e e' = true -> oeval locals e' = oeval locals e.
Proof.
  induction e as [l|i|t a IHa b IHb|a IHa b IHb|a IHa b IHb|t a IHa|a IHa b IHb|a IHa b IHb|c IHc a IHa b IHb|id];
    intros e' locals H; cbn [fold_ok] in H; apply orb_prop in H as [H|H];
    try (destruct e' as [l'| | | | | | | | |]; try discriminate;
         rewrite (const_value_sound _ _ locals H); reflexivity).
  - destruct e'; try discriminate. apply lit_eqb_eq in H. subst. reflexivity.
  - destruct e'; try discriminate. apply Nat.eqb_eq in H. subst. reflexivity.
  - destruct e' as [| |t' a' b'| | | | | | |]; try discriminate.
    apply andb_prop in H as [H Hb]. apply andb_prop in H as [Ht Ha]. apply tok_eqb_eq in Ht. subst t'.
    cbn [oeval]. rewrite (IHa _ locals Ha), (IHb _ locals Hb). reflexivity.
  - destruct e' as [| | |a' b'| | | | | |]; try discriminate.
    apply andb_prop in H as [Ha Hb]. cbn [oeval]. rewrite (IHa _ locals Ha), (IHb _ locals Hb). reflexivity.
  - destruct e' as [| | | |a' b'| | | | |]; try discriminate.
    apply andb_prop in H as [Ha Hb]. cbn [oeval]. rewrite (IHa _ locals Ha), (IHb _ locals Hb). reflexivity.
  - destruct e' as [| | | | |t' a'| | | |]; try discriminate.
    apply andb_prop in H as [Ht Ha]. apply tok_eqb_eq in Ht. subst t'.
    cbn [oeval]. rewrite (IHa _ locals Ha). reflexivity.
  - destruct e' as [| | | | | |a' b'| | |]; try discriminate.
    apply andb_prop in H as [Ha Hb]. cbn [oeval]. rewrite (IHa _ locals Ha), (IHb _ locals Hb). reflexivity.
  - destruct e' as [| | | | | | |a' b'| |]; try discriminate.
    apply andb_prop in H as [Ha Hb]. cbn [oeval]. rewrite (IHa _ locals Ha), (IHb _ locals Hb). reflexivity.
  - destruct e' as [| | | | | | | |c' a' b'|]; try discriminate.
    apply andb_prop in H as [H Hb]. apply andb_prop in H as [Hc Ha].
    cbn [oeval]. rewrite (IHa _ locals Ha), (IHb _ locals Hb).
    apply orb_prop in Hc as [Hc|Hc].
    + rewrite (IHc _ locals Hc). reflexivity.
    + destruct c' as [[| | | |bv| |]| | | | | | | | |]; try discriminate.
      destruct (const_truth_sound _ _ locals Hc) as (v & Ev & Et). rewrite Ev.
      cbn [oeval lit_value bind]. rewrite Et.
      unfold otruthy at 1. cbn [is_falsy]. rewrite negb_involutive. cbn [bind]. reflexivity.
  - destruct e'; try discriminate. reflexivity.
Qed.

(* a justified refusal: the script has a sub-expression whose evaluation fails whatever the values of the variables *)
Lemma const_error_witness e :
  const_error e = true ->
  exists s, In s (subexprs e) /\ (forall locals, match oeval locals s with Ok _ => False | _ => True end).
Proof.
  induction e as [l|i|t a IHa b IHb|a IHa b IHb|a IHa b IHb|t a IHa|a IHa b IHb|a IHa b IHb|c IHc a IHa b IHb|id];
    intro H; cbn [const_error] in H; apply orb_prop in H as [H|H];
    try (match goal with
         | H : match ceval ?s with _ => _ end = true |- _ =>
             destruct (ceval s) as [[v| | |]|] eqn:E; try discriminate;
             exists s; (split; [left; reflexivity | intro locals; rewrite (ceval_sound s _ locals E); exact I])
         end);
    try discriminate;
    repeat match goal with
           | H : _ || _ = true |- _ => apply orb_prop in H; destruct H
           end;
    match goal with
    | H : const_error ?x = true, IH : const_error ?x = true -> _ |- _ =>
        destruct (IH H) as (s & Hin & Hs); exists s; split; [|exact Hs];
        cbn [subexprs]; right; repeat (apply in_or_app; first [left; exact Hin | right]); try exact Hin
    end.
Qed.
