(* Model of symbol_table.go as a state machine over its exported operations.
   The tables on the path root .. current form a stack (head = current table); this is how
   the compiler uses them (Fork on entering a scope, Parent on leaving it). Definitions only. *)
From Coq Require Import List ZArith Bool String.
From Ugo Require Import Gen.Builtins.
Import ListNotations.
Local Open Scope Z_scope.

Inductive scope := ScGlobal | ScLocal | ScBuiltin | ScFree | ScConstLit.

Record symbol := { s_name : string; s_index : Z; s_scope : scope; s_const : bool }.

Record table := {
  t_store : list (string * symbol);
  t_disabled : list string;          (* meaningful in the root table only *)
  t_frees : list symbol;
  t_shadowed : list string;
  t_numdef : Z; t_maxdef : Z; t_numparams : Z;
  t_block : bool; t_disable_params : bool
}.

Definition stack := list table.

Definition empty_table (block dis : bool) : table :=
  {| t_store := []; t_disabled := []; t_frees := []; t_shadowed := []; t_numdef := 0; t_maxdef := 0;
     t_numparams := 0; t_block := block; t_disable_params := dis |}.

Definition new_symbol_table : stack := [empty_table false false].

Fixpoint lookup (n : string) (m : list (string * symbol)) : option symbol :=
  match m with
  | [] => None
  | (k, v) :: r => if String.eqb n k then Some v else lookup n r
  end.

Fixpoint remove (n : string) (m : list (string * symbol)) : list (string * symbol) :=
  match m with
  | [] => []
  | (k, v) :: r => if String.eqb n k then remove n r else (k, v) :: remove n r
  end.

Definition mem (n : string) (l : list string) : bool := existsb (String.eqb n) l.

Fixpoint builtin_index (n : string) (m : list (string * Z)) : option Z :=
  match m with
  | [] => None
  | (k, v) :: r => if String.eqb n k then Some v else builtin_index n r
  end.
Definition is_builtin_name (n : string) : bool :=
  match builtin_index n builtins_map with Some _ => true | None => false end.

Definition with_store (t : table) (st : list (string * symbol)) : table :=
  {| t_store := st; t_disabled := t_disabled t; t_frees := t_frees t; t_shadowed := t_shadowed t;
     t_numdef := t_numdef t; t_maxdef := t_maxdef t; t_numparams := t_numparams t; t_block := t_block t;
     t_disable_params := t_disable_params t |}.

(* store[name] = sym; shadowBuiltin(name) *)
Definition put_shadow (t : table) (n : string) (sym : symbol) : table :=
  {| t_store := (n, sym) :: remove n (t_store t); t_disabled := t_disabled t; t_frees := t_frees t;
     t_shadowed := if is_builtin_name n then t_shadowed t ++ [n] else t_shadowed t;
     t_numdef := t_numdef t; t_maxdef := t_maxdef t; t_numparams := t_numparams t; t_block := t_block t;
     t_disable_params := t_disable_params t |}.

Fixpoint next_index (s : stack) : Z :=
  match s with
  | [] => 0
  | t :: rest => if t_block t then next_index rest + t_numdef t else t_numdef t
  end.

Fixpoint update_max (s : stack) (n : Z) : stack :=
  match s with
  | [] => []
  | t :: rest =>
      let t' := {| t_store := t_store t; t_disabled := t_disabled t; t_frees := t_frees t; t_shadowed := t_shadowed t;
                   t_numdef := t_numdef t; t_maxdef := Z.max (t_maxdef t) n; t_numparams := t_numparams t;
                   t_block := t_block t; t_disable_params := t_disable_params t |} in
      if t_block t then t' :: update_max rest n else t' :: rest
  end.

Definition fork (s : stack) (block : bool) : stack :=
  match s with
  | [] => []
  | t :: _ => empty_table block (t_disable_params t) :: s
  end.

(* Parent(false) *)
Definition leave (s : stack) : stack := match s with _ :: (_ :: _) as rest => rest | _ => s end.

Fixpoint root_disabled (s : stack) : list string :=
  match s with
  | [] => []
  | [t] => t_disabled t
  | _ :: rest => root_disabled rest
  end.

(* DisableBuiltin on the root table (with the cache repair) *)
Fixpoint disable_builtin (s : stack) (names : list string) : stack :=
  match s with
  | [] => []
  | [t] =>
      [{| t_store := fold_left (fun st n => match lookup n st with
                                            | Some sym => match s_scope sym with ScBuiltin => remove n st | _ => st end
                                            | None => st end) names (t_store t);
          t_disabled := t_disabled t ++ names; t_frees := t_frees t; t_shadowed := t_shadowed t;
          t_numdef := t_numdef t; t_maxdef := t_maxdef t; t_numparams := t_numparams t; t_block := t_block t;
          t_disable_params := t_disable_params t |}]
  | t :: rest => t :: disable_builtin rest names
  end.

Definition define_free (t : table) (orig : symbol) : table * symbol :=
  let sym := {| s_name := s_name orig; s_index := Z.of_nat (List.length (t_frees t)); s_scope := ScFree; s_const := s_const orig |} in
  let t1 := {| t_store := t_store t; t_disabled := t_disabled t; t_frees := t_frees t ++ [orig]; t_shadowed := t_shadowed t;
               t_numdef := t_numdef t; t_maxdef := t_maxdef t; t_numparams := t_numparams t; t_block := t_block t;
               t_disable_params := t_disable_params t |} in
  (put_shadow t1 (s_name orig) sym, sym).

(* Resolve *)
Fixpoint resolve (s : stack) (n : string) : stack * option symbol :=
  match s with
  | [] => ([], None)
  | t :: rest =>
      match lookup n (t_store t) with
      | Some sym => (s, Some sym)
      | None =>
          match rest with
          | [] =>
              if mem n (t_disabled t) then (s, None)
              else match builtin_index n builtins_map with
                   | Some idx =>
                       (* builtin symbols are not stored in the table *)
                       (s, Some {| s_name := n; s_index := idx; s_scope := ScBuiltin; s_const := false |})
                   | None => (s, None)
                   end
          | _ =>
              let '(rest', r) := resolve rest n in
              match r with
              | None => (t :: rest', None)
              | Some sym =>
                  if negb (t_block t) &&
                     match s_scope sym with ScGlobal | ScBuiltin | ScConstLit => false | _ => true end
                  then let '(t', fsym) := define_free t sym in (t' :: rest', Some fsym)
                  else (t :: rest', Some sym)
              end
          end
      end
  end.

Definition bump_numdef (t : table) : table :=
  {| t_store := t_store t; t_disabled := t_disabled t; t_frees := t_frees t; t_shadowed := t_shadowed t;
     t_numdef := t_numdef t + 1; t_maxdef := t_maxdef t; t_numparams := t_numparams t; t_block := t_block t;
     t_disable_params := t_disable_params t |}.

(* DefineLocal: (stack, symbol, existed) *)
Definition define_local (s : stack) (n : string) : stack * option (symbol * bool) :=
  match s with
  | [] => ([], None)
  | t :: rest =>
      match lookup n (t_store t) with
      | Some sym => (s, Some (sym, true))
      | None =>
          let idx := next_index s in
          let sym := {| s_name := n; s_index := idx; s_scope := ScLocal; s_const := false |} in
          let t' := put_shadow (bump_numdef t) n sym in
          (update_max (t' :: rest) (idx + 1), Some (sym, false))
      end
  end.

Definition define_const_lit (s : stack) (n : string) : stack * option (symbol * bool) :=
  match s with
  | [] => ([], None)
  | t :: rest =>
      match lookup n (t_store t) with
      | Some sym => (s, Some (sym, true))
      | None =>
          let sym := {| s_name := n; s_index := -1; s_scope := ScConstLit; s_const := true |} in
          (put_shadow t n sym :: rest, Some (sym, false))
      end
  end.

(* DefineGlobal: None = error *)
Definition define_global (s : stack) (n : string) : stack * option symbol :=
  match s with
  | [t] =>
      match lookup n (t_store t) with
      | Some sym => match s_scope sym with ScGlobal => (s, Some sym) | _ => (s, None) end
      | None =>
          let sym := {| s_name := n; s_index := -1; s_scope := ScGlobal; s_const := false |} in
          ([put_shadow t n sym], Some sym)
      end
  | _ => (s, None)
  end.

(* SetParams: false = error *)
Fixpoint set_params_go (ps : list string) (s : stack) : stack * bool :=
  match ps, s with
  | [], _ => (s, true)
  | p :: ps', t :: rest =>
      match lookup p (t_store t) with
      | Some _ => (s, false)
      | None =>
          let idx := next_index s in
          let sym := {| s_name := p; s_index := idx; s_scope := ScLocal; s_const := false |} in
          let t' := put_shadow (bump_numdef t) p sym in
          set_params_go ps' (update_max (t' :: rest) (idx + 1))
      end
  | _, [] => (s, false)
  end.

Definition set_numparams (t : table) (n : Z) : table :=
  {| t_store := t_store t; t_disabled := t_disabled t; t_frees := t_frees t; t_shadowed := t_shadowed t;
     t_numdef := t_numdef t; t_maxdef := t_maxdef t; t_numparams := n;
     t_block := t_block t; t_disable_params := t_disable_params t |}.

Definition set_params (s : stack) (params : list string) : stack * bool :=
  match params, s with
  | [], _ => (s, true)
  | _, [] => (s, false)
  | _, t :: rest =>
      if 0 <? t_numparams t then (s, false)
      else if t_disable_params t then (s, false)
      else if existsb (fun p => match lookup p (t_store t) with Some _ => true | None => false end) params then (s, false)
      else if 0 <? t_numdef t then (s, false)      (* parameters must be declared before variables *)
      else set_params_go params (set_numparams t (Z.of_nat (List.length params)) :: rest)
  end.

(* ---- operation histories ---- *)
Inductive op :=
| OFork (block : bool) | OLeave
| OResolve (n : string) | ODefineLocal (n : string) | ODefineGlobal (n : string) | ODefineConst (n : string)
| OSetParams (ps : list string) | ODisable (ns : list string).

Inductive opres :=
| RNone | RSym (sym : symbol) (flag : bool) | RBool (b : bool).

Definition apply_op (s : stack) (o : op) : stack * opres :=
  match o with
  | OFork b => (fork s b, RNone)
  | OLeave => (leave s, RNone)
  | OResolve n => let '(s', r) := resolve s n in (s', match r with Some sym => RSym sym true | None => RBool false end)
  | ODefineLocal n => let '(s', r) := define_local s n in (s', match r with Some (sym, ex) => RSym sym ex | None => RNone end)
  | ODefineConst n => let '(s', r) := define_const_lit s n in (s', match r with Some (sym, ex) => RSym sym ex | None => RNone end)
  | ODefineGlobal n => let '(s', r) := define_global s n in (s', match r with Some sym => RSym sym true | None => RBool false end)
  | OSetParams ps => let '(s', b) := set_params s ps in (s', RBool b)
  | ODisable ns => (disable_builtin s ns, RNone)
  end.

Fixpoint run_ops (s : stack) (ops : list op) : stack * list opres :=
  match ops with
  | [] => (s, [])
  | o :: r => let '(s1, x) := apply_op s o in let '(s2, xs) := run_ops s1 r in (s2, x :: xs)
  end.
