(* Faithful model of the optimizer's constant folding tables (optimizer.go: binaryopInts,
   binaryopFloats, binaryop, unaryop, isLiteralFalsy).  Definitions only. *)
From Coq Require Import List ZArith Bool Floats.SpecFloat.
From Ugo Require Import Base.Res Base.GoInt Base.GoFloat Value.PValue Value.Ops.
Import ListNotations.
Local Open Scope Z_scope.

(* literal nodes of the parser's AST *)
Inductive lit :=
| LInt (z : Z) | LUint (z : Z) | LFloat (f : spec_float) | LStr (s : bstr) | LBool (b : bool)
| LChar (c : Z) | LUndef.

Definition lit_value (l : lit) : pvalue :=
  match l with
  | LInt z => PInt z | LUint z => PUint z | LFloat f => PFloat f | LStr s => PStr s
  | LBool b => PBool b | LChar c => PChar c | LUndef => PUndef
  end.

Definition fold_binop_ints (t : tok) (l r : Z) : option lit :=
  match t with
  | TAdd => Some (LInt (i64 (l + r)))
  | TSub => Some (LInt (i64 (l - r)))
  | TMul => Some (LInt (i64 (l * r)))
  | TQuo => if r =? 0 then None else Some (LInt (i64 (Z.quot l r)))
  | TRem => if r =? 0 then None else Some (LInt (i64 (Z.rem l r)))
  | TAnd => Some (LInt (Z.land l r))
  | TOr => Some (LInt (Z.lor l r))
  | TShl => if r <? 0 then None else Some (LInt (shl_w i64 64 l r))
  | TShr => if r <? 0 then None else Some (LInt (shr_w 64 l r))
  | TAndNot => Some (LInt (Z.ldiff l r))
  | _ => None          (* note: ^ is not folded by the table *)
  end.

Definition fold_binop_floats (t : tok) (l r : spec_float) : option lit :=
  match t with
  | TAdd => Some (LFloat (fadd l r))
  | TSub => Some (LFloat (fsub l r))
  | TMul => Some (LFloat (fmul l r))
  | TQuo => if feqb r (S754_zero false) then None else Some (LFloat (fdiv l r))
  | _ => None
  end.

Definition fold_binop (t : tok) (l r : lit) : option lit :=
  match l, r with
  | LInt a, LInt b => fold_binop_ints t a b
  | LFloat a, LFloat b => fold_binop_floats t a b
  | LStr a, LStr b => match t with TAdd => Some (LStr (a ++ b)) | _ => None end
  | _, _ => None
  end.

Definition fold_unop (t : tok) (e : lit) : option lit :=
  match e with
  | LInt v =>
      match t with
      | TNot => Some (LBool (v =? 0))
      | TSub => Some (LInt (i64 (- v)))
      | TXor => Some (LInt (Z.lnot v))
      | _ => None
      end
  | LUint v =>
      match t with
      | TNot => Some (LBool (v =? 0))
      | TSub => Some (LUint (u64 (- v)))
      | TXor => Some (LUint (u64 (Z.lnot v)))
      | _ => None
      end
  | LFloat v => match t with TSub => Some (LFloat (fopp v)) | _ => None end
  | _ => None
  end.

Definition is_literal_falsy (e : lit) : bool :=
  match e with
  | LBool b => negb b
  | LInt z | LUint z | LChar z => z =? 0
  | LFloat f => is_nan f
  | LStr s => match s with [] => true | _ => false end
  | LUndef => true
  end.
