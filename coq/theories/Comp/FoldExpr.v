(* Translation validation of the optimizer on expressions (C01).

   optimizer.go rewrites the syntax tree in place: constant sub-expressions are replaced by the
   literal of their value (the folding tables of Comp/Fold.v, or - for anything else that is
   constant - the evaluator, which compiles the sub-expression and runs it on a private VM), and a
   literal condition of ?: is replaced by true / false.  Which sub-expressions are tried depends on
   budgets and on bookkeeping that is not modelled.  Instead the result is validated: fold_ok e e'
   decides whether the tree e' the real optimizer returned is related to the tree e it was given by
   such replacements only, and FoldExprProofs.v proves that related trees evaluate alike for all
   values of the variables.  The operators are those of the VM model (Value/Ops.v, C15). *)
From Coq Require Import List ZArith Bool Floats.SpecFloat.
From Ugo Require Import Base.Res Value.PValue Value.Ops Comp.Fold.
Import ListNotations.
Local Open Scope Z_scope.

Inductive oexpr :=
| OLit (l : lit)
| OVar (i : nat)                       (* a parameter: not a constant *)
| OBin (t : tok) (a b : oexpr)
| OEq (a b : oexpr) | ONe (a b : oexpr)
| OUn (t : tok) (a : oexpr)
| OAnd (a b : oexpr) | OOr (a b : oexpr)
| OCond (c a b : oexpr)
| OOther (id : Z).                     (* any other node, compared by its text *)

Definition otruthy (v : pvalue) : res bool :=
  match is_falsy v with Some b => Ok (negb b) | None => Err (mkErr [] []) end.

(* source-level evaluation: left to right, && / || yield an operand, ?: evaluates one branch *)
Fixpoint oeval (locals : list pvalue) (e : oexpr) : res pvalue :=
  match e with
  | OLit l => Ok (lit_value l)
  | OVar i => match nth_error locals i with Some v => Ok v | None => Ok PUndef end
  | OBin t a b => do va <- oeval locals a; do vb <- oeval locals b; binop t va vb
  | OEq a b => do va <- oeval locals a; do vb <- oeval locals b; Ok (vm_equal va vb)
  | ONe a b => do va <- oeval locals a; do vb <- oeval locals b; Ok (vm_not_equal va vb)
  | OUn t a => do va <- oeval locals a; unop t va
  | OAnd a b => do va <- oeval locals a; do t <- otruthy va; if t then oeval locals b else Ok va
  | OOr a b => do va <- oeval locals a; do t <- otruthy va; if t then Ok va else oeval locals b
  | OCond c a b => do vc <- oeval locals c; do t <- otruthy vc; if t then oeval locals a else oeval locals b
  | OOther _ => Err (mkErr [] [])
  end.

(* Constant evaluation: the outcome of e when it can be had without looking at a variable (the branch of ?: not taken
   and the operand of && / || not reached may mention variables: the compiler does not even compile the dead branch of
   a literal condition, so the optimizer's evaluator sees such an expression as constant too).  None: depends on a
   variable or on a foreign node. *)
Definition cbind {A} (x : option (res pvalue)) (f : pvalue -> option (res A)) : option (res A) :=
  match x with
  | None => None
  | Some (Ok v) => f v
  | Some (Err e) => Some (Err e)
  | Some (GoPanic k) => Some (GoPanic k)
  | Some OutOfFuel => Some OutOfFuel
  end.

Definition ctruth {A} (v : pvalue) (f : bool -> option (res A)) : option (res A) :=
  match otruthy v with
  | Ok t => f t
  | Err e => Some (Err e)
  | GoPanic k => Some (GoPanic k)
  | OutOfFuel => Some OutOfFuel
  end.

Fixpoint ceval (e : oexpr) : option (res pvalue) :=
  match e with
  | OLit l => Some (Ok (lit_value l))
  | OVar _ | OOther _ => None
  | OBin t a b => cbind (ceval a) (fun va => cbind (ceval b) (fun vb => Some (binop t va vb)))
  | OEq a b => cbind (ceval a) (fun va => cbind (ceval b) (fun vb => Some (Ok (vm_equal va vb))))
  | ONe a b => cbind (ceval a) (fun va => cbind (ceval b) (fun vb => Some (Ok (vm_not_equal va vb))))
  | OUn t a => cbind (ceval a) (fun va => Some (unop t va))
  | OAnd a b => cbind (ceval a) (fun va => ctruth va (fun t => if t then ceval b else Some (Ok va)))
  | OOr a b => cbind (ceval a) (fun va => ctruth va (fun t => if t then Some (Ok va) else ceval b))
  | OCond c a b => cbind (ceval c) (fun vc => ctruth vc (fun t => if t then ceval a else ceval b))
  end.

(* ---- decidable equalities ---- *)
Definition tok_eqb (a b : tok) : bool :=
  match a, b with
  | TAdd, TAdd | TSub, TSub | TMul, TMul | TQuo, TQuo | TRem, TRem | TAnd, TAnd | TOr, TOr | TXor, TXor
  | TAndNot, TAndNot | TShl, TShl | TShr, TShr | TLess, TLess | TLessEq, TLessEq | TGreater, TGreater
  | TGreaterEq, TGreaterEq | TNot, TNot | TOther, TOther => true
  | _, _ => false
  end.

Fixpoint bstr_eqb (a b : bstr) : bool :=
  match a, b with
  | [], [] => true
  | x :: a', y :: b' => Byte.eqb x y && bstr_eqb a' b'
  | _, _ => false
  end.

Definition sf_eqb (a b : spec_float) : bool :=
  match a, b with
  | S754_zero s, S754_zero s' => Bool.eqb s s'
  | S754_infinity s, S754_infinity s' => Bool.eqb s s'
  | S754_nan, S754_nan => true
  | S754_finite s m e, S754_finite s' m' e' => Bool.eqb s s' && Pos.eqb m m' && (e =? e')
  | _, _ => false
  end.

Definition lit_eqb (a b : lit) : bool :=
  match a, b with
  | LInt x, LInt y | LUint x, LUint y | LChar x, LChar y => x =? y
  | LFloat x, LFloat y => sf_eqb x y
  | LStr x, LStr y => bstr_eqb x y
  | LBool x, LBool y => Bool.eqb x y
  | LUndef, LUndef => true
  | _, _ => false
  end.

(* the value v is the value of the literal l *)
Definition value_is_lit (v : pvalue) (l : lit) : bool :=
  match v, l with
  | PInt x, LInt y | PUint x, LUint y | PChar x, LChar y => x =? y
  | PFloat x, LFloat y => sf_eqb x y
  | PStr x, LStr y => bstr_eqb x y
  | PBool x, LBool y => Bool.eqb x y
  | PUndef, LUndef => true
  | _, _ => false
  end.

(* e is constant and has the value of the literal l *)
Definition const_value_is (e : oexpr) (l : lit) : bool :=
  match ceval e with Some (Ok v) => value_is_lit v l | _ => false end.

(* c is constant and its truthiness is b *)
Definition const_truth_is (c : oexpr) (b : bool) : bool :=
  match ceval c with
  | Some (Ok v) => match otruthy v with Ok t => Bool.eqb t b | _ => false end
  | _ => false
  end.

(* e' is e with constant sub-expressions replaced by the literal of their value, and literal-valued
   conditions of ?: replaced by true / false *)
Fixpoint fold_ok (e e' : oexpr) : bool :=
  (match e' with OLit l' => const_value_is e l' | _ => false end) ||
  match e, e' with
  | OLit l, OLit l' => lit_eqb l l'
  | OVar i, OVar j => Nat.eqb i j
  | OOther i, OOther j => i =? j
  | OBin t a b, OBin t' a' b' => tok_eqb t t' && fold_ok a a' && fold_ok b b'
  | OEq a b, OEq a' b' | ONe a b, ONe a' b' | OAnd a b, OAnd a' b' | OOr a b, OOr a' b' => fold_ok a a' && fold_ok b b'
  | OUn t a, OUn t' a' => tok_eqb t t' && fold_ok a a'
  | OCond c a b, OCond c' a' b' =>
      (fold_ok c c' || match c' with OLit (LBool bv) => const_truth_is c bv | _ => false end)
      && fold_ok a a' && fold_ok b b'
  | _, _ => false
  end.

(* a refusal is justified when some constant sub-expression raises an error *)
Fixpoint const_error (e : oexpr) : bool :=
  (match ceval e with Some (Ok _) | None => false | Some _ => true end) ||
  match e with
  | OBin _ a b | OEq a b | ONe a b | OAnd a b | OOr a b => const_error a || const_error b
  | OUn _ a => const_error a
  | OCond c a b => const_error c || const_error a || const_error b
  | _ => false
  end.

Fixpoint subexprs (e : oexpr) : list oexpr :=
  e :: match e with
       | OBin _ a b | OEq a b | ONe a b | OAnd a b | OOr a b => subexprs a ++ subexprs b
       | OUn _ a => subexprs a
       | OCond c a b => subexprs c ++ subexprs a ++ subexprs b
       | _ => []
       end.


(* The operator model leaves a few results undetermined (the text of a float appended to a string): it
   returns an opaque marker for them.  A tree with such a constant sub-expression cannot be validated;
   the driver reports it as inconclusive instead of rejected. *)
Definition fold_inconclusive (e : oexpr) : bool :=
  existsb (fun s => match ceval s with Some (Ok (POpaque _ _)) => true | _ => false end) (subexprs e).
