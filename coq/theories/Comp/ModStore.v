(* Module store of the compiler (compiler.go: moduleStore.addModule / getModule, shared by all
   compiler forks) and the run-time module cache protocol of the VM (OpLoadModule / OpStoreModule).
   Property C12. *)
From Coq Require Import List ZArith Bool String Lia.
Import ListNotations.
Local Open Scope Z_scope.

Record mitem := { m_typ : Z; m_const : Z; m_index : Z }.
Record mstore := { ms_items : list (string * mitem); ms_count : Z }.

Definition empty_store : mstore := {| ms_items := []; ms_count := 0 |}.

Fixpoint get_module (items : list (string * mitem)) (n : string) : option mitem :=
  match items with
  | [] => None
  | (k, v) :: r => if String.eqb n k then Some v else get_module r n
  end.

Definition add_module (ms : mstore) (n : string) (typ cidx : Z) : mstore * mitem :=
  let it := {| m_typ := typ; m_const := cidx; m_index := ms_count ms |} in
  ({| ms_items := (n, it) :: ms_items ms; ms_count := ms_count ms + 1 |}, it).

(* compileImportExpr: reuse the stored item or add a new one *)
Definition import_module (ms : mstore) (n : string) (typ cidx : Z) : mstore * mitem :=
  match get_module (ms_items ms) n with
  | Some it => (ms, it)
  | None => add_module ms n typ cidx
  end.

Fixpoint import_all (ms : mstore) (reqs : list (string * Z * Z)) : mstore * list mitem :=
  match reqs with
  | [] => (ms, [])
  | (n, typ, cidx) :: r =>
      let '(ms1, it) := import_module ms n typ cidx in
      let '(ms2, its) := import_all ms1 r in (ms2, it :: its)
  end.

(* ---- run-time cache: cache[i] = None until the first STOREMODULE i ---- *)

(* object identities: a module body execution creates object (2*k) and STOREMODULE stores its
   copy (2*k+1), k = number of body executions so far *)
Record rstate := { cache : list (option Z); execs : list Z (* module indexes whose body ran, in order *) }.

Fixpoint set_nth_opt (i : nat) (v : Z) (l : list (option Z)) : list (option Z) :=
  match i, l with
  | O, _ :: t => Some v :: t
  | S i', h :: t => h :: set_nth_opt i' v t
  | _, [] => []
  end.

(* LOADMODULE i; JUMPFALSY; CALL body; STOREMODULE i  -> (state, value seen by the importer) *)
Definition exec_import (s : rstate) (i : nat) : rstate * option Z :=
  match nth_error (cache s) i with
  | None => (s, None)                               (* index out of range: Go panic *)
  | Some (Some v) => (s, Some v)
  | Some None =>
      let k := Z.of_nat (List.length (execs s)) in
      let stored := 2 * k + 1 in
      ({| cache := set_nth_opt i stored (cache s); execs := execs s ++ [Z.of_nat i] |}, Some stored)
  end.

Fixpoint exec_imports (s : rstate) (is : list nat) : rstate * list (option Z) :=
  match is with
  | [] => (s, [])
  | i :: r => let '(s1, v) := exec_import s i in let '(s2, vs) := exec_imports s1 r in (s2, v :: vs)
  end.

Definition init_rstate (n : nat) : rstate := {| cache := repeat None n; execs := [] |}.

(* validator run on the LOADMODULE operands of real Bytecode: constant index and module index
   determine each other, and every module index is below NumModules *)
Definition loads_ok (ps : list (Z * Z)) (num_modules : Z) : bool :=
  forallb (fun p => (0 <=? snd p) && (snd p <? num_modules) &&
                    forallb (fun q => Bool.eqb (fst p =? fst q) (snd p =? snd q)) ps) ps.

(* ---- module bodies that may throw ----
   An import event carries whether the body, if it runs now, throws before it returns.  A body that
   throws stores nothing (STOREMODULE is not reached): the importer gets no value, and the next
   import of the module runs the body again. *)
Record tstate := { t_cache : list (option Z); t_runs : list Z (* every start of a body *); t_done : list Z (* bodies that returned *) }.

Definition exec_import_t (s : tstate) (ev : nat * bool) : tstate * option Z :=
  let '(i, throws) := ev in
  match nth_error (t_cache s) i with
  | None => (s, None)
  | Some (Some v) => (s, Some v)
  | Some None =>
      if throws then ({| t_cache := t_cache s; t_runs := t_runs s ++ [Z.of_nat i]; t_done := t_done s |}, None)
      else
        let stored := 2 * Z.of_nat (List.length (t_done s)) + 1 in
        ({| t_cache := set_nth_opt i stored (t_cache s); t_runs := t_runs s ++ [Z.of_nat i];
            t_done := t_done s ++ [Z.of_nat i] |}, Some stored)
  end.

Fixpoint exec_imports_t (s : tstate) (evs : list (nat * bool)) : tstate * list (option Z) :=
  match evs with
  | [] => (s, [])
  | e :: r => let '(s1, v) := exec_import_t s e in let '(s2, vs) := exec_imports_t s1 r in (s2, v :: vs)
  end.

Definition init_tstate (n : nat) : tstate := {| t_cache := repeat None n; t_runs := []; t_done := [] |}.

(* ---- bodies that import while they run ----
   The events above are atomic.  A body can itself execute imports before it returns; when it
   reaches - through a function value it was given, the compiler rejects static cycles - an
   import of the module being loaded, the cache is still empty and the body starts again. *)
Inductive iev := IEv (i : nat) (throws : bool) (body : list iev).

Fixpoint exec_nested (fuel : nat) (s : tstate) (e : iev) : tstate * option Z :=
  match fuel with
  | O => (s, None)
  | S f =>
      match e with
      | IEv i throws body =>
          match nth_error (t_cache s) i with
          | None => (s, None)
          | Some (Some v) => (s, Some v)
          | Some None =>
              let s1 := {| t_cache := t_cache s; t_runs := t_runs s ++ [Z.of_nat i]; t_done := t_done s |} in
              let s2 := fold_left (fun st ev => fst (exec_nested f st ev)) body s1 in
              if throws then (s2, None)
              else
                let stored := 2 * Z.of_nat (List.length (t_done s2)) + 1 in
                ({| t_cache := set_nth_opt i stored (t_cache s2); t_runs := t_runs s2;
                    t_done := t_done s2 ++ [Z.of_nat i] |}, Some stored)
          end
      end
  end.
