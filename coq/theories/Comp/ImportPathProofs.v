From Coq Require Import List Bool Ascii String Lia.
From Coq Require Import ZArith.
From Ugo Require Import Comp.ImportPath Comp.ModStore Comp.ModStoreProofs.
Import ListNotations.
Local Open Scope string_scope.
Local Open Scope list_scope.

(* an element that walk pushes and a later ".." removes *)
Definition plain (s : string) : Prop := is_skip s = false /\ is_up s = false.
(* what a stack of a relative walk holds: plain elements and ".." *)
Definition kept (s : string) : Prop := is_skip s = false.

Lemma up_not_skip s : is_up s = true -> is_skip s = false.
Proof.
  unfold is_up, is_skip. intro H. apply String.eqb_eq in H. subst s. reflexivity.
Qed.

Lemma walk_app acc abs xs ys : walk acc abs (xs ++ ys) = walk (walk acc abs xs) abs ys.
Proof.
  revert acc. induction xs as [|s xs IH]; intro acc; cbn [app walk]; [reflexivity|].
  destruct (is_skip s); [apply IH|].
  destruct (is_up s).
  - destruct acc as [|a acc']; [destruct abs; apply IH|].
    destruct (is_up a); apply IH.
  - apply IH.
Qed.

(* walking a stack of plain elements (outermost first) pushes all of them *)
Lemma walk_plain acc abs r : Forall plain r -> walk acc abs (rev r) = r ++ acc.
Proof.
  revert acc. induction r as [|a r IH]; intros acc Hr; [reflexivity|].
  inversion Hr as [|? ? [Ha1 Ha2] Hr']; subst.
  cbn [rev]. rewrite walk_app, IH by assumption.
  cbn [walk]. rewrite Ha1, Ha2. reflexivity.
Qed.

(* from the root no ".." survives: the stack is plain *)
Lemma walk_abs_plain acc l : Forall plain acc -> Forall plain (walk acc true l).
Proof.
  revert acc. induction l as [|s l IH]; intros acc Hacc; cbn [walk]; [assumption|].
  destruct (is_skip s) eqn:Hs; [apply IH; assumption|].
  destruct (is_up s) eqn:Hu.
  - destruct acc as [|a acc']; [apply IH; constructor|].
    inversion Hacc as [|? ? [Ha1 Ha2] Hacc']; subst. rewrite Ha2. apply IH; assumption.
  - apply IH. constructor; [split; assumption|assumption].
Qed.

Lemma norm_abs_idem l : norm true (norm true l) = norm true l.
Proof.
  unfold norm. rewrite walk_plain by (apply walk_abs_plain; constructor).
  rewrite app_nil_r. reflexivity.
Qed.

(* a relative stack: kept elements, and below a ".." only ".." *)
Fixpoint rel_stack (r : list string) : Prop :=
  match r with
  | [] => True
  | a :: r' => kept a /\ (is_up a = true -> Forall (fun b => is_up b = true) r') /\ rel_stack r'
  end.

Lemma rel_stack_walk r l : rel_stack r -> rel_stack (walk r false l).
Proof.
  revert r. induction l as [|s l IH]; intros r Hr; cbn [walk]; [assumption|].
  destruct (is_skip s) eqn:Hs; [apply IH; assumption|].
  destruct (is_up s) eqn:Hu.
  - destruct r as [|a r'].
    + apply IH. cbn. repeat split; [exact Hs | constructor].
    + destruct Hr as (Ha & Hall & Hr'). destruct (is_up a) eqn:Hua.
      * apply IH. cbn. repeat split; [exact Hs | | exact Ha | (intros _; apply Hall; reflexivity) | exact Hr'].
        intros _. constructor; [exact Hua | apply Hall; reflexivity].
      * apply IH. exact Hr'.
  - apply IH. cbn. repeat split; [exact Hs | | exact Hr]. intro H; congruence.
Qed.

(* walking the elements of a relative stack from any stack gives what walking its source gives:
   cleaning a relative path first changes nothing for a later walk *)
Lemma walk_rel_stack acc abs r xs :
  rel_stack r ->
  walk acc abs (rev r ++ xs) = walk acc abs (rev (walk r false xs)).
Proof.
  revert r. induction xs as [|s xs IH]; intros r Hr.
  - cbn [walk]. rewrite app_nil_r. reflexivity.
  - cbn [walk]. destruct (is_skip s) eqn:Hs.
    + rewrite <- IH by assumption. rewrite !walk_app. cbn [walk]. rewrite Hs. reflexivity.
    + destruct (is_up s) eqn:Hu.
      * destruct r as [|a r'].
        -- rewrite <- IH by (cbn; repeat split; [exact Hs | constructor]).
           cbn [rev app]. reflexivity.
        -- destruct Hr as (Ha & Hall & Hr'). destruct (is_up a) eqn:Hua.
           ++ rewrite <- IH.
              ** cbn [rev]. rewrite <- !app_assoc. reflexivity.
              ** cbn. repeat split; [exact Hs | | exact Ha | (intros _; apply Hall; reflexivity) | exact Hr'].
                 intros _. constructor; [exact Hua | apply Hall; reflexivity].
           ++ rewrite <- IH by exact Hr'.
              cbn [rev]. rewrite <- !app_assoc. cbn [app].
              rewrite !walk_app. cbn [walk]. unfold kept in Ha. rewrite Ha, Hua, Hs, Hu.
              (* after pushing a, ".." removes it *)
              destruct (walk acc abs (rev r')) as [|b st]; cbn; rewrite ?Hua; reflexivity.
      * rewrite <- IH.
        -- cbn [rev]. rewrite <- !app_assoc. reflexivity.
        -- cbn. repeat split; [exact Hs | intro H; congruence | exact Hr].
Qed.

Lemma walk_norm_rel acc abs xs : walk acc abs (norm false xs) = walk acc abs xs.
Proof.
  unfold norm. rewrite <- (walk_rel_stack acc abs [] xs) by exact I. reflexivity.
Qed.

Theorem fi_name_resolve cwd wd name :
  p_abs cwd = true ->
  fi_name cwd wd name = {| p_abs := true; p_segs := resolve cwd wd name |}.
Proof.
  intro Hc. unfold fi_name, resolve.
  destruct (p_abs name) eqn:Hn.
  - unfold clean. rewrite Hn. reflexivity.
  - unfold abs_path, join at 1. cbn [p_abs].
    destruct (p_abs wd) eqn:Hw.
    + unfold clean, join. cbn [p_abs p_segs]. rewrite Hw. rewrite norm_abs_idem. reflexivity.
    + unfold join. cbn [p_abs p_segs]. rewrite Hc, Hw. f_equal.
      unfold norm at 1. rewrite walk_app, walk_norm_rel, <- walk_app. reflexivity.
Qed.

(* one place, one name - and two places, two names *)
Corollary fi_name_same_place cwd wd1 n1 wd2 n2 :
  p_abs cwd = true ->
  (fi_name cwd wd1 n1 = fi_name cwd wd2 n2 <-> resolve cwd wd1 n1 = resolve cwd wd2 n2).
Proof.
  intro Hc. rewrite !fi_name_resolve by assumption. split.
  - intro H. inversion H. reflexivity.
  - intro H. rewrite H. reflexivity.
Qed.

(* the name is clean: asking for the name of a name gives it back, whatever the work directory
   (the compiler passes Name() to Fork and to Import) *)
Lemma fi_name_stable cwd wd wd' name :
  p_abs cwd = true -> fi_name cwd wd' (fi_name cwd wd name) = fi_name cwd wd name.
Proof.
  intro Hc. rewrite (fi_name_resolve cwd wd name Hc).
  unfold fi_name, clean. cbn [p_abs p_segs]. f_equal.
  unfold resolve. destruct (p_abs name); [apply norm_abs_idem|].
  destruct (p_abs wd); apply norm_abs_idem.
Qed.

(* ---- the name as a string: "/" in front of every element ---- *)
Local Open Scope string_scope.
Fixpoint render (l : list string) : string :=
  match l with
  | [] => ""
  | s :: r => "/" ++ s ++ render r
  end.

Fixpoint noslash (s : string) : Prop :=
  match s with
  | EmptyString => True
  | String c r => c <> "/"%char /\ noslash r
  end.

Definition tail_ok (t : string) : Prop := t = "" \/ exists u, t = String "/"%char u.

Lemma render_tail_ok l : tail_ok (render l).
Proof. destruct l as [|s r]; [left; reflexivity | right; eexists; reflexivity]. Qed.

Lemma elem_split s1 : forall s2 t1 t2,
  noslash s1 -> noslash s2 -> tail_ok t1 -> tail_ok t2 ->
  s1 ++ t1 = s2 ++ t2 -> s1 = s2 /\ t1 = t2.
Proof.
  induction s1 as [|c1 s1 IH]; intros s2 t1 t2 H1 H2 Ht1 Ht2 E.
  - destruct s2 as [|c2 s2]; [split; [reflexivity | exact E]|].
    exfalso. cbn in E. destruct H2 as [Hc _].
    destruct Ht1 as [->|[u ->]]; [discriminate | inversion E; subst; apply Hc; reflexivity].
  - destruct s2 as [|c2 s2].
    + exfalso. cbn in E. destruct H1 as [Hc _].
      destruct Ht2 as [->|[u ->]]; [discriminate | inversion E; subst; apply Hc; reflexivity].
    + cbn in E. inversion E as [[Ec E']]. destruct H1 as [_ H1]. destruct H2 as [_ H2].
      destruct (IH s2 t1 t2 H1 H2 Ht1 Ht2 E') as [-> ->]. split; reflexivity.
Qed.

Lemma render_inj l1 : forall l2,
  Forall noslash l1 -> Forall noslash l2 -> render l1 = render l2 -> l1 = l2.
Proof.
  induction l1 as [|s1 r1 IH]; intros l2 H1 H2 E; destruct l2 as [|s2 r2];
    [reflexivity | discriminate | discriminate |].
  cbn in E. inversion E as [E'].
  inversion H1; subst. inversion H2; subst.
  destruct (elem_split s1 s2 (render r1) (render r2)) as [-> Er];
    [assumption | assumption | apply render_tail_ok | apply render_tail_ok | exact E' |].
  f_equal. apply IH; assumption.
Qed.

Local Open Scope list_scope.
Lemma walk_forall (P : string -> Prop) acc abs l :
  Forall P acc -> Forall P l -> Forall P (walk acc abs l).
Proof.
  revert acc. induction l as [|s l IH]; intros acc Ha Hl; cbn [walk]; [assumption|].
  inversion Hl; subst.
  destruct (is_skip s); [apply IH; assumption|].
  destruct (is_up s).
  - destruct acc as [|a acc']; [destruct abs; apply IH; auto|].
    inversion Ha; subst. destruct (is_up a); apply IH; auto.
  - apply IH; auto.
Qed.

Lemma resolve_noslash cwd wd name :
  Forall noslash (p_segs cwd) -> Forall noslash (p_segs wd) -> Forall noslash (p_segs name) ->
  Forall noslash (resolve cwd wd name).
Proof.
  intros Hc Hw Hn. unfold resolve, norm.
  destruct (p_abs name); [|destruct (p_abs wd)];
    apply Forall_rev; apply walk_forall; try constructor; repeat (apply Forall_app; split); assumption.
Qed.

(* the key of the compiler's module store for an import *)
Definition fi_key (cwd wd name : path) : string := render (p_segs (fi_name cwd wd name)).

Theorem fi_key_same_place cwd wd1 n1 wd2 n2 :
  p_abs cwd = true ->
  Forall noslash (p_segs cwd) ->
  Forall noslash (p_segs wd1) -> Forall noslash (p_segs n1) ->
  Forall noslash (p_segs wd2) -> Forall noslash (p_segs n2) ->
  (fi_key cwd wd1 n1 = fi_key cwd wd2 n2 <-> resolve cwd wd1 n1 = resolve cwd wd2 n2).
Proof.
  intros Hc Sc S1 S2 S3 S4. unfold fi_key. rewrite !fi_name_resolve by assumption. cbn [p_segs].
  split; [|intros ->; reflexivity].
  apply render_inj; apply resolve_noslash; assumption.
Qed.

(* ---- with the compiler's module store: file modules are indexed by the place they denote ---- *)
Definition file_reqs (cwd : path) (reqs : list (path * path * Z)) : list (string * Z * Z) :=
  map (fun r => (fi_key cwd (fst (fst r)) (snd (fst r)), 1%Z, snd r)) reqs.

Theorem file_modules_indexed_by_place cwd reqs ms its :
  p_abs cwd = true -> Forall noslash (p_segs cwd) ->
  Forall (fun r => Forall noslash (p_segs (fst (fst r))) /\ Forall noslash (p_segs (snd (fst r)))) reqs ->
  import_all empty_store (file_reqs cwd reqs) = (ms, its) ->
  forall i j wd1 n1 c1 wd2 n2 c2 it1 it2,
    nth_error reqs i = Some (wd1, n1, c1) -> nth_error reqs j = Some (wd2, n2, c2) ->
    nth_error its i = Some it1 -> nth_error its j = Some it2 ->
    (m_index it1 = m_index it2 <-> resolve cwd wd1 n1 = resolve cwd wd2 n2).
Proof.
  intros Hc Sc Hall H i j wd1 n1 c1 wd2 n2 c2 it1 it2 R1 R2 I1 I2.
  destruct (module_index_unique _ _ _ H i j _ _ it1 it2
              (map_nth_error _ _ _ R1) (map_nth_error _ _ _ R2) I1 I2) as [E _].
  cbn [fst snd] in E. rewrite E.
  rewrite Forall_forall in Hall.
  destruct (Hall _ (nth_error_In _ _ R1)) as [S1 S2].
  destruct (Hall _ (nth_error_In _ _ R2)) as [S3 S4]. cbn [fst snd] in *.
  apply fi_key_same_place; assumption.
Qed.
