From Coq Require Import List ZArith Bool String Lia.
From Ugo Require Import Comp.ModStore.
Import ListNotations.
Local Open Scope Z_scope.

(* ---------- compile time: indexes ---------- *)

Definition store_ok (ms : mstore) : Prop :=
  0 <= ms_count ms /\
  (forall n it, get_module (ms_items ms) n = Some it -> 0 <= m_index it < ms_count ms) /\
  (forall n1 n2 it1 it2, get_module (ms_items ms) n1 = Some it1 -> get_module (ms_items ms) n2 = Some it2 ->
                         m_index it1 = m_index it2 -> n1 = n2).

Lemma store_ok_empty : store_ok empty_store.
Proof. repeat split; simpl; try lia; intros; discriminate. Qed.

Lemma import_module_ok ms n typ cidx ms' it :
  store_ok ms -> import_module ms n typ cidx = (ms', it) ->
  store_ok ms' /\ get_module (ms_items ms') n = Some it /\
  (forall n0 it0, get_module (ms_items ms) n0 = Some it0 -> get_module (ms_items ms') n0 = Some it0).
Proof.
  intros Hok H. unfold import_module in H.
  destruct (get_module (ms_items ms) n) as [it0|] eqn:E.
  - inversion H; subst. split; [exact Hok | split; [exact E | auto]].
  - destruct Hok as [Hc [Hr Hu]].
    unfold add_module in H. inversion H; subst; clear H.
    split; [|split].
    + unfold store_ok. cbn [ms_items ms_count]. split; [lia | split].
      * intros n0 it0 Hg. simpl in Hg. destruct (String.eqb n0 n).
        -- inversion Hg; subst. simpl. lia.
        -- apply Hr in Hg. lia.
      * intros n1 n2 it1 it2 H1 H2 Hi. simpl in H1, H2.
        destruct (String.eqb n1 n) eqn:E1, (String.eqb n2 n) eqn:E2.
        -- apply String.eqb_eq in E1, E2. congruence.
        -- inversion H1; subst. apply Hr in H2. simpl in Hi. lia.
        -- inversion H2; subst. apply Hr in H1. simpl in Hi. lia.
        -- eapply Hu; eassumption.
    + simpl. rewrite String.eqb_refl. reflexivity.
    + intros n0 it0 Hg. simpl. destruct (String.eqb n0 n) eqn:E0; [|exact Hg].
      apply String.eqb_eq in E0. subst. congruence.
Qed.

Lemma import_all_ok reqs : forall ms ms' its,
  store_ok ms -> import_all ms reqs = (ms', its) ->
  store_ok ms' /\ (forall n0 it0, get_module (ms_items ms) n0 = Some it0 -> get_module (ms_items ms') n0 = Some it0) /\
  Forall2 (fun r it => get_module (ms_items ms') (fst (fst r)) = Some it) reqs its.
Proof.
  induction reqs as [|[[n typ] cidx] r IH]; intros ms ms' its Hok H; simpl in H.
  - inversion H; subst. split; [exact Hok | split; [auto | apply Forall2_nil]].
  - destruct (import_module ms n typ cidx) as [ms1 it] eqn:E1.
    destruct (import_all ms1 r) as [ms2 its2] eqn:E2. inversion H; subst; clear H.
    destruct (import_module_ok _ _ _ _ _ _ Hok E1) as [Hok1 [Hg1 Hm1]].
    destruct (IH _ _ _ Hok1 E2) as [Hok2 [Hm2 Hf]].
    split; [exact Hok2 | split; [intros n0 it0 Hg; apply Hm2, Hm1; exact Hg | constructor; [simpl; apply Hm2; exact Hg1 | exact Hf]]].
Qed.

(* distinct module names get distinct cache indexes, equal names the same index, whatever the
   order in which the import expressions of the main script, functions and modules are compiled *)
Theorem module_index_unique reqs ms its :
  import_all empty_store reqs = (ms, its) ->
  forall i j r1 r2 it1 it2,
    nth_error reqs i = Some r1 -> nth_error reqs j = Some r2 ->
    nth_error its i = Some it1 -> nth_error its j = Some it2 ->
    (m_index it1 = m_index it2 <-> fst (fst r1) = fst (fst r2)) /\ 0 <= m_index it1 < ms_count ms.
Proof.
  intros H i j r1 r2 it1 it2 Hr1 Hr2 Hi1 Hi2.
  destruct (import_all_ok _ _ _ _ store_ok_empty H) as [[Hc [Hr Hu]] [_ Hf]].
  assert (G: forall k r it, nth_error reqs k = Some r -> nth_error its k = Some it ->
                            get_module (ms_items ms) (fst (fst r)) = Some it).
  { clear -Hf. induction Hf as [|x y l l' Hxy Hf IH]; intros k r it H1 H2; destruct k; simpl in *; try discriminate.
    - inversion H1; inversion H2; subst. exact Hxy.
    - eapply IH; eassumption. }
  pose proof (G _ _ _ Hr1 Hi1) as G1. pose proof (G _ _ _ Hr2 Hi2) as G2.
  split; [split|].
  - intros E. eapply Hu; eassumption.
  - intros E. rewrite E in G1. rewrite G1 in G2. inversion G2. reflexivity.
  - eapply Hr. exact G1.
Qed.

(* ---------- run time: the body runs at most once per module, every import sees one object ---------- *)

Definition cache_ok (s : rstate) : Prop :=
  NoDup (execs s) /\
  (forall i, nth_error (cache s) i = Some None -> ~ In (Z.of_nat i) (execs s)) /\
  (forall i v, nth_error (cache s) i = Some (Some v) -> In (Z.of_nat i) (execs s)).

Lemma nth_error_set_nth_same i v l : (i < List.length l)%nat -> nth_error (set_nth_opt i v l) i = Some (Some v).
Proof.
  revert l. induction i as [|i IH]; intros [|h t] H; simpl in *; try lia; [reflexivity|]. apply IH. lia.
Qed.

Lemma nth_error_set_nth_other i j v l : i <> j -> nth_error (set_nth_opt i v l) j = nth_error l j.
Proof.
  revert j l. induction i as [|i IH]; intros j [|h t] H; simpl; try reflexivity.
  - destruct j; [congruence | reflexivity].
  - destruct j; [reflexivity|]. simpl. apply IH. congruence.
Qed.

Lemma NoDup_snoc {A} (l : list A) x : NoDup l -> ~ In x l -> NoDup (l ++ [x]).
Proof.
  intros H1 H2. apply (proj2 (NoDup_Add (Add_app x l []))). rewrite app_nil_r. split; assumption.
Qed.

Lemma exec_import_ok s i s' v :
  cache_ok s -> exec_import s i = (s', v) ->
  cache_ok s' /\
  (execs s' = execs s \/ (execs s' = execs s ++ [Z.of_nat i] /\ ~ In (Z.of_nat i) (execs s))) /\
  (forall x, v = Some x -> nth_error (cache s') i = Some (Some x)) /\
  (forall j x, nth_error (cache s) j = Some (Some x) -> nth_error (cache s') j = Some (Some x)).
Proof.
  intros [Hnd [Hn Hs]] H. unfold exec_import in H.
  destruct (nth_error (cache s) i) as [[x|]|] eqn:E.
  - inversion H; subst. split; [repeat split; assumption|]. split; [left; reflexivity|].
    split; [intros y Hy; inversion Hy; subst; exact E | auto].
  - inversion H; subst; clear H. cbn [cache execs].
    assert (Hlt: (i < List.length (cache s))%nat) by (apply nth_error_Some; congruence).
    pose proof (Hn _ E) as Hnot.
    unfold cache_ok. cbn [cache execs].
    split; [|split; [|split]].
    + split; [|split].
      * apply NoDup_snoc; assumption.
      * intros j Hj. destruct (Nat.eq_dec i j) as [->|Hne].
        -- rewrite nth_error_set_nth_same in Hj by exact Hlt. discriminate.
        -- rewrite nth_error_set_nth_other in Hj by exact Hne.
           intros Hin. apply in_app_or in Hin as [Hin|[Hin|[]]]; [exact (Hn _ Hj Hin)|].
           apply Nat2Z.inj in Hin. congruence.
      * intros j y Hj. destruct (Nat.eq_dec i j) as [->|Hne].
        -- apply in_or_app. right. left. reflexivity.
        -- rewrite nth_error_set_nth_other in Hj by exact Hne. apply in_or_app. left. eapply Hs; exact Hj.
    + right. split; [reflexivity | exact Hnot].
    + intros y Hy. inversion Hy; subst. apply nth_error_set_nth_same. exact Hlt.
    + intros j y Hj. destruct (Nat.eq_dec i j) as [->|Hne]; [congruence|].
      rewrite nth_error_set_nth_other by exact Hne. exact Hj.
  - inversion H; subst. split; [repeat split; assumption|]. split; [left; reflexivity|].
    split; [intros y Hy; discriminate | auto].
Qed.

Lemma cache_ok_init n : cache_ok (init_rstate n).
Proof.
  unfold init_rstate, cache_ok. cbn [cache execs]. split; [constructor|]. split.
  - intros i _ [].
  - intros i v H. exfalso. revert i H. induction n as [|n IH]; intros [|i] H; simpl in H; try discriminate.
    eapply IH; exact H.
Qed.

Lemma exec_imports_ok is : forall s s' vs,
  cache_ok s -> exec_imports s is = (s', vs) ->
  cache_ok s' /\
  (forall j x, nth_error (cache s) j = Some (Some x) -> nth_error (cache s') j = Some (Some x)) /\
  (* every import of a module sees the object that ends up in the cache *)
  Forall2 (fun i v => forall x, v = Some x -> nth_error (cache s') i = Some (Some x)) is vs.
Proof.
  induction is as [|i r IH]; intros s s' vs Hok H; simpl in H.
  - inversion H; subst. split; [exact Hok | split; [auto | constructor]].
  - destruct (exec_import s i) as [s1 v] eqn:E1. destruct (exec_imports s1 r) as [s2 vs2] eqn:E2.
    inversion H; subst; clear H.
    destruct (exec_import_ok _ _ _ _ Hok E1) as [Hok1 [_ [Hv Hkeep1]]].
    destruct (IH _ _ _ Hok1 E2) as [Hok2 [Hkeep2 Hf]].
    split; [exact Hok2 | split].
    + intros j x Hj. apply Hkeep2, Hkeep1, Hj.
    + constructor; [|exact Hf]. intros x Hx. apply Hkeep2, Hv, Hx.
Qed.

(* within one run, for any execution order of import sites, the body of a module executes at
   most once and every import of it evaluates to the same object *)
Theorem body_at_most_once n is s vs :
  exec_imports (init_rstate n) is = (s, vs) ->
  NoDup (execs s) /\
  (forall a b i x y, nth_error is a = Some i -> nth_error is b = Some i ->
                     nth_error vs a = Some (Some x) -> nth_error vs b = Some (Some y) -> x = y).
Proof.
  intros H. destruct (exec_imports_ok _ _ _ _ (cache_ok_init n) H) as [[Hnd _] [_ Hf]].
  split; [exact Hnd|].
  assert (G: forall k i v, nth_error is k = Some i -> nth_error vs k = Some v ->
                           forall x, v = Some x -> nth_error (cache s) i = Some (Some x)).
  { clear -Hf. induction Hf as [|i0 v0 l l' Hxy Hf IH]; intros k i v H1 H2; destruct k; simpl in *; try discriminate.
    - inversion H1; inversion H2; subst. exact Hxy.
    - eapply IH; eassumption. }
  intros a b i x y Ha Hb Hx Hy.
  pose proof (G _ _ _ Ha Hx x eq_refl) as G1. pose proof (G _ _ _ Hb Hy y eq_refl) as G2.
  rewrite G1 in G2. inversion G2. reflexivity.
Qed.

(* ---------- bodies that may throw ---------- *)

Definition proj (s : tstate) : rstate := {| cache := t_cache s; execs := t_done s |}.

Lemma exec_import_t_proj s i th s' v :
  exec_import_t s (i, th) = (s', v) ->
  exec_import (proj s) i = (proj s', v) \/ (proj s' = proj s /\ v = None).
Proof.
  unfold exec_import_t, exec_import, proj. cbn [cache execs].
  destruct (nth_error (t_cache s) i) as [[x|]|] eqn:E; intro H.
  - inversion H; subst. left. reflexivity.
  - destruct th; inversion H; subst; cbn [t_cache t_done].
    + right. split; reflexivity.
    + left. reflexivity.
  - inversion H; subst. left. reflexivity.
Qed.

Lemma exec_imports_t_ok evs : forall s s' vs,
  cache_ok (proj s) -> exec_imports_t s evs = (s', vs) ->
  cache_ok (proj s') /\
  (forall j x, nth_error (t_cache s) j = Some (Some x) -> nth_error (t_cache s') j = Some (Some x)) /\
  Forall2 (fun e v => forall x, v = Some x -> nth_error (t_cache s') (fst e) = Some (Some x)) evs vs.
Proof.
  induction evs as [|[i th] r IH]; intros s s' vs Hok H; cbn [exec_imports_t] in H.
  - inversion H; subst. split; [exact Hok | split; [auto | constructor]].
  - destruct (exec_import_t s (i, th)) as [s1 v] eqn:E1. destruct (exec_imports_t s1 r) as [s2 vs2] eqn:E2.
    inversion H; subst; clear H.
    destruct (exec_import_t_proj _ _ _ _ _ E1) as [P|[P Hv]].
    + destruct (exec_import_ok _ _ _ _ Hok P) as [Hok1 [_ [Hv Hkeep1]]].
      destruct (IH _ _ _ Hok1 E2) as [Hok2 [Hkeep2 Hf]].
      split; [exact Hok2 | split].
      * intros j x Hj. apply Hkeep2. apply (Hkeep1 j x). exact Hj.
      * constructor; [|exact Hf]. intros x Hx. apply Hkeep2. apply (Hv x Hx).
    + assert (Hok1: cache_ok (proj s1)) by (rewrite P; exact Hok).
      destruct (IH _ _ _ Hok1 E2) as [Hok2 [Hkeep2 Hf]].
      assert (Hc: t_cache s1 = t_cache s) by (unfold proj in P; inversion P; reflexivity).
      split; [exact Hok2 | split].
      * intros j x Hj. apply Hkeep2. rewrite Hc. exact Hj.
      * constructor; [|exact Hf]. intros x Hx. subst v. discriminate.
Qed.

(* whatever bodies throw: a body returns at most once per module, and all imports of a module
   that give a value give the same object *)
Theorem body_completes_at_most_once n evs s vs :
  exec_imports_t (init_tstate n) evs = (s, vs) ->
  NoDup (t_done s) /\
  (forall a b i t1 t2 x y, nth_error evs a = Some (i, t1) -> nth_error evs b = Some (i, t2) ->
                     nth_error vs a = Some (Some x) -> nth_error vs b = Some (Some y) -> x = y).
Proof.
  intros H.
  destruct (exec_imports_t_ok _ _ _ _ (cache_ok_init n : cache_ok (proj (init_tstate n))) H) as [[Hnd _] [_ Hf]].
  split; [exact Hnd|].
  assert (G: forall k e v, nth_error evs k = Some e -> nth_error vs k = Some v ->
                           forall x, v = Some x -> nth_error (t_cache s) (fst e) = Some (Some x)).
  { clear -Hf. induction Hf as [|e0 v0 l l' Hxy Hf IH]; intros k e v H1 H2; destruct k; simpl in *; try discriminate.
    - inversion H1; inversion H2; subst. exact Hxy.
    - eapply IH; eassumption. }
  intros a b i t1 t2 x y Ha Hb Hx Hy.
  pose proof (G _ _ _ Ha Hx x eq_refl) as G1. pose proof (G _ _ _ Hb Hy y eq_refl) as G2.
  cbn [fst] in *. rewrite G1 in G2. inversion G2. reflexivity.
Qed.

(* no body throws: every start is a return, the body runs at most once *)
Lemma no_throw_runs_done evs : forall s s' vs,
  forallb (fun e => negb (snd e)) evs = true -> t_runs s = t_done s ->
  exec_imports_t s evs = (s', vs) -> t_runs s' = t_done s'.
Proof.
  induction evs as [|[i th] r IH]; intros s s' vs Hn Hs H; cbn [exec_imports_t] in H.
  - inversion H; subst. exact Hs.
  - cbn [forallb snd] in Hn. apply andb_prop in Hn as [Hth Hn]. destruct th; [discriminate|].
    destruct (exec_import_t s (i, false)) as [s1 v] eqn:E1. destruct (exec_imports_t s1 r) as [s2 vs2] eqn:E2.
    inversion H; subst; clear H. apply (IH s1 s' vs2 Hn); [|exact E2].
    unfold exec_import_t in E1. destruct (nth_error (t_cache s) i) as [[x|]|]; inversion E1; subst; cbn [t_runs t_done];
      [exact Hs | rewrite Hs; reflexivity | exact Hs].
Qed.

Theorem body_at_most_once_no_throw n evs s vs :
  forallb (fun e => negb (snd e)) evs = true ->
  exec_imports_t (init_tstate n) evs = (s, vs) -> NoDup (t_runs s).
Proof.
  intros Hn H. rewrite (no_throw_runs_done evs (init_tstate n) s vs Hn (eq_refl : t_runs (init_tstate n) = t_done (init_tstate n)) H).
  exact (proj1 (body_completes_at_most_once _ _ _ _ H)).
Qed.

(* the full statement "a body executes at most once" is false of the implementation when bodies throw *)
Theorem body_at_most_once_refuted :
  exists n evs s vs, exec_imports_t (init_tstate n) evs = (s, vs) /\ ~ NoDup (t_runs s).
Proof.
  exists 1%nat, [(0%nat, true); (0%nat, true)]. eexists. eexists. split; [vm_compute; reflexivity|].
  intro H. inversion H as [|x l Hin _]; subst. apply Hin. left. reflexivity.
Qed.

(* a body that reaches an import of its own module while it runs: the body returns twice and the two
   imports get different objects (known finding D12r) *)
Theorem reentrant_body_refuted :
  exists e s v,
    exec_nested 10 (init_tstate 1) e = (s, v) /\ ~ NoDup (t_done s) /\
    (* the inner import saw object 1, the cache ends with object 3 *)
    nth_error (t_cache s) 0 = Some (Some 3%Z) /\
    fst (exec_nested 10 (init_tstate 1) (IEv 0 false [])) <> s.
Proof.
  exists (IEv 0%nat false [IEv 0%nat false []]). eexists. eexists.
  split; [vm_compute; reflexivity|]. split; [|split].
  - intro H. inversion H as [|x l Hin _]; subst. apply Hin. left. reflexivity.
  - reflexivity.
  - vm_compute. intro H. discriminate H.
Qed.

(* ---------- bodies that import while they run, without reaching their own module ---------- *)

(* no import event names a module that an enclosing event is loading *)
Fixpoint noreentry (loading : list nat) (e : iev) : Prop :=
  match e with
  | IEv i _ body =>
      ~ In i loading /\
      (fix all (l : list iev) : Prop := match l with [] => True | x :: r => noreentry (i :: loading) x /\ all r end) body
  end.

Definition ev_module (e : iev) : nat := match e with IEv i _ _ => i end.

Definition nested_ok (L : list nat) (s s' : tstate) (e : iev) (v : option Z) : Prop :=
  cache_ok (proj s') /\
  (forall j x, nth_error (t_cache s) j = Some (Some x) -> nth_error (t_cache s') j = Some (Some x)) /\
  (forall j, In j L -> nth_error (t_cache s') j = nth_error (t_cache s) j) /\
  (forall x, v = Some x -> nth_error (t_cache s') (ev_module e) = Some (Some x)).

Lemma exec_nested_ok fuel : forall L e s s' v,
  cache_ok (proj s) -> noreentry L e -> exec_nested fuel s e = (s', v) -> nested_ok L s s' e v.
Proof.
  induction fuel as [|f IH]; intros L e s s' v Hok Hn H; cbn [exec_nested] in H.
  - inversion H; subst. unfold nested_ok. split; [exact Hok|]. split; [auto|]. split; [auto|]. intros x Hx; discriminate.
  - destruct e as [i th body]. cbn [ev_module]. cbn [noreentry] in Hn. destruct Hn as [HiL Hbody].
    destruct (nth_error (t_cache s) i) as [[x|]|] eqn:E.
    + inversion H; subst. unfold nested_ok. split; [exact Hok|]. split; [auto|]. split; [auto|]. intros y Hy. inversion Hy; subst. exact E.
    + (* the body runs *)
      set (s1 := {| t_cache := t_cache s; t_runs := t_runs s ++ [Z.of_nat i]; t_done := t_done s |}) in *.
      assert (Hok1 : cache_ok (proj s1)) by exact Hok.
      (* the events of the body, one after the other *)
      assert (Hfold : forall bl st,
                 (fix all (l : list iev) : Prop := match l with [] => True | x :: r => noreentry (i :: L) x /\ all r end) bl ->
                 cache_ok (proj st) ->
                 let st' := fold_left (fun st0 ev => fst (exec_nested f st0 ev)) bl st in
                 cache_ok (proj st') /\
                 (forall j x, nth_error (t_cache st) j = Some (Some x) -> nth_error (t_cache st') j = Some (Some x)) /\
                 (forall j, In j (i :: L) -> nth_error (t_cache st') j = nth_error (t_cache st) j)).
      { induction bl as [|b bl IHb]; intros st Hall Hst; cbn [fold_left].
        - split; [exact Hst | split; [intros j x Hj; exact Hj | intros j Hj; reflexivity]].
        - destruct Hall as [Hb Hall].
          destruct (exec_nested f st b) as [stb vb] eqn:Eb. cbn [fst].
          destruct (IH _ _ _ _ _ Hst Hb Eb) as (Hokb & Hmonb & Hunb & _).
          destruct (IHb stb Hall Hokb) as (Hok' & Hmon' & Hun').
          split; [exact Hok'|]. split.
          + intros j x Hj. apply Hmon'. apply Hmonb. exact Hj.
          + intros j Hj. rewrite (Hun' j Hj). apply Hunb. exact Hj. }
      destruct (Hfold body s1 Hbody Hok1) as (Hok2 & Hmon2 & Hun2).
      set (s2 := fold_left (fun st0 ev => fst (exec_nested f st0 ev)) body s1) in *.
      destruct th.
      * inversion H; subst. unfold nested_ok. split; [exact Hok2|]. split; [exact Hmon2|]. split.
        -- intros j Hj. apply (Hun2 j). right. exact Hj.
        -- intros x Hx; discriminate.
      * inversion H; subst; clear H.
        (* the store is the atomic import of the model above, on the state after the body *)
        assert (E2 : nth_error (cache (proj s2)) i = Some None).
        { unfold proj. cbn [cache]. rewrite (Hun2 i (or_introl eq_refl)). exact E. }
        pose proof (exec_import_ok (proj s2) i) as Himp.
        unfold exec_import in Himp. rewrite E2 in Himp.
        specialize (Himp _ _ Hok2 eq_refl). cbn [proj cache execs] in Himp.
        destruct Himp as (Hok3 & _ & Hv3 & Hmon3).
        unfold nested_ok. cbn [t_cache]. split; [exact Hok3|]. split; [|split].
        -- intros j x Hj. apply Hmon3. apply Hmon2. exact Hj.
        -- intros j Hj. assert (i <> j) by (intro; subst; contradiction).
           rewrite nth_error_set_nth_other by assumption. apply (Hun2 j). right. exact Hj.
        -- intros x Hx. apply Hv3. exact Hx.
    + inversion H; subst. unfold nested_ok. split; [exact Hok|]. split; [auto|]. split; [auto|]. intros y Hy; discriminate.
Qed.

(* with bodies that import (other modules) while they run, and whichever bodies throw: a body returns at most
   once per module *)
Theorem nested_body_completes_at_most_once fuel n e s v :
  noreentry [] e -> exec_nested fuel (init_tstate n) e = (s, v) -> NoDup (t_done s).
Proof.
  intros Hn H.
  destruct (exec_nested_ok fuel [] e _ _ _ (cache_ok_init n : cache_ok (proj (init_tstate n))) Hn H) as ((Hnd & _) & _).
  exact Hnd.
Qed.
