(* Local slot allocation of the symbol table (C02): over every history of operations, the local
   variables that are live together in one function occupy distinct stack slots below the
   function's NumLocals, although slots are re-used after a block is left. *)
From Coq Require Import List ZArith Bool String Lia.
From Ugo Require Import Gen.Builtins Comp.SymTab Comp.SymTabProofs.
Import ListNotations.
Local Open Scope Z_scope.
Local Opaque builtins_map.

Definition is_local (sym : symbol) : bool := match s_scope sym with ScLocal => true | _ => false end.

(* locals of a table lie in [base, base + numdef) and have pairwise distinct slots *)
Definition table_ok (base : Z) (t : table) : Prop :=
  0 <= t_numdef t /\
  (forall n sym, lookup n (t_store t) = Some sym -> is_local sym = true -> base <= s_index sym < base + t_numdef t) /\
  (forall n1 n2 sym1 sym2, lookup n1 (t_store t) = Some sym1 -> lookup n2 (t_store t) = Some sym2 ->
     is_local sym1 = true -> is_local sym2 = true -> s_index sym1 = s_index sym2 -> n1 = n2).

Definition base_of (rest : stack) (t : table) : Z := if t_block t then next_index rest else 0.

Fixpoint slots_ok (s : stack) : Prop :=
  match s with
  | [] => True
  | t :: rest => table_ok (base_of rest t) t /\ slots_ok rest
  end.

Definition shape (s : stack) : list (Z * bool) := map (fun t => (t_numdef t, t_block t)) s.

Lemma next_index_shape s1 : forall s2, shape s1 = shape s2 -> next_index s1 = next_index s2.
Proof.
  induction s1 as [|t r IH]; intros [|t2 r2] H; simpl in H; try discriminate; [reflexivity|].
  inversion H as [[Hn Hb Hr]]. simpl. rewrite Hb, Hn. rewrite (IH r2 Hr). reflexivity.
Qed.

Lemma next_index_cons t rest : next_index (t :: rest) = base_of rest t + t_numdef t.
Proof. unfold base_of. simpl. destruct (t_block t); lia. Qed.

Lemma shape_update_max s n : shape (update_max s n) = shape s.
Proof.
  induction s as [|t r IH]; [reflexivity|]. simpl. destruct (t_block t); simpl; [rewrite IH|]; reflexivity.
Qed.

(* table_ok only looks at the store, numdef (and the base) *)
Lemma table_ok_ext base t t' : t_store t' = t_store t -> t_numdef t' = t_numdef t -> table_ok base t -> table_ok base t'.
Proof. intros Hs Hn [H0 [Ha Hb]]. unfold table_ok. rewrite Hs, Hn. auto. Qed.

Lemma slots_ok_shape_ext s1 : forall s2,
  shape s1 = shape s2 -> map t_store s1 = map t_store s2 -> slots_ok s1 -> slots_ok s2.
Proof.
  induction s1 as [|t r IH]; intros [|t2 r2] Hsh Hst H; simpl in *; try discriminate; [exact I|].
  inversion Hsh as [[Hn Hb Hr]]. inversion Hst as [[Hs Hsr]]. destruct H as [Ht Hrest].
  split; [|apply (IH r2); assumption].
  unfold base_of in *. rewrite <- Hb. rewrite <- (next_index_shape r r2 Hr).
  eapply table_ok_ext; [symmetry; exact Hs | symmetry; exact Hn | exact Ht].
Qed.

Lemma slots_ok_update_max s n : slots_ok s -> slots_ok (update_max s n).
Proof.
  apply slots_ok_shape_ext; [symmetry; apply shape_update_max|].
  symmetry. exact (proj1 (update_max_store s n)).
Qed.

(* adding a non-local symbol under a name that is not bound to a local *)
Lemma table_ok_put_nonlocal base t k sym :
  is_local sym = false -> table_ok base t -> table_ok base (put_shadow t k sym).
Proof.
  intros Hnl [H0 [Ha Hb]]. unfold table_ok, put_shadow. cbn [t_store t_numdef]. split; [exact H0|]. split.
  - intros n s0 Hl Hloc. rewrite lookup_put in Hl. destruct (String.eqb n k); [inversion Hl; subst; congruence|]. eapply Ha; eassumption.
  - intros n1 n2 s1 s2 H1 H2 L1 L2 E. rewrite lookup_put in H1, H2.
    destruct (String.eqb n1 k); [inversion H1; subst; congruence|].
    destruct (String.eqb n2 k); [inversion H2; subst; congruence|]. eapply Hb; eassumption.
Qed.

(* defining a new local at the next free slot *)
Lemma table_ok_define base t n :
  lookup n (t_store t) = None -> table_ok base t ->
  table_ok base (put_shadow (bump_numdef t) n {| s_name := n; s_index := base + t_numdef t; s_scope := ScLocal; s_const := false |}).
Proof.
  intros Hnone [H0 [Ha Hb]]. unfold table_ok, put_shadow, bump_numdef. cbn [t_store t_numdef]. split; [lia|]. split.
  - intros m s0 Hl Hloc. rewrite lookup_put in Hl. destruct (String.eqb m n).
    + inversion Hl; subst. cbn [s_index]. lia.
    + specialize (Ha _ _ Hl Hloc). lia.
  - intros n1 n2 s1 s2 H1 H2 L1 L2 E. rewrite lookup_put in H1, H2.
    destruct (String.eqb n1 n) eqn:E1, (String.eqb n2 n) eqn:E2.
    + apply String.eqb_eq in E1, E2. congruence.
    + inversion H1; subst. cbn [s_index] in E. specialize (Ha _ _ H2 L2). lia.
    + inversion H2; subst. cbn [s_index] in E. specialize (Ha _ _ H1 L1). lia.
    + eapply Hb; eassumption.
Qed.

Lemma table_ok_define_head t rest n :
  lookup n (t_store t) = None -> table_ok (base_of rest t) t ->
  table_ok (base_of rest (put_shadow (bump_numdef t) n {| s_name := n; s_index := next_index (t :: rest); s_scope := ScLocal; s_const := false |}))
           (put_shadow (bump_numdef t) n {| s_name := n; s_index := next_index (t :: rest); s_scope := ScLocal; s_const := false |}).
Proof.
  intros Hn Ht. rewrite next_index_cons.
  replace (base_of rest (put_shadow (bump_numdef t) n _)) with (base_of rest t) by reflexivity.
  apply table_ok_define; assumption.
Qed.

Lemma define_local_slots s n s' r : slots_ok s -> define_local s n = (s', r) -> slots_ok s'.
Proof.
  intros H D. unfold define_local in D. destruct s as [|t rest]; [inversion D; exact I|].
  destruct (lookup n (t_store t)) as [sym|] eqn:E; [inversion D; subst; exact H|].
  pose proof (f_equal fst D) as E1; cbn [fst] in E1. rewrite <- E1. apply slots_ok_update_max.
  destruct H as [Ht Hr]. cbn [slots_ok]. split; [|exact Hr].
  apply table_ok_define_head; assumption.
Qed.

Lemma define_const_slots s n s' r : slots_ok s -> define_const_lit s n = (s', r) -> slots_ok s'.
Proof.
  intros H D. unfold define_const_lit in D. destruct s as [|t rest]; [inversion D; exact I|].
  destruct (lookup n (t_store t)) as [sym|] eqn:E; [inversion D; subst; exact H|].
  pose proof (f_equal fst D) as E1; cbn [fst] in E1. rewrite <- E1.
  destruct H as [Ht Hr]. cbn [slots_ok]. split; [|exact Hr].
  replace (base_of rest (put_shadow t n _)) with (base_of rest t) by reflexivity.
  apply table_ok_put_nonlocal; [reflexivity | exact Ht].
Qed.

Lemma define_global_slots s n s' r : slots_ok s -> define_global s n = (s', r) -> slots_ok s'.
Proof.
  intros H D. unfold define_global in D. destruct s as [|t [|u rest]]; try (inversion D; subst; exact H).
  destruct (lookup n (t_store t)) as [sym|] eqn:E.
  - destruct (s_scope sym); inversion D; subst; exact H.
  - pose proof (f_equal fst D) as E1; cbn [fst] in E1. rewrite <- E1.
    destruct H as [Ht Hr]. cbn [slots_ok]. split; [|exact I].
    replace (base_of [] (put_shadow t n _)) with (base_of [] t) by reflexivity.
    apply table_ok_put_nonlocal; [reflexivity | exact Ht].
Qed.

Lemma set_params_go_slots ps : forall s s' b, slots_ok s -> set_params_go ps s = (s', b) -> slots_ok s'.
Proof.
  induction ps as [|p ps IH]; intros s s' b H D.
  - simpl in D. inversion D; subst; exact H.
  - destruct s as [|t rest]; [simpl in D; inversion D; subst; exact H|].
    cbn [set_params_go] in D.
    destruct (lookup p (t_store t)) as [sym|] eqn:E; [inversion D; subst; exact H|].
    eapply IH; [|exact D]. apply slots_ok_update_max.
    destruct H as [Ht Hr]. cbn [slots_ok]. split; [|exact Hr].
    apply table_ok_define_head; assumption.
Qed.

Lemma set_params_slots s ps s' b : slots_ok s -> set_params s ps = (s', b) -> slots_ok s'.
Proof.
  intros H D. unfold set_params in D. destruct ps as [|p ps]; [inversion D; subst; exact H|].
  destruct s as [|t rest]; [inversion D; subst; exact H|].
  destruct (0 <? t_numparams t); [inversion D; subst; exact H|].
  destruct (t_disable_params t); [inversion D; subst; exact H|].
  destruct (existsb _ (p :: ps)); [inversion D; subst; exact H|].
  destruct (0 <? t_numdef t); [inversion D; subst; exact H|].
  eapply set_params_go_slots; [|exact D].
  destruct H as [Ht Hr]. cbn [slots_ok]. split; [|exact Hr].
  replace (base_of rest (set_numparams t _)) with (base_of rest t) by reflexivity.
  eapply table_ok_ext; [| |exact Ht]; reflexivity.
Qed.

Lemma resolve_slots s : forall n s' r, slots_ok s -> resolve s n = (s', r) -> slots_ok s' /\ shape s' = shape s.
Proof.
  induction s as [|t rest IH]; intros n s' r H D; simpl in D; [inversion D; subst; split; [exact I | reflexivity]|].
  destruct (lookup n (t_store t)) as [sym|] eqn:E; [inversion D; subst; split; [exact H | reflexivity]|].
  destruct rest as [|u rest'].
  - destruct (mem n (t_disabled t)); [inversion D; subst; split; [exact H | reflexivity]|].
    destruct (builtin_index n builtins_map); inversion D; subst; split; try exact H; reflexivity.
  - destruct (resolve (u :: rest') n) as [rs rr] eqn:ER.
    destruct H as [Ht Hr]. destruct (IH n rs rr Hr ER) as [Hrs Hsh].
    assert (Hbase: base_of rs t = base_of (u :: rest') t).
    { unfold base_of. destruct (t_block t); [apply next_index_shape; exact Hsh | reflexivity]. }
    destruct rr as [sym|].
    + destruct (negb (t_block t) && match s_scope sym with ScGlobal | ScBuiltin | ScConstLit => false | _ => true end) eqn:Ec.
      * unfold define_free in D. inversion D; subst; clear D. split.
        -- cbn [slots_ok]. split; [|exact Hrs].
           unfold base_of. cbn [t_block put_shadow]. fold (base_of rs t). rewrite Hbase.
           apply table_ok_put_nonlocal; [reflexivity|].
           eapply table_ok_ext; [| |exact Ht]; reflexivity.
        -- simpl. f_equal. exact Hsh.
      * inversion D; subst; clear D. split; [|simpl; f_equal; exact Hsh].
        cbn [slots_ok]. split; [rewrite Hbase; exact Ht | exact Hrs].
    + inversion D; subst; clear D. split; [|simpl; f_equal; exact Hsh].
      cbn [slots_ok]. split; [rewrite Hbase; exact Ht | exact Hrs].
Qed.

Lemma fold_disable_sub names : forall st n x,
  lookup n (fold_left (fun st n => match lookup n st with
                                   | Some sym => match s_scope sym with ScBuiltin => remove n st | _ => st end
                                   | None => st end) names st) = Some x -> lookup n st = Some x.
Proof.
  induction names as [|m r IH]; intros st n x H; simpl in H; [exact H|].
  apply IH in H. destruct (lookup m st) as [sm|] eqn:Em; [|exact H].
  destruct (s_scope sm); try exact H.
  destruct (String.eqb n m) eqn:E.
  - apply String.eqb_eq in E. subst. rewrite lookup_remove_same in H. discriminate.
  - rewrite lookup_remove_other in H by exact E. exact H.
Qed.

Lemma disable_slots s names : slots_ok s -> slots_ok (disable_builtin s names) /\ shape (disable_builtin s names) = shape s.
Proof.
  induction s as [|t rest IH]; intros H; [split; [exact I | reflexivity]|].
  destruct rest as [|u r].
  - simpl. destruct H as [[H0 [Ha Hb]] _]. split; [|reflexivity]. split; [|exact I].
    unfold table_ok, base_of in *. cbn [t_store t_numdef t_block]. split; [exact H0|]. split.
    + intros n sym Hl Hloc. apply fold_disable_sub in Hl. eapply Ha; eassumption.
    + intros n1 n2 s1 s2 H1 H2 L1 L2 E. apply fold_disable_sub in H1, H2. eapply Hb; eassumption.
  - change (disable_builtin (t :: u :: r) names) with (t :: disable_builtin (u :: r) names).
    destruct H as [Ht Hr]. destruct (IH Hr) as [Hr' Hsh]. split; [|simpl; f_equal; exact Hsh].
    cbn [slots_ok]. split; [|exact Hr'].
    assert (Hbase: base_of (disable_builtin (u :: r) names) t = base_of (u :: r) t).
    { unfold base_of. destruct (t_block t); [apply next_index_shape; exact Hsh | reflexivity]. }
    rewrite Hbase. exact Ht.
Qed.

Lemma apply_op_slots s o : slots_ok s -> slots_ok (fst (apply_op s o)).
Proof.
  intros H. destruct o as [b| |n|n|n|n|ps|ns]; simpl.
  - unfold fork. destruct s as [|t rest]; [exact I|]. cbn [slots_ok]. split; [|exact H].
    unfold table_ok, empty_table. cbn [t_store t_numdef]. split; [lia|]. split; intros; discriminate.
  - unfold leave. destruct s as [|t [|u rest]]; try exact H. destruct H as [_ H]. exact H.
  - destruct (resolve s n) as [s' r] eqn:E. simpl. exact (proj1 (resolve_slots s n s' r H E)).
  - destruct (define_local s n) as [s' r] eqn:E. simpl. eapply define_local_slots; eassumption.
  - destruct (define_global s n) as [s' r] eqn:E. simpl. eapply define_global_slots; eassumption.
  - destruct (define_const_lit s n) as [s' r] eqn:E. simpl. eapply define_const_slots; eassumption.
  - destruct (set_params s ps) as [s' b] eqn:E. simpl. eapply set_params_slots; eassumption.
  - exact (proj1 (disable_slots s ns H)).
Qed.

Lemma run_ops_slots ops : forall s, slots_ok s -> slots_ok (fst (run_ops s ops)).
Proof.
  induction ops as [|o r IH]; intros s H; [exact H|].
  simpl. pose proof (apply_op_slots s o H) as H1. destruct (apply_op s o) as [s1 x].
  specialize (IH s1 H1). destruct (run_ops s1 r) as [s2 xs]. exact IH.
Qed.

Lemma slots_new : slots_ok new_symbol_table.
Proof. simpl. split; [|exact I]. unfold table_ok, empty_table. cbn [t_store t_numdef]. split; [lia|]. split; intros; discriminate. Qed.

(* the tables of the innermost function: the current block tables and the function's own table *)
Fixpoint fn_segment (s : stack) : list (table * stack) :=
  match s with
  | [] => []
  | t :: rest => (t, rest) :: (if t_block t then fn_segment rest else [])
  end.

Lemma slots_ok_numdef_nonneg s : slots_ok s -> 0 <= next_index s.
Proof.
  induction s as [|t r IH]; intros H; simpl; [lia|]. destruct H as [[H0 _] Hr]. specialize (IH Hr). destruct (t_block t); lia.
Qed.

(* outer tables of the same function end before the base of an inner one *)
Lemma segment_below s : slots_ok s -> forall t rest, In (t, rest) (fn_segment s) -> 
  slots_ok (t :: rest) /\ base_of rest t + t_numdef t <= next_index s.
Proof.
  induction s as [|t0 r IH]; intros H t rest Hin; [destruct Hin|].
  simpl in Hin. destruct Hin as [E|Hin].
  - inversion E; subst. split; [exact H|]. rewrite next_index_cons. lia.
  - destruct (t_block t0) eqn:Eb; [|destruct Hin].
    destruct H as [Ht Hr]. destruct (IH Hr t rest Hin) as [H1 H2]. split; [exact H1|].
    simpl. rewrite Eb. destruct Ht as [H0 _]. lia.
Qed.

Theorem live_locals_distinct_in s :
  slots_ok s ->
  forall t1 r1 t2 r2 n1 n2 sym1 sym2,
    In (t1, r1) (fn_segment s) -> In (t2, r2) (fn_segment s) ->
    lookup n1 (t_store t1) = Some sym1 -> lookup n2 (t_store t2) = Some sym2 ->
    is_local sym1 = true -> is_local sym2 = true ->
    s_index sym1 = s_index sym2 -> List.length r1 = List.length r2 /\ n1 = n2.
Proof.
  induction s as [|t0 r IH]; intros H t1 r1 t2 r2 n1 n2 sym1 sym2 I1 I2 L1 L2 K1 K2 E; [destruct I1|].
  simpl in I1, I2. destruct H as [Ht Hr].
  destruct I1 as [E1|I1], I2 as [E2|I2].
  - injection E1 as Et1 Er1; injection E2 as Et2 Er2; subst t1 r1 t2 r2. split; [reflexivity|]. destruct Ht as [_ [_ Hb]]. eapply Hb; eassumption.
  - injection E1 as Et1 Er1; subst t1 r1. destruct (t_block t0) eqn:Eb; [|destruct I2].
    destruct (segment_below r Hr t2 r2 I2) as [[Ht2 _] Hle].
    destruct Ht as [_ [Ha _]]. destruct Ht2 as [_ [Ha2 _]].
    specialize (Ha _ _ L1 K1). specialize (Ha2 _ _ L2 K2). unfold base_of in Ha at 1. rewrite Eb in Ha. lia.
  - injection E2 as Et2 Er2; subst t2 r2. destruct (t_block t0) eqn:Eb; [|destruct I1].
    destruct (segment_below r Hr t1 r1 I1) as [[Ht1 _] Hle].
    destruct Ht as [_ [Ha _]]. destruct Ht1 as [_ [Ha1 _]].
    specialize (Ha _ _ L2 K2). specialize (Ha1 _ _ L1 K1). unfold base_of in Ha at 1. rewrite Eb in Ha. lia.
  - destruct (t_block t0); [|destruct I1]. eapply IH; eassumption.
Qed.

(* after any history of symbol table operations: two local variables visible in the current
   function (declared in its own table or in any enclosing block of it) never share a slot unless
   they are the same declaration *)
Theorem live_locals_distinct ops :
  let s := fst (run_ops new_symbol_table ops) in
  forall t1 r1 t2 r2 n1 n2 sym1 sym2,
    In (t1, r1) (fn_segment s) -> In (t2, r2) (fn_segment s) ->
    lookup n1 (t_store t1) = Some sym1 -> lookup n2 (t_store t2) = Some sym2 ->
    is_local sym1 = true -> is_local sym2 = true ->
    s_index sym1 = s_index sym2 -> List.length r1 = List.length r2 /\ n1 = n2.
Proof.
  intros s. apply live_locals_distinct_in. apply run_ops_slots. exact slots_new.
Qed.
