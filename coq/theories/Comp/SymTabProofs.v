(* Invariants of the symbol table machine over all operation histories (C13). *)
From Coq Require Import List ZArith Bool String Lia.
From Ugo Require Import Gen.Builtins Comp.SymTab.
Import ListNotations.
Local Open Scope Z_scope.
Local Opaque builtins_map.

Lemma lookup_remove_same n st : lookup n (remove n st) = None.
Proof.
  induction st as [|[k v] r IH]; simpl; [reflexivity|].
  destruct (String.eqb n k) eqn:E; [exact IH|]. simpl. rewrite E. exact IH.
Qed.

Lemma lookup_remove_other n m st : String.eqb n m = false -> lookup n (remove m st) = lookup n st.
Proof.
  intros H. induction st as [|[k v] r IH]; simpl; [reflexivity|].
  destruct (String.eqb m k) eqn:E.
  - apply String.eqb_eq in E. subst k. rewrite H. exact IH.
  - simpl. destruct (String.eqb n k); [reflexivity | exact IH].
Qed.

Lemma lookup_put n m sym st :
  lookup n ((m, sym) :: remove m st) = if String.eqb n m then Some sym else lookup n st.
Proof.
  simpl. destruct (String.eqb n m) eqn:E; [reflexivity|]. apply lookup_remove_other. exact E.
Qed.

Definition is_builtin_scope (sym : symbol) : bool := match s_scope sym with ScBuiltin => true | _ => false end.

Definition root_ok (t : table) : Prop :=
  forall n sym, lookup n (t_store t) = Some sym -> is_builtin_scope sym = true -> mem n (t_disabled t) = false.
Definition nonroot_ok (t : table) : Prop :=
  forall n sym, lookup n (t_store t) = Some sym -> is_builtin_scope sym = false.

Fixpoint inv (s : stack) : Prop :=
  match s with
  | [] => True
  | [t] => root_ok t
  | t :: rest => nonroot_ok t /\ inv rest
  end.

Lemma inv_cons t rest : rest <> [] -> inv (t :: rest) <-> nonroot_ok t /\ inv rest.
Proof. destruct rest; [congruence|]. intros _. simpl. tauto. Qed.

(* tables that change only counters keep their store and disabled set *)
Lemma update_max_store s n : map t_store (update_max s n) = map t_store s /\ map t_disabled (update_max s n) = map t_disabled s
                              /\ List.length (update_max s n) = List.length s.
Proof.
  induction s as [|t r IH]; simpl; [auto|].
  destruct (t_block t); simpl; destruct IH as [A [B C]]; repeat split; congruence.
Qed.

Lemma inv_ext s1 s2 :
  map t_store s1 = map t_store s2 -> map t_disabled s1 = map t_disabled s2 -> inv s1 -> inv s2.
Proof.
  revert s2. induction s1 as [|t1 r1 IH]; intros [|t2 r2] Hs Hd H; simpl in *; try discriminate; auto.
  inversion Hs as [[Hs1 Hs2]]. inversion Hd as [[Hd1 Hd2]].
  destruct r1 as [|u1 r1'], r2 as [|u2 r2']; try discriminate.
  - unfold root_ok in *. rewrite <- Hs1, <- Hd1. exact H.
  - destruct H as [H1 H2]. split.
    + unfold nonroot_ok in *. rewrite <- Hs1. exact H1.
    + apply IH; assumption.
Qed.

Lemma inv_update_max s n : inv s -> inv (update_max s n).
Proof. intros H. destruct (update_max_store s n) as [A [B _]]. eapply inv_ext; [symmetry; exact A | symmetry; exact B | exact H]. Qed.

Lemma root_disabled_ext s1 s2 : map t_disabled s1 = map t_disabled s2 -> root_disabled s1 = root_disabled s2.
Proof.
  revert s2. induction s1 as [|t1 r1 IH]; intros [|t2 r2] H; simpl in *; try discriminate; auto.
  inversion H as [[H1 H2]]. destruct r1, r2; try discriminate; auto.
Qed.

(* adding a non-builtin symbol *)
Lemma root_ok_put t n sym : is_builtin_scope sym = false -> root_ok t -> root_ok (put_shadow t n sym).
Proof.
  intros Hs H m sym' Hl Hb. unfold put_shadow in Hl. cbn [t_store] in Hl. rewrite lookup_put in Hl.
  destruct (String.eqb m n); [inversion Hl; subst; congruence|].
  unfold put_shadow. cbn [t_disabled]. eapply H; eassumption.
Qed.
Lemma nonroot_ok_put t n sym : is_builtin_scope sym = false -> nonroot_ok t -> nonroot_ok (put_shadow t n sym).
Proof.
  intros Hs H m sym' Hl. unfold put_shadow in Hl. cbn [t_store] in Hl. rewrite lookup_put in Hl.
  destruct (String.eqb m n); [inversion Hl; subst; assumption|]. eapply H; eassumption.
Qed.

Lemma inv_head_put t rest n sym :
  is_builtin_scope sym = false -> inv (t :: rest) -> inv (put_shadow t n sym :: rest).
Proof.
  intros Hs H. destruct rest as [|u r].
  - simpl in *. apply root_ok_put; assumption.
  - destruct H as [H1 H2]. split; [apply nonroot_ok_put; assumption | exact H2].
Qed.

Lemma inv_head_same_store t t' rest :
  t_store t' = t_store t -> t_disabled t' = t_disabled t -> inv (t :: rest) -> inv (t' :: rest).
Proof.
  intros A B H. eapply inv_ext; [| | exact H]; simpl; congruence.
Qed.

(* the main lemma: resolve keeps the invariant and never returns a disabled builtin *)
Lemma resolve_inv s n s' r :
  inv s -> resolve s n = (s', r) ->
  inv s' /\ root_disabled s' = root_disabled s /\ List.length s' = List.length s /\
  (forall sym, r = Some sym -> is_builtin_scope sym = true -> mem n (root_disabled s) = false).
Proof.
  revert s' r. induction s as [|t rest IH]; intros s' r Hinv H; simpl in H.
  - inversion H; subst. repeat split; auto; try (intros; discriminate).
  - destruct (lookup n (t_store t)) as [sym|] eqn:El.
    + inversion H; subst. repeat split; auto. intros sym' E Hb. inversion E; subst.
      destruct rest as [|u r'].
      * simpl in *. eapply Hinv; eassumption.
      * destruct Hinv as [H1 _]. rewrite (H1 _ _ El) in Hb. discriminate.
    + destruct rest as [|u r'].
      * (* root *)
        simpl in Hinv. cbn [root_disabled].
        destruct (mem n (t_disabled t)) eqn:Em.
        { inversion H; subst. repeat split; auto; try (intros; discriminate). }
        destruct (builtin_index n builtins_map) as [idx|].
        2: { inversion H; subst. repeat split; auto; try (intros; discriminate). }
        inversion H; subst. repeat split; auto.
      * destruct (resolve (u :: r') n) as [rest' rr] eqn:Er.
        destruct Hinv as [Hn Hrest].
        destruct (IH _ _ Hrest eq_refl) as [Hi [Hd [Hlen Hres]]].
        assert (Hne: rest' <> []) by (intros ->; simpl in Hlen; discriminate).
        destruct rr as [sym|].
        2: { inversion H; subst. repeat split.
             - apply inv_cons; auto.
             - destruct rest'; [congruence|]. exact Hd.
             - cbn [List.length] in *. lia.
             - intros; discriminate. }
        destruct (negb (t_block t) && match s_scope sym with ScGlobal | ScBuiltin | ScConstLit => false | _ => true end) eqn:Ef.
        -- unfold define_free in H. inversion H; subst. repeat split.
           ++ apply inv_cons; [exact Hne|]. split; [|exact Hi].
              apply nonroot_ok_put; [reflexivity|].
              intros m sym' Hl. cbn [t_store] in Hl. eapply Hn; eassumption.
           ++ destruct rest'; [congruence|]. exact Hd.
           ++ cbn [List.length] in *. lia.
           ++ intros sym' E Hb. inversion E; subst. discriminate.
        -- inversion H; subst. repeat split.
           ++ apply inv_cons; auto.
           ++ destruct rest'; [congruence|]. exact Hd.
           ++ cbn [List.length] in *. lia.
           ++ intros sym' E Hb. inversion E; subst. destruct r'; eapply Hres; eauto.
Qed.

Lemma fold_disable_lookup names st n sym :
  lookup n (fold_left (fun st n => match lookup n st with
                                   | Some sym => match s_scope sym with ScBuiltin => remove n st | _ => st end
                                   | None => st end) names st) = Some sym ->
  is_builtin_scope sym = true ->
  lookup n st = Some sym /\ mem n names = false.
Proof.
  revert st. induction names as [|m r IH]; intros st Hl Hb; simpl in *; [auto|].
  destruct (lookup m st) as [sm|] eqn:Em.
  - destruct (s_scope sm) eqn:Es; try (destruct (IH _ Hl Hb) as [A B]; split; [exact A|];
      destruct (String.eqb n m) eqn:E; [apply String.eqb_eq in E; subst; rewrite Em in A; inversion A; subst;
        unfold is_builtin_scope in Hb; rewrite Es in Hb; discriminate | exact B]).
    destruct (IH _ Hl Hb) as [A B].
    destruct (String.eqb n m) eqn:E.
    + apply String.eqb_eq in E. subst. rewrite lookup_remove_same in A. discriminate.
    + rewrite lookup_remove_other in A by exact E. split; [exact A | exact B].
  - destruct (IH _ Hl Hb) as [A B]. split; [exact A|].
    destruct (String.eqb n m) eqn:E; [apply String.eqb_eq in E; subst; congruence | exact B].
Qed.

Lemma mem_app n a b : mem n (a ++ b) = mem n a || mem n b.
Proof. unfold mem. apply existsb_app. Qed.

Lemma inv_disable s names : inv s -> inv (disable_builtin s names).
Proof.
  induction s as [|t rest IH]; intros H; [exact I|].
  destruct rest as [|u r].
  - simpl in *. intros n sym Hl Hb. cbn [t_store t_disabled] in *.
    destruct (fold_disable_lookup _ _ _ _ Hl Hb) as [A B].
    rewrite mem_app, B, (H _ _ A Hb). reflexivity.
  - destruct H as [H1 H2]. change (disable_builtin (t :: u :: r) names) with (t :: disable_builtin (u :: r) names).
    apply inv_cons; [destruct r; simpl; discriminate|]. split; [exact H1 | apply IH; exact H2].
Qed.

Lemma define_local_inv s n s' r : inv s -> define_local s n = (s', r) -> inv s'.
Proof.
  intros H E. unfold define_local in E. destruct s as [|t rest]; [inversion E; exact I|].
  destruct (lookup n (t_store t)); [inversion E; subst; exact H|].
  pose proof (f_equal fst E) as E1; cbn [fst] in E1. rewrite <- E1. apply inv_update_max. apply inv_head_put; [reflexivity|].
  eapply inv_head_same_store; [| | exact H]; reflexivity.
Qed.

Lemma define_const_inv s n s' r : inv s -> define_const_lit s n = (s', r) -> inv s'.
Proof.
  intros H E. unfold define_const_lit in E. destruct s as [|t rest]; [inversion E; exact I|].
  destruct (lookup n (t_store t)); [inversion E; subst; exact H|].
  pose proof (f_equal fst E) as E1; cbn [fst] in E1. rewrite <- E1. apply inv_head_put; [reflexivity | exact H].
Qed.

Lemma define_global_inv s n s' r : inv s -> define_global s n = (s', r) -> inv s'.
Proof.
  intros H E. unfold define_global in E. destruct s as [|t [|u rest]]; try (inversion E; subst; exact H).
  destruct (lookup n (t_store t)) as [sym|].
  - destruct (s_scope sym); inversion E; subst; exact H.
  - pose proof (f_equal fst E) as E1; cbn [fst] in E1. rewrite <- E1. apply (inv_head_put t [] n); [reflexivity | exact H].
Qed.

Lemma set_params_go_inv ps : forall s s' b, inv s -> set_params_go ps s = (s', b) -> inv s'.
Proof.
  induction ps as [|p ps IH]; intros s s' b H E.
  - simpl in E. inversion E; subst; exact H.
  - destruct s as [|t rest]; [simpl in E; inversion E; subst; exact H|].
    cbn [set_params_go] in E.
    destruct (lookup p (t_store t)); [inversion E; subst; exact H|].
    eapply IH; [|exact E]. apply inv_update_max. apply inv_head_put; [reflexivity|].
    eapply inv_head_same_store; [| | exact H]; reflexivity.
Qed.

Lemma set_params_inv s ps s' b : inv s -> set_params s ps = (s', b) -> inv s'.
Proof.
  intros H E. unfold set_params in E. destruct ps as [|p ps]; [inversion E; subst; exact H|].
  destruct s as [|t rest]; [inversion E; subst; exact H|].
  destruct (0 <? t_numparams t); [inversion E; subst; exact H|].
  destruct (t_disable_params t); [inversion E; subst; exact H|].
  destruct (existsb _ (p :: ps)); [inversion E; subst; exact H|].
  destruct (0 <? t_numdef t); [inversion E; subst; exact H|].
  eapply set_params_go_inv; [|exact E].
  eapply inv_head_same_store; [| | exact H]; reflexivity.
Qed.

Lemma apply_op_inv s o : inv s -> inv (fst (apply_op s o)).
Proof.
  intros H. destruct o; simpl.
  - (* fork *) unfold fork. destruct s as [|t rest]; [exact I|].
    apply inv_cons; [discriminate|]. split; [|exact H]. intros n sym Hl. discriminate.
  - (* leave *) unfold leave. destruct s as [|t [|u rest]]; try exact H. destruct H as [_ H]. exact H.
  - destruct (resolve s n) as [s' r] eqn:E. simpl. apply (resolve_inv _ _ _ _ H E).
  - destruct (define_local s n) as [s' r] eqn:E. simpl. eapply define_local_inv; eassumption.
  - destruct (define_global s n) as [s' r] eqn:E. simpl. eapply define_global_inv; eassumption.
  - destruct (define_const_lit s n) as [s' r] eqn:E. simpl. eapply define_const_inv; eassumption.
  - destruct (set_params s ps) as [s' b] eqn:E. simpl. eapply set_params_inv; eassumption.
  - apply inv_disable. exact H.
Qed.

Lemma run_ops_inv ops : forall s, inv s -> inv (fst (run_ops s ops)).
Proof.
  induction ops as [|o r IH]; intros s H; simpl; [exact H|].
  pose proof (apply_op_inv s o H) as H1. destruct (apply_op s o) as [s1 x]. simpl in H1.
  specialize (IH s1 H1). destruct (run_ops s1 r) as [s2 xs]. exact IH.
Qed.

Lemma inv_new : inv new_symbol_table.
Proof. simpl. intros n sym Hl. discriminate. Qed.

(* for every operation history, Resolve returns a builtin symbol only for names that are not
   in the root's disabled set *)
Theorem resolve_never_disabled ops n s' sym :
  let s := fst (run_ops new_symbol_table ops) in
  resolve s n = (s', Some sym) -> s_scope sym = ScBuiltin -> mem n (root_disabled s) = false.
Proof.
  intros s E Hb.
  pose proof (run_ops_inv ops _ inv_new) as Hinv. fold s in Hinv.
  destruct (resolve_inv _ _ _ _ Hinv E) as [_ [_ [_ Hres]]].
  apply (Hres sym eq_refl). unfold is_builtin_scope. rewrite Hb. reflexivity.
Qed.

(* ---------- C10: names declared at the top level keep their meaning ---------- *)

Fixpoint root_table (s : stack) : option table :=
  match s with
  | [] => None
  | [t] => Some t
  | _ :: rest => root_table rest
  end.

Definition root_lookup (s : stack) (n : string) : option symbol :=
  match root_table s with Some t => lookup n (t_store t) | None => None end.

Definition non_builtin (sym : symbol) : Prop := is_builtin_scope sym = false.

Lemma root_table_cons t rest : rest <> [] -> root_table (t :: rest) = root_table rest.
Proof. destruct rest; [congruence | reflexivity]. Qed.

Lemma update_max_nonempty s k : s <> [] -> update_max s k <> [].
Proof. destruct s as [|t r]; [congruence|]. intros _. simpl. destruct (t_block t); discriminate. Qed.

Lemma root_lookup_update_max s k n : root_lookup (update_max s k) n = root_lookup s n.
Proof.
  unfold root_lookup. induction s as [|t r IH]; [reflexivity|].
  destruct r as [|u r'].
  - simpl. destruct (t_block t); reflexivity.
  - change (update_max (t :: u :: r') k) with
      (let t' := {| t_store := t_store t; t_disabled := t_disabled t; t_frees := t_frees t; t_shadowed := t_shadowed t;
                    t_numdef := t_numdef t; t_maxdef := Z.max (t_maxdef t) k; t_numparams := t_numparams t;
                    t_block := t_block t; t_disable_params := t_disable_params t |} in
       if t_block t then t' :: update_max (u :: r') k else t' :: u :: r').
    cbv zeta. destruct (t_block t).
    + rewrite root_table_cons by (apply update_max_nonempty; discriminate).
      rewrite root_table_cons by discriminate. exact IH.
    + rewrite !root_table_cons by discriminate. reflexivity.
Qed.

Lemma lookup_put_shadow_keep t m sym n x :
  lookup n (t_store t) = Some x -> lookup m (t_store t) = None ->
  lookup n (t_store (put_shadow t m sym)) = Some x.
Proof.
  intros H Hm. unfold put_shadow. cbn [t_store]. rewrite lookup_put.
  destruct (String.eqb n m) eqn:E; [apply String.eqb_eq in E; subst; congruence | exact H].
Qed.

Lemma root_lookup_head_nonroot t t' rest n : rest <> [] -> root_lookup (t' :: rest) n = root_lookup (t :: rest) n.
Proof. intros H. unfold root_lookup. rewrite !root_table_cons by exact H. reflexivity. Qed.

Lemma resolve_length s : forall n s' r, resolve s n = (s', r) -> List.length s' = List.length s.
Proof.
  induction s as [|t rest IH]; intros n s' r H; simpl in H; [inversion H; reflexivity|].
  destruct (lookup n (t_store t)); [inversion H; reflexivity|].
  destruct rest as [|u r'].
  - destruct (mem n (t_disabled t)); [inversion H; reflexivity|].
    destruct (builtin_index n builtins_map); inversion H; reflexivity.
  - destruct (resolve (u :: r') n) as [rest' rr] eqn:Er. apply IH in Er.
    destruct rr as [sym|].
    + destruct (negb (t_block t) && match s_scope sym with ScGlobal | ScBuiltin | ScConstLit => false | _ => true end).
      * unfold define_free in H. inversion H; subst. cbn [List.length] in *. lia.
      * inversion H; subst. cbn [List.length] in *. lia.
    + inversion H; subst. cbn [List.length] in *. lia.
Qed.

Lemma resolve_root_lookup s n s' r m x :
  resolve s n = (s', r) -> root_lookup s m = Some x -> root_lookup s' m = Some x.
Proof.
  revert s' r. induction s as [|t rest IH]; intros s' r H Hm; simpl in H.
  - inversion H; subst. exact Hm.
  - destruct (lookup n (t_store t)) as [sym|]; [inversion H; subst; exact Hm|].
    destruct rest as [|u r'].
    + destruct (mem n (t_disabled t)); [inversion H; subst; exact Hm|].
      destruct (builtin_index n builtins_map); inversion H; subst; exact Hm.
    + destruct (resolve (u :: r') n) as [rest' rr] eqn:Er.
      assert (Hne: rest' <> []).
      { intros E0. subst rest'. apply resolve_length in Er. discriminate. }
      assert (Hrest: root_lookup rest' m = Some x).
      { eapply IH; [reflexivity|]. unfold root_lookup in *. rewrite root_table_cons in Hm by discriminate. exact Hm. }
      destruct rr as [sym|].
      * destruct (negb (t_block t) && _); [unfold define_free in H|]; inversion H; subst;
          unfold root_lookup in *; rewrite root_table_cons by exact Hne; exact Hrest.
      * inversion H; subst. unfold root_lookup in *. rewrite root_table_cons by exact Hne. exact Hrest.
Qed.

Lemma fold_disable_keep names st n x :
  lookup n st = Some x -> is_builtin_scope x = false ->
  lookup n (fold_left (fun st n => match lookup n st with
                                   | Some sym => match s_scope sym with ScBuiltin => remove n st | _ => st end
                                   | None => st end) names st) = Some x.
Proof.
  revert st. induction names as [|m r IH]; intros st H Hb; simpl; [exact H|].
  apply IH; [|exact Hb].
  destruct (lookup m st) as [sm|] eqn:Em; [|exact H].
  destruct (s_scope sm) eqn:Es; try exact H.
  destruct (String.eqb n m) eqn:E.
  - apply String.eqb_eq in E. subst. rewrite Em in H. inversion H; subst.
    unfold is_builtin_scope in Hb. rewrite Es in Hb. discriminate.
  - rewrite lookup_remove_other by exact E. exact H.
Qed.

Lemma disable_root_lookup s names n x :
  root_lookup s n = Some x -> is_builtin_scope x = false -> root_lookup (disable_builtin s names) n = Some x.
Proof.
  induction s as [|t rest IH]; intros H Hb; [exact H|].
  destruct rest as [|u r].
  - unfold root_lookup in *. simpl in *. apply fold_disable_keep; assumption.
  - change (disable_builtin (t :: u :: r) names) with (t :: disable_builtin (u :: r) names).
    unfold root_lookup in *. rewrite root_table_cons in H by discriminate.
    rewrite root_table_cons by (destruct r; simpl; discriminate). apply IH; assumption.
Qed.

(* a non-builtin symbol bound at the top level is never rebound or removed by any later
   operation: variables, constants and globals declared by an earlier fragment keep their slot
   and scope in every later fragment *)
Lemma set_params_go_root ps : forall s n x, root_lookup s n = Some x -> root_lookup (fst (set_params_go ps s)) n = Some x.
Proof.
  induction ps as [|p ps IH]; intros s n x H; [exact H|].
  destruct s as [|t rest]; [exact H|]. cbn [set_params_go].
  destruct (lookup p (t_store t)) eqn:El; [exact H|].
  apply IH. rewrite root_lookup_update_max.
  destruct rest as [|u r].
  - unfold root_lookup in *. simpl in *. apply lookup_put_shadow_keep; [exact H | exact El].
  - rewrite (root_lookup_head_nonroot t) by discriminate. exact H.
Qed.

Theorem root_symbol_stable s o n x :
  root_lookup s n = Some x -> is_builtin_scope x = false ->
  root_lookup (fst (apply_op s o)) n = Some x.
Proof.
  intros H Hb. destruct o as [b| |n0|n0|n0|n0|ps|ns]; cbn [apply_op].
  - (* fork *) cbn [fst]. unfold fork. destruct s as [|t rest]; [exact H|].
    unfold root_lookup in *. rewrite root_table_cons by discriminate. exact H.
  - (* leave *) cbn [fst]. unfold leave. destruct s as [|t [|u rest]]; exact H.
  - destruct (resolve s n0) as [s' r] eqn:E. cbn [fst]. eapply resolve_root_lookup; eassumption.
  - (* define_local *)
    destruct (define_local s n0) as [s' r] eqn:E. cbn [fst].
    unfold define_local in E. destruct s as [|t rest]; [inversion E; subst; exact H|].
    destruct (lookup n0 (t_store t)) eqn:El; [inversion E; subst; exact H|].
    pose proof (f_equal fst E) as E1; cbn [fst] in E1. rewrite <- E1.
    rewrite root_lookup_update_max.
    destruct rest as [|u r0].
    + unfold root_lookup in *. simpl in *. apply lookup_put_shadow_keep; [exact H | exact El].
    + rewrite (root_lookup_head_nonroot t) by discriminate. exact H.
  - (* define_global *)
    destruct (define_global s n0) as [s' r] eqn:E. cbn [fst].
    unfold define_global in E. destruct s as [|t [|u rest]]; try (inversion E; subst; exact H).
    destruct (lookup n0 (t_store t)) as [sym|] eqn:El.
    + destruct (s_scope sym); inversion E; subst; exact H.
    + pose proof (f_equal fst E) as E1; cbn [fst] in E1. rewrite <- E1.
      unfold root_lookup in *. simpl in *. apply lookup_put_shadow_keep; [exact H | exact El].
  - (* define_const *)
    destruct (define_const_lit s n0) as [s' r] eqn:E. cbn [fst].
    unfold define_const_lit in E. destruct s as [|t rest]; [inversion E; subst; exact H|].
    destruct (lookup n0 (t_store t)) eqn:El; [inversion E; subst; exact H|].
    pose proof (f_equal fst E) as E1; cbn [fst] in E1. rewrite <- E1.
    destruct rest as [|u r0].
    + unfold root_lookup in *. simpl in *. apply lookup_put_shadow_keep; [exact H | exact El].
    + rewrite (root_lookup_head_nonroot t) by discriminate. exact H.
  - (* set_params *)
    destruct (set_params s ps) as [s' b] eqn:E. cbn [fst].
    unfold set_params in E. destruct ps as [|p ps]; [inversion E; subst; exact H|].
    destruct s as [|t rest]; [inversion E; subst; exact H|].
    destruct (0 <? t_numparams t); [inversion E; subst; exact H|].
    destruct (t_disable_params t); [inversion E; subst; exact H|].
  destruct (existsb _ (p :: ps)); [inversion E; subst; exact H|].
  destruct (0 <? t_numdef t); [inversion E; subst; exact H|].
    pose proof (f_equal fst E) as E1; cbn [fst] in E1. rewrite <- E1.
    apply set_params_go_root.
    destruct rest as [|u r0]; [exact H|]. rewrite (root_lookup_head_nonroot t) by discriminate. exact H.
  - cbn [fst]. apply disable_root_lookup; assumption.
Qed.

Theorem root_symbol_stable_history ops : forall s n x,
  root_lookup s n = Some x -> is_builtin_scope x = false ->
  root_lookup (fst (run_ops s ops)) n = Some x.
Proof.
  induction ops as [|o r IH]; intros s n x H Hb; simpl; [exact H|].
  pose proof (root_symbol_stable s o n x H Hb) as H1.
  destruct (apply_op s o) as [s1 y]. simpl in H1.
  specialize (IH s1 n x H1 Hb). destruct (run_ops s1 r) as [s2 ys]. exact IH.
Qed.
