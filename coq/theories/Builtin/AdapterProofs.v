From Coq Require Import List ZArith Bool String Lia.
From Ugo Require Import Base.Res Gen.Adapters Builtin.Adapter.
Import ListNotations.
Local Open Scope Z_scope.

Lemma call_get_in_range {A} (args vargs : list A) n :
  0 <= n < Z.of_nat (List.length args + List.length vargs) -> exists v, call_get args vargs n = Ok v.
Proof.
  intros H. unfold call_get. destruct (Z.ltb_spec n 0); [lia|].
  destruct (nth_error (args ++ vargs) (Z.to_nat n)) as [v|] eqn:E; [eauto|].
  apply nth_error_None in E. rewrite app_length in E. lia.
Qed.

Lemma run_params_no_panic ps args vargs n :
  n = Z.of_nat (List.length args + List.length vargs) ->
  forallb (fun p : param => let '((_, idx), (_, tnidx)) := p in (0 <=? idx) && (idx <? n) && (0 <=? tnidx) && (tnidx <? n)) ps = true ->
  is_panic (run_params ps args vargs) = false.
Proof.
  intros Hn. induction ps as [|[[conv idx] [[pos want] tnidx]] rest IH]; intros H; [reflexivity|].
  cbn [forallb] in H. apply andb_true_iff in H as [Hp Hrest].
  apply andb_true_iff in Hp as [Hp H4]. apply andb_true_iff in Hp as [Hp H3]. apply andb_true_iff in Hp as [H1 H2].
  apply Z.leb_le in H1, H3. apply Z.ltb_lt in H2, H4.
  cbn [run_params].
  destruct (call_get_in_range args vargs idx) as [v Ev]; [lia|]. rewrite Ev. cbn [bind].
  destruct (conv_accepts conv v) as [[|]|]; [apply IH; exact Hrest | | reflexivity].
  destruct (call_get_in_range args vargs tnidx) as [t Et]; [lia|]. rewrite Et. reflexivity.
Qed.

Lemma mapM_get_no_panic (gets : list Z) (args vargs : list aval) n :
  n = Z.of_nat (List.length args + List.length vargs) ->
  forallb (fun g => (0 <=? g) && (g <? n)) gets = true ->
  exists vs, mapM (call_get args vargs) gets = Ok vs.
Proof.
  intros Hn. induction gets as [|g gs IH]; intros H; [exists []; reflexivity|].
  cbn [forallb] in H. apply andb_true_iff in H as [Hg Hgs]. apply andb_true_iff in Hg as [H1 H2].
  apply Z.leb_le in H1. apply Z.ltb_lt in H2.
  destruct (call_get_in_range args vargs g) as [v Ev]; [lia|]. destruct (IH Hgs) as [vs Evs].
  exists (v :: vs). cbn [mapM]. rewrite Ev. cbn [bind]. rewrite Evs. reflexivity.
Qed.

(* an adapter whose indexes are all below its required count never panics, for any argument list,
   however it is split between fixed and variadic arguments *)
Theorem adapter_total (s : spec) args vargs : spec_ok s = true -> is_panic (run_adapter s args vargs) = false.
Proof.
  destruct s as [[ex n] [gets ps]]. unfold spec_ok, run_adapter. intros H. apply andb_true_iff in H as [Hg Hp].
  destruct (Z.eqb_spec (Z.of_nat (List.length args + List.length vargs)) n) as [E|E]; cbn [negb]; [|reflexivity].
  pose proof (run_params_no_panic ps args vargs n (eq_sym E) Hp) as Hnp.
  destruct (run_params ps args vargs) as [[o|]| | |]; cbn [bind]; try reflexivity; try discriminate.
  destruct (mapM_get_no_panic gets args vargs n (eq_sym E) Hg) as [vs Evs]. rewrite Evs. reflexivity.
Qed.

(* the table regenerated from the current source satisfies the index condition *)
Lemma adapters_ok : forallb (fun e => spec_ok (snd e)) adapters = true.
Proof. vm_compute. reflexivity. Qed.

Theorem adapters_never_panic name s args vargs :
  In (name, s) adapters -> is_panic (run_adapter s args vargs) = false.
Proof.
  intros Hin. apply adapter_total.
  pose proof adapters_ok as H. rewrite forallb_forall in H. exact (H _ Hin).
Qed.

(* the arity answer: a wrong-number-of-arguments error exactly when the count differs *)
Theorem adapter_arity (s : spec) args vargs :
  let n := snd (fst s) in
  let k := Z.of_nat (List.length args + List.length vargs) in
  (k <> n -> run_adapter s args vargs = Ok (OWrongNum n k)) /\
  (k = n -> forall w g, run_adapter s args vargs <> Ok (OWrongNum w g)).
Proof.
  destruct s as [[ex n] [gets ps]]. cbn [fst snd]. split; intros H.
  - unfold run_adapter. destruct (Z.eqb_spec (Z.of_nat (List.length args + List.length vargs)) n); [contradiction|reflexivity].
  - intros w g. unfold run_adapter. rewrite H, Z.eqb_refl. cbn [negb].
    assert (G: forall ps, forall o, run_params ps args vargs = Ok (Some o) -> forall w g, o <> OWrongNum w g).
    { clear. induction ps as [|[[conv idx] [[pos want] tnidx]] rest IH]; intros o Ho w g; [discriminate|].
      cbn [run_params] in Ho. destruct (call_get args vargs idx) as [v| | |]; cbn [bind] in Ho; try discriminate.
      destruct (conv_accepts conv v) as [[|]|].
      - eapply IH; exact Ho.
      - destruct (call_get args vargs tnidx); cbn [bind] in Ho; try discriminate. inversion Ho. discriminate.
      - inversion Ho. discriminate. }
    destruct (run_params ps args vargs) as [[o|]| | |] eqn:E; cbn [bind]; try discriminate.
    + intros Heq. inversion Heq as [Ho]. exact (G ps o E w g Ho).
    + destruct (mapM (call_get args vargs) gets); cbn [bind]; discriminate.
Qed.

(* every entry point of an exported callable which the tables route through an adapter is guarded
   by one of the table, hence never panics before its body *)
Theorem callable_adapter_never_panics cid ex s args vargs :
  callable_adapter cid ex = Some s -> is_panic (run_adapter s args vargs) = false.
Proof.
  unfold callable_adapter, find_adapter. destruct (find _ callables) as [[c [v vx]]|]; [|discriminate].
  destruct (find _ adapters) as [[name s0]|] eqn:E; [|discriminate]. intros H. inversion H; subst.
  apply find_some in E as [Hin _]. cbn [snd]. eapply adapters_never_panic. exact Hin.
Qed.
