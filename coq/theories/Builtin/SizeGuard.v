(* Size-driven builtins: repeat, :makeArray (builtins.go), strings.Repeat, PadLeft/PadRight
   (stdlib/strings/module.go).  The model follows the Go arithmetic (int is 64 bit, wrapping) and
   marks with GoPanic the calls into the Go runtime / standard library that panic outside their
   domain (C19). *)
From Coq Require Import List ZArith Bool String.
From Ugo Require Import Base.Res Base.GoInt Gen.Adapters.
Import ListNotations.
Local Open Scope Z_scope.

(* runtime.maxAlloc on 64 bit linux: allocations above it panic (makeslice: len out of range);
   below it they are attempted *)
Definition go_max_alloc : Z := 2 ^ 48.
Definition go_max_int : Z := 2 ^ 63 - 1.

(* make([]T, n) / make([]T, 0, n) with elements of esz bytes *)
Definition go_make (esz n : Z) : res unit :=
  if (n <? 0) || (go_max_alloc <? n * esz) then GoPanic PkMakeSlice else Ok tt.

(* strings.Repeat / bytes.Repeat of a value of length len: panics on a negative count and when
   len*count overflows; allocates len*count bytes *)
Definition go_repeat (len count : Z) : res Z :=
  if count <? 0 then GoPanic PkOverflow
  else if go_max_int <? len * count then GoPanic PkOverflow
  else do _ <- go_make 1 (len * count); Ok (len * count).

(* strings.Builder.Grow(n) on an empty builder *)
Definition go_builder_grow (n : Z) : res unit :=
  if n <? 0 then GoPanic PkExplicit else go_make 1 n.

(* s[:d] of a string of length len *)
Definition go_slice_to (len d : Z) : res Z :=
  if (d <? 0) || (len <? d) then GoPanic PkIndex else Ok d.

Inductive rkind := RArray | RString | RBytes.

Definition err_too_large : uerror := mkErr [] [].
Definition err_negative : uerror := mkErr [] [Byte.x01].

(* builtinRepeatFunc(arg, count) for an array/string/bytes argument of length len; Ok: result length *)
Definition repeat_model (k : rkind) (len count : Z) : res Z :=
  if count <? 0 then Err err_negative
  else if (0 <? len) && (Z.quot max_alloc_len len <? count) then Err err_too_large
  else match k with
       | RArray => if len =? 0 then Ok 0
                   else do _ <- go_make 16 (i64 (len * count)); Ok (i64 (len * count))
       | RString | RBytes => go_repeat len count
       end.

(* builtinMakeArrayFunc(n, arg); arr = Some L when arg is an array of length L. Ok: length of the
   result (-1 when a non-array arg itself is returned) *)
Definition make_array_model (n : Z) (arr : option Z) : res Z :=
  if n <=? 0 then Ok (match arr with Some L => L | None => -1 end)
  else if max_alloc_len <? n then Err err_too_large
  else match arr with
       | None => do _ <- go_make 16 n; Ok n
       | Some L => if n <=? L then do _ <- go_slice_to L n; Ok n
                   else do _ <- go_make 16 n; Ok n
       end.

(* strings module repeatFunc(s, count) *)
Definition strings_repeat_model (len count : Z) : res Z :=
  if count <? 0 then Ok 0
  else if (0 <? len) && (Z.quot max_string_len len <? count) then Err err_too_large
  else go_repeat len count.

(* strings module pad: s of length ls, requested length padLen, padWith of length lp (has_pad:
   the third argument is present; the default padding is one space) *)
Definition pad_model (ls padLen lp : Z) (has_pad : bool) : res Z :=
  if padLen <=? ls then Ok ls
  else if max_string_len <? padLen then Err err_too_large
  else
    let diff := i64 (padLen - ls) in
    let lp := if has_pad then lp else 1 in
    if has_pad && (lp =? 0) then Ok ls
    else
      let r := i64 (Z.quot (i64 (diff - lp)) lp + 2) in
      if r <=? 0 then Ok ls
      else
        do _ <- go_builder_grow padLen;
        do rep <- go_repeat lp r;
        do _ <- go_slice_to rep diff;
        Ok (diff + ls).
