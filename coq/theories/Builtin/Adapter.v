(* Generated argument adapters (zfuncs.go, stdlib/zfuncs.go, stdlib/time/zfuncs.go, the time method
   table): arity check, argument access through Call.Get, conversions and their type errors (C19).
   The adapter descriptions are regenerated from the Go source into Gen/Adapters.v. *)
From Coq Require Import List ZArith Bool String.
From Ugo Require Import Base.Res Gen.Adapters.
Import ListNotations.
Local Open Scope Z_scope.

Inductive vclass :=
| KUndefined | KBool | KInt | KUint | KFloat | KChar | KString | KBytes | KArray | KMap | KSyncMap
| KError | KRtError | KFunction | KBuiltinFn | KCompiledFn | KTime | KLocation | KOther.

(* An argument as far as the adapters can tell: its dynamic type, its TypeName and, for a string,
   whether the Go standard library parses it (oracle facts supplied with the argument). *)
Record aval := mkAval {
  av_class : vclass;
  av_tn : string;
  av_pint : bool;     (* strconv.ParseInt(s, 0, 0) succeeds *)
  av_pint64 : bool;   (* strconv.ParseInt(s, 0, 64) *)
  av_puint : bool;    (* strconv.ParseUint(s, 0, 64) *)
  av_pfloat : bool;   (* strconv.ParseFloat(s, 64) *)
  av_ptime : bool;    (* time.Parse RFC3339Nano or RFC3339 *)
  av_ploc : bool      (* time.LoadLocation *)
}.

Definition is_numeric_or_bool (c : vclass) : bool :=
  match c with KInt | KUint | KFloat | KChar | KBool => true | _ => false end.

(* ugo.go: ToGoString .. ToGoBool, ToArray; stdlib/time/funcs.go: ToTime, ToLocation.
   None: a converter this model does not know. *)
Definition conv_accepts (conv : string) (v : aval) : option bool :=
  let c := av_class v in
  if String.eqb conv "Object" then Some true
  else if String.eqb conv "ToGoString" then Some (match c with KUndefined => false | _ => true end)
  else if String.eqb conv "ToGoByteSlice" then Some (match c with KBytes | KString => true | _ => false end)
  else if String.eqb conv "ToGoInt" then Some (is_numeric_or_bool c || (match c with KString => av_pint v | _ => false end))
  else if String.eqb conv "ToGoInt64" then Some (is_numeric_or_bool c || (match c with KString => av_pint64 v | _ => false end))
  else if String.eqb conv "ToGoUint64" then Some (is_numeric_or_bool c || (match c with KString => av_puint v | _ => false end))
  else if String.eqb conv "ToGoFloat64" then Some (is_numeric_or_bool c || (match c with KString => av_pfloat v | _ => false end))
  else if String.eqb conv "ToGoRune" then Some (is_numeric_or_bool c || (match c with KString => true | _ => false end))
  else if String.eqb conv "ToGoBool" then Some true
  else if String.eqb conv "ToArray" then Some (match c with KArray => true | _ => false end)
  else if String.eqb conv "ToTime" then Some (match c with KTime | KInt => true | KString => av_ptime v | _ => false end)
  else if String.eqb conv "ToLocation" then Some (match c with KLocation => true | KString => av_ploc v | _ => false end)
  else None.

(* objects.go Call.Get: args[n] when n < len(args), else vargs[n-len(args)]; Go panics on an index
   out of range (also for a negative one) *)
Definition call_get {A} (args vargs : list A) (n : Z) : res A :=
  if n <? 0 then GoPanic PkIndex
  else match nth_error (args ++ vargs) (Z.to_nat n) with
       | Some v => Ok v
       | None => GoPanic PkIndex
       end.

Inductive outcome :=
| OWrongNum (want got : Z)                 (* ErrWrongNumArguments "want=<n> got=<k>" *)
| OTypeErr (pos want got : string)         (* NewArgumentTypeError(pos, want, got) *)
| OUnknownConv (conv : string)
| OBody.                                   (* every check passed: the wrapped function is called *)

Definition param := ((string * Z) * ((string * string) * Z))%type.
Definition spec := ((bool * Z) * (list Z * list param))%type.

Fixpoint run_params (ps : list param) (args vargs : list aval) : res (option outcome) :=
  match ps with
  | [] => Ok None
  | ((conv, idx), ((pos, want), tnidx)) :: rest =>
      do v <- call_get args vargs idx;
      match conv_accepts conv v with
      | None => Ok (Some (OUnknownConv conv))
      | Some true => run_params rest args vargs
      | Some false => do t <- call_get args vargs tnidx; Ok (Some (OTypeErr pos want (av_tn t)))
      end
  end.

(* The adapter: arity, then the parameters in order, then the body, in which every remaining
   argument access of the Go function happens. *)
Definition run_adapter (s : spec) (args vargs : list aval) : res outcome :=
  let '((_, n), (gets, ps)) := s in
  let k := Z.of_nat (List.length args + List.length vargs) in
  if negb (k =? n) then Ok (OWrongNum n k)
  else
    do r <- run_params ps args vargs;
    match r with
    | Some o => Ok o
    | None => do _ <- mapM (call_get args vargs) gets; Ok OBody
    end.

(* all argument indexes an adapter touches are below the count its arity check demands *)
Definition spec_ok (s : spec) : bool :=
  let '((_, n), (gets, ps)) := s in
  forallb (fun g => (0 <=? g) && (g <? n)) gets &&
  forallb (fun p : param => let '((_, idx), (_, tnidx)) := p in (0 <=? idx) && (idx <? n) && (0 <=? tnidx) && (tnidx <? n)) ps.

Definition find_adapter (name : string) : option spec :=
  match find (fun e => String.eqb (fst e) name) adapters with
  | Some e => Some (snd e)
  | None => None
  end.

(* which adapter guards an entry point of an exported callable; mode: false = Value, true = ValueEx *)
Definition callable_adapter (cid : string) (ex : bool) : option spec :=
  match find (fun e => String.eqb (fst e) cid) callables with
  | Some (_, (v, vx)) => find_adapter (if ex then vx else v)
  | None => None
  end.

(* the adapter guarding an entry point: mode 0 = Value, 1 = ValueEx, 2 = call from a script
   (Function.CallEx: ValueEx when present, else Value); "-" marks an absent field *)
Definition callable_adapter_mode (cid : string) (mode : Z) : option spec :=
  match find (fun e => String.eqb (fst e) cid) callables with
  | Some (_, (v, vx)) =>
      if mode =? 0 then find_adapter v
      else if mode =? 1 then find_adapter vx
      else if String.eqb vx "-" then find_adapter v else find_adapter vx
  | None => None
  end.

(* one result per argument tuple (indexes into a pool of described values); half: the tuple is
   split in the middle between fixed and variadic arguments *)
Definition run_tuples (s : spec) (pool : list aval) (half : bool) (tuples : list (list Z)) : list (res outcome) :=
  map (fun t =>
         match mapM (fun i => match nth_error pool (Z.to_nat i) with Some v => Ok v | None => OutOfFuel end) t with
         | Ok vals =>
             if half then let h := Nat.div (List.length vals) 2 in run_adapter s (firstn h vals) (skipn h vals)
             else run_adapter s vals []
         | _ => OutOfFuel
         end) tuples.
