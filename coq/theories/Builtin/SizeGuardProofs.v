From Coq Require Import List ZArith Bool String Lia.
From Ugo Require Import Base.Res Base.GoInt Gen.Adapters Builtin.SizeGuard.
Import ListNotations.
Local Open Scope Z_scope.

Definition M48 : Z := 281474976710656.

(* what the proofs need from the limits regenerated from the source *)
Lemma limits_ok : 0 < max_alloc_len /\ max_alloc_len * 16 <= M48 /\
                  0 < max_string_len /\ max_string_len * 4 <= M48.
Proof. vm_compute. repeat split; congruence. Qed.

Lemma i64_small z : - 9223372036854775808 <= z < 9223372036854775808 -> i64 z = z.
Proof. intros H. apply i64_id. unfold in_i64. apply andb_true_iff. split; [apply Z.leb_le | apply Z.ltb_lt]; simpl; lia. Qed.

Lemma go_make_ok esz n : 0 <= n -> n * esz <= M48 -> go_make esz n = Ok tt.
Proof.
  intros H1 H2. unfold go_make, go_max_alloc. change (2 ^ 48) with M48.
  destruct (Z.ltb_spec n 0); [lia|]. destruct (Z.ltb_spec M48 (n * esz)); [lia|]. reflexivity.
Qed.

Lemma go_repeat_ok len count : 0 <= count -> 0 <= len * count <= M48 -> go_repeat len count = Ok (len * count).
Proof.
  intros H1 H2. unfold go_repeat, go_max_int. change (2 ^ 63 - 1) with 9223372036854775807.
  destruct (Z.ltb_spec count 0); [lia|]. unfold M48 in *.
  destruct (Z.ltb_spec 9223372036854775807 (len * count)); [lia|].
  rewrite go_make_ok by (unfold M48; lia). reflexivity.
Qed.

(* count <= M / len -> len * count <= M, for positive len *)
Lemma quot_guard M len count : 0 < len -> 0 <= M -> 0 <= count -> ~ (Z.quot M len < count) -> len * count <= M.
Proof.
  intros Hl HM Hc Hq. rewrite Z.quot_div_nonneg in Hq by lia.
  assert (count <= M / len) by lia.
  pose proof (Z.mul_div_le M len Hl). nia.
Qed.

(* repeat never panics, and a successful result is at most maxAllocLen long *)
Theorem repeat_no_panic k len count :
  0 <= len <= M48 -> - 9223372036854775808 <= count < 9223372036854775808 ->
  is_panic (repeat_model k len count) = false /\
  (forall n, repeat_model k len count = Ok n -> n = len * count /\ 0 <= n <= max_alloc_len).
Proof.
  intros Hl Hc. destruct limits_ok as [HA1 [HA2 [HS1 HS2]]]. unfold M48 in *. unfold repeat_model.
  destruct (Z.ltb_spec count 0) as [Hneg|Hpos]; [split; [reflexivity | discriminate]|].
  destruct (Z.ltb_spec 0 len) as [Hlp|Hl0]; cbn [andb].
  - destruct (Z.ltb_spec (Z.quot max_alloc_len len) count) as [Hbig|Hok]; [split; [reflexivity | discriminate]|].
    assert (Hm: len * count <= max_alloc_len) by (apply quot_guard; lia).
    assert (Hnn: 0 <= len * count) by nia. clear Hok.
    destruct k.
    + destruct (Z.eqb_spec len 0) as [Hz|Hz]; [lia|]. rewrite i64_small by lia.
      rewrite go_make_ok by (unfold M48; lia). cbn [bind].
      split; [reflexivity | intros n Hn; inversion Hn; lia].
    + rewrite go_repeat_ok by (unfold M48; lia). split; [reflexivity | intros n Hn; inversion Hn; lia].
    + rewrite go_repeat_ok by (unfold M48; lia). split; [reflexivity | intros n Hn; inversion Hn; lia].
  - assert (len = 0) by lia. subst len.
    destruct k.
    + cbn [Z.eqb]. split; [reflexivity | intros n Hn; inversion Hn; lia].
    + rewrite go_repeat_ok by (unfold M48; lia). split; [reflexivity | intros n Hn; inversion Hn; lia].
    + rewrite go_repeat_ok by (unfold M48; lia). split; [reflexivity | intros n Hn; inversion Hn; lia].
Qed.

Theorem make_array_no_panic n arr :
  (forall L, arr = Some L -> 0 <= L) ->
  is_panic (make_array_model n arr) = false.
Proof.
  intros HL. destruct limits_ok as [HA1 [HA2 [HS1 HS2]]]. unfold make_array_model.
  destruct (Z.leb_spec n 0); [reflexivity|].
  destruct (Z.ltb_spec max_alloc_len n); [reflexivity|].
  assert (Hmk: go_make 16 n = Ok tt) by (apply go_make_ok; lia).
  destruct arr as [L|]; [|rewrite Hmk; reflexivity].
  destruct (Z.leb_spec n L); [|rewrite Hmk; reflexivity].
  unfold go_slice_to. destruct (Z.ltb_spec n 0); [lia|]. destruct (Z.ltb_spec L n); [lia|]. reflexivity.
Qed.

Theorem strings_repeat_no_panic len count :
  0 <= len <= M48 -> - 9223372036854775808 <= count < 9223372036854775808 ->
  is_panic (strings_repeat_model len count) = false.
Proof.
  intros Hl Hc. destruct limits_ok as [HA1 [HA2 [HS1 HS2]]]. unfold strings_repeat_model.
  destruct (Z.ltb_spec count 0); [reflexivity|].
  destruct (Z.ltb_spec 0 len) as [Hlp|Hl0]; cbn [andb].
  - destruct (Z.ltb_spec (Z.quot max_string_len len) count); [reflexivity|].
    assert (Hm: len * count <= max_string_len) by (apply quot_guard; lia).
    match goal with H : ~ _ |- _ => clear H | H : _ <= Z.quot _ _ |- _ => clear H end.
    rewrite go_repeat_ok by nia. reflexivity.
  - assert (len = 0) by lia. subst len. rewrite go_repeat_ok by (unfold M48; lia). reflexivity.
Qed.

(* PadLeft / PadRight never panic and an accepted request is padded to exactly padLen *)
Theorem pad_no_panic ls padLen lp has_pad :
  0 <= ls <= M48 -> 0 <= lp <= M48 / 4 -> - 9223372036854775808 <= padLen < 9223372036854775808 ->
  is_panic (pad_model ls padLen lp has_pad) = false /\
  (forall n, pad_model ls padLen lp has_pad = Ok n -> n = ls \/ n = padLen).
Proof.
  intros Hls Hlp Hp. destruct limits_ok as [HA1 [HA2 [HS1 HS2]]].
  assert (E4: M48 / 4 = 70368744177664) by reflexivity. rewrite E4 in Hlp. unfold M48 in *.
  unfold pad_model.
  destruct (Z.leb_spec padLen ls); [split; [reflexivity | intros n Hn; inversion Hn; auto]|].
  destruct (Z.ltb_spec max_string_len padLen); [split; [reflexivity | discriminate]|].
  rewrite (i64_small (padLen - ls)) by lia.
  set (lp' := if has_pad then lp else 1).
  assert (Hlp': 0 <= lp' <= 70368744177664) by (unfold lp'; destruct has_pad; lia).
  destruct (has_pad && (lp' =? 0)) eqn:Ez; [split; [reflexivity | intros n Hn; inversion Hn; auto]|].
  assert (Hpos: 0 < lp').
  { unfold lp' in *. destruct has_pad; [|lia]. cbn [andb] in Ez. apply Z.eqb_neq in Ez. lia. }
  set (diff := padLen - ls). assert (Hd: 0 < diff <= 70368744177664) by (unfold diff; lia).
  rewrite (i64_small (diff - lp')) by lia.
  assert (Hq: - 1 <= Z.quot (diff - lp') lp' <= diff /\ diff <= lp' * (Z.quot (diff - lp') lp' + 2) <= diff + 2 * lp').
  { destruct (Z_lt_le_dec (diff - lp') 0) as [Hn|Hn].
    - assert (Z.quot (diff - lp') lp' = 0).
      { rewrite <- (Z.opp_involutive (diff - lp')). rewrite Z.quot_opp_l by lia.
        rewrite Z.quot_small by lia. reflexivity. }
      lia.
    - rewrite Z.quot_div_nonneg by lia.
      pose proof (Z.mul_div_le (diff - lp') lp' Hpos).
      pose proof (Z.mul_succ_div_gt (diff - lp') lp' Hpos).
      assert (0 <= (diff - lp') / lp') by (apply Z.div_pos; lia).
      assert ((diff - lp') / lp' <= diff - lp') by (apply Z.div_le_upper_bound; nia).
      nia. }
  destruct Hq as [Hq1 Hq2].
  rewrite (i64_small (Z.quot (diff - lp') lp' + 2)) by lia.
  destruct (Z.leb_spec (Z.quot (diff - lp') lp' + 2) 0); [split; [reflexivity | intros n Hn; inversion Hn; auto]|].
  set (r := Z.quot (diff - lp') lp' + 2) in *.
  assert (Hg: go_builder_grow padLen = Ok tt).
  { unfold go_builder_grow. destruct (Z.ltb_spec padLen 0); [lia|]. apply go_make_ok; unfold M48; lia. }
  rewrite Hg. cbn [bind].
  rewrite go_repeat_ok by (unfold M48; lia). cbn [bind].
  unfold go_slice_to. destruct (Z.ltb_spec diff 0); [lia|]. destruct (Z.ltb_spec (lp' * r) diff); [lia|]. cbn.
  split; [reflexivity | intros n Hn; inversion Hn; unfold diff; right; lia].
Qed.
