(* Outcome type shared by every model function that mirrors Go code.
   GoPanic marks exactly the places where the Go code would panic; totality
   theorems are statements "<> GoPanic _". *)
From Coq Require Import List ZArith.
Import ListNotations.

Inductive panic_kind :=
| PkIndex        (* index / slice bounds out of range *)
| PkDivZero      (* integer divide by zero *)
| PkShift        (* negative shift amount *)
| PkAssert       (* failed type assertion *)
| PkMakeSlice    (* makeslice: len out of range *)
| PkNilMap       (* write to nil map *)
| PkExplicit     (* panic(err) in the code *)
| PkOverflow.    (* strings.Repeat etc. *)

(* A uGO error value: Name and Message (as byte strings). *)
Record uerror := mkErr { err_name : list Byte.byte; err_msg : list Byte.byte }.

Inductive res (A : Type) :=
| Ok (a : A)
| Err (e : uerror)
| GoPanic (k : panic_kind)
| OutOfFuel.
Arguments Ok {A} a.
Arguments Err {A} e.
Arguments GoPanic {A} k.
Arguments OutOfFuel {A}.

Definition bind {A B} (r : res A) (f : A -> res B) : res B :=
  match r with
  | Ok a => f a
  | Err e => Err e
  | GoPanic k => GoPanic k
  | OutOfFuel => OutOfFuel
  end.

Notation "'do' x <- r ; k" := (bind r (fun x => k))
  (at level 200, x pattern, r at level 100, k at level 200, right associativity).

Definition is_panic {A} (r : res A) : bool :=
  match r with GoPanic _ => true | _ => false end.

Definition is_ok {A} (r : res A) : bool :=
  match r with Ok _ => true | _ => false end.

Fixpoint mapM {A B} (f : A -> res B) (l : list A) : res (list B) :=
  match l with
  | [] => Ok []
  | x :: xs => do y <- f x; do ys <- mapM f xs; Ok (y :: ys)
  end.

Lemma bind_ok {A B} (r : res A) (f : A -> res B) b :
  bind r f = Ok b -> exists a, r = Ok a /\ f a = Ok b.
Proof. destruct r; simpl; intros H; try discriminate. eauto. Qed.
