(* Facts about SpecFloat comparison and conversion used by the operator laws. *)
From Coq Require Import ZArith Bool Lia Floats.SpecFloat.
From Ugo Require Import Base.GoFloat.
Local Open Scope Z_scope.

Lemma Pcompare_antisym_eq p q : Pos.compare_cont Eq q p = CompOpp (Pos.compare_cont Eq p q).
Proof. change (Pos.compare q p = CompOpp (Pos.compare p q)). apply Pos.compare_antisym. Qed.

Lemma SFcompare_antisym a b :
  SFcompare b a = match SFcompare a b with Some c => Some (CompOpp c) | None => None end.
Proof.
  destruct a as [sa|sa| |sa ma ea], b as [sb|sb| |sb mb eb]; simpl; try reflexivity;
    try (destruct sa; reflexivity); try (destruct sb; reflexivity);
    try (destruct sa, sb; reflexivity).
  destruct sa, sb; try reflexivity.
  - rewrite (Z.compare_antisym ea eb). destruct (ea ?= eb) eqn:E; simpl; try reflexivity.
    rewrite Pcompare_antisym_eq. reflexivity.
  - rewrite (Z.compare_antisym ea eb). destruct (ea ?= eb) eqn:E; simpl; try reflexivity.
    rewrite Pcompare_antisym_eq. reflexivity.
Qed.

Lemma feqb_sym a b : feqb a b = feqb b a.
Proof.
  unfold feqb, SFeqb. rewrite (SFcompare_antisym a b).
  destruct (SFcompare a b) as [[]|]; reflexivity.
Qed.

Lemma SFcompare_not_nan a b : is_nan a = false -> is_nan b = false -> exists c, SFcompare a b = Some c.
Proof.
  destruct a, b; simpl; intros; try discriminate; eexists; reflexivity.
Qed.

(* exactly one of <, ==, > for non-NaN floats; <= and >= decompose; < flips to > *)
Lemma float_trichotomy a b :
  is_nan a = false -> is_nan b = false ->
  (fltb a b = true /\ feqb a b = false /\ fltb b a = false) \/
  (fltb a b = false /\ feqb a b = true /\ fltb b a = false) \/
  (fltb a b = false /\ feqb a b = false /\ fltb b a = true).
Proof.
  intros Ha Hb. destruct (SFcompare_not_nan a b Ha Hb) as [c Hc].
  unfold fltb, feqb, SFltb, SFeqb. rewrite (SFcompare_antisym a b), Hc.
  destruct c; simpl; tauto.
Qed.

Lemma fleb_spec a b : fleb a b = fltb a b || feqb a b.
Proof. unfold fleb, fltb, feqb, SFleb, SFltb, SFeqb. destruct (SFcompare a b) as [[]|]; reflexivity. Qed.

(* conversions from integers never produce NaN *)
Section Iter.
  Context {A : Type} (f : A -> A) (P : A -> Prop).
  Lemma iter_pos_inv n x : (forall y, P y -> P (f y)) -> P x -> P (iter_pos f n x).
  Proof.
    intros Hf. revert x. induction n as [n IH|n IH|]; simpl; intros x Hx.
    - apply IH, IH, Hf, Hx.
    - apply IH, IH, Hx.
    - apply Hf, Hx.
  Qed.
End Iter.

Lemma shr_1_nonneg mrs : 0 <= shr_m mrs -> 0 <= shr_m (shr_1 mrs).
Proof.
  destruct mrs as [m r s]. simpl. destruct m as [|p|p]; simpl; intros H; try lia.
  - destruct p; simpl; lia.
Qed.

Lemma shr_nonneg mrs e n : 0 <= shr_m mrs -> 0 <= shr_m (fst (shr mrs e n)).
Proof.
  intros H. unfold shr. destruct n; simpl; try assumption.
  apply (iter_pos_inv shr_1 (fun x => 0 <= shr_m x)); [apply shr_1_nonneg | exact H].
Qed.

Lemma shr_record_of_loc_m m l : shr_m (shr_record_of_loc m l) = m.
Proof. destruct l as [|[]]; reflexivity. Qed.

Lemma shr_fexp_nonneg prec emax m e l : 0 <= m -> 0 <= shr_m (fst (shr_fexp prec emax m e l)).
Proof. intros H. unfold shr_fexp. apply shr_nonneg. rewrite shr_record_of_loc_m. exact H. Qed.

Lemma round_nearest_even_nonneg m l : 0 <= m -> 0 <= round_nearest_even m l.
Proof. intros H. destruct l as [|[]]; simpl; try lia. destruct (Z.even m); lia. Qed.

Lemma binary_round_aux_not_nan prec emax sx mx ex lx :
  0 <= mx -> is_nan (binary_round_aux prec emax sx mx ex lx) = false.
Proof.
  intros H. unfold binary_round_aux.
  pose proof (shr_fexp_nonneg prec emax mx ex lx H) as H1.
  destruct (shr_fexp prec emax mx ex lx) as [mrs' e'] eqn:E1. simpl in H1.
  pose proof (shr_fexp_nonneg prec emax (round_nearest_even (shr_m mrs') (loc_of_shr_record mrs')) e' loc_Exact
                (round_nearest_even_nonneg _ _ H1)) as H2.
  destruct (shr_fexp prec emax (round_nearest_even (shr_m mrs') (loc_of_shr_record mrs')) e' loc_Exact) as [mrs'' e''] eqn:E2.
  simpl in H2. destruct (shr_m mrs'') as [|p|p]; try reflexivity; try lia.
  destruct (Zle_bool e'' (emax - prec)); reflexivity.
Qed.

Lemma binary_normalize_not_nan prec emax m e s : is_nan (binary_normalize prec emax m e s) = false.
Proof.
  unfold binary_normalize. destruct m as [|p|p]; try reflexivity; unfold binary_round;
    destruct (shl_align _ _ _) as [mz ez]; apply binary_round_aux_not_nan; lia.
Qed.

Lemma f64_of_Z_not_nan z : is_nan (f64_of_Z z) = false.
Proof. apply binary_normalize_not_nan. Qed.
