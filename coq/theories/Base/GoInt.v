(* Go fixed-width integer arithmetic over Z with explicit wrap-around. *)
From Coq Require Import ZArith Lia Bool.
Local Open Scope Z_scope.

Definition wrap_u (bits z : Z) : Z := z mod 2 ^ bits.
Definition wrap_s (bits z : Z) : Z :=
  let m := z mod 2 ^ bits in
  if m <? 2 ^ (bits - 1) then m else m - 2 ^ bits.

Definition i64 (z : Z) : Z := wrap_s 64 z.
Definition u64 (z : Z) : Z := wrap_u 64 z.
Definition i32 (z : Z) : Z := wrap_s 32 z.
Definition u32 (z : Z) : Z := wrap_u 32 z.
Definition i16 (z : Z) : Z := wrap_s 16 z.
Definition u16 (z : Z) : Z := wrap_u 16 z.
Definition i8 (z : Z) : Z := wrap_s 8 z.
Definition u8 (z : Z) : Z := wrap_u 8 z.

Definition in_i64 (z : Z) : bool := (- 2 ^ 63 <=? z) && (z <? 2 ^ 63).
Definition in_u64 (z : Z) : bool := (0 <=? z) && (z <? 2 ^ 64).
Definition in_i32 (z : Z) : bool := (- 2 ^ 31 <=? z) && (z <? 2 ^ 31).
Definition in_u8 (z : Z) : bool := (0 <=? z) && (z <? 2 ^ 8).
Definition in_range_s (bits z : Z) : bool := (- 2 ^ (bits-1) <=? z) && (z <? 2 ^ (bits-1)).
Definition in_range_u (bits z : Z) : bool := (0 <=? z) && (z <? 2 ^ bits).

Lemma wrap_s_id bits z : 0 < bits -> in_range_s bits z = true -> wrap_s bits z = z.
Proof.
  intros Hb H. unfold in_range_s in H. apply andb_true_iff in H as [H1 H2].
  apply Z.leb_le in H1. apply Z.ltb_lt in H2.
  unfold wrap_s.
  assert (Hp: 2 ^ bits = 2 * 2 ^ (bits - 1)).
  { replace bits with (Z.succ (bits - 1)) at 1 by lia. rewrite Z.pow_succ_r by lia. reflexivity. }
  assert (Hpos: 0 < 2 ^ (bits - 1)) by (apply Z.pow_pos_nonneg; lia).
  destruct (Z_lt_le_dec z 0) as [Hn|Hn].
  - assert (Hm: z mod 2 ^ bits = z + 2 ^ bits).
    { symmetry. apply Z.mod_unique with (q := -1); lia. }
    rewrite Hm. destruct (Z.ltb_spec (z + 2 ^ bits) (2 ^ (bits - 1))); lia.
  - rewrite Z.mod_small by lia.
    destruct (Z.ltb_spec z (2 ^ (bits - 1))); lia.
Qed.

Lemma wrap_u_id bits z : in_range_u bits z = true -> wrap_u bits z = z.
Proof.
  unfold in_range_u, wrap_u. intros H. apply andb_true_iff in H as [H1 H2].
  apply Z.leb_le in H1. apply Z.ltb_lt in H2. apply Z.mod_small. lia.
Qed.

Lemma i64_id z : in_i64 z = true -> i64 z = z.
Proof. intros H. apply wrap_s_id; [lia | exact H]. Qed.
Lemma u64_id z : in_u64 z = true -> u64 z = z.
Proof. intros H. apply wrap_u_id. exact H. Qed.
Lemma i32_id z : in_i32 z = true -> i32 z = z.
Proof. intros H. apply wrap_s_id; [lia | exact H]. Qed.

Lemma wrap_s_range bits z : 0 < bits -> in_range_s bits (wrap_s bits z) = true.
Proof.
  intros Hb. unfold wrap_s, in_range_s.
  assert (Hp: 2 ^ bits = 2 * 2 ^ (bits - 1)).
  { replace bits with (Z.succ (bits - 1)) at 1 by lia. rewrite Z.pow_succ_r by lia. reflexivity. }
  assert (Hpos: 0 < 2 ^ (bits - 1)) by (apply Z.pow_pos_nonneg; lia).
  pose proof (Z.mod_pos_bound z (2 ^ bits) ltac:(lia)) as Hm.
  destruct (Z.ltb_spec (z mod 2 ^ bits) (2 ^ (bits - 1))); apply andb_true_iff; split;
    try apply Z.leb_le; try apply Z.ltb_lt; lia.
Qed.

Lemma wrap_u_range bits z : 0 <= bits -> in_range_u bits (wrap_u bits z) = true.
Proof.
  intros Hb. unfold wrap_u, in_range_u.
  assert (Hpos: 0 < 2 ^ bits) by (apply Z.pow_pos_nonneg; lia).
  pose proof (Z.mod_pos_bound z (2 ^ bits) Hpos) as Hm.
  apply andb_true_iff; split; [apply Z.leb_le | apply Z.ltb_lt]; lia.
Qed.

Lemma i64_range z : in_i64 (i64 z) = true.
Proof. apply (wrap_s_range 64). lia. Qed.
Lemma u64_range z : in_u64 (u64 z) = true.
Proof. apply (wrap_u_range 64). lia. Qed.
Lemma i32_range z : in_i32 (i32 z) = true.
Proof. apply (wrap_s_range 32). lia. Qed.
