(* float64 / float32 as SpecFloat.spec_float (pure Gallina, no axioms). *)
From Coq Require Import ZArith Bool Floats.SpecFloat.
Local Open Scope Z_scope.

Definition prec64 := 53.
Definition emax64 := 1024.

Definition sf_of_bits (mw ew b : Z) : spec_float :=
  let sign := Z.odd (b / 2 ^ (mw + ew)) in
  let e := (b / 2 ^ mw) mod 2 ^ ew in
  let m := b mod 2 ^ mw in
  let bias := 2 ^ (ew - 1) - 1 in
  if e =? 0 then
    match m with Zpos p => S754_finite sign p (1 - bias - mw) | _ => S754_zero sign end
  else if e =? 2 ^ ew - 1 then
    if m =? 0 then S754_infinity sign else S754_nan
  else
    match m + 2 ^ mw with Zpos p => S754_finite sign p (e - bias - mw) | _ => S754_nan end.

(* NaN is mapped to Go's math.NaN() bit pattern (quiet NaN, payload 1). *)
Definition bits_of_sf (mw ew : Z) (f : spec_float) : Z :=
  let sgn (s : bool) := if s then 2 ^ (mw + ew) else 0 in
  let bias := 2 ^ (ew - 1) - 1 in
  match f with
  | S754_zero s => sgn s
  | S754_infinity s => sgn s + (2 ^ ew - 1) * 2 ^ mw
  | S754_nan => (2 ^ ew - 1) * 2 ^ mw + 2 ^ (mw - 1) + 1
  | S754_finite s m e =>
      if Zpos m <? 2 ^ mw then sgn s + Zpos m
      else sgn s + (e + bias + mw) * 2 ^ mw + (Zpos m - 2 ^ mw)
  end.

Definition f64_of_bits := sf_of_bits 52 11.
Definition bits_of_f64 := bits_of_sf 52 11.
Definition f32_of_bits := sf_of_bits 23 8.

(* float64(f32): exact.  A binary32 mantissa has at most 24 digits, so the
   precision-53 canonical form is the mantissa shifted left; no rounding. *)
Definition widen32 (f : spec_float) : spec_float :=
  match f with
  | S754_finite s m e =>
      let k := 53 - Z.pos (digits2_pos m) in
      match k with
      | Zpos p => S754_finite s (shift_pos p m) (e - k)
      | _ => f
      end
  | _ => f
  end.

(* two dyadic rationals m1*2^e1 and m2*2^e2 are equal *)
Definition dy_eq (a b : Z * Z) : Prop :=
  let '(m1, e1) := a in let '(m2, e2) := b in
  let lo := Z.min e1 e2 in m1 * 2 ^ (e1 - lo) = m2 * 2 ^ (e2 - lo).

Definition fadd := SFadd prec64 emax64.
Definition fsub := SFsub prec64 emax64.
Definition fmul := SFmul prec64 emax64.
Definition fdiv := SFdiv prec64 emax64.
Definition feqb := SFeqb.
Definition fltb := SFltb.
Definition fleb := SFleb.
Definition fopp := SFopp.
Definition is_nan (f : spec_float) : bool := match f with S754_nan => true | _ => false end.

Definition f64_of_Z (z : Z) : spec_float := binary_normalize prec64 emax64 z 0 false.

(* Value of a float as a dyadic rational (m, e) meaning m * 2^e; None for inf / nan. *)
Definition sf_dyadic (f : spec_float) : option (Z * Z) :=
  match f with
  | S754_zero _ => Some (0, 0)
  | S754_finite s m e => Some (cond_Zopp s (Zpos m), e)
  | _ => None
  end.

(* truncation toward zero of a finite float, as an unbounded integer *)
Definition sf_trunc (f : spec_float) : option Z :=
  match f with
  | S754_zero _ => Some 0
  | S754_finite s m e =>
      let a := if 0 <=? e then Zpos m * 2 ^ e else Zpos m / 2 ^ (- e) in
      Some (cond_Zopp s a)
  | _ => None
  end.
