(* Argument binding of compiled functions: xOpCallCompiled (vm.go) and initLocals (the binding
   of Main, used by Run and by Invoker.Invoke), against a declarative specification.
   Properties C02 (fixed / variadic / spread binding) and C14 (binding_agrees). *)
From Coq Require Import List ZArith Bool Lia.
From Ugo Require Import Base.Res Value.PValue.
Import ListNotations.

Inductive bind_err := WrongNumArgs (want got : nat) (atleast : bool) | LastNotArray.

(* ---- specification: the effective argument list, then positional / variadic binding ---- *)

Definition effective (args : list pvalue) (spread : bool) : option (list pvalue) :=
  if spread then
    match rev args with
    | PArr l :: front => Some (rev front ++ l)
    | _ => None
    end
  else Some args.

Definition spec_bind (nparams : nat) (variadic : bool) (e : list pvalue) : option (list pvalue) :=
  if variadic then
    if Nat.ltb (length e) (nparams - 1) then None
    else Some (firstn (nparams - 1) e ++ [PArr (skipn (nparams - 1) e)])
  else if Nat.eqb (length e) nparams then Some e else None.

(* ---- xOpCallCompiled: the parameter slots stack[bp .. bp+numParams) after the call set-up ---- *)

Definition call_compiled (nparams : nat) (variadic : bool) (args : list pvalue) (spread : bool)
  : option (list pvalue) :=
  let nargs := length args in
  if negb spread then
    if negb variadic then
      if Nat.eqb nargs nparams then Some args else None
    else
      if Nat.ltb nargs (nparams - 1) then None
      else if Nat.eqb nargs (nparams - 1) then Some (args ++ [PArr []])
      else Some (firstn (nparams - 1) args ++ [PArr (skipn (nparams - 1) args)])
  else
    match rev args with
    | PArr arr :: front_rev =>
        let front := rev front_rev in          (* args without the last one *)
        let asz := length arr in
        if variadic then
          if Nat.ltb nargs nparams then
            if Nat.ltb (asz + nargs) nparams then None
            else
              let tmp := front ++ arr in
              Some (firstn (nparams - 1) tmp ++ [PArr (skipn (nparams - 1) tmp)])
          else if Nat.ltb nparams nargs then
            Some (firstn (nparams - 1) args ++ [PArr (skipn (nparams - 1) front ++ arr)])
          else Some args                        (* numArgs == numParams: the array is the variadic parameter *)
        else
          if negb (Nat.eqb (asz + nargs - 1) nparams) then None
          else Some (front ++ arr)
    | _ => None
    end.

(* ---- initLocals: lenient binding of Main's parameters (Run, Invoke) ---- *)

Definition init_locals (nparams : nat) (variadic : bool) (args : list pvalue) : list pvalue :=
  let undef := repeat PUndef nparams in
  if Nat.eqb nparams 0 then []
  else if Nat.ltb (length args) nparams then
    let base := if variadic then firstn (nparams - 1) undef ++ [PArr []] else undef in
    args ++ skipn (length args) base
  else
    if variadic then firstn (nparams - 1) args ++ [PArr (skipn (nparams - 1) args)]
    else firstn (nparams - 1) args ++ [nth (nparams - 1) args PUndef].
