From Coq Require Import List ZArith Bool Lia.
From Ugo Require Import Base.Res Value.PValue VM.CallBinding.
Import ListNotations.

Lemma rev_cons_split {A} (l : list A) x front : rev l = x :: front -> l = rev front ++ [x].
Proof. intros H. rewrite <- (rev_involutive l), H. reflexivity. Qed.

Lemma firstn_skipn_all {A} n (l : list A) : length l <= n -> firstn n l = l /\ skipn n l = [].
Proof. intros H. split; [apply firstn_all2 | apply skipn_all2]; exact H. Qed.

(* the per-case stack manipulation of xOpCallCompiled computes the declarative binding *)
Theorem call_binding_spec nparams variadic args spread :
  (variadic = true -> 1 <= nparams) ->
  call_compiled nparams variadic args spread =
  match effective args spread with
  | Some e => spec_bind nparams variadic e
  | None => None
  end.
Proof.
  intros Hv. unfold call_compiled, effective, spec_bind.
  destruct spread; cbn [negb].
  - (* spread *)
    destruct (rev args) as [|last front_rev] eqn:Er; [reflexivity|].
    destruct last; try reflexivity.
    apply rev_cons_split in Er. subst args. set (front := rev front_rev).
    rewrite !app_length. cbn [length].
    destruct variadic.
    + specialize (Hv eq_refl).
      destruct (Nat.ltb_spec (length front + 1) nparams) as [H1|H1].
      * destruct (Nat.ltb_spec (length l + (length front + 1)) nparams) as [H2|H2].
        -- destruct (Nat.ltb_spec (length front + length l) (nparams - 1)); [reflexivity | lia].
        -- destruct (Nat.ltb_spec (length front + length l) (nparams - 1)); [lia | reflexivity].
      * destruct (Nat.ltb_spec nparams (length front + 1)) as [H2|H2].
        -- destruct (Nat.ltb_spec (length front + length l) (nparams - 1)); [lia|].
           f_equal. rewrite !firstn_app. 
           replace (nparams - 1 - length front) with 0 by lia. cbn [firstn]. rewrite !app_nil_r.
           f_equal. f_equal. rewrite skipn_app. replace (nparams - 1 - length front) with 0 by lia. reflexivity.
        -- assert (E: length front = nparams - 1) by lia.
           destruct (Nat.ltb_spec (length front + length l) (nparams - 1)); [lia|].
           f_equal. rewrite firstn_app, skipn_app. rewrite E, Nat.sub_diag.
           rewrite <- E at 1. rewrite firstn_all. rewrite <- E, skipn_all. cbn. rewrite app_nil_r. reflexivity.
    + destruct (Nat.eqb_spec (length l + (length front + 1) - 1) nparams) as [H1|H1]; cbn [negb].
      * destruct (Nat.eqb_spec (length front + length l) nparams); [reflexivity | lia].
      * destruct (Nat.eqb_spec (length front + length l) nparams); [lia | reflexivity].
  - (* no spread *)
    destruct variadic; cbn [negb].
    + specialize (Hv eq_refl).
      destruct (Nat.ltb_spec (length args) (nparams - 1)); [reflexivity|].
      destruct (Nat.eqb_spec (length args) (nparams - 1)) as [E|E]; [|reflexivity].
      f_equal. destruct (firstn_skipn_all (nparams - 1) args ltac:(lia)) as [A B]. rewrite A, B. reflexivity.
    + reflexivity.
Qed.

(* Invoke / Run bind Main's parameters through initLocals; on every argument tuple that an
   in-script call accepts it produces the same parameter values *)
Theorem binding_agrees nparams variadic args params :
  (variadic = true -> 1 <= nparams) ->
  call_compiled nparams variadic args false = Some params ->
  init_locals nparams variadic args = params.
Proof.
  intros Hv. unfold call_compiled, init_locals. cbn [negb].
  destruct variadic; cbn [negb].
  - specialize (Hv eq_refl).
    destruct (Nat.ltb_spec (length args) (nparams - 1)) as [L1|L1]; [discriminate|].
    destruct (Nat.eqb_spec nparams 0) as [Z0|Z0]; [lia|].
    destruct (Nat.eqb_spec (length args) (nparams - 1)) as [E|E]; intros Hq; inversion Hq; subst; clear Hq.
    + destruct (Nat.ltb_spec (length args) nparams) as [L2|L2]; [|lia].
      f_equal. rewrite skipn_app. rewrite firstn_length, repeat_length.
      replace (Nat.min (nparams - 1) nparams) with (nparams - 1) by lia.
      rewrite E, Nat.sub_diag. cbn [skipn].
      rewrite skipn_all2 by (rewrite firstn_length, repeat_length; lia). reflexivity.
    + destruct (Nat.ltb_spec (length args) nparams) as [L2|L2]; [lia | reflexivity].
  - destruct (Nat.eqb_spec (length args) nparams) as [E|E]; [|discriminate].
    intros Hq; inversion Hq; subst; clear Hq.
    destruct (Nat.eqb_spec (length params) 0) as [Z|Z].
    + destruct params; [reflexivity | discriminate].
    + destruct (Nat.ltb_spec (length params) (length params)) as [L3|L3]; [lia|].
      (* firstn (n-1) l ++ [nth (n-1) l d] = l when length l = n >= 1 *)
      clear L3 Hv. induction params as [|x xs IH] using rev_ind; [contradiction|].
      rewrite app_length. cbn [length]. replace (length xs + 1 - 1) with (length xs) by lia.
      rewrite firstn_app, Nat.sub_diag, firstn_all. cbn [firstn]. rewrite app_nil_r.
      rewrite app_nth2 by lia. rewrite Nat.sub_diag. reflexivity.
Qed.

(* a variadic function called with fewer arguments than parameters through Run / Invoke:
   the lenient case, not compared with in-script calls *)
Example init_locals_lenient :
  init_locals 3 true [PInt 1] = [PInt 1; PUndef; PArr []] /\
  init_locals 2 false [PInt 1; PInt 2; PInt 3] = [PInt 1; PInt 2].
Proof. split; reflexivity. Qed.
