From Coq Require Import List ZArith Bool Lia.
From Ugo Require Import Base.Res Value.PValue VM.CallBinding VM.RunReset.
Import ListNotations.
Local Open Scope Z_scope.

Lemma write_locals_above st i vals j : (j < i)%nat -> write_locals st i vals j = st j.
Proof.
  revert st i. induction vals as [|v r IH]; intros st i H; simpl; [reflexivity|].
  rewrite IH by lia. unfold upd. destruct (Nat.eqb_spec i j); [lia | reflexivity].
Qed.

Lemma write_locals_at st i vals j :
  (i <= j < i + length vals)%nat -> write_locals st i vals j = Some (nth (j - i) vals PUndef).
Proof.
  revert st i. induction vals as [|v r IH]; intros st i H; simpl in *; [lia|].
  destruct (Nat.eq_dec i j) as [->|Hne].
  - rewrite write_locals_above by lia. unfold upd. rewrite Nat.eqb_refl, Nat.sub_diag. reflexivity.
  - rewrite IH by lia. replace (j - i)%nat with (S (j - S i)) by lia. reflexivity.
Qed.

Lemma write_locals_beyond st i vals j : (i + length vals <= j)%nat -> write_locals st i vals j = st j.
Proof.
  revert st i. induction vals as [|v r IH]; intros st i H; simpl in *; [reflexivity|].
  rewrite IH by lia. unfold upd. destruct (Nat.eqb_spec i j); [lia | reflexivity].
Qed.

(* every slot below sp is written by the prologue, independently of the previous stack *)
Lemma prologue_slots s1 s2 bc g args j :
  (j < mf_locals (bc_main bc))%nat ->
  v_stack (run_prologue s1 bc g args) j = v_stack (run_prologue s2 bc g args) j.
Proof.
  intros Hj. unfold run_prologue. cbv zeta. cbn [v_stack].
  set (m := bc_main bc) in *. set (ps := firstn (mf_locals m) (init_locals (mf_params m) (mf_variadic m) args)).
  destruct (Nat.lt_ge_cases j (length ps)) as [H|H].
  - rewrite !write_locals_at by lia. reflexivity.
  - rewrite (write_locals_beyond (write_locals (v_stack s1) 0 (repeat PUndef (mf_locals m))) 0 ps j) by lia.
    rewrite (write_locals_beyond (write_locals (v_stack s2) 0 (repeat PUndef (mf_locals m))) 0 ps j) by lia.
    rewrite (write_locals_at (v_stack s1)) by (rewrite repeat_length; lia).
    rewrite (write_locals_at (v_stack s2)) by (rewrite repeat_length; lia). reflexivity.
Qed.

(* C07: after SetBytecode (or Clear + SetBytecode) the state a run starts from depends only on
   the Bytecode, the globals and the arguments - whatever the VM did before *)
Theorem run_state_independent s1 s2 bc g args :
  live_of (run_prologue (set_bytecode s1 bc) bc g args) = live_of (run_prologue (set_bytecode s2 bc) bc g args).
Proof.
  unfold live_of.
  assert (Hsp: forall s, v_sp (run_prologue s bc g args) = Z.of_nat (mf_locals (bc_main bc))) by reflexivity.
  rewrite !Hsp, Nat2Z.id.
  assert (Hs: map (v_stack (run_prologue (set_bytecode s1 bc) bc g args)) (seq 0 (mf_locals (bc_main bc))) =
              map (v_stack (run_prologue (set_bytecode s2 bc) bc g args)) (seq 0 (mf_locals (bc_main bc)))).
  { apply map_ext_in. intros j Hj. apply in_seq in Hj. apply prologue_slots. lia. }
  rewrite Hs. clear Hs.
  unfold run_prologue, set_bytecode, upd.
  cbn [v_frames v_ip v_frame_index v_err v_abort v_globals v_modules v_bytecode Nat.eqb
       fr_fn fr_free fr_handlers fr_bp fr_discard].
  destruct (mf_free (bc_main bc)); reflexivity.
Qed.

Theorem run_state_independent_cleared s1 s2 bc g args :
  live_of (run_prologue (set_bytecode (clear s1) bc) bc g args) = live_of (run_prologue (set_bytecode s2 bc) bc g args).
Proof. apply run_state_independent. Qed.

(* C06: reading the result never indexes below the stack: every normal exit of the loop leaves
   sp >= 1 (RETURN sets sp to the base pointer of frame 0, which is NumLocals + 1) *)
Theorem run_epilogue_no_panic s : 1 <= v_sp s -> is_panic (run_epilogue s) = false.
Proof.
  intros H. unfold run_epilogue. destruct (v_err s); [reflexivity|].
  destruct (v_sp s <? stack_size); [|reflexivity].
  destruct (Z.ltb_spec (v_sp s - 1) 0); [lia | reflexivity].
Qed.

(* handlePanic hands a panic to a script handler only in states where throw can index the stack *)
Theorem can_unwind_bounds s :
  can_unwind s = true -> v_sp s < stack_size /\ v_frame_index s <= frame_size /\ v_err s = None.
Proof.
  unfold can_unwind. intros H. apply andb_true_iff in H as [H H3]. apply andb_true_iff in H as [H1 H2].
  apply Z.ltb_lt in H1. apply Z.leb_le in H2. destruct (v_err s); [discriminate|]. auto.
Qed.
