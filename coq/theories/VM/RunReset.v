(* Run's prologue and epilogue, Clear, SetBytecode and handlePanic of vm.go over an abstract VM
   state: which parts of a VM survive from earlier runs and which are re-initialised.
   Properties C07 (run_state_independent, partial) and C06 (no panic escapes the epilogue). *)
From Coq Require Import List ZArith Bool Lia.
From Ugo Require Import Base.Res Value.PValue VM.CallBinding.
Import ListNotations.
Local Open Scope Z_scope.

Definition stack_size : Z := 2048.
Definition frame_size : Z := 1024.

Record mainfn := { mf_params : nat; mf_variadic : bool; mf_locals : nat; mf_free : option (list Z); mf_id : Z }.
Record bytecode := { bc_main : mainfn; bc_modules : nat; bc_id : Z }.

Record frame := { fr_fn : option Z; fr_free : option (list Z); fr_handlers : list Z; fr_bp : Z; fr_discard : bool; fr_ip : Z }.

Record vm := {
  v_stack : nat -> option pvalue;        (* None = Go nil *)
  v_frames : nat -> frame;
  v_sp : Z; v_ip : Z; v_frame_index : Z;
  v_err : option Z; v_abort : bool;
  v_globals : option Z;
  v_modules : list (option Z);
  v_bytecode : option bytecode;
  v_no_panic : bool;
  v_pool : list Z
}.

(* SetBytecode *)
Definition set_bytecode (s : vm) (bc : bytecode) : vm :=
  {| v_stack := v_stack s; v_frames := v_frames s; v_sp := v_sp s; v_ip := v_ip s; v_frame_index := v_frame_index s;
     v_err := v_err s; v_abort := v_abort s; v_globals := v_globals s; v_modules := []; v_bytecode := Some bc;
     v_no_panic := v_no_panic s; v_pool := v_pool s |}.

(* Clear *)
Definition clear (s : vm) : vm :=
  {| v_stack := fun _ => None; v_frames := v_frames s; v_sp := v_sp s; v_ip := v_ip s; v_frame_index := v_frame_index s;
     v_err := v_err s; v_abort := v_abort s; v_globals := None; v_modules := []; v_bytecode := v_bytecode s;
     v_no_panic := v_no_panic s; v_pool := [] |}.

Definition upd {A} (f : nat -> A) (i : nat) (x : A) : nat -> A := fun j => if Nat.eqb i j then x else f j.

Fixpoint write_locals (st : nat -> option pvalue) (i : nat) (vals : list pvalue) : nat -> option pvalue :=
  match vals with
  | [] => st
  | v :: r => write_locals (upd st i (Some v)) (S i) r
  end.

(* Run's prologue: everything it assigns; g = the globals object (a fresh Map when nil is passed) *)
Definition run_prologue (s : vm) (bc : bytecode) (g : Z) (args : list pvalue) : vm :=
  let m := bc_main bc in
  let undefs := repeat PUndef (mf_locals m) in
  let params := init_locals (mf_params m) (mf_variadic m) args in
  let st1 := write_locals (v_stack s) 0 undefs in
  let st2 := write_locals st1 0 (firstn (mf_locals m) params) in
  let f0 := v_frames s 0%nat in
  let f0' := {| fr_fn := Some (mf_id m);
                fr_free := match mf_free m with Some fv => Some fv | None => fr_free f0 end;   (* kept when Main has no Free *)
                fr_handlers := []; fr_bp := 0; fr_discard := false; fr_ip := fr_ip f0 |} in
  {| v_stack := st2; v_frames := upd (v_frames s) 0 f0'; v_sp := Z.of_nat (mf_locals m); v_ip := -1; v_frame_index := 1;
     v_err := None; v_abort := false; v_globals := Some g;
     v_modules := v_modules s ++ repeat None (bc_modules bc - length (v_modules s));
     v_bytecode := Some bc; v_no_panic := v_no_panic s; v_pool := v_pool s |}.

(* the part of the state a run can read before writing: slots below sp, frame 0 without its
   stale fields, the registers and the per-run objects; free variables of frame 0 only when
   Main has free variables *)
Record live := {
  l_slots : list (option pvalue); l_fn : option Z; l_free : option (list Z); l_handlers : list Z; l_bp : Z; l_discard : bool;
  l_sp : Z; l_ip : Z; l_frame_index : Z; l_err : option Z; l_abort : bool; l_globals : option Z;
  l_modules : list (option Z); l_bc : option Z
}.

Definition live_of (s : vm) : live :=
  let f0 := v_frames s 0%nat in
  let has_free := match v_bytecode s with Some bc => match mf_free (bc_main bc) with Some _ => true | None => false end | None => false end in
  {| l_slots := map (v_stack s) (seq 0 (Z.to_nat (v_sp s)));
     l_fn := fr_fn f0; l_free := if has_free then fr_free f0 else None;
     l_handlers := fr_handlers f0; l_bp := fr_bp f0; l_discard := fr_discard f0;
     l_sp := v_sp s; l_ip := v_ip s; l_frame_index := v_frame_index s; l_err := v_err s; l_abort := v_abort s;
     l_globals := v_globals s; l_modules := v_modules s;
     l_bc := match v_bytecode s with Some bc => Some (bc_id bc) | None => None end |}.

(* ---- Run's epilogue: the value is read from stack[sp-1] only when sp < stackSize ---- *)
Definition run_epilogue (s : vm) : res (option pvalue) :=
  match v_err s with
  | Some e => Err (mkErr nil nil)
  | None =>
      if v_sp s <? stack_size then
        if v_sp s - 1 <? 0 then GoPanic PkIndex            (* stack[-1] *)
        else Ok (v_stack s (Z.to_nat (v_sp s - 1)))
      else Err (mkErr nil nil)                              (* ErrStackOverflow *)
  end.

(* handlePanic: deliver to a script handler only when the recovery path can index the stack *)
Definition can_unwind (s : vm) : bool :=
  (v_sp s <? stack_size) && (v_frame_index s <=? frame_size) && match v_err s with None => true | Some _ => false end.
