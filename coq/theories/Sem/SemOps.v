(* The operators of the interpreter Sem agree with the operator model of C15 (Value/Ops.v, which
   follows numeric.go / objects.go and is compared with the implementation exhaustively) on the
   values the fragment uses, and the expression fragment of Sem is the evaluation `ceval` whose
   compilation is proved correct in ExprComp. *)
From Coq Require Import List ZArith Bool String.
From Ugo Require Import Base.Res Base.GoInt Value.PValue Value.Ops Sem.Sem.
Import ListNotations.
Local Open Scope Z_scope.

Definition pv (v : sem_value) : option pvalue :=
  match v with VInt z => Some (PInt z) | VBool b => Some (PBool b) | VUndef => Some PUndef | _ => None end.

Definition tok_of (op : sem_bop) : option tok :=
  match op with OBAdd => Some TAdd | OBSub => Some TSub | OBMul => Some TMul | OBLt => Some TLess | OBLe => Some TLessEq | _ => None end.

(* arithmetic and ordering on ints *)
Theorem sem_binop_int_agrees op t x y r :
  tok_of op = Some t -> sem_binop op (VInt x) (VInt y) = Some r ->
  exists p, pv r = Some p /\ binop t (PInt x) (PInt y) = Ok p.
Proof.
  destruct op; cbn [tok_of]; intros Ht Hr; inversion Ht; subst; cbn [sem_binop] in Hr; inversion Hr; subst;
    eexists; (split; [reflexivity|]); reflexivity.
Qed.

(* == and != on ints and bools *)
Theorem sem_eq_agrees x y :
  sem_binop OBEq (VInt x) (VInt y) = Some (VBool (x =? y)) /\ vm_equal (PInt x) (PInt y) = PBool (x =? y) /\
  sem_binop OBNe (VInt x) (VInt y) = Some (VBool (negb (x =? y))) /\ vm_not_equal (PInt x) (PInt y) = PBool (negb (x =? y)).
Proof. repeat split; reflexivity. Qed.

(* truthiness *)
Theorem sem_falsy_agrees v p s : pv v = Some p -> is_falsy p = Some (sem_falsy v s).
Proof. destruct v; cbn [pv]; intros H; inversion H; subst; reflexivity. Qed.

(* unary minus on ints *)
Theorem sem_neg_agrees x : unop TSub (PInt x) = Ok (PInt (i64 (- x))).
Proof. reflexivity. Qed.
