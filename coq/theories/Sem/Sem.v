(* Source-level semantics of a fragment of uGO (C02): a definitional interpreter written from the
   language documentation, independent of compiler.go / vm.go.  Variables are heap cells (one
   fresh cell per executed declaration, closures capture cells), arrays are heap objects.
   Fuel makes the interpreter total; OutOfFuel is a distinct sem_outcome. *)
From Coq Require Import List ZArith Bool String.
From Ugo Require Import Base.GoInt.
Import ListNotations.
Local Open Scope Z_scope.

Inductive sem_bop := OBAdd | OBSub | OBMul | OBLt | OBLe | OBEq | OBNe.

Inductive sem_expr :=
| XIntE (z : Z) | XBoolE (b : bool) | XStrE (s : string) | XUndefE | XIotaE
| XVarE (x : string)
| XBinE (op : sem_bop) (a b : sem_expr)
| XAndE (a b : sem_expr) | XOrE (a b : sem_expr) | XNotE (a : sem_expr) | XNegE (a : sem_expr)
| XCondE (c a b : sem_expr)
| XArrE (es : list sem_expr)
| XIndexE (a i : sem_expr)
| XLenE (a : sem_expr)
| XAppendE (a : sem_expr) (es : list sem_expr)
| XCallE (f : sem_expr) (args : list sem_expr) (spread : option sem_expr)
| XFuncE (params : list string) (variadic : bool) (body : list sem_stmt)
with sem_stmt :=
| TDefineS (x : string) (e : sem_expr)
| TVarS (x : string) (e : option sem_expr)
| TConstS (items : list (string * option sem_expr))
| TAssignS (x : string) (e : sem_expr)
| TOpAssignS (x : string) (op : sem_bop) (e : sem_expr)
| TIndexAssignS (a i e : sem_expr)
| TDestructS (define : bool) (xs : list string) (e : sem_expr)
| TExprS (e : sem_expr)
| TIfS (c : sem_expr) (t f : list sem_stmt)
| TForS (init : option sem_stmt) (cond : option sem_expr) (post : option sem_stmt) (body : list sem_stmt)
| TForInS (k v : string) (e : sem_expr) (body : list sem_stmt)
| TBreakS | TContinueS
| TReturnS (e : option sem_expr)
| TBlockS (b : list sem_stmt).

Definition sem_scope := list (string * nat).
Definition sem_env := list sem_scope.

Inductive sem_value :=
| VUndef | VInt (z : Z) | VBool (b : bool) | VStr (s : string)
| VArr (ref : nat)
| VFn (params : list string) (variadic : bool) (body : list sem_stmt) (closure : sem_env).

Record sem_state := mkSemState { cells : list sem_value; arrs : list (list sem_value); iota : Z }.

Inductive sem_outcome :=
| SoNormal | SoBreak | SoContinue | SoReturn (v : sem_value).

Inductive sem_result (A : Type) :=
| SrOk (a : A) (s : sem_state)
| SrErr (name : string)            (* a uGO runtime error, by error name *)
| SrFuel.
Arguments SrOk {A} a s.
Arguments SrErr {A} name.
Arguments SrFuel {A}.

Definition sem_rbind {A B} (r : sem_result A) (f : A -> sem_state -> sem_result B) : sem_result B :=
  match r with SrOk a s => f a s | SrErr n => SrErr n | SrFuel => SrFuel end.
Notation "'rdo' x , s <- r ; k" := (sem_rbind r (fun x s => k))
  (at level 200, x pattern, s name, r at level 100, k at level 200, right associativity).

Fixpoint sem_lookup_scope (x : string) (sc : sem_scope) : option nat :=
  match sc with [] => None | (y, a) :: r => if String.eqb x y then Some a else sem_lookup_scope x r end.
Fixpoint sem_lookup (x : string) (e : sem_env) : option nat :=
  match e with [] => None | sc :: r => match sem_lookup_scope x sc with Some a => Some a | None => sem_lookup x r end end.

Fixpoint sem_set_nth {A} (l : list A) (n : nat) (x : A) : list A :=
  match l, n with
  | [], _ => []
  | _ :: t, O => x :: t
  | h :: t, S n => h :: sem_set_nth t n x
  end.

Definition sem_alloc (v : sem_value) (s : sem_state) : nat * sem_state :=
  (List.length (cells s), mkSemState (cells s ++ [v]) (arrs s) (iota s)).
Definition alloc_arr (vs : list sem_value) (s : sem_state) : sem_value * sem_state :=
  (VArr (List.length (arrs s)), mkSemState (cells s) (arrs s ++ [vs]) (iota s)).
Definition sem_write (a : nat) (v : sem_value) (s : sem_state) : sem_state := mkSemState (sem_set_nth (cells s) a v) (arrs s) (iota s).
Definition sem_read (a : nat) (s : sem_state) : sem_value := nth a (cells s) VUndef.
Definition arr_get (r : nat) (s : sem_state) : list sem_value := nth r (arrs s) [].

(* sem_declare x in the innermost sem_scope with a fresh cell *)
Definition sem_declare (x : string) (v : sem_value) (e : sem_env) (s : sem_state) : sem_env * sem_state :=
  let '(a, s') := sem_alloc v s in
  match e with
  | [] => ([[(x, a)]], s')
  | sc :: r => (((x, a) :: sc) :: r, s')
  end.

Definition sem_falsy (v : sem_value) (s : sem_state) : bool :=
  match v with
  | VUndef => true | VBool b => negb b | VInt z => Z.eqb z 0 | VStr t => String.eqb t ""
  | VArr r => match arr_get r s with [] => true | _ => false end
  | VFn _ _ _ _ => false
  end.

Definition err_type : string := "TypeError".
Definition err_index : string := "IndexOutOfBoundsError".
Definition err_nargs : string := "WrongNumberOfArgumentsError".
Definition err_notcallable : string := "NotCallableError".
Definition err_unresolved : string := "unresolved".

Definition sem_binop (op : sem_bop) (a b : sem_value) : option sem_value :=
  match a, b with
  | VInt x, VInt y =>
      Some (match op with
            | OBAdd => VInt (i64 (x + y)) | OBSub => VInt (i64 (x - y)) | OBMul => VInt (i64 (x * y))
            | OBLt => VBool (x <? y) | OBLe => VBool (x <=? y) | OBEq => VBool (x =? y) | OBNe => VBool (negb (x =? y))
            end)
  | VStr x, VStr y =>
      match op with
      | OBAdd => Some (VStr (x ++ y)) | OBEq => Some (VBool (String.eqb x y)) | OBNe => Some (VBool (negb (String.eqb x y)))
      | _ => None
      end
  | VBool x, VBool y =>
      match op with OBEq => Some (VBool (Bool.eqb x y)) | OBNe => Some (VBool (negb (Bool.eqb x y))) | _ => None end
  | VUndef, VUndef => match op with OBEq => Some (VBool true) | OBNe => Some (VBool false) | _ => None end
  | _, _ =>
      (* values of different types are never equal; other operators are type errors *)
      match op with OBEq => Some (VBool false) | OBNe => Some (VBool true) | _ => None end
  end.

(* argument binding: fixed / variadic parameters over the evaluated arguments (spread included) *)
Definition bind_args (np : nat) (variadic : bool) (args : list sem_value) (s : sem_state) : option (list sem_value * sem_state) :=
  if variadic then
    let nfixed := Nat.pred np in
    if Nat.ltb (List.length args) nfixed then None
    else let '(rest, s') := alloc_arr (skipn nfixed args) s in Some (firstn nfixed args ++ [rest], s')
  else if Nat.eqb (List.length args) np then Some (args, s) else None.

Fixpoint declare_all (xs : list string) (vs : list sem_value) (e : sem_env) (s : sem_state) : sem_env * sem_state :=
  match xs with
  | [] => (e, s)
  | x :: xr =>
      let v := match vs with v :: _ => v | [] => VUndef end in
      let '(e', s') := sem_declare x v e s in
      declare_all xr (tl vs) e' s'
  end.

Section Interp.
Variable sem_eval : sem_env -> sem_state -> sem_expr -> sem_result sem_value.
Variable sem_exec_block : sem_env -> sem_state -> list sem_stmt -> sem_result sem_outcome.

Fixpoint sem_eval_list (e : sem_env) (s : sem_state) (es : list sem_expr) : sem_result (list sem_value) :=
  match es with
  | [] => SrOk [] s
  | x :: r => rdo v, s1 <- sem_eval e s x; rdo vs, s2 <- sem_eval_list e s1 r; SrOk (v :: vs) s2
  end.
End Interp.

Fixpoint sem_eval (fuel : nat) (e : sem_env) (s : sem_state) (x : sem_expr) {struct fuel} : sem_result sem_value :=
  match fuel with
  | O => SrFuel
  | S fuel =>
      let ev := sem_eval fuel in
      match x with
      | XIntE z => SrOk (VInt z) s
      | XBoolE b => SrOk (VBool b) s
      | XStrE t => SrOk (VStr t) s
      | XUndefE => SrOk VUndef s
      | XIotaE => SrOk (VInt (iota s)) s
      | XVarE n => match sem_lookup n e with Some a => SrOk (sem_read a s) s | None => SrErr err_unresolved end
      | XBinE op a b =>
          rdo va, s1 <- ev e s a; rdo vb, s2 <- ev e s1 b;
          match sem_binop op va vb with Some v => SrOk v s2 | None => SrErr err_type end
      | XAndE a b => rdo va, s1 <- ev e s a; if sem_falsy va s1 then SrOk va s1 else ev e s1 b
      | XOrE a b => rdo va, s1 <- ev e s a; if sem_falsy va s1 then ev e s1 b else SrOk va s1
      | XNotE a => rdo va, s1 <- ev e s a; SrOk (VBool (sem_falsy va s1)) s1
      | XNegE a => rdo va, s1 <- ev e s a; match va with VInt z => SrOk (VInt (i64 (- z))) s1 | _ => SrErr err_type end
      | XCondE c a b => rdo vc, s1 <- ev e s c; if sem_falsy vc s1 then ev e s1 b else ev e s1 a
      | XArrE es => rdo vs, s1 <- sem_eval_list ev e s es; let '(v, s2) := alloc_arr vs s1 in SrOk v s2
      | XIndexE a i =>
          rdo va, s1 <- ev e s a; rdo vi, s2 <- ev e s1 i;
          match va, vi with
          | VArr r, VInt z =>
              let l := arr_get r s2 in
              if (z <? 0) || (Z.of_nat (List.length l) <=? z) then SrErr err_index else SrOk (nth (Z.to_nat z) l VUndef) s2
          | _, _ => SrErr err_type
          end
      | XLenE a => rdo va, s1 <- ev e s a;
          match va with
          | VArr r => SrOk (VInt (Z.of_nat (List.length (arr_get r s1)))) s1
          | VStr t => SrOk (VInt (Z.of_nat (String.length t))) s1
          | _ => SrOk (VInt 0) s1
          end
      | XAppendE a es =>
          rdo va, s1 <- ev e s a; rdo vs, s2 <- sem_eval_list ev e s1 es;
          match va with
          | VArr r => let '(v, s3) := alloc_arr (arr_get r s2 ++ vs) s2 in SrOk v s3
          | VUndef => let '(v, s3) := alloc_arr vs s2 in SrOk v s3
          | _ => SrErr err_type
          end
      | XFuncE ps variadic body => SrOk (VFn ps variadic body e) s
      | XCallE f args spread =>
          rdo vf, s1 <- ev e s f; rdo vs, s2 <- sem_eval_list ev e s1 args;
          rdo extra, s3 <- (match spread with
                            | None => SrOk [] s2
                            | Some sp => rdo vsp, s' <- ev e s2 sp;
                                         match vsp with VArr r => SrOk (arr_get r s') s' | _ => SrErr err_type end
                            end);
          match vf with
          | VFn ps variadic body cenv =>
              match bind_args (List.length ps) variadic (vs ++ extra) s3 with
              | None => SrErr err_nargs
              | Some (pvals, s4) =>
                  let '(fenv, s5) := declare_all ps pvals ([] :: cenv) s4 in
                  rdo o, s6 <- sem_exec_block fuel fenv s5 body;
                  match o with SoReturn v => SrOk v s6 | _ => SrOk VUndef s6 end
              end
          | _ => SrErr err_notcallable
          end
      end
  end

(* statements of a block in order, in the given environment (the caller opens the sem_scope) *)
with sem_exec_block (fuel : nat) (e : sem_env) (s : sem_state) (b : list sem_stmt) {struct fuel} : sem_result sem_outcome :=
  match fuel with
  | O => SrFuel
  | S fuel =>
      match b with
      | [] => SrOk SoNormal s
      | st :: rest =>
          rdo oe, s1 <- sem_exec fuel e s st;
          let '(o, e1) := oe in
          match o with
          | SoNormal => sem_exec_block fuel e1 s1 rest
          | _ => SrOk o s1
          end
      end
  end

with sem_exec (fuel : nat) (e : sem_env) (s : sem_state) (st : sem_stmt) {struct fuel} : sem_result (sem_outcome * sem_env) :=
  match fuel with
  | O => SrFuel
  | S fuel =>
      let ev := sem_eval fuel in
      match st with
      | TDefineS x ex => rdo v, s1 <- ev e s ex; let '(e1, s2) := sem_declare x v e s1 in SrOk (SoNormal, e1) s2
      | TVarS x None => let '(e1, s1) := sem_declare x VUndef e s in SrOk (SoNormal, e1) s1
      | TVarS x (Some ex) => rdo v, s1 <- ev e s ex; let '(e1, s2) := sem_declare x v e s1 in SrOk (SoNormal, e1) s2
      | TConstS items =>
          (fix go (items : list (string * option sem_expr)) (i : Z) (prev : sem_expr) (e : sem_env) (s : sem_state) : sem_result (sem_outcome * sem_env) :=
             match items with
             | [] => SrOk (SoNormal, e) (mkSemState (cells s) (arrs s) 0)
             | (x, oe) :: r =>
                 let ex := match oe with Some ex => ex | None => prev end in
                 rdo v, s1 <- ev e (mkSemState (cells s) (arrs s) i) ex;
                 let '(e1, s2) := sem_declare x v e s1 in go r (i + 1) ex e1 s2
             end) items 0 XUndefE e s
      | TAssignS x ex =>
          rdo v, s1 <- ev e s ex;
          match sem_lookup x e with Some a => SrOk (SoNormal, e) (sem_write a v s1) | None => SrErr err_unresolved end
      | TOpAssignS x op ex =>
          match sem_lookup x e with
          | None => SrErr err_unresolved
          | Some a =>
              (* x op= e is x = x op e: the left operand is sem_read first *)
              let cur := sem_read a s in
              rdo v, s1 <- ev e s ex;
              match sem_binop op cur v with Some r => SrOk (SoNormal, e) (sem_write a r s1) | None => SrErr err_type end
          end
      | TIndexAssignS ea ei ex =>
          (* the right-hand side is evaluated before the target *)
          rdo v, s1 <- ev e s ex; rdo va, s2 <- ev e s1 ea; rdo vi, s3 <- ev e s2 ei;
          match va, vi with
          | VArr r, VInt z =>
              let l := arr_get r s3 in
              if (z <? 0) || (Z.of_nat (List.length l) <=? z) then SrErr err_index
              else SrOk (SoNormal, e) (mkSemState (cells s3) (sem_set_nth (arrs s3) r (sem_set_nth l (Z.to_nat z) v)) (iota s3))
          | _, _ => SrErr err_type
          end
      | TDestructS define xs ex =>
          rdo v, s1 <- ev e s ex;
          let vals := match v with VArr r => arr_get r s1 | VUndef => [] | _ => [v] end in
          if define then let '(e1, s2) := declare_all xs vals e s1 in SrOk (SoNormal, e1) s2
          else
            (fix go (xs : list string) (vals : list sem_value) (s : sem_state) : sem_result (sem_outcome * sem_env) :=
               match xs with
               | [] => SrOk (SoNormal, e) s
               | x :: xr => match sem_lookup x e with
                            | Some a => go xr (tl vals) (sem_write a (match vals with v :: _ => v | [] => VUndef end) s)
                            | None => SrErr err_unresolved
                            end
               end) xs vals s1
      | TExprS ex => rdo _, s1 <- ev e s ex; SrOk (SoNormal, e) s1
      | TIfS c t f =>
          rdo vc, s1 <- ev e s c;
          rdo o, s2 <- sem_exec_block fuel ([] :: e) s1 (if sem_falsy vc s1 then f else t);
          SrOk (o, e) s2
      | TBlockS b => rdo o, s1 <- sem_exec_block fuel ([] :: e) s b; SrOk (o, e) s1
      | TForS init cond post body =>
          (* one sem_scope for the loop (init, cond, post), a fresh one for every execution of the body *)
          rdo oi, s1 <- (match init with
                         | None => SrOk (SoNormal, [] :: e) s
                         | Some i => sem_exec fuel ([] :: e) s i
                         end);
          let le := snd oi in
          (fix loop (n : nat) (s : sem_state) : sem_result (sem_outcome * sem_env) :=
             match n with
             | O => SrFuel
             | S n =>
                 rdo go_on, s1 <- (match cond with
                                   | None => SrOk true s
                                   | Some c => rdo vc, s' <- ev le s c; SrOk (negb (sem_falsy vc s')) s'
                                   end);
                 if negb go_on then SrOk (SoNormal, e) s1
                 else
                   rdo o, s2 <- sem_exec_block fuel ([] :: le) s1 body;
                   match o with
                   | SoBreak => SrOk (SoNormal, e) s2
                   | SoReturn v => SrOk (SoReturn v, e) s2
                   | _ =>
                       rdo _, s3 <- (match post with
                                     | None => SrOk (SoNormal, le) s2
                                     | Some p => sem_exec fuel le s2 p
                                     end);
                       loop n s3
                   end
             end) fuel s1
      | TForInS k v ex body =>
          rdo va, s1 <- ev e s ex;
          match va with
          | VArr r =>
              (* the iterator fixes the length when the loop starts and reads each element when
                 its iteration starts: element updates made by the body are seen *)
              (fix loop (i : nat) (n : nat) (s : sem_state) : sem_result (sem_outcome * sem_env) :=
                 match n with
                 | O => SrOk (SoNormal, e) s
                 | S n =>
                     let it := nth i (arr_get r s) VUndef in
                     (* fresh key and value variables for every iteration *)
                     let '(e1, s1) := sem_declare k (VInt (Z.of_nat i)) ([] :: e) s in
                     let '(e2, s2) := sem_declare v it e1 s1 in
                     rdo o, s3 <- sem_exec_block fuel ([] :: e2) s2 body;
                     match o with
                     | SoBreak => SrOk (SoNormal, e) s3
                     | SoReturn rv => SrOk (SoReturn rv, e) s3
                     | _ => loop (S i) n s3
                     end
                 end) 0%nat (List.length (arr_get r s1)) s1
          | VUndef => SrOk (SoNormal, e) s1
          | _ => SrErr "NotIterableError"
          end
      | TBreakS => SrOk (SoBreak, e) s
      | TContinueS => SrOk (SoContinue, e) s
      | TReturnS None => SrOk (SoReturn VUndef, e) s
      | TReturnS (Some ex) => rdo v, s1 <- ev e s ex; SrOk (SoReturn v, e) s1
      end
  end.

(* observable form of a sem_value: arrays by content, functions opaque *)
Inductive sem_obs := OBUndef | OBInt (z : Z) | OBBool (b : bool) | OBStr (s : string) | OBArr (l : list sem_obs) | OBFn | OBDeep.

Fixpoint observe (depth : nat) (s : sem_state) (v : sem_value) : sem_obs :=
  match depth with
  | O => OBDeep
  | S d =>
      match v with
      | VUndef => OBUndef | VInt z => OBInt z | VBool b => OBBool b | VStr t => OBStr t
      | VArr r => OBArr (map (observe d s) (arr_get r s))
      | VFn _ _ _ _ => OBFn
      end
  end.

Inductive sem_prog_result := PValue (o : sem_obs) | PError (name : string) | PFuel.

Definition sem_run_program (fuel : nat) (p : list sem_stmt) : sem_prog_result :=
  match sem_exec_block fuel [[]] (mkSemState [] [] 0) p with
  | SrOk (SoReturn v) s => PValue (observe 12 s v)
  | SrOk _ s => PValue OBUndef
  | SrErr n => PError n
  | SrFuel => PFuel
  end.
