(* The string escaping of Marshal always produces a well-formed JSON string token (C17). *)
From Coq Require Import List ZArith Bool Lia.
From Ugo Require Import Json.Json.
Import ListNotations.
Local Open Scope Z_scope.

Lemma body_plain b rest : 32 <= b -> b <> 34 -> b <> 92 -> string_body (b :: rest) = string_body rest.
Proof.
  intros H1 H2 H3. cbn [string_body].
  destruct (Z.eqb_spec b 34); [contradiction|]. destruct (Z.ltb_spec b 32); [lia|].
  destruct (Z.eqb_spec b 92); [contradiction|]. reflexivity.
Qed.

Lemma body_raw ch rest : Forall (fun b => 128 <= b) ch -> string_body (ch ++ rest) = string_body rest.
Proof.
  induction 1 as [|b r Hb Hr IH]; [reflexivity|]. cbn [app]. rewrite body_plain by lia. exact IH.
Qed.

Lemma is_hex_hexdigit n : 0 <= n < 16 -> is_hex (hexdigit n) = true.
Proof.
  intros H. unfold hexdigit, is_hex.
  destruct (Z.ltb_spec n 10).
  - replace ((48 <=? 48 + n) && (48 + n <=? 57)) with true; [reflexivity|].
    symmetry. apply andb_true_iff; split; [apply Z.leb_le | apply Z.leb_le]; lia.
  - apply orb_true_iff. right. apply andb_true_iff; split; [apply Z.leb_le | apply Z.leb_le]; lia.
Qed.

Lemma body_simple_escape e rest :
  (e = 34 \/ e = 92 \/ e = 98 \/ e = 102 \/ e = 110 \/ e = 114 \/ e = 116) ->
  string_body (92 :: e :: rest) = string_body rest.
Proof.
  intros H. cbn [string_body]. change (92 =? 34) with false. change (92 <? 32) with false. change (92 =? 92) with true.
  cbv iota.
  destruct H as [->|[->|[->|[->|[->|[->| ->]]]]]]; reflexivity.
Qed.

Lemma body_u_escape h1 h2 h3 h4 rest :
  is_hex h1 = true -> is_hex h2 = true -> is_hex h3 = true -> is_hex h4 = true ->
  string_body (92 :: 117 :: h1 :: h2 :: h3 :: h4 :: rest) = string_body rest.
Proof.
  intros A B C D. cbn [string_body]. change (92 =? 34) with false. change (92 <? 32) with false.
  change (92 =? 92) with true. cbv iota. change ((117 =? 34) || (117 =? 92) || (117 =? 47) || (117 =? 98) || (117 =? 102) || (117 =? 110) || (117 =? 114) || (117 =? 116)) with false.
  cbv iota. change (117 =? 117) with true. cbv iota. rewrite A, B, C, D. reflexivity.
Qed.

Lemma body_escape_ascii b rest : 0 <= b < 128 -> string_body (escape_ascii b ++ rest) = string_body rest.
Proof.
  intros Hb. unfold escape_ascii.
  destruct ((b =? 92) || (b =? 34)) eqn:E1.
  { apply orb_true_iff in E1 as [E|E]; apply Z.eqb_eq in E; subst; cbn [app]; apply body_simple_escape; auto. }
  destruct (b =? 8); [cbn [app]; apply body_simple_escape; auto 10|].
  destruct (b =? 12); [cbn [app]; apply body_simple_escape; auto 10|].
  destruct (b =? 10); [cbn [app]; apply body_simple_escape; auto 10|].
  destruct (b =? 13); [cbn [app]; apply body_simple_escape; auto 10|].
  destruct (b =? 9); [cbn [app]; apply body_simple_escape; auto 10|].
  cbn [app]. apply body_u_escape; try reflexivity.
  - apply is_hex_hexdigit. split; [apply Z.div_pos; lia | apply Z.div_lt_upper_bound; lia].
  - apply is_hex_hexdigit. apply Z.mod_pos_bound. lia.
Qed.

(* the bytes copied verbatim for a well-formed multi-byte sequence are all >= 0x80 *)
Lemma decode_rune_raw s c size :
  (exists b r, s = b :: r /\ 128 <= b) -> decode_rune s = (c, size) ->
  (size >= 1)%nat /\ (((c =? rune_error) && Nat.eqb size 1) = false -> Forall (fun b => 128 <= b) (firstn size s)).
Proof.
  intros [b0 [r [-> Hb0]]]. unfold decode_rune.
  destruct (Z.ltb_spec b0 128); [lia|].
  unfold inr, cont.
  destruct ((194 <=? b0) && (b0 <=? 223)) eqn:E2.
  { destruct r as [|b1 r1]; [intros H0; inversion H0; subst; split; [lia | simpl; discriminate]|].
    destruct ((128 <=? b1) && (b1 <=? 191)) eqn:C1; intros H0; inversion H0; subst; split; try lia; try (simpl; discriminate).
    intros _. apply andb_true_iff in C1 as [C1 _]. apply Z.leb_le in C1.
    cbn [firstn]. repeat constructor; lia. }
  destruct ((224 <=? b0) && (b0 <=? 239)) eqn:E3.
  { destruct r as [|b1 [|b2 r2]]; try (intros H0; inversion H0; subst; split; [lia | simpl; discriminate]).
    destruct (((if b0 =? 224 then 160 else 128) <=? b1) && (b1 <=? (if b0 =? 237 then 159 else 191)) && ((128 <=? b2) && (b2 <=? 191))) eqn:C;
      intros H0; inversion H0; subst; split; try lia; try (simpl; discriminate).
    intros _. apply andb_true_iff in C as [C1 C2]. apply andb_true_iff in C1 as [C1 _]. apply andb_true_iff in C2 as [C2 _].
    apply Z.leb_le in C1, C2. cbn [firstn]. repeat constructor; try lia. destruct (b0 =? 224); lia. }
  destruct ((240 <=? b0) && (b0 <=? 244)) eqn:E4.
  { destruct r as [|b1 [|b2 [|b3 r3]]]; try (intros H0; inversion H0; subst; split; [lia | simpl; discriminate]).
    destruct (((if b0 =? 240 then 144 else 128) <=? b1) && (b1 <=? (if b0 =? 244 then 143 else 191)) && ((128 <=? b2) && (b2 <=? 191)) && ((128 <=? b3) && (b3 <=? 191))) eqn:C;
      intros H0; inversion H0; subst; split; try lia; try (simpl; discriminate).
    intros _. apply andb_true_iff in C as [C12 C3]. apply andb_true_iff in C12 as [C1 C2].
    apply andb_true_iff in C1 as [C1 _]. apply andb_true_iff in C2 as [C2 _]. apply andb_true_iff in C3 as [C3 _].
    apply Z.leb_le in C1, C2, C3. cbn [firstn]. repeat constructor; try lia. destruct (b0 =? 240); lia. }
  intros H0; inversion H0; subst; split; [lia | simpl; discriminate].
Qed.

(* every escaped body followed by the closing quote scans as exactly one string token *)
Theorem encode_body_valid fuel : forall s html rest,
  Forall (fun b => 0 <= b < 256) s ->
  string_body (encode_body fuel s html ++ 34 :: rest) = Some rest.
Proof.
  induction fuel as [|f IH]; intros s html rest Hs.
  - reflexivity.
  - destruct s as [|b r]; [reflexivity|].
    inversion Hs as [|? ? Hb Hr]; subst.
    cbn [encode_body].
    destruct (Z.ltb_spec b 128) as [Hlt|Hge].
    + rewrite <- app_assoc.
      destruct (html_safe b || negb html && safe b) eqn:Esafe.
      * cbn [app].
        assert (Hsafe: safe b = true).
        { apply orb_true_iff in Esafe as [E|E].
          - unfold html_safe in E. apply andb_true_iff in E as [E _]. apply andb_true_iff in E as [E _]. apply andb_true_iff in E as [E _]. exact E.
          - apply andb_true_iff in E as [_ E]. exact E. }
        unfold safe in Hsafe. apply andb_true_iff in Hsafe as [H123 H4]. apply andb_true_iff in H123 as [H12 H3].
        apply andb_true_iff in H12 as [H1 _]. apply Z.leb_le in H1.
        apply negb_true_iff in H3, H4. apply Z.eqb_neq in H3, H4.
        rewrite body_plain by assumption. apply IH. exact Hr.
      * rewrite body_escape_ascii by lia. apply IH. exact Hr.
    + destruct (decode_rune (b :: r)) as [c size] eqn:Ed.
      destruct (decode_rune_raw (b :: r) c size ltac:(exists b, r; split; [reflexivity | lia]) Ed) as [Hsz Hraw].
      destruct ((c =? rune_error) && Nat.eqb size 1) eqn:Eerr.
      * cbn [app]. rewrite body_u_escape by reflexivity. apply IH. exact Hr.
      * assert (Hskip: Forall (fun b => 0 <= b < 256) (skipn size (b :: r))).
        { apply Forall_forall. intros x Hx. rewrite Forall_forall in Hs. apply Hs.
          rewrite <- (firstn_skipn size (b :: r)). apply in_or_app. right. exact Hx. }
        destruct ((c =? 8232) || (c =? 8233)).
        -- cbn [app]. rewrite body_u_escape; try reflexivity; [apply IH; exact Hskip|].
           apply is_hex_hexdigit. apply Z.mod_pos_bound. lia.
        -- rewrite <- app_assoc. rewrite body_raw by (apply Hraw; reflexivity). apply IH. exact Hskip.
Qed.

Theorem encode_string_valid s html rest :
  Forall (fun b => 0 <= b < 256) s ->
  exists body, encode_string s html = 34 :: body /\ string_body (body ++ rest) = Some rest.
Proof.
  intros Hs. unfold encode_string. eexists. split; [reflexivity|].
  rewrite <- app_assoc. cbn [app]. apply encode_body_valid. exact Hs.
Qed.

(* hence Marshal of any string is a valid JSON document *)
Theorem marshal_string_json_valid s html :
  Forall (fun b => 0 <= b < 256) s -> json_valid (encode_string s html) = true.
Proof.
  intros Hs. destruct (encode_string_valid s html [] Hs) as [body [E Hb]].
  rewrite app_nil_r in Hb.
  unfold json_valid. rewrite E.
  change (skip_ws (34 :: body)) with (34 :: body).
  change (value (S (length (34 :: body))) (34 :: body)) with (string_body body).
  rewrite Hb. reflexivity.
Qed.
