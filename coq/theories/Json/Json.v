(* JSON (RFC 8259) recogniser used as a validator on every real Marshal output, and a faithful
   model of the string escaping of stdlib/json/encode.go (encodeState.string).  Property C17. *)
From Coq Require Import List ZArith Bool Lia.
Import ListNotations.
Local Open Scope Z_scope.

Definition bytes := list Z.

(* ------------------------------------------------------------ recogniser *)

Definition is_ws (b : Z) : bool := (b =? 32) || (b =? 9) || (b =? 10) || (b =? 13).
Fixpoint skip_ws (s : bytes) : bytes :=
  match s with b :: r => if is_ws b then skip_ws r else s | [] => [] end.

Definition is_hex (b : Z) : bool :=
  ((48 <=? b) && (b <=? 57)) || ((65 <=? b) && (b <=? 70)) || ((97 <=? b) && (b <=? 102)).
Definition is_digit (b : Z) : bool := (48 <=? b) && (b <=? 57).

(* after the opening quote: returns the input after the closing quote *)
Fixpoint string_body (s : bytes) : option bytes :=
  match s with
  | [] => None
  | b :: r =>
      if b =? 34 then Some r                       (* closing quote *)
      else if b <? 32 then None                     (* raw control character *)
      else if b =? 92 then                          (* backslash *)
        match r with
        | e :: r2 =>
            if (e =? 34) || (e =? 92) || (e =? 47) || (e =? 98) || (e =? 102) || (e =? 110) || (e =? 114) || (e =? 116)
            then string_body r2
            else if e =? 117 then
              match r2 with
              | h1 :: h2 :: h3 :: h4 :: r3 =>
                  if is_hex h1 && is_hex h2 && is_hex h3 && is_hex h4 then string_body r3 else None
              | _ => None
              end
            else None
        | [] => None
        end
      else string_body r
  end.

Fixpoint digits (s : bytes) : bytes := match s with b :: r => if is_digit b then digits r else s | [] => [] end.

(* number = [ minus ] int [ frac ] [ exp ] *)
Definition obind {A B} (x : option A) (f : A -> option B) : option B :=
  match x with Some y => f y | None => None end.

Definition number (s : bytes) : option bytes :=
  let s1 := match s with 45 :: r => r | _ => s end in
  obind (match s1 with
         | 48 :: r => Some r
         | b :: r => if (49 <=? b) && (b <=? 57) then Some (digits r) else None
         | [] => None
         end) (fun s2 =>
  obind (match s2 with
         | 46 :: d :: r => if is_digit d then Some (digits r) else None
         | 46 :: [] => None
         | _ => Some s2
         end) (fun s3 =>
  match s3 with
  | e :: r =>
      if (e =? 101) || (e =? 69) then
        let r1 := match r with sgn :: r' => if (sgn =? 43) || (sgn =? 45) then r' else r | [] => r end in
        match r1 with d :: r2 => if is_digit d then Some (digits r2) else None | [] => None end
      else Some s3
  | [] => Some s3
  end)).

Fixpoint starts_with (p s : bytes) : option bytes :=
  match p, s with
  | [], _ => Some s
  | a :: p', b :: s' => if a =? b then starts_with p' s' else None
  | _, [] => None
  end.

Fixpoint value (fuel : nat) (s : bytes) : option bytes :=
  match fuel with
  | O => None
  | S f =>
      match s with
      | [] => None
      | b :: r =>
          if b =? 34 then string_body r
          else if b =? 123 then                                     (* { *)
            let s1 := skip_ws r in
            match s1 with
            | 125 :: r1 => Some r1
            | _ =>
                (fix members (n : nat) (s : bytes) : option bytes :=
                   match n with
                   | O => None
                   | S n' =>
                       match skip_ws s with
                       | 34 :: k =>
                           match string_body k with
                           | Some s2 =>
                               match skip_ws s2 with
                               | 58 :: s3 =>
                                   match value f (skip_ws s3) with
                                   | Some s4 =>
                                       match skip_ws s4 with
                                       | 44 :: s5 => members n' s5
                                       | 125 :: s5 => Some s5
                                       | _ => None
                                       end
                                   | None => None
                                   end
                               | _ => None
                               end
                           | None => None
                           end
                       | _ => None
                       end
                   end) (S (length s1)) s1
            end
          else if b =? 91 then                                      (* [ *)
            let s1 := skip_ws r in
            match s1 with
            | 93 :: r1 => Some r1
            | _ =>
                (fix elements (n : nat) (s : bytes) : option bytes :=
                   match n with
                   | O => None
                   | S n' =>
                       match value f (skip_ws s) with
                       | Some s2 =>
                           match skip_ws s2 with
                           | 44 :: s3 => elements n' s3
                           | 93 :: s3 => Some s3
                           | _ => None
                           end
                       | None => None
                       end
                   end) (S (length s1)) s1
            end
          else if b =? 116 then starts_with [114; 117; 101] r             (* true *)
          else if b =? 102 then starts_with [97; 108; 115; 101] r         (* false *)
          else if b =? 110 then starts_with [117; 108; 108] r             (* null *)
          else number s
      end
  end.

Definition json_valid (s : bytes) : bool :=
  match value (S (length s)) (skip_ws s) with
  | Some rest => match skip_ws rest with [] => true | _ => false end
  | None => false
  end.

(* ------------------------------------------------------------ string escaping *)

Definition rune_error : Z := 65533.
Definition cont (b : Z) : bool := (128 <=? b) && (b <=? 191).
Definition inr (lo hi b : Z) : bool := (lo <=? b) && (b <=? hi).

(* utf8.DecodeRune on a non-empty byte string: (rune, size) *)
Definition decode_rune (s : bytes) : Z * nat :=
  match s with
  | [] => (rune_error, 0%nat)
  | b0 :: r =>
      if b0 <? 128 then (b0, 1%nat)
      else if inr 194 223 b0 then
        match r with
        | b1 :: _ => if cont b1 then ((b0 - 192) * 64 + (b1 - 128), 2%nat) else (rune_error, 1%nat)
        | _ => (rune_error, 1%nat)
        end
      else if inr 224 239 b0 then
        match r with
        | b1 :: b2 :: _ =>
            let lo := if b0 =? 224 then 160 else 128 in
            let hi := if b0 =? 237 then 159 else 191 in
            if inr lo hi b1 && cont b2 then ((b0 - 224) * 4096 + (b1 - 128) * 64 + (b2 - 128), 3%nat)
            else (rune_error, 1%nat)
        | _ => (rune_error, 1%nat)
        end
      else if inr 240 244 b0 then
        match r with
        | b1 :: b2 :: b3 :: _ =>
            let lo := if b0 =? 240 then 144 else 128 in
            let hi := if b0 =? 244 then 143 else 191 in
            if inr lo hi b1 && cont b2 && cont b3
            then ((b0 - 240) * 262144 + (b1 - 128) * 4096 + (b2 - 128) * 64 + (b3 - 128), 4%nat)
            else (rune_error, 1%nat)
        | _ => (rune_error, 1%nat)
        end
      else (rune_error, 1%nat)
  end.

(* tables.go: safeSet = ASCII from 0x20 except the double quote and the backslash; htmlSafeSet additionally excludes the angle brackets and the ampersand *)
Definition safe (b : Z) : bool := (32 <=? b) && (b <? 128) && negb (b =? 34) && negb (b =? 92).
Definition html_safe (b : Z) : bool := safe b && negb (b =? 60) && negb (b =? 62) && negb (b =? 38).

Definition hexdigit (n : Z) : Z := if n <? 10 then 48 + n else 87 + n.

Definition escape_ascii (b : Z) : bytes :=
  if (b =? 92) || (b =? 34) then [92; b]
  else if b =? 8 then [92; 98]
  else if b =? 12 then [92; 102]
  else if b =? 10 then [92; 110]
  else if b =? 13 then [92; 114]
  else if b =? 9 then [92; 116]
  else [92; 117; 48; 48; hexdigit (b / 16); hexdigit (b mod 16)].

Fixpoint encode_body (fuel : nat) (s : bytes) (escape_html : bool) : bytes :=
  match fuel with
  | O => []
  | S f =>
      match s with
      | [] => []
      | b :: r =>
          if b <? 128 then
            (if html_safe b || (negb escape_html && safe b) then [b] else escape_ascii b) ++ encode_body f r escape_html
          else
            let '(c, size) := decode_rune s in
            if (c =? rune_error) && Nat.eqb size 1 then
              [92; 117; 102; 102; 102; 100] ++ encode_body f r escape_html
            else if (c =? 8232) || (c =? 8233) then
              [92; 117; 50; 48; 50; hexdigit (c mod 16)] ++ encode_body f (skipn size s) escape_html
            else firstn size s ++ encode_body f (skipn size s) escape_html
      end
  end.

Definition encode_string (s : bytes) (escape_html : bool) : bytes :=
  34 :: encode_body (length s) s escape_html ++ [34].
