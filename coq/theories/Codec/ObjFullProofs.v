(* Round trip of every object of the tagged codec (C04): sync maps, function and builtin function
   objects, compiled functions, and values nesting all kinds through arrays, maps and sync maps
   to any depth. *)
From Coq Require Import List ZArith Bool Lia String.
From Ugo Require Import Base.Res Codec.Varint Codec.VarintProofs Codec.Obj Codec.ObjProofs Codec.ObjArrayProofs Codec.ObjMapProofs Codec.ObjCFuncProofs.
Import ListNotations.
Local Open Scope Z_scope.

Lemma encode_syncmap m : encode (CSyncMap (Some m)) = binSyncMap :: vi_to_bytes (zlen (enc_entries m)) ++ enc_entries m.
Proof.
  assert (G: forall l, enc_entries l =
    (fix go (m : list (bytes * cval)) : bytes := match m with [] => [] | (k, x) :: r => vi_to_bytes (zlen k) ++ k ++ encode x ++ go r end) l).
  { induction l as [|[k y] l IH]; [reflexivity|]. cbn [enc_entries]. rewrite IH. reflexivity. }
  rewrite !G. reflexivity.
Qed.

Lemma decode_syncmap_head f r1 :
  decode_object (S f) (binSyncMap :: r1) =
  (do vb <- vi_read_bytes r1;
   let '(value, read, r2) := vb in
   if value <? 0 then Err (e "negative value"%string)
   else if zlen r2 <? value then Err (e "unexpected EOF"%string)
   else do pr <- read_n value r2;
        let '(payload, r3) := pr in
        match read ++ payload with
        | 0 :: _ => Ok (CSyncMap None, r3)
        | _ =>
            do body <- dec_sized_payload (binSyncMap :: read ++ payload);
            do m <- dec_map_entries (decode_object f) (S (List.length body)) body []; Ok (CSyncMap (Some m), r3)
        end).
Proof. reflexivity. Qed.

Theorem syncmap_none_rt f rest : decode_object (S f) (encode (CSyncMap None) ++ rest) = Ok (CSyncMap None, rest).
Proof.
  cbn [encode app]. rewrite decode_syncmap_head. cbn [vi_read_bytes]. cbv beta iota.
  change (10 <? 0) with false; change (0 =? 0) with true; cbv iota; cbn [bind].
  change (0 <? 0) with false; cbv iota.
  destruct (Z.ltb_spec (zlen rest) 0); [unfold zlen in *; lia|].
  rewrite read_n_0. cbn [bind app]. reflexivity.
Qed.

Lemma vi_to_bytes_head v : exists n bs, vi_to_bytes v = n :: bs /\ n <> 0.
Proof.
  unfold vi_to_bytes. cbv zeta. eexists _, _. split; [reflexivity|]. pose proof (put_varint_len v). unfold zlen in *. lia.
Qed.

Theorem syncmap_rt f m rest :
  Forall (fun kx => zlen (fst kx) < 2 ^ 63 /\ forall rest', decode_object f (encode (snd kx) ++ rest') = Ok (snd kx, rest')) m ->
  zlen (enc_entries m) < 2 ^ 62 ->
  decode_object (S f) (encode (CSyncMap (Some m)) ++ rest) = Ok (CSyncMap (Some m), rest).
Proof.
  intros Hall Hsz. rewrite encode_syncmap.
  pose proof (enc_entries_length m) as Hlen.
  remember (enc_entries m) as tmp eqn:Etmp.
  assert (Hr: - 2 ^ 63 <= zlen tmp < 2 ^ 63) by (unfold zlen in *; lia).
  cbn [app]. rewrite decode_syncmap_head.
  rewrite <- app_assoc. rewrite vi_read_bytes_to_bytes by exact Hr. cbn [bind].
  destruct (Z.ltb_spec (zlen tmp) 0); [unfold zlen in *; lia|].
  rewrite zlen_app. destruct (Z.ltb_spec (zlen tmp + zlen rest) (zlen tmp)); [unfold zlen in *; lia|].
  rewrite read_n_app. cbn [bind].
  assert (Hm: forall (A : Type) (x y : A), match vi_to_bytes (zlen tmp) ++ tmp with 0 :: _ => x | _ => y end = y).
  { intros A x y. destruct (vi_to_bytes_head (zlen tmp)) as [n [bs [Ehd Hn]]]. rewrite Ehd. cbn [app]. destruct n; [congruence | reflexivity | reflexivity]. }
  rewrite Hm.
  destruct tmp as [|t0 ts].
  - rewrite app_nil_r. change (zlen (@nil Z)) with 0. rewrite dec_sized_payload_zero. cbn [bind].
    destruct m as [|[k x] m']; [reflexivity|]. cbn [enc_entries] in Etmp. unfold vi_to_bytes in Etmp. discriminate.
  - rewrite dec_sized_payload_enc by (try discriminate; lia). cbn [bind].
    rewrite Etmp. rewrite dec_map_entries_enc by (try exact Hall; rewrite <- Etmp; unfold zlen, bytes in *; lia). cbn [bind rev app]. reflexivity.
Qed.

(* ---- function and builtin function objects: only the name is encoded *)
Lemma decode_named_head f tag r1 : tag = binFunction \/ tag = binBuiltinFunction ->
  decode_object (S f) (tag :: r1) =
  (do vb <- vi_read_bytes r1;
   let '(value, read, r2) := vb in
   if value <? 0 then Err (e "negative value"%string)
   else if zlen r2 <? value then Err (e "unexpected EOF"%string)
   else do pr <- read_n value r2;
        let '(payload, r3) := pr in
        let buf := tag :: read ++ payload in
        do so <- to_varint (read ++ payload);
        let '(size, offset) := so in
        if size <=? 0 then Err (e "invalid function data size"%string)
        else
          do inner <- go_slice buf (1 + offset) (zlen buf);
          match inner with
          | t :: _ :: _ =>
              if t =? binString then
                do s <- dec_sized_payload inner;
                if tag =? binFunction then Ok (CFunc s, r3) else Ok (CBuiltin s, r3)
              else Err (e "invalid string data"%string)
          | _ => Err (e "invalid string data"%string)
          end).
Proof. intros [-> | ->]; reflexivity. Qed.

Lemma enc_string_shape s : zlen s < 2 ^ 62 ->
  exists b2 r, enc_string s = binString :: b2 :: r /\ dec_sized_payload (enc_string s) = Ok s.
Proof.
  intro Hs. unfold enc_string, enc_sized. destruct s as [|c s'].
  - exists 0, []. split; reflexivity.
  - destruct (vi_to_bytes_head (zlen (c :: s'))) as [n [bs [Ehd _]]].
    exists n, (bs ++ c :: s'). split; [rewrite Ehd; reflexivity|].
    apply dec_sized_payload_enc; [discriminate | lia].
Qed.

Theorem named_rt f tag name rest : tag = binFunction \/ tag = binBuiltinFunction -> zlen name < 2 ^ 61 ->
  decode_object (S f) (enc_named tag name ++ rest) =
  Ok ((if tag =? binFunction then CFunc name else CBuiltin name), rest).
Proof.
  intros Htag Hn. unfold enc_named. cbv zeta.
  destruct (enc_string_shape name ltac:(lia)) as [b2 [r [Eshape Hdec]]].
  remember (enc_string name) as s eqn:Es.
  assert (Hslen: 2 <= zlen s < 2 ^ 62).
  { rewrite Eshape. split; [unfold zlen; cbn [List.length]; lia|]. rewrite <- Eshape, Es. unfold enc_string, enc_sized.
    destruct name as [|c n']; [unfold zlen; cbn; lia|]. unfold zlen in *. cbn [List.length]. rewrite app_length.
    unfold vi_to_bytes. cbv zeta. cbn [List.length]. pose proof (put_varint_len (Z.of_nat (S (List.length n')))) as Hp. unfold zlen in Hp. cbn [List.length] in *. lia. }
  assert (Hr: - 2 ^ 63 <= zlen s < 2 ^ 63) by lia.
  cbn [app]. rewrite (decode_named_head f tag _ Htag).
  rewrite <- app_assoc. rewrite vi_read_bytes_to_bytes by exact Hr. cbn [bind].
  destruct (Z.ltb_spec (zlen s) 0); [lia|].
  rewrite zlen_app. destruct (Z.ltb_spec (zlen s + zlen rest) (zlen s)); [unfold zlen in *; lia|].
  rewrite read_n_app. cbn [bind]. cbv zeta.
  rewrite to_varint_to_bytes by exact Hr. cbn [bind].
  destruct (Z.leb_spec (zlen s) 0); [lia|].
  set (hd := vi_to_bytes (zlen s)).
  change (tag :: hd ++ s) with ((tag :: hd) ++ s).
  replace (1 + Z.of_nat (List.length hd)) with (zlen (tag :: hd)) by (unfold zlen; cbn [List.length]; lia).
  replace (zlen ((tag :: hd) ++ s)) with (zlen (tag :: hd) + zlen s) by (rewrite zlen_app; reflexivity).
  rewrite go_slice_mid. cbn [bind]. rewrite Eshape. rewrite Z.eqb_refl. rewrite <- Eshape, Hdec. cbn [bind]. destruct (tag =? binFunction); reflexivity.
Qed.

(* ---- all objects *)
Fixpoint okv (v : cval) : Prop :=
  match v with
  | CUndef | CBool _ | CStr _ | CBytes _ | CFunc _ | CBuiltin _ => True
  | CInt z => - 2 ^ 63 <= z < 2 ^ 63
  | CUint z | CFloat z => 0 <= z < 2 ^ 64
  | CChar z => - 2 ^ 31 <= z < 2 ^ 31
  | CArr l => (fix all (l : list cval) : Prop := match l with [] => True | x :: r => okv x /\ all r end) l
  | CMap m | CSyncMap (Some m) => (fix all (m : list (bytes * cval)) : Prop := match m with [] => True | kx :: r => okv (snd kx) /\ all r end) m
  | CSyncMap None => True
  | CCompiled fn => wf_cfunc fn
  end.

Fixpoint depthf (v : cval) : nat :=
  match v with
  | CArr l => S (fold_right (fun x m => Nat.max (depthf x) m) 0%nat l)
  | CMap m | CSyncMap (Some m) => S (fold_right (fun kx n => Nat.max (depthf (snd kx)) n) 0%nat m)
  | CCompiled _ => 1%nat
  | _ => 0%nat
  end.

Lemma okv_arr l : okv (CArr l) <-> Forall okv l.
Proof.
  cbn [okv]. induction l as [|x r IH].
  - split; intro; [constructor | exact I].
  - split; intro H.
    + destruct H as [H1 H2]. constructor; [exact H1 | apply IH; exact H2].
    + inversion H; subst. split; [assumption | apply IH; assumption].
Qed.
Lemma okv_entries m : (fix all (m : list (bytes * cval)) : Prop := match m with [] => True | kx :: r => okv (snd kx) /\ all r end) m <-> Forall (fun kx => okv (snd kx)) m.
Proof.
  induction m as [|x r IH].
  - split; intro; [constructor | exact I].
  - split; intro H.
    + destruct H as [H1 H2]. constructor; [exact H1 | apply IH; exact H2].
    + inversion H; subst. split; [assumption | apply IH; assumption].
Qed.

Lemma encode_nonempty_f v : encode v <> [].
Proof.
  destruct v; cbn [encode]; try discriminate.
  - destruct b; discriminate.
  - unfold enc_int, enc_small. destruct (z =? 0); discriminate.
  - unfold enc_uint, enc_small. destruct (z =? 0); discriminate.
  - unfold enc_char, enc_small. destruct (z =? 0); discriminate.
  - unfold enc_float, enc_small. destruct (bits =? 0); discriminate.
  - unfold enc_string, enc_sized. destruct s; discriminate.
  - unfold enc_bytes, enc_sized. destruct s; discriminate.
  - destruct l; discriminate.
  - destruct m; discriminate.
Qed.

Lemma depthf_elem x l : In x l -> (depthf x <= fold_right (fun y m => Nat.max (depthf y) m) 0 l)%nat.
Proof. induction l as [|y l IH]; intros Hin; [destruct Hin|]. simpl. destruct Hin as [->|Hin]; [lia|]. specialize (IH Hin). lia. Qed.
Lemma depthf_entry (kx : bytes * cval) m : In kx m -> (depthf (snd kx) <= fold_right (fun (y : bytes * cval) n => Nat.max (depthf (snd y)) n) 0 m)%nat.
Proof. induction m as [|y m IH]; intros Hin; [destruct Hin|]. simpl. destruct Hin as [->|Hin]; [lia|]. specialize (IH Hin). lia. Qed.

(* decode (encode v ++ rest) = (v, rest) for every object whose scalars are in range, whose compiled
   functions are well formed, of encoded size below 2^61, at any fuel above its nesting depth *)
Theorem full_rt : forall n v, (depthf v <= n)%nat -> okv v -> zlen (encode v) < 2 ^ 61 ->
  forall f rest, (n <= f)%nat -> decode_object (S f) (encode v ++ rest) = Ok (v, rest).
Proof.
  induction n as [|n IHn]; intros v Hd Hp Hsz f rest Hf.
  - destruct v; cbn [okv] in Hp; cbn [depthf] in Hd; try lia.
    + reflexivity.
    + destruct b; reflexivity.
    + apply int_rt. lia.
    + apply uint_rt. lia.
    + apply char_rt. lia.
    + apply float_rt. lia.
    + apply string_rt. cbn [encode] in Hsz. unfold enc_string, enc_sized in Hsz. destruct s; [unfold zlen; simpl; lia|].
      unfold zlen in *. cbn [List.length] in Hsz. rewrite app_length in Hsz. lia.
    + apply bytes_rt. cbn [encode] in Hsz. unfold enc_bytes, enc_sized in Hsz. destruct s; [unfold zlen; simpl; lia|].
      unfold zlen in *. cbn [List.length] in Hsz. rewrite app_length in Hsz. lia.
    + destruct m as [m|]; [lia | apply syncmap_none_rt].
    + cbn [encode]. rewrite (named_rt f binFunction name rest); [reflexivity | left; reflexivity|].
      cbn [encode] in Hsz. unfold enc_named, enc_string, enc_sized in Hsz. cbv zeta in Hsz. destruct name; [unfold zlen; simpl; lia|].
      unfold zlen in *. cbn [List.length] in Hsz. rewrite !app_length in Hsz. cbn [List.length] in Hsz. rewrite app_length in Hsz. lia.
    + cbn [encode]. rewrite (named_rt f binBuiltinFunction name rest); [reflexivity | right; reflexivity|].
      cbn [encode] in Hsz. unfold enc_named, enc_string, enc_sized in Hsz. cbv zeta in Hsz. destruct name; [unfold zlen; simpl; lia|].
      unfold zlen in *. cbn [List.length] in Hsz. rewrite !app_length in Hsz. cbn [List.length] in Hsz. rewrite app_length in Hsz. lia.
  - destruct v; try (apply (IHn _); [cbn [depthf]; lia | exact Hp | exact Hsz | lia]).
    + (* array *)
      destruct f as [|f]; [lia|]. apply okv_arr in Hp. rewrite Forall_forall in Hp. cbn [depthf] in Hd.
      assert (Hsz': zlen (enc_elems l) < 2 ^ 61).
      { destruct l as [|x r]; [unfold zlen; simpl; lia|]. rewrite encode_arr_cons in Hsz. cbv zeta in Hsz.
        unfold zlen in *. cbn [List.length] in Hsz. rewrite !app_length in Hsz. lia. }
      apply array_rt; [|lia].
      apply Forall_forall. intros x Hin. split; [apply encode_nonempty_f|].
      intros rest'. apply (IHn x); [pose proof (depthf_elem x l Hin); lia | apply Hp; exact Hin | pose proof (elem_size x l Hin); lia | lia].
    + (* map *)
      destruct f as [|f]; [lia|]. cbn [okv] in Hp. apply okv_entries in Hp. rewrite Forall_forall in Hp. cbn [depthf] in Hd.
      assert (Hsz': zlen (enc_entries m) < 2 ^ 61).
      { rewrite encode_map in Hsz. unfold zlen in *. cbn [List.length] in Hsz. rewrite !app_length in Hsz. lia. }
      apply map_rt; [|lia].
      apply Forall_forall. intros kx Hin. pose proof (entry_size kx m Hin) as Hes.
      assert (0 <= zlen (encode (snd kx))) by (unfold zlen; lia). assert (0 <= zlen (fst kx)) by (unfold zlen; lia).
      split; [lia|].
      intros rest'. apply (IHn (snd kx)); [pose proof (depthf_entry kx m Hin); unfold bytes in *; lia | apply (Hp kx Hin) | unfold bytes in *; lia | lia].
    + (* sync map *)
      destruct m as [m|]; [|apply syncmap_none_rt].
      destruct f as [|f]; [lia|]. cbn [okv] in Hp. apply okv_entries in Hp. rewrite Forall_forall in Hp. cbn [depthf] in Hd.
      assert (Hsz': zlen (enc_entries m) < 2 ^ 61).
      { rewrite encode_syncmap in Hsz. unfold zlen in *. cbn [List.length] in Hsz. rewrite !app_length in Hsz. lia. }
      apply syncmap_rt; [|lia].
      apply Forall_forall. intros kx Hin. pose proof (entry_size kx m Hin) as Hes.
      assert (0 <= zlen (encode (snd kx))) by (unfold zlen; lia). assert (0 <= zlen (fst kx)) by (unfold zlen; lia).
      split; [lia|].
      intros rest'. apply (IHn (snd kx)); [pose proof (depthf_entry kx m Hin); unfold bytes in *; lia | apply (Hp kx Hin) | unfold bytes in *; lia | lia].
    + (* compiled function *)
      destruct f as [|f]; [lia|]. cbn [okv] in Hp. apply cfunc_rt; [exact Hp|].
      cbn [encode] in Hsz. unfold enc_cfunc in Hsz. cbv zeta in Hsz. unfold zlen in *. cbn [List.length] in Hsz. rewrite app_length in Hsz. lia.
Qed.

Theorem object_rt v rest : okv v -> zlen (encode v) < 2 ^ 61 ->
  forall fuel, (depthf v < fuel)%nat -> decode_object fuel (encode v ++ rest) = Ok (v, rest).
Proof.
  intros Hok Hsz fuel Hf. destruct fuel as [|f]; [lia|]. apply (full_rt (depthf v) v (Nat.le_refl _) Hok Hsz f rest). lia.
Qed.
