(* Round trip of maps and of values nested through arrays and maps to any depth (C04). *)
From Coq Require Import List ZArith Bool Lia String.
From Ugo Require Import Base.Res Codec.Varint Codec.VarintProofs Codec.Obj Codec.ObjProofs Codec.ObjArrayProofs.
Import ListNotations.
Local Open Scope Z_scope.

Fixpoint enc_entries (m : list (bytes * cval)) : bytes :=
  match m with [] => [] | (k, x) :: r => vi_to_bytes (zlen k) ++ k ++ encode x ++ enc_entries r end.

Lemma encode_map m : encode (CMap m) = binMap :: vi_to_bytes (zlen (enc_entries m)) ++ enc_entries m.
Proof.
  assert (G: forall l, enc_entries l =
    (fix go (m : list (bytes * cval)) : bytes := match m with [] => [] | (k, x) :: r => vi_to_bytes (zlen k) ++ k ++ encode x ++ go r end) l).
  { induction l as [|[k y] l IH]; [reflexivity|]. cbn [enc_entries]. rewrite IH. reflexivity. }
  rewrite !G. reflexivity.
Qed.

Lemma dec_map_entries_enc (dec : bytes -> res (cval * bytes)) m :
  Forall (fun kx => zlen (fst kx) < 2 ^ 63 /\ forall rest, dec (encode (snd kx) ++ rest) = Ok (snd kx, rest)) m ->
  forall fuel acc, (List.length m < fuel)%nat ->
  dec_map_entries dec fuel (enc_entries m) acc = Ok (rev acc ++ m).
Proof.
  induction 1 as [|[k x] m [Hk Hx] Hm IH]; intros fuel acc Hf.
  - destruct fuel as [|fuel]; [simpl in Hf; lia|]. simpl. rewrite app_nil_r. reflexivity.
  - destruct fuel as [|fuel]; [simpl in Hf; lia|].
    cbn [enc_entries fst snd] in *. cbn [dec_map_entries].
    destruct (vi_to_bytes (zlen k) ++ k ++ encode x ++ enc_entries m) as [|b bs] eqn:E.
    { unfold vi_to_bytes in E. discriminate. }
    rewrite <- E. rewrite vi_read_to_bytes by (unfold zlen in *; lia). cbn [bind].
    destruct (Z.ltb_spec 0 (zlen k)) as [Hpos|Hz].
    + rewrite read_n_app. cbn [bind]. rewrite Hx. cbn [bind fst snd].
      change ((fix go (fuel0 : nat) (rd : bytes) (acc0 : list (bytes * cval)) {struct fuel0} : res (list (bytes * cval)) :=
                 match fuel0 with
                 | 0%nat => OutOfFuel
                 | S fuel' =>
                     match rd with
                     | [] => Ok (rev acc0)
                     | _ :: _ =>
                         do vr <- vi_read rd;
                         (let '(klen, rd1) := vr in
                          do kr <- (if 0 <? klen then read_n klen rd1 else Ok ([], rd1));
                          (let '(k0, rd2) := kr in do orr <- dec rd2; go fuel' (snd orr) ((k0, fst orr) :: acc0)))
                     end
                 end) fuel (enc_entries m) ((k, x) :: acc)) with (dec_map_entries dec fuel (enc_entries m) ((k, x) :: acc)).
      rewrite IH by (simpl in Hf; lia). cbn [rev]. rewrite <- app_assoc. reflexivity.
    + assert (k = []) by (destruct k; [reflexivity | unfold zlen in Hz; cbn [List.length] in Hz; lia]). subst k.
      cbn [app bind]. rewrite Hx. cbn [bind fst snd].
      change ((fix go (fuel0 : nat) (rd : bytes) (acc0 : list (bytes * cval)) {struct fuel0} : res (list (bytes * cval)) :=
                 match fuel0 with
                 | 0%nat => OutOfFuel
                 | S fuel' =>
                     match rd with
                     | [] => Ok (rev acc0)
                     | _ :: _ =>
                         do vr <- vi_read rd;
                         (let '(klen, rd1) := vr in
                          do kr <- (if 0 <? klen then read_n klen rd1 else Ok ([], rd1));
                          (let '(k0, rd2) := kr in do orr <- dec rd2; go fuel' (snd orr) ((k0, fst orr) :: acc0)))
                     end
                 end) fuel (enc_entries m) (([], x) :: acc)) with (dec_map_entries dec fuel (enc_entries m) (([], x) :: acc)).
      rewrite IH by (simpl in Hf; lia). cbn [rev]. rewrite <- app_assoc. reflexivity.
Qed.

Lemma decode_map_head f r1 :
  decode_object (S f) (binMap :: r1) =
  (do vb <- vi_read_bytes r1;
   let '(value, read, r2) := vb in
   if value <? 0 then Err (e "negative value"%string)
   else if zlen r2 <? value then Err (e "unexpected EOF"%string)
   else do pr <- read_n value r2;
        let '(payload, r3) := pr in
        do body <- dec_sized_payload (binMap :: read ++ payload);
        do m <- dec_map_entries (decode_object f) (S (List.length body)) body []; Ok (CMap m, r3)).
Proof. reflexivity. Qed.

Lemma enc_entries_length m : zlen m <= zlen (enc_entries m).
Proof.
  induction m as [|[k x] m IH]; [unfold zlen; simpl; lia|].
  cbn [enc_entries]. unfold zlen in *. rewrite !app_length.
  assert (1 <= List.length (vi_to_bytes (Z.of_nat (List.length k))))%nat by (unfold vi_to_bytes; cbv zeta; cbn [List.length]; lia).
  cbn [List.length]. remember (List.length (vi_to_bytes (Z.of_nat (List.length k)))) as a. clear Heqa. lia.
Qed.

Lemma dec_sized_payload_zero tag : dec_sized_payload (tag :: vi_to_bytes 0) = Ok [].
Proof. reflexivity. Qed.

Theorem map_rt f m rest :
  Forall (fun kx => zlen (fst kx) < 2 ^ 63 /\ forall rest', decode_object f (encode (snd kx) ++ rest') = Ok (snd kx, rest')) m ->
  zlen (enc_entries m) < 2 ^ 62 ->
  decode_object (S f) (encode (CMap m) ++ rest) = Ok (CMap m, rest).
Proof.
  intros Hall Hsz. rewrite encode_map.
  pose proof (enc_entries_length m) as Hlen.
  remember (enc_entries m) as tmp eqn:Etmp.
  assert (Hr: - 2 ^ 63 <= zlen tmp < 2 ^ 63) by (unfold zlen in *; lia).
  cbn [app]. rewrite decode_map_head.
  rewrite <- app_assoc. rewrite vi_read_bytes_to_bytes by exact Hr. cbn [bind].
  destruct (Z.ltb_spec (zlen tmp) 0); [unfold zlen in *; lia|].
  rewrite zlen_app. destruct (Z.ltb_spec (zlen tmp + zlen rest) (zlen tmp)); [unfold zlen in *; lia|].
  rewrite read_n_app. cbn [bind].
  destruct tmp as [|t0 ts].
  - (* the empty map *)
    rewrite app_nil_r. change (zlen (@nil Z)) with 0. rewrite dec_sized_payload_zero. cbn [bind].
    destruct m as [|[k x] m']; [reflexivity|]. cbn [enc_entries] in Etmp. unfold vi_to_bytes in Etmp. discriminate.
  - rewrite dec_sized_payload_enc by (try discriminate; lia). cbn [bind].
    rewrite Etmp. rewrite dec_map_entries_enc by (try exact Hall; rewrite <- Etmp; unfold zlen, bytes in *; lia). cbn [bind rev app]. reflexivity.
Qed.

(* values built from scalars in range, strings, bytes, arrays and maps *)
Fixpoint plainm (v : cval) : bool :=
  match v with
  | CUndef | CBool _ => true
  | CInt z => (- 2 ^ 63 <=? z) && (z <? 2 ^ 63)
  | CUint z | CFloat z => (0 <=? z) && (z <? 2 ^ 64)
  | CChar z => (- 2 ^ 31 <=? z) && (z <? 2 ^ 31)
  | CStr s | CBytes s => true
  | CArr l => forallb plainm l
  | CMap m => forallb (fun kx => plainm (snd kx)) m
  | _ => false
  end.

Fixpoint depthm (v : cval) : nat :=
  match v with
  | CArr l => S (fold_right (fun x m => Nat.max (depthm x) m) 0%nat l)
  | CMap m => S (fold_right (fun kx n => Nat.max (depthm (snd kx)) n) 0%nat m)
  | _ => 0%nat
  end.

Lemma encode_nonempty_m v : plainm v = true -> encode v <> [].
Proof.
  destruct v; cbn [plainm]; intros H; try discriminate; cbn [encode]; try discriminate.
  - destruct b; discriminate.
  - unfold enc_int, enc_small. destruct (z =? 0); discriminate.
  - unfold enc_uint, enc_small. destruct (z =? 0); discriminate.
  - unfold enc_char, enc_small. destruct (z =? 0); discriminate.
  - unfold enc_float, enc_small. destruct (bits =? 0); discriminate.
  - unfold enc_string, enc_sized. destruct s; discriminate.
  - unfold enc_bytes, enc_sized. destruct s; discriminate.
  - destruct l; discriminate.
Qed.

Lemma depthm_elem x l : In x l -> (depthm x <= fold_right (fun y m => Nat.max (depthm y) m) 0 l)%nat.
Proof.
  induction l as [|y l IH]; intros Hin; [destruct Hin|]. simpl. destruct Hin as [->|Hin]; [lia|]. specialize (IH Hin). lia.
Qed.
Lemma depthm_entry (kx : bytes * cval) m : In kx m -> (depthm (snd kx) <= fold_right (fun (y : bytes * cval) n => Nat.max (depthm (snd y)) n) 0 m)%nat.
Proof.
  induction m as [|y m IH]; intros Hin; [destruct Hin|]. simpl. destruct Hin as [->|Hin]; [lia|]. specialize (IH Hin). lia.
Qed.

Lemma elem_size x l : In x l -> zlen (encode x) <= zlen (enc_elems l).
Proof.
  induction l as [|y l IH]; intros Hin; [destruct Hin|]. cbn [enc_elems]. unfold zlen in *. rewrite app_length.
  destruct Hin as [->|Hin]; [lia|]. specialize (IH Hin). lia.
Qed.
Lemma entry_size kx m : In kx m -> zlen (fst kx) + zlen (encode (snd kx)) <= zlen (enc_entries m).
Proof.
  induction m as [|[k y] m IH]; intros Hin; [destruct Hin|]. cbn [enc_entries]. unfold zlen in *. rewrite !app_length.
  destruct Hin as [E|Hin]; [inversion E; subst; cbn [fst snd]; lia|]. specialize (IH Hin). lia.
Qed.

(* decode (encode v ++ rest) = (v, rest) for every value nested through arrays and maps, of encoded
   size below 2^62, at any fuel above its nesting depth *)
Theorem plainm_rt : forall n v, (depthm v <= n)%nat -> plainm v = true -> zlen (encode v) < 2 ^ 62 ->
  forall f rest, (n <= f)%nat -> decode_object (S f) (encode v ++ rest) = Ok (v, rest).
Proof.
  induction n as [|n IHn]; intros v Hd Hp Hsz f rest Hf.
  - destruct v; cbn [plainm] in Hp; try discriminate; cbn [depthm] in Hd; try lia.
    + reflexivity.
    + destruct b; reflexivity.
    + apply andb_true_iff in Hp as [H1 H2]. apply Z.leb_le in H1. apply Z.ltb_lt in H2. apply int_rt. lia.
    + apply andb_true_iff in Hp as [H1 H2]. apply Z.leb_le in H1. apply Z.ltb_lt in H2. apply uint_rt. lia.
    + apply andb_true_iff in Hp as [H1 H2]. apply Z.leb_le in H1. apply Z.ltb_lt in H2. apply char_rt. lia.
    + apply andb_true_iff in Hp as [H1 H2]. apply Z.leb_le in H1. apply Z.ltb_lt in H2. apply float_rt. lia.
    + apply string_rt. cbn [encode] in Hsz. unfold enc_string, enc_sized in Hsz. destruct s; [unfold zlen; simpl; lia|].
      unfold zlen in *. cbn [List.length] in Hsz. rewrite app_length in Hsz. lia.
    + apply bytes_rt. cbn [encode] in Hsz. unfold enc_bytes, enc_sized in Hsz. destruct s; [unfold zlen; simpl; lia|].
      unfold zlen in *. cbn [List.length] in Hsz. rewrite app_length in Hsz. lia.
  - destruct v; try (apply (IHn _); [cbn [depthm]; lia | exact Hp | exact Hsz | lia]).
    + (* array *)
      destruct f as [|f]; [lia|].
      cbn [plainm] in Hp. rewrite forallb_forall in Hp. cbn [depthm] in Hd.
      assert (Hsz': zlen (enc_elems l) < 2 ^ 62).
      { destruct l as [|x r]; [unfold zlen; simpl; lia|]. rewrite encode_arr_cons in Hsz. cbv zeta in Hsz.
        unfold zlen in *. cbn [List.length] in Hsz. rewrite !app_length in Hsz. lia. }
      apply array_rt; [|exact Hsz'].
      apply Forall_forall. intros x Hin. split; [apply encode_nonempty_m; apply Hp; exact Hin|].
      intros rest'. apply (IHn x); [pose proof (depthm_elem x l Hin); lia | apply Hp; exact Hin | pose proof (elem_size x l Hin); lia | lia].
    + (* map *)
      destruct f as [|f]; [lia|].
      cbn [plainm] in Hp. rewrite forallb_forall in Hp. cbn [depthm] in Hd.
      assert (Hsz': zlen (enc_entries m) < 2 ^ 62).
      { rewrite encode_map in Hsz. unfold zlen in *. cbn [List.length] in Hsz. rewrite !app_length in Hsz. lia. }
      apply map_rt; [|exact Hsz'].
      apply Forall_forall. intros kx Hin. pose proof (entry_size kx m Hin) as Hes.
      assert (0 <= zlen (encode (snd kx))) by (unfold zlen; lia). assert (0 <= zlen (fst kx)) by (unfold zlen; lia).
      split; [lia|].
      intros rest'. apply (IHn (snd kx)); [pose proof (depthm_entry kx m Hin); unfold bytes in *; lia | apply (Hp kx Hin) | unfold bytes in *; lia | lia].
Qed.
