(* Round trip of nested arrays (C04): decode (encode v ++ rest) = (v, rest) for every value built
   from scalars, strings, bytes and arrays nested to any depth. *)
From Coq Require Import List ZArith Bool Lia String.
From Ugo Require Import Base.Res Codec.Varint Codec.VarintProofs Codec.Obj Codec.ObjProofs.
Import ListNotations.
Local Open Scope Z_scope.

Fixpoint enc_elems (l : list cval) : bytes :=
  match l with [] => [] | x :: r => encode x ++ enc_elems r end.

Lemma encode_arr_cons x r :
  encode (CArr (x :: r)) =
  let tmp := vi_to_bytes (zlen (x :: r)) ++ enc_elems (x :: r) in binArray :: vi_to_bytes (zlen tmp) ++ tmp.
Proof.
  assert (G: forall l, enc_elems l = (fix go (l : list cval) : bytes := match l with [] => [] | y :: r0 => encode y ++ go r0 end) l).
  { induction l as [|y l IH]; [reflexivity|]. cbn [enc_elems]. rewrite IH. reflexivity. }
  cbv zeta. rewrite !G. reflexivity.
Qed.

(* the element loop: each element decodes and leaves the rest, until the reader is empty *)
Lemma dec_arr_elems_enc (dec : bytes -> res (cval * bytes)) l :
  Forall (fun x => encode x <> [] /\ forall rest, dec (encode x ++ rest) = Ok (x, rest)) l ->
  forall fuel acc, (List.length l < fuel)%nat ->
  dec_arr_elems dec fuel (enc_elems l) acc = Ok (rev acc ++ l).
Proof.
  induction 1 as [|x l [Hne Hx] Hl IH]; intros fuel acc Hf.
  - destruct fuel as [|fuel]; [simpl in Hf; lia|]. simpl. rewrite app_nil_r. reflexivity.
  - destruct fuel as [|fuel]; [simpl in Hf; lia|].
    cbn [enc_elems]. cbn [dec_arr_elems].
    destruct (encode x ++ enc_elems l) as [|b bs] eqn:E.
    { apply app_eq_nil in E. destruct E; congruence. }
    rewrite <- E. rewrite Hx. cbn [bind fst snd].
    change ((fix go (fuel0 : nat) (rd : bytes) (acc0 : list cval) {struct fuel0} : res (list cval) :=
               match fuel0 with
               | 0%nat => OutOfFuel
               | S fuel' => match rd with
                            | [] => Ok (rev acc0)
                            | _ :: _ => do orr <- dec rd; go fuel' (snd orr) (fst orr :: acc0)
                            end
               end) fuel (enc_elems l) (x :: acc)) with (dec_arr_elems dec fuel (enc_elems l) (x :: acc)).
    rewrite IH by (simpl in Hf; lia). cbn [rev]. rewrite <- app_assoc. reflexivity.
Qed.

Lemma decode_array_head f r1 :
  decode_object (S f) (binArray :: r1) =
  (do vb <- vi_read_bytes r1;
   let '(value, read, r2) := vb in
   if value <? 0 then Err (e "negative value"%string)
   else if zlen r2 <? value then Err (e "unexpected EOF"%string)
   else do pr <- read_n value r2;
        let '(payload, r3) := pr in
        do body <- dec_sized_payload (binArray :: read ++ payload);
        match body with
        | [] => Ok (CArr [], r3)
        | _ =>
            do lr <- vi_read body;
            let '(len, rd) := lr in
            if (len <? 0) || (zlen rd <? len) then Err (e "invalid array length"%string)
            else do l <- dec_arr_elems (decode_object f) (S (List.length rd)) rd []; Ok (CArr l, r3)
        end).
Proof. reflexivity. Qed.

Lemma enc_elems_length l : Forall (fun x => encode x <> []) l -> zlen l <= zlen (enc_elems l).
Proof.
  induction 1 as [|x l Hx Hl IH]; [unfold zlen; simpl; lia|].
  cbn [enc_elems]. unfold zlen in *. rewrite app_length. cbn [List.length].
  destruct (encode x); [congruence|]. cbn [List.length]. lia.
Qed.

(* an array of elements which round trip at fuel f round trips at fuel f + 1 *)
Theorem array_rt f l rest :
  Forall (fun x => encode x <> [] /\ forall rest', decode_object f (encode x ++ rest') = Ok (x, rest')) l ->
  zlen (enc_elems l) < 2 ^ 62 ->
  decode_object (S f) (encode (CArr l) ++ rest) = Ok (CArr l, rest).
Proof.
  intros Hall Hsz. destruct l as [|x r].
  - (* the empty array is the two bytes tag, 0 *)
    cbn [encode app]. rewrite decode_array_head. cbn [vi_read_bytes]. cbv beta iota.
    change (10 <? 0) with false; change (0 =? 0) with true; cbv iota; cbn [bind].
    change (0 <? 0) with false; cbv iota.
    destruct (Z.ltb_spec (zlen rest) 0); [unfold zlen in *; lia|].
    rewrite read_n_0. cbn [bind app]. reflexivity.
  - rewrite encode_arr_cons. cbv zeta.
    set (l := x :: r) in *.
    assert (Hne: Forall (fun y => encode y <> []) l).
    { eapply Forall_impl; [|exact Hall]. intros y [H _]; exact H. }
    pose proof (enc_elems_length l Hne) as Hlen.
    set (tmp := vi_to_bytes (zlen l) ++ enc_elems l).
    assert (Hl63: - 2 ^ 63 <= zlen l < 2 ^ 63) by (unfold zlen in *; lia).
    assert (Htmp: zlen tmp = zlen (vi_to_bytes (zlen l)) + zlen (enc_elems l)) by (unfold tmp; apply zlen_app).
    assert (Hvl: 2 <= zlen (vi_to_bytes (zlen l)) <= 11).
    { unfold vi_to_bytes. pose proof (put_varint_len (zlen l)). unfold zlen in *. cbn [List.length]. lia. }
    assert (Hr: - 2 ^ 63 <= zlen tmp < 2 ^ 63) by (unfold zlen in *; lia).
    assert (Htne: tmp <> []) by (unfold tmp, vi_to_bytes; discriminate).
    cbn [app]. rewrite decode_array_head.
    rewrite <- app_assoc. rewrite vi_read_bytes_to_bytes by exact Hr. cbn [bind].
    destruct (Z.ltb_spec (zlen tmp) 0); [unfold zlen in *; lia|].
    rewrite zlen_app. destruct (Z.ltb_spec (zlen tmp + zlen rest) (zlen tmp)); [unfold zlen in *; lia|].
    rewrite read_n_app. cbn [bind].
    rewrite dec_sized_payload_enc by (try assumption; lia). cbn [bind].
    destruct tmp as [|t0 ts] eqn:Et; [congruence|]. rewrite <- Et.
    unfold tmp at 1. rewrite vi_read_to_bytes by exact Hl63. cbn [bind].
    destruct (Z.ltb_spec (zlen l) 0); [unfold zlen in *; lia|]. cbn [orb].
    destruct (Z.ltb_spec (zlen (enc_elems l)) (zlen l)); [lia|].
    rewrite dec_arr_elems_enc by (try exact Hall; unfold zlen in *; lia). cbn [bind rev app]. reflexivity.
Qed.

(* values built from scalars in range, strings, bytes and arrays *)
Fixpoint plain (v : cval) : bool :=
  match v with
  | CUndef | CBool _ => true
  | CInt z => (- 2 ^ 63 <=? z) && (z <? 2 ^ 63)
  | CUint z | CFloat z => (0 <=? z) && (z <? 2 ^ 64)
  | CChar z => (- 2 ^ 31 <=? z) && (z <? 2 ^ 31)
  | CStr s | CBytes s => true
  | CArr l => forallb plain l
  | _ => false
  end.

Fixpoint depth (v : cval) : nat :=
  match v with
  | CArr l => S (fold_right (fun x m => Nat.max (depth x) m) 0%nat l)
  | _ => 0%nat
  end.

Lemma encode_nonempty v : plain v = true -> encode v <> [].
Proof.
  destruct v; cbn [plain]; intros H; try discriminate; cbn [encode]; try discriminate.
  - destruct b; discriminate.
  - unfold enc_int, enc_small. destruct (z =? 0); discriminate.
  - unfold enc_uint, enc_small. destruct (z =? 0); discriminate.
  - unfold enc_char, enc_small. destruct (z =? 0); discriminate.
  - unfold enc_float, enc_small. destruct (bits =? 0); discriminate.
  - unfold enc_string, enc_sized. destruct s; discriminate.
  - unfold enc_bytes, enc_sized. destruct s; discriminate.
  - destruct l; discriminate.
Qed.

Lemma depth_elem x l : In x l -> (depth x <= fold_right (fun y m => Nat.max (depth y) m) 0 l)%nat.
Proof.
  induction l as [|y l IH]; intros Hin; [destruct Hin|]. simpl. destruct Hin as [->|Hin]; [lia|]. specialize (IH Hin). lia.
Qed.

(* decode (encode v ++ rest) = (v, rest) for every plain value of encoded size below 2^62, at any
   fuel above its nesting depth *)
Theorem plain_rt : forall n v, (depth v <= n)%nat -> plain v = true -> zlen (encode v) < 2 ^ 62 ->
  forall f rest, (n <= f)%nat -> decode_object (S f) (encode v ++ rest) = Ok (v, rest).
Proof.
  induction n as [|n IHn]; intros v Hd Hp Hsz f rest Hf.
  - (* depth 0: not an array with elements... arrays have depth >= 1 *)
    destruct v; cbn [plain] in Hp; try discriminate; cbn [depth] in Hd; try lia.
    + reflexivity.
    + destruct b; reflexivity.
    + apply andb_true_iff in Hp as [H1 H2]. apply Z.leb_le in H1. apply Z.ltb_lt in H2. apply int_rt. lia.
    + apply andb_true_iff in Hp as [H1 H2]. apply Z.leb_le in H1. apply Z.ltb_lt in H2. apply uint_rt. lia.
    + apply andb_true_iff in Hp as [H1 H2]. apply Z.leb_le in H1. apply Z.ltb_lt in H2. apply char_rt. lia.
    + apply andb_true_iff in Hp as [H1 H2]. apply Z.leb_le in H1. apply Z.ltb_lt in H2. apply float_rt. lia.
    + apply string_rt. cbn [encode] in Hsz. unfold enc_string, enc_sized in Hsz. destruct s; [unfold zlen; simpl; lia|].
      unfold zlen in *. cbn [List.length] in Hsz. rewrite app_length in Hsz. lia.
    + apply bytes_rt. cbn [encode] in Hsz. unfold enc_bytes, enc_sized in Hsz. destruct s; [unfold zlen; simpl; lia|].
      unfold zlen in *. cbn [List.length] in Hsz. rewrite app_length in Hsz. lia.
  - destruct v; try (apply (IHn _); [cbn [depth]; lia | exact Hp | exact Hsz | lia]).
    (* an array *)
    destruct f as [|f]; [lia|].
    cbn [plain] in Hp. rewrite forallb_forall in Hp. cbn [depth] in Hd.
    assert (Hsz': zlen (enc_elems l) < 2 ^ 62).
    { destruct l as [|x r]; [unfold zlen; simpl; lia|]. rewrite encode_arr_cons in Hsz. cbv zeta in Hsz.
      unfold zlen in *. cbn [List.length] in Hsz. rewrite !app_length in Hsz. lia. }
    apply array_rt; [|exact Hsz'].
    apply Forall_forall. intros x Hin. split; [apply encode_nonempty; apply Hp; exact Hin|].
    intros rest'. apply (IHn x).
    + pose proof (depth_elem x l Hin). lia.
    + apply Hp; exact Hin.
    + (* an element is not larger than the whole *)
      clear - Hin Hsz'. induction l as [|y l IH]; [destruct Hin|]. cbn [enc_elems] in Hsz'. unfold zlen in *. rewrite app_length in Hsz'.
      destruct Hin as [->|Hin]; [lia|]. apply IH; [lia | exact Hin].
    + lia.
Qed.
