(* encoding/binary varints as used by encoder/encoder.go, and the length-prefixed form of
   varintConv.  Bytes are Z values in [0,256). *)
From Coq Require Import List ZArith Bool Lia String.
From Ugo Require Import Base.Res.
Import ListNotations.
Local Open Scope Z_scope.

(* binary.PutUvarint; fuel 10 suffices for x < 2^70 *)
Fixpoint put_uvarint (fuel : nat) (x : Z) : list Z :=
  match fuel with
  | O => [x mod 128]
  | S f => if x <? 128 then [x] else (x mod 128 + 128) :: put_uvarint f (x / 128)
  end.

(* binary.Uvarint: (value, n); n = 0: buffer too small; n < 0: overflow *)
Fixpoint uvarint_aux (buf : list Z) (i : Z) (x s : Z) : Z * Z :=
  match buf with
  | [] => (0, 0)
  | b :: r =>
      if i =? 10 then (0, - (i + 1))
      else if b <? 128 then
        if (i =? 9) && (1 <? b) then (0, - (i + 1))
        else ((x + b * 2 ^ s) mod 2 ^ 64, i + 1)
      else uvarint_aux r (i + 1) (x + (b mod 128) * 2 ^ s) (s + 7)
  end.
Definition uvarint (buf : list Z) : Z * Z := uvarint_aux buf 0 0 0.

(* zig-zag *)
Definition zigzag (x : Z) : Z := if x <? 0 then - 2 * x - 1 else 2 * x.
Definition unzigzag (ux : Z) : Z := if Z.odd ux then - ((ux + 1) / 2) else ux / 2.

Definition put_varint (x : Z) : list Z := put_uvarint 9 (zigzag x).
Definition varint (buf : list Z) : Z * Z := let '(ux, n) := uvarint buf in (unzigzag ux, n).

(* varintConv.toBytes: one length byte, then the varint *)
Definition vi_to_bytes (v : Z) : list Z := let b := put_varint v in Z.of_nat (List.length b) :: b.

Definition err_s (s : String.string) : uerror := mkErr (String.list_byte_of_string "error"%string) (String.list_byte_of_string s).

(* varintConv.read on the remaining bytes: (value, rest) *)
Definition vi_read (buf : list Z) : res (Z * list Z) :=
  match buf with
  | [] => Err (err_s "EOF"%string)
  | n :: r =>
      if 11 <? n then Err (err_s "varint overflow"%string)
      else if n =? 0 then Ok (0, r)
      else if Z.of_nat (List.length r) <? n then Err (err_s "unexpected EOF"%string)
      else
        let '(v, off) := varint (firstn (Z.to_nat n) r) in
        if off <? 1 then Err (err_s "varint"%string)
        else Ok (v, skipn (Z.to_nat n) r)
  end.

(* toVarint(data): (value, offset); data must be non-empty (the Go code panics otherwise) *)
Definition to_varint (data : list Z) : res (Z * Z) :=
  match data with
  | [] => GoPanic PkIndex
  | size :: r =>
      if size =? 0 then Ok (0, 1)
      else if Z.of_nat (List.length data) <? 1 + size then Err (err_s "varint too small"%string)
      else
        let '(v, off) := varint r in
        if off <? 1 then Err (err_s "varint"%string)
        else Ok (v, off + 1)
  end.
