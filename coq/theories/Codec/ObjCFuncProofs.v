(* Round trip of compiled functions (C04): parameters, locals, instructions, variadic flag and
   source map survive encode / decode. *)
From Coq Require Import List ZArith Bool Lia String.
From Ugo Require Import Base.Res Codec.Varint Codec.VarintProofs Codec.Obj Codec.ObjProofs.
Import ListNotations.
Local Open Scope Z_scope.

Definition i63 (z : Z) : Prop := - 2 ^ 63 <= z < 2 ^ 63.

Definition wf_cfunc (f : cfunc) : Prop :=
  0 <= cf_params f < 2 ^ 63 /\ 0 <= cf_locals f < 2 ^ 63 /\
  (forall i, cf_insts f = Some i -> zlen i < 2 ^ 62) /\
  (forall sm, cf_srcmap f = Some sm -> zlen sm < 2 ^ 61 /\ Forall (fun kv => i63 (fst kv) /\ i63 (snd kv)) sm).

Definition enc_pairs (sm : list (Z * Z)) : bytes := flat_map (fun kv => vi_to_bytes (fst kv) ++ vi_to_bytes (snd kv)) sm.

Definition dec_pairs :=
  fix pairs (n : nat) (rd : bytes) (acc : list (Z * Z)) : res (list (Z * Z) * bytes) :=
    match n with
    | O => Ok (rev acc, rd)
    | S n' => do kr <- vi_read rd; do vr <- vi_read (snd kr); pairs n' (snd vr) ((fst kr, fst vr) :: acc)
    end.

Lemma dec_pairs_enc sm : Forall (fun kv => i63 (fst kv) /\ i63 (snd kv)) sm ->
  forall rest acc, dec_pairs (List.length sm) (enc_pairs sm ++ rest) acc = Ok (rev acc ++ sm, rest).
Proof.
  induction 1 as [|[k v] sm [Hk Hv] Hs IH]; intros rest acc.
  - simpl. rewrite app_nil_r. reflexivity.
  - cbn [enc_pairs flat_map List.length dec_pairs fst snd]. rewrite <- !app_assoc.
    rewrite vi_read_to_bytes by exact Hk. cbn [bind fst snd].
    rewrite vi_read_to_bytes by exact Hv. cbn [bind fst snd].
    fold (enc_pairs sm). change (dec_pairs (List.length sm) (enc_pairs sm ++ rest) ((k, v) :: acc) = Ok (rev acc ++ (k, v) :: sm, rest)).
    rewrite IH. cbn [rev]. rewrite <- app_assoc. reflexivity.
Qed.

Lemma enc_pairs_length sm : 2 * zlen sm <= zlen (enc_pairs sm).
Proof.
  induction sm as [|[k v] sm IH]; [unfold zlen; simpl; lia|].
  cbn [enc_pairs flat_map fst snd]. fold (enc_pairs sm). unfold zlen in *. rewrite !app_length.
  assert (H1: (1 <= List.length (vi_to_bytes k))%nat) by (unfold vi_to_bytes; cbv zeta; cbn [List.length]; lia).
  assert (H2: (1 <= List.length (vi_to_bytes v))%nat) by (unfold vi_to_bytes; cbv zeta; cbn [List.length]; lia).
  cbn [List.length]. remember (List.length (vi_to_bytes k)) as a. remember (List.length (vi_to_bytes v)) as b. clear Heqa Heqb. lia.
Qed.

Definition fields := dec_cfunc_fields.

Definition with_params f p := {| cf_params := p; cf_locals := cf_locals f; cf_insts := cf_insts f; cf_variadic := cf_variadic f; cf_srcmap := cf_srcmap f |}.
Definition with_locals f p := {| cf_params := cf_params f; cf_locals := p; cf_insts := cf_insts f; cf_variadic := cf_variadic f; cf_srcmap := cf_srcmap f |}.
Definition with_insts f b := {| cf_params := cf_params f; cf_locals := cf_locals f; cf_insts := Some b; cf_variadic := cf_variadic f; cf_srcmap := cf_srcmap f |}.
Definition with_variadic f := {| cf_params := cf_params f; cf_locals := cf_locals f; cf_insts := cf_insts f; cf_variadic := true; cf_srcmap := cf_srcmap f |}.
Definition with_srcmap f sm := {| cf_params := cf_params f; cf_locals := cf_locals f; cf_insts := cf_insts f; cf_variadic := cf_variadic f; cf_srcmap := Some sm |}.

Section Fields.
Variable dec : bytes -> res (cval * bytes).
Hypothesis dec_bytes : forall s rest, zlen s < 2 ^ 62 -> dec (enc_bytes s ++ rest) = Ok (CBytes s, rest).

Lemma field0 fuel p rest f : i63 p ->
  fields dec (S fuel) (0 :: vi_to_bytes p ++ rest) f = fields dec fuel rest (with_params f p).
Proof. intros Hp. cbn [fields dec_cfunc_fields]. change (0 =? 0) with true. cbv iota. rewrite vi_read_to_bytes by exact Hp. reflexivity. Qed.

Lemma field1 fuel p rest f : i63 p ->
  fields dec (S fuel) (1 :: vi_to_bytes p ++ rest) f = fields dec fuel rest (with_locals f p).
Proof. intros Hp. cbn [fields dec_cfunc_fields]. change (1 =? 0) with false. change (1 =? 1) with true. cbv iota. rewrite vi_read_to_bytes by exact Hp. reflexivity. Qed.

Lemma field2 fuel b rest f : zlen b < 2 ^ 62 ->
  fields dec (S fuel) (2 :: enc_bytes b ++ rest) f = fields dec fuel rest (with_insts f b).
Proof. intros Hb. cbn [fields dec_cfunc_fields]. change (2 =? 0) with false. change (2 =? 1) with false. change (2 =? 2) with true. cbv iota. rewrite dec_bytes by exact Hb. reflexivity. Qed.

Lemma field3 fuel rest f : fields dec (S fuel) (3 :: rest) f = fields dec fuel rest (with_variadic f).
Proof. reflexivity. Qed.

Lemma field5 fuel sm rest f : zlen sm < 2 ^ 61 -> Forall (fun kv => i63 (fst kv) /\ i63 (snd kv)) sm ->
  fields dec (S fuel) (5 :: vi_to_bytes (zlen sm * 2) ++ enc_pairs sm ++ rest) f = fields dec fuel rest (with_srcmap f sm).
Proof.
  intros Hl Hsm. cbn [fields dec_cfunc_fields].
  change (5 =? 0) with false. change (5 =? 1) with false. change (5 =? 2) with false. change (5 =? 3) with false. change (5 =? 5) with true. cbv iota.
  rewrite vi_read_to_bytes by (unfold i63, zlen in *; lia). cbn [bind].
  pose proof (enc_pairs_length sm) as Hpl.
  destruct (Z.ltb_spec (zlen sm * 2) 0); [unfold zlen in *; lia|]. cbn [orb].
  rewrite zlen_app. destruct (Z.ltb_spec (zlen (enc_pairs sm) + zlen rest) (zlen sm * 2)); [unfold zlen in *; lia|].
  replace (Z.to_nat (zlen sm * 2 / 2)) with (List.length sm) by (rewrite Z.div_mul by lia; unfold zlen; rewrite Nat2Z.id; reflexivity).
  change ((fix pairs (n : nat) (rd : bytes) (acc : list (Z * Z)) {struct n} : res (list (Z * Z) * bytes) :=
             match n with
             | 0%nat => Ok (rev acc, rd)
             | S n' => do kr <- vi_read rd; do vr <- vi_read (snd kr); pairs n' (snd vr) ((fst kr, fst vr) :: acc)
             end) (List.length sm) (enc_pairs sm ++ rest) []) with (dec_pairs (List.length sm) (enc_pairs sm ++ rest) []).
  rewrite dec_pairs_enc by exact Hsm. reflexivity.
Qed.

(* number of fields the encoder writes *)
Definition nf (f : cfunc) : nat :=
  ((if (0 <? cf_params f)%Z then 1 else 0) + (if (0 <? cf_locals f)%Z then 1 else 0) + (match cf_insts f with Some _ => 1 | None => 0 end) +
   (if cf_variadic f then 1 else 0) + (match cf_srcmap f with Some _ => 1 | None => 0 end))%nat.

(* all fields in the order the encoder writes them *)
Lemma fields_body f k : wf_cfunc f ->
  fields dec (nf f + 1 + k)%nat (enc_cfunc_body enc_bytes f) empty_cfunc = Ok f.
Proof.
  intros [Hp [Hl [Hi Hs]]]. unfold enc_cfunc_body, nf. destruct f as [p l ins var sm]. cbn [cf_params cf_locals cf_insts cf_variadic cf_srcmap] in *.
  assert (S1: forall fl rest g, 0 < p -> fields dec (S fl) (0 :: vi_to_bytes p ++ rest) g = fields dec fl rest (with_params g p)).
  { intros fl rest g H. apply field0. unfold i63; lia. }
  assert (S2: forall fl rest g, 0 < l -> fields dec (S fl) (1 :: vi_to_bytes l ++ rest) g = fields dec fl rest (with_locals g l)).
  { intros fl rest g H. apply field1. unfold i63; lia. }
  assert (S3: forall fl rest g i, ins = Some i -> fields dec (S fl) (2 :: enc_bytes i ++ rest) g = fields dec fl rest (with_insts g i)).
  { intros fl rest g i E. apply field2. apply Hi. exact E. }
  assert (S4: forall fl rest g, fields dec (S fl) (3 :: rest) g = fields dec fl rest (with_variadic g)) by reflexivity.
  assert (S5: forall fl g s, sm = Some s -> fields dec (S fl) (5 :: vi_to_bytes (zlen s * 2) ++ enc_pairs s) g = fields dec fl [] (with_srcmap g s)).
  { intros fl g s E. destruct (Hs s E) as [H1 H2].
    replace (5 :: vi_to_bytes (zlen s * 2) ++ enc_pairs s) with (5 :: vi_to_bytes (zlen s * 2) ++ enc_pairs s ++ []) by (rewrite app_nil_r; reflexivity).
    apply field5; assumption. }
  assert (Send: forall fl g, fields dec (S fl) [] g = Ok g) by reflexivity.
  destruct (Z.ltb_spec 0 p) as [Hp1|Hp0]; [|assert (p = 0) by lia; subst p];
  (destruct (Z.ltb_spec 0 l) as [Hl1|Hl0]; [|assert (l = 0) by lia; subst l]);
  destruct ins as [i|]; destruct var; destruct sm as [s|];
  cbn [Nat.add app];
  repeat match goal with |- context [flat_map ?f ?x] => change (flat_map f x) with (enc_pairs x) end;
  repeat first [ rewrite S1 by exact Hp1 | rewrite S2 by exact Hl1 | rewrite (S3 _ _ _ _ eq_refl) | rewrite S4 | rewrite (S5 _ _ _ eq_refl) ];
  rewrite ?app_nil_l, ?Send; reflexivity.
Qed.
End Fields.

Lemma nf_le_body f : (nf f <= List.length (enc_cfunc_body enc_bytes f))%nat.
Proof.
  unfold nf, enc_cfunc_body. rewrite !app_length.
  assert (A1: ((if (0 <? cf_params f)%Z then 1 else 0) <= List.length (if (0 <? cf_params f)%Z then 0%Z :: vi_to_bytes (cf_params f) else []))%nat)
    by (destruct (0 <? cf_params f)%Z; cbn [List.length]; lia).
  assert (A2: ((if (0 <? cf_locals f)%Z then 1 else 0) <= List.length (if (0 <? cf_locals f)%Z then 1%Z :: vi_to_bytes (cf_locals f) else []))%nat)
    by (destruct (0 <? cf_locals f)%Z; cbn [List.length]; lia).
  assert (A3: ((match cf_insts f with Some _ => 1 | None => 0 end) <= List.length (match cf_insts f with Some i => 2%Z :: enc_bytes i | None => [] end))%nat)
    by (destruct (cf_insts f); cbn [List.length]; lia).
  assert (A4: ((if cf_variadic f then 1 else 0) <= List.length (if cf_variadic f then [3%Z] else []))%nat)
    by (destruct (cf_variadic f); cbn [List.length]; lia).
  assert (A5: ((match cf_srcmap f with Some _ => 1 | None => 0 end) <=
               List.length (match cf_srcmap f with
                            | Some sm => 5%Z :: vi_to_bytes (zlen sm * 2)%Z ++ flat_map (fun kv => vi_to_bytes (fst kv) ++ vi_to_bytes (snd kv)) sm
                            | None => [] end))%nat)
    by (destruct (cf_srcmap f); cbn [List.length]; lia).
  lia.
Qed.

Lemma decode_cfunc_head f r1 :
  decode_object (S f) (binCompiledFunction :: r1) =
  (do vb <- vi_read_bytes r1;
   let '(value, read, r2) := vb in
   if value <? 0 then Err (e "negative value"%string)
   else if zlen r2 <? value then Err (e "unexpected EOF"%string)
   else do pr <- read_n value r2;
        let '(payload, r3) := pr in
        do body <- dec_sized_payload (binCompiledFunction :: read ++ payload);
        do fn <- dec_cfunc_fields (decode_object f) (S (List.length body)) body empty_cfunc;
        Ok (CCompiled fn, r3)).
Proof. reflexivity. Qed.

(* decode (encode f ++ rest) = (f, rest) for every compiled function whose counts are non-negative,
   whose instructions and source map fit the length prefixes *)
Theorem cfunc_rt f fn rest :
  wf_cfunc fn -> zlen (enc_cfunc_body enc_bytes fn) < 2 ^ 62 ->
  decode_object (S (S f)) (encode (CCompiled fn) ++ rest) = Ok (CCompiled fn, rest).
Proof.
  intros Hwf Hsz. cbn [encode]. unfold enc_cfunc. cbv zeta.
  remember (enc_cfunc_body enc_bytes fn) as body eqn:Eb.
  assert (Hr: - 2 ^ 63 <= zlen body < 2 ^ 63) by (unfold zlen in *; lia).
  cbn [app]. rewrite decode_cfunc_head.
  rewrite <- app_assoc. rewrite vi_read_bytes_to_bytes by exact Hr. cbn [bind].
  destruct (Z.ltb_spec (zlen body) 0); [unfold zlen in *; lia|].
  rewrite zlen_app. destruct (Z.ltb_spec (zlen body + zlen rest) (zlen body)); [unfold zlen in *; lia|].
  rewrite read_n_app. cbn [bind].
  assert (Hd: dec_sized_payload (binCompiledFunction :: vi_to_bytes (zlen body) ++ body) = Ok body).
  { destruct body as [|b0 bs]; [reflexivity|]. apply dec_sized_payload_enc; [discriminate | lia]. }
  rewrite Hd. cbn [bind].
  pose proof (nf_le_body fn) as Hnf. rewrite <- Eb in Hnf.
  replace (S (List.length body)) with (nf fn + 1 + (List.length body - nf fn))%nat by lia.
  rewrite Eb.
  change (dec_cfunc_fields (decode_object (S f))) with (fields (decode_object (S f))).
  rewrite (fields_body (decode_object (S f))); [reflexivity | | exact Hwf].
  intros s rest' Hs. apply bytes_rt. lia.
Qed.
