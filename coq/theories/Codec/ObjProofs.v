(* Proofs about the object codec model: no Go panic for any byte string (C18), scalar and
   string round trips (C04). *)
From Coq Require Import List ZArith Bool Lia String.
From Ugo Require Import Base.Res Codec.Varint Codec.VarintProofs Codec.Obj.
Import ListNotations.
Local Open Scope Z_scope.

Lemma bind_no_panic {A B} (r : res A) (f : A -> res B) :
  is_panic r = false -> (forall a, r = Ok a -> is_panic (f a) = false) -> is_panic (bind r f) = false.
Proof. destruct r; simpl; intros H1 H2; try reflexivity; try discriminate. apply H2. reflexivity. Qed.

(* ---------- varint facts ---------- *)

Lemma uvarint_aux_n buf i x s v n :
  0 <= i -> uvarint_aux buf i x s = (v, n) -> n <= i + zlen buf.
Proof.
  unfold zlen. revert i x s. induction buf as [|b r IH]; intros i x s Hi H; simpl in H.
  - inversion H; subst. simpl. lia.
  - destruct (i =? 10); [inversion H; subst; cbn [List.length]; lia|].
    destruct (b <? 128).
    + destruct ((i =? 9) && (1 <? b)); inversion H; subst; cbn [List.length]; lia.
    + apply IH in H; [|lia]. cbn [List.length]. lia.
Qed.

Lemma varint_n buf v n : varint buf = (v, n) -> n <= zlen buf.
Proof.
  unfold varint, uvarint. destruct (uvarint_aux buf 0 0 0) as [ux m] eqn:E. intros H. inversion H; subst.
  apply uvarint_aux_n in E; lia.
Qed.

Lemma to_varint_no_panic data : data <> [] -> is_panic (to_varint data) = false.
Proof.
  destruct data as [|size r]; [congruence|]. intros _. unfold to_varint.
  destruct (size =? 0); [reflexivity|].
  destruct (_ <? _); [reflexivity|].
  destruct (varint r) as [v off]. destruct (off <? 1); reflexivity.
Qed.

Lemma to_varint_offset data v off : to_varint data = Ok (v, off) -> 1 <= off <= zlen data.
Proof.
  destruct data as [|size r]; [discriminate|]. unfold to_varint.
  destruct (size =? 0).
  - intros H; inversion H; subst. unfold zlen. cbn [List.length]. lia.
  - destruct (_ <? _); [discriminate|].
    destruct (varint r) as [v' off'] eqn:E. destruct (Z.ltb_spec off' 1) as [Hlt|Hge]; [discriminate|].
    intros H0; inversion H0; subst. apply varint_n in E. unfold zlen in *. cbn [List.length]. lia.
Qed.

Lemma vi_read_no_panic buf : is_panic (vi_read buf) = false.
Proof.
  unfold vi_read. destruct buf as [|n r]; [reflexivity|].
  destruct (11 <? n); [reflexivity|]. destruct (n =? 0); [reflexivity|].
  destruct (_ <? n); [reflexivity|].
  destruct (varint _) as [v off]. destruct (off <? 1); reflexivity.
Qed.

Lemma vi_read_bytes_no_panic buf : is_panic (vi_read_bytes buf) = false.
Proof.
  unfold vi_read_bytes. destruct buf as [|n r]; [reflexivity|].
  destruct (10 <? n); [reflexivity|]. destruct (n =? 0); [reflexivity|].
  destruct (_ <? n); [reflexivity|].
  destruct (varint _) as [v off]. destruct (off <? 1); reflexivity.
Qed.

Lemma read_n_no_panic n buf : is_panic (read_n n buf) = false.
Proof. unfold read_n. destruct (_ <? n); reflexivity. Qed.

Lemma dec_small_no_panic data signed : is_panic (dec_small data signed) = false.
Proof.
  unfold dec_small. destruct data as [|t [|size p]]; try reflexivity.
  destruct (size <=? 0); [reflexivity|]. destruct (_ <? _); [reflexivity|].
  destruct signed; [destruct (varint p) as [v n] | destruct (uvarint p) as [v n]];
    destruct (n <? 1); reflexivity.
Qed.

Lemma go_slice_ok data lo hi : 0 <= lo -> lo <= hi -> hi <= zlen data -> is_panic (go_slice data lo hi) = false.
Proof.
  intros H1 H2 H3. unfold go_slice.
  destruct (Z.ltb_spec lo 0); [lia|]. destruct (Z.ltb_spec hi lo); [lia|].
  destruct (Z.ltb_spec (zlen data) hi); [lia|]. reflexivity.
Qed.

Lemma dec_sized_payload_no_panic data : is_panic (dec_sized_payload data) = false.
Proof.
  unfold dec_sized_payload. destruct data as [|t rest]; [reflexivity|].
  destruct rest as [|x xs]; [reflexivity|].
  apply bind_no_panic; [apply to_varint_no_panic; discriminate|].
  intros [size offset] Ho. apply to_varint_offset in Ho.
  destruct (Z.leb_spec size 0); [reflexivity|].
  destruct (Z.ltb_spec (zlen (t :: x :: xs) - 1 - offset) size); [reflexivity|].
  apply go_slice_ok; lia.
Qed.

(* ---------- the recursive decoder ---------- *)

Section Rec.
  Variable dec_obj : bytes -> res (cval * bytes).
  Hypothesis Hdec : forall r, is_panic (dec_obj r) = false.

  Lemma dec_arr_elems_no_panic fuel rd acc : is_panic (dec_arr_elems dec_obj fuel rd acc) = false.
  Proof.
    revert rd acc. induction fuel as [|f IH]; intros rd acc; simpl; [reflexivity|].
    destruct rd as [|b r]; [reflexivity|].
    apply bind_no_panic; [apply Hdec|]. intros [o rest] _. apply IH.
  Qed.

  Lemma dec_map_entries_no_panic fuel rd acc : is_panic (dec_map_entries dec_obj fuel rd acc) = false.
  Proof.
    revert rd acc. induction fuel as [|f IH]; intros rd acc; simpl; [reflexivity|].
    destruct rd as [|b r]; [reflexivity|].
    apply bind_no_panic; [apply vi_read_no_panic|]. intros [klen rd1] _.
    apply bind_no_panic.
    - destruct (0 <? klen); [apply read_n_no_panic | reflexivity].
    - intros [k rd2] _. apply bind_no_panic; [apply Hdec|]. intros [o rest] _. apply IH.
  Qed.

  Lemma pairs_no_panic n rd acc :
    is_panic ((fix pairs (n : nat) (rd : bytes) (acc : list (Z * Z)) : res (list (Z * Z) * bytes) :=
                 match n with
                 | O => Ok (rev acc, rd)
                 | S n' =>
                     do kr <- vi_read rd;
                     do vr <- vi_read (snd kr);
                     pairs n' (snd vr) ((fst kr, fst vr) :: acc)
                 end) n rd acc) = false.
  Proof.
    revert rd acc. induction n as [|n IH]; intros rd acc; [reflexivity|].
    apply bind_no_panic; [apply vi_read_no_panic|]. intros kr _.
    apply bind_no_panic; [apply vi_read_no_panic|]. intros vr _. apply IH.
  Qed.

  Lemma dec_cfunc_fields_no_panic fuel rd f : is_panic (dec_cfunc_fields dec_obj fuel rd f) = false.
  Proof.
    revert rd f. induction fuel as [|fu IH]; intros rd f; simpl; [reflexivity|].
    destruct rd as [|field rd1]; [reflexivity|].
    destruct (field =? 0).
    { apply bind_no_panic; [apply vi_read_no_panic|]. intros vr _. apply IH. }
    destruct (field =? 1).
    { apply bind_no_panic; [apply vi_read_no_panic|]. intros vr _. apply IH. }
    destruct (field =? 2).
    { apply bind_no_panic; [apply Hdec|]. intros [o rest] _. simpl. destruct o; try reflexivity. apply IH. }
    destruct (field =? 3); [apply IH|].
    destruct (field =? 5); [|reflexivity].
    apply bind_no_panic; [apply vi_read_no_panic|]. intros [len rd2] _.
    destruct ((len <? 0) || (zlen rd2 <? len)); [reflexivity|].
    apply bind_no_panic; [apply pairs_no_panic|]. intros smr _. apply IH.
  Qed.
End Rec.

Theorem decode_object_no_panic fuel r : is_panic (decode_object fuel r) = false.
Proof.
  revert r. induction fuel as [|f IH]; intros r; [reflexivity|].
  cbn [decode_object]. destruct r as [|btype r1]; [reflexivity|].
  destruct (btype =? binUndefined); [reflexivity|].
  destruct (btype =? binTrue); [reflexivity|].
  destruct (btype =? binFalse); [reflexivity|].
  destruct ((btype =? binInt) || (btype =? binUint) || (btype =? binFloat) || (btype =? binChar)).
  { destruct r1 as [|size r2]; [reflexivity|].
    apply bind_no_panic; [apply read_n_no_panic|]. intros [payload r3] _.
    destruct (btype =? binInt); [apply bind_no_panic; [apply dec_small_no_panic | reflexivity]|].
    destruct (btype =? binUint); [apply bind_no_panic; [apply dec_small_no_panic | reflexivity]|].
    destruct (btype =? binFloat); [apply bind_no_panic; [apply dec_small_no_panic | reflexivity]|].
    apply bind_no_panic; [apply dec_small_no_panic|]. intros v _.
    destruct ((v <? - 2 ^ 31) || (2 ^ 31 <=? v)); reflexivity. }
  destruct ((btype =? binCompiledFunction) || (btype =? binArray) || (btype =? binBytes) || (btype =? binString)
            || (btype =? binMap) || (btype =? binSyncMap) || (btype =? binFunction) || (btype =? binBuiltinFunction)).
  2: { destruct (btype =? binUnknown); reflexivity. }
  apply bind_no_panic; [apply vi_read_bytes_no_panic|]. intros [[value read] r2] Hvb.
  destruct (value <? 0); [reflexivity|].
  destruct (zlen r2 <? value); [reflexivity|].
  apply bind_no_panic; [apply read_n_no_panic|]. intros [payload r3] _.
  destruct (btype =? binString).
  { apply bind_no_panic; [apply dec_sized_payload_no_panic | reflexivity]. }
  destruct (btype =? binBytes).
  { apply bind_no_panic; [apply dec_sized_payload_no_panic | reflexivity]. }
  destruct (btype =? binArray).
  { apply bind_no_panic; [apply dec_sized_payload_no_panic|]. intros body _.
    destruct body as [|b0 bs]; [reflexivity|].
    apply bind_no_panic; [apply vi_read_no_panic|]. intros [len rd] _.
    destruct ((len <? 0) || (zlen rd <? len)); [reflexivity|].
    apply bind_no_panic; [apply dec_arr_elems_no_panic; exact IH | reflexivity]. }
  destruct (btype =? binMap).
  { apply bind_no_panic; [apply dec_sized_payload_no_panic|]. intros body _.
    apply bind_no_panic; [apply dec_map_entries_no_panic; exact IH | reflexivity]. }
  destruct (btype =? binSyncMap).
  { destruct (read ++ payload) as [|z0 zs]; [|destruct (Z.eq_dec z0 0) as [->|Hz]].
    - apply bind_no_panic; [apply dec_sized_payload_no_panic|]. intros body _.
      apply bind_no_panic; [apply dec_map_entries_no_panic; exact IH | reflexivity].
    - reflexivity.
    - destruct z0; try reflexivity; try congruence;
        (apply bind_no_panic; [apply dec_sized_payload_no_panic|]; intros body _;
         apply bind_no_panic; [apply dec_map_entries_no_panic; exact IH | reflexivity]). }
  destruct (btype =? binCompiledFunction).
  { apply bind_no_panic; [apply dec_sized_payload_no_panic|]. intros body _.
    apply bind_no_panic; [apply dec_cfunc_fields_no_panic; exact IH | reflexivity]. }
  (* Function / BuiltinFunction *)
  assert (Hne: read ++ payload <> []).
  { unfold vi_read_bytes in Hvb. destruct r1 as [|n r]; [discriminate|].
    destruct (10 <? n); [discriminate|]. destruct (n =? 0); [inversion Hvb; discriminate|].
    destruct (_ <? n); [discriminate|]. destruct (varint _) as [v off]. destruct (off <? 1); [discriminate|].
    inversion Hvb; discriminate. }
  apply bind_no_panic; [apply to_varint_no_panic; exact Hne|]. intros [size offset] Ho.
  apply to_varint_offset in Ho.
  destruct (size <=? 0); [reflexivity|].
  apply bind_no_panic.
  - apply go_slice_ok; unfold zlen in *; cbn [List.length]; lia.
  - intros inner _. destruct inner as [|tag [|x xs]]; try reflexivity.
    destruct (tag =? binString); [|reflexivity].
    apply bind_no_panic; [apply dec_sized_payload_no_panic|]. intros s _.
    destruct (btype =? binFunction); reflexivity.
Qed.

Theorem decode_no_panic r : is_panic (decode r) = false.
Proof. apply decode_object_no_panic. Qed.

(* ---------- round trips of scalars and strings ---------- *)

Lemma zlen_app {A} (a b : list A) : zlen (a ++ b) = zlen a + zlen b.
Proof. unfold zlen. rewrite app_length. lia. Qed.

Lemma read_n_app a b : read_n (zlen a) (a ++ b) = Ok (a, b).
Proof.
  unfold read_n. rewrite zlen_app. destruct (Z.ltb_spec (zlen a + zlen b) (zlen a)); [unfold zlen in *; lia|].
  unfold zlen. rewrite Nat2Z.id, firstn_app_exact, skipn_app_exact. reflexivity.
Qed.

Lemma read_n_0 b : read_n 0 b = Ok ([], b).
Proof. unfold read_n. destruct (Z.ltb_spec (zlen b) 0); [unfold zlen in *; lia|]. reflexivity. Qed.

Lemma put_varint_len z : 1 <= zlen (put_varint z) <= 10.
Proof. unfold zlen, put_varint. pose proof (put_uvarint_length 9 (zigzag z)). lia. Qed.
Lemma put_uvarint_len z : 1 <= zlen (put_uvarint 9 z) <= 10.
Proof. unfold zlen. pose proof (put_uvarint_length 9 z). lia. Qed.

Lemma dec_small_signed tag z :
  - 2 ^ 63 <= z < 2 ^ 63 ->
  dec_small (tag :: zlen (put_varint z) :: put_varint z) true = Ok z.
Proof.
  intros Hz. unfold dec_small. pose proof (put_varint_len z) as Hl.
  destruct (Z.leb_spec (zlen (put_varint z)) 0); [lia|].
  destruct (Z.ltb_spec (zlen (tag :: zlen (put_varint z) :: put_varint z)) (2 + zlen (put_varint z))) as [H1|H1].
  { unfold zlen in *. cbn [List.length] in H1. lia. }
  pose proof (varint_put z [] Hz) as Hv. rewrite app_nil_r in Hv. rewrite Hv.
  destruct (Z.ltb_spec (Z.of_nat (List.length (put_varint z))) 1); [unfold zlen in *; lia|]. reflexivity.
Qed.

Lemma dec_small_unsigned tag z :
  0 <= z < 2 ^ 64 ->
  dec_small (tag :: zlen (put_uvarint 9 z) :: put_uvarint 9 z) false = Ok z.
Proof.
  intros Hz. unfold dec_small. pose proof (put_uvarint_len z) as Hl.
  destruct (Z.leb_spec (zlen (put_uvarint 9 z)) 0); [lia|].
  destruct (Z.ltb_spec (zlen (tag :: zlen (put_uvarint 9 z) :: put_uvarint 9 z)) (2 + zlen (put_uvarint 9 z))) as [H1|H1].
  { unfold zlen in *. cbn [List.length] in H1. lia. }
  pose proof (uvarint_put z [] Hz) as Hv. rewrite app_nil_r in Hv. rewrite Hv.
  destruct (Z.ltb_spec (Z.of_nat (List.length (put_uvarint 9 z))) 1); [unfold zlen in *; lia|]. reflexivity.
Qed.

Theorem int_rt f z rest :
  - 2 ^ 63 <= z < 2 ^ 63 -> decode_object (S f) (enc_int z ++ rest) = Ok (CInt z, rest).
Proof.
  intros Hz. unfold enc_int, enc_small. destruct (Z.eqb_spec z 0) as [->|Hnz].
  - cbn [app decode_object]. cbv beta iota. rewrite read_n_0. reflexivity.
  - cbn [app decode_object]. change (binInt =? binUndefined) with false. cbn iota.
    change (binInt =? binTrue) with false. change (binInt =? binFalse) with false. cbn iota.
    change ((binInt =? binInt) || (binInt =? binUint) || (binInt =? binFloat) || (binInt =? binChar)) with true. cbn iota.
    rewrite read_n_app. cbn [bind]. change (binInt =? binInt) with true. cbn iota.
    rewrite dec_small_signed by exact Hz. reflexivity.
Qed.

Theorem uint_rt f z rest :
  0 <= z < 2 ^ 64 -> decode_object (S f) (enc_uint z ++ rest) = Ok (CUint z, rest).
Proof.
  intros Hz. unfold enc_uint, enc_small. destruct (Z.eqb_spec z 0) as [->|Hnz].
  - cbn [app decode_object]. cbv beta iota. rewrite read_n_0. reflexivity.
  - cbn [app decode_object]. change (binUint =? binUndefined) with false. cbn iota.
    change (binUint =? binTrue) with false. change (binUint =? binFalse) with false. cbn iota.
    change ((binUint =? binInt) || (binUint =? binUint) || (binUint =? binFloat) || (binUint =? binChar)) with true. cbn iota.
    rewrite read_n_app. cbn [bind]. change (binUint =? binInt) with false. change (binUint =? binUint) with true. cbn iota.
    rewrite dec_small_unsigned by exact Hz. reflexivity.
Qed.

(* floats travel as their 64 bits: every bit pattern, -0 and NaN payloads included *)
Theorem float_rt f bits rest :
  0 <= bits < 2 ^ 64 -> decode_object (S f) (enc_float bits ++ rest) = Ok (CFloat bits, rest).
Proof.
  intros Hz. unfold enc_float, enc_small. destruct (Z.eqb_spec bits 0) as [->|Hnz].
  - cbn [app decode_object]. cbv beta iota. rewrite read_n_0. reflexivity.
  - cbn [app decode_object]. change (binFloat =? binUndefined) with false. cbn iota.
    change (binFloat =? binTrue) with false. change (binFloat =? binFalse) with false. cbn iota.
    change ((binFloat =? binInt) || (binFloat =? binUint) || (binFloat =? binFloat) || (binFloat =? binChar)) with true. cbn iota.
    rewrite read_n_app. cbn [bind]. change (binFloat =? binInt) with false. change (binFloat =? binUint) with false.
    change (binFloat =? binFloat) with true. cbn iota.
    rewrite dec_small_unsigned by exact Hz. reflexivity.
Qed.

Theorem char_rt f z rest :
  - 2 ^ 31 <= z < 2 ^ 31 -> decode_object (S f) (enc_char z ++ rest) = Ok (CChar z, rest).
Proof.
  intros Hz. unfold enc_char, enc_small. destruct (Z.eqb_spec z 0) as [->|Hnz].
  - cbn [app decode_object]. cbv beta iota. rewrite read_n_0. reflexivity.
  - cbn [app decode_object]. change (binChar =? binUndefined) with false. cbn iota.
    change (binChar =? binTrue) with false. change (binChar =? binFalse) with false. cbn iota.
    change ((binChar =? binInt) || (binChar =? binUint) || (binChar =? binFloat) || (binChar =? binChar)) with true. cbn iota.
    rewrite read_n_app. cbn [bind]. change (binChar =? binInt) with false. change (binChar =? binUint) with false.
    change (binChar =? binFloat) with false. cbn iota.
    assert (Hz': - 2 ^ 63 <= z < 2 ^ 63) by lia.
    rewrite dec_small_signed by exact Hz'. cbn [bind].
    destruct (Z.ltb_spec z (- 2 ^ 31)); [lia|]. destruct (Z.leb_spec (2 ^ 31) z); [lia|]. reflexivity.
Qed.

Theorem bool_undef_rt f rest :
  decode_object (S f) (encode CUndef ++ rest) = Ok (CUndef, rest) /\
  decode_object (S f) (encode (CBool true) ++ rest) = Ok (CBool true, rest) /\
  decode_object (S f) (encode (CBool false) ++ rest) = Ok (CBool false, rest).
Proof. repeat split; reflexivity. Qed.

Lemma vi_read_bytes_to_bytes v rest :
  - 2 ^ 63 <= v < 2 ^ 63 ->
  vi_read_bytes (vi_to_bytes v ++ rest) = Ok (v, vi_to_bytes v, rest).
Proof.
  intros Hv. unfold vi_to_bytes, vi_read_bytes. cbn [app].
  pose proof (put_varint_len v) as Hl. unfold zlen in Hl.
  pose proof (varint_put v [] Hv) as Hvp. rewrite app_nil_r in Hvp.
  remember (put_varint v) as b eqn:Eb.
  destruct (Z.ltb_spec 10 (Z.of_nat (List.length b))); [lia|].
  destruct (Z.eqb_spec (Z.of_nat (List.length b)) 0); [lia|].
  unfold zlen. rewrite app_length.
  destruct (Z.ltb_spec (Z.of_nat (List.length b + List.length rest)) (Z.of_nat (List.length b))); [lia|].
  rewrite Nat2Z.id, firstn_app_exact, skipn_app_exact, Hvp.
  destruct (Z.ltb_spec (Z.of_nat (List.length b)) 1); [lia|]. reflexivity.
Qed.

Lemma go_slice_mid a s : go_slice (a ++ s) (zlen a) (zlen a + zlen s) = Ok s.
Proof.
  unfold go_slice. rewrite zlen_app.
  destruct (Z.ltb_spec (zlen a) 0); [unfold zlen in *; lia|].
  destruct (Z.ltb_spec (zlen a + zlen s) (zlen a)); [unfold zlen in *; lia|].
  destruct (Z.ltb_spec (zlen a + zlen s) (zlen a + zlen s)); [lia|]. cbn [orb].
  replace (zlen a + zlen s - zlen a) with (zlen s) by lia.
  unfold zlen. rewrite !Nat2Z.id, skipn_app_exact, firstn_all. reflexivity.
Qed.

Lemma dec_sized_payload_enc tag s :
  s <> [] -> zlen s < 2 ^ 63 ->
  dec_sized_payload (tag :: vi_to_bytes (zlen s) ++ s) = Ok s.
Proof.
  intros Hne Hlen. unfold dec_sized_payload.
  assert (Hpos: 0 < zlen s) by (destruct s; [congruence | unfold zlen; cbn [List.length]; lia]).
  assert (Hr: - 2 ^ 63 <= zlen s < 2 ^ 63) by lia.
  destruct (vi_to_bytes (zlen s) ++ s) as [|x xs] eqn:E.
  { unfold vi_to_bytes in E. discriminate. }
  rewrite <- E. rewrite to_varint_to_bytes by exact Hr. cbn [bind].
  destruct (Z.leb_spec (zlen s) 0); [lia|].
  set (hd := vi_to_bytes (zlen s)).
  destruct (Z.ltb_spec (zlen (tag :: hd ++ s) - 1 - Z.of_nat (List.length hd)) (zlen s)) as [H1|H1].
  { unfold zlen in *. cbn [List.length] in H1. rewrite app_length in H1. lia. }
  change (tag :: hd ++ s) with ((tag :: hd) ++ s).
  replace (1 + Z.of_nat (List.length hd)) with (zlen (tag :: hd)) by (unfold zlen; cbn [List.length]; lia).
  apply go_slice_mid.
Qed.

Lemma decode_string_head f r1 :
  decode_object (S f) (binString :: r1) =
  (do vb <- vi_read_bytes r1;
   let '(value, read, r2) := vb in
   if value <? 0 then Err (e "negative value")
   else if zlen r2 <? value then Err (e "unexpected EOF")
   else do pr <- read_n value r2;
        let '(payload, r3) := pr in
        do s <- dec_sized_payload (binString :: read ++ payload); Ok (CStr s, r3)).
Proof. reflexivity. Qed.

Lemma decode_bytes_head f r1 :
  decode_object (S f) (binBytes :: r1) =
  (do vb <- vi_read_bytes r1;
   let '(value, read, r2) := vb in
   if value <? 0 then Err (e "negative value")
   else if zlen r2 <? value then Err (e "unexpected EOF")
   else do pr <- read_n value r2;
        let '(payload, r3) := pr in
        do s <- dec_sized_payload (binBytes :: read ++ payload); Ok (CBytes s, r3)).
Proof. reflexivity. Qed.

Ltac sized_rt_tac head :=
  intros Hlen; unfold enc_string, enc_bytes, enc_sized;
  match goal with |- decode_object _ (match ?s with [] => _ | _ => _ end ++ ?rest) = _ =>
    destruct s as [|x xs];
    [ cbn [app]; rewrite head; cbn [vi_read_bytes]; cbv beta iota;
      change (10 <? 0) with false; change (0 =? 0) with true; cbv iota; cbn [bind];
      change (0 <? 0) with false; cbv iota;
      destruct (Z.ltb_spec (zlen rest) 0); [unfold zlen in *; lia|];
      rewrite read_n_0; reflexivity
    | set (s' := x :: xs) in *;
      assert (Hr: - 2 ^ 63 <= zlen s' < 2 ^ 63) by (unfold zlen in *; lia);
      assert (Hne: s' <> []) by discriminate;
      cbn [app]; rewrite head;
      rewrite <- app_assoc; rewrite vi_read_bytes_to_bytes by exact Hr; cbn [bind];
      destruct (Z.ltb_spec (zlen s') 0); [unfold zlen in *; lia|];
      rewrite zlen_app; destruct (Z.ltb_spec (zlen s' + zlen rest) (zlen s')); [unfold zlen in *; lia|];
      rewrite read_n_app; cbn [bind];
      rewrite dec_sized_payload_enc by assumption; reflexivity ]
  end.

Theorem string_rt f s rest :
  zlen s < 2 ^ 63 -> decode_object (S f) (enc_string s ++ rest) = Ok (CStr s, rest).
Proof. sized_rt_tac decode_string_head. Qed.

Theorem bytes_rt f s rest :
  zlen s < 2 ^ 63 -> decode_object (S f) (enc_bytes s ++ rest) = Ok (CBytes s, rest).
Proof. sized_rt_tac decode_bytes_head. Qed.
