(* Model of the tagged object codec of encoder/encoder.go: MarshalBinary / UnmarshalBinary of
   every object type and DecodeObject.  Bytes are Z in [0,256).  Definitions only.
   Every Go operation that can panic (slice expression, make, type assertion, map write) is
   represented: the model returns GoPanic exactly where the Go code would. *)
From Coq Require Import List ZArith Bool Lia String.
From Ugo Require Import Base.Res Codec.Varint.
Import ListNotations.
Local Open Scope Z_scope.

Definition bytes := list Z.

Record cfunc := {
  cf_params : Z; cf_locals : Z;
  cf_insts : option bytes;                 (* nil slice = None *)
  cf_variadic : bool;
  cf_srcmap : option (list (Z * Z))        (* nil map = None *)
}.

Inductive cval :=
| CUndef | CBool (b : bool)
| CInt (z : Z) | CUint (z : Z) | CChar (z : Z)
| CFloat (bits : Z)                        (* math.Float64bits *)
| CStr (s : bytes) | CBytes (s : bytes)
| CArr (l : list cval)
| CMap (m : list (bytes * cval))
| CSyncMap (m : option (list (bytes * cval)))   (* Value == nil : None *)
| CFunc (name : bytes)                     (* *Function: only the name is encoded *)
| CBuiltin (name : bytes)
| CCompiled (f : cfunc).

Definition binUndefined := 0. Definition binTrue := 1. Definition binFalse := 2.
Definition binInt := 3. Definition binUint := 4. Definition binChar := 5. Definition binFloat := 6.
Definition binString := 7. Definition binBytes := 8. Definition binArray := 9. Definition binMap := 10.
Definition binSyncMap := 11. Definition binCompiledFunction := 12. Definition binFunction := 13.
Definition binBuiltinFunction := 14. Definition binUnknown := 255.

Definition zlen {A} (l : list A) : Z := Z.of_nat (List.length l).

(* ------------------------------------------------------------------ encoding *)

Definition enc_small (tag : Z) (payload : bytes) (iszero : bool) : bytes :=
  if iszero then [tag; 0] else tag :: zlen payload :: payload.

Definition enc_int (z : Z) : bytes := enc_small binInt (put_varint z) (z =? 0).
Definition enc_uint (z : Z) : bytes := enc_small binUint (put_uvarint 9 z) (z =? 0).
Definition enc_char (z : Z) : bytes := enc_small binChar (put_varint z) (z =? 0).
Definition enc_float (bits : Z) : bytes := enc_small binFloat (put_uvarint 9 bits) (bits =? 0).

Definition enc_sized (tag : Z) (payload : bytes) : bytes :=
  match payload with
  | [] => [tag; 0]
  | _ => tag :: vi_to_bytes (zlen payload) ++ payload
  end.

Definition enc_string (s : bytes) : bytes := enc_sized binString s.
Definition enc_bytes (s : bytes) : bytes := enc_sized binBytes s.

Definition enc_cfunc_body (enc_b : bytes -> bytes) (f : cfunc) : bytes :=
  (if 0 <? cf_params f then 0 :: vi_to_bytes (cf_params f) else []) ++
  (if 0 <? cf_locals f then 1 :: vi_to_bytes (cf_locals f) else []) ++
  (match cf_insts f with Some i => 2 :: enc_b i | None => [] end) ++
  (if cf_variadic f then [3] else []) ++
  (match cf_srcmap f with
   | Some sm => 5 :: vi_to_bytes (zlen sm * 2) ++
                flat_map (fun kv => vi_to_bytes (fst kv) ++ vi_to_bytes (snd kv)) sm
   | None => []
   end).

(* CompiledFunction: the size is always written, even when it is 0 *)
Definition enc_cfunc (f : cfunc) : bytes :=
  let body := enc_cfunc_body enc_bytes f in
  binCompiledFunction :: vi_to_bytes (zlen body) ++ body.

Definition enc_named (tag : Z) (name : bytes) : bytes :=
  let s := enc_string name in tag :: vi_to_bytes (zlen s) ++ s.

Fixpoint encode (v : cval) : bytes :=
  let enc_map_body := fix go (m : list (bytes * cval)) : bytes :=
    match m with
    | [] => []
    | (k, x) :: r => vi_to_bytes (zlen k) ++ k ++ encode x ++ go r
    end in
  match v with
  | CUndef => [binUndefined]
  | CBool true => [binTrue]
  | CBool false => [binFalse]
  | CInt z => enc_int z
  | CUint z => enc_uint z
  | CChar z => enc_char z
  | CFloat b => enc_float b
  | CStr s => enc_string s
  | CBytes s => enc_bytes s
  | CArr l =>
      match l with
      | [] => [binArray; 0]
      | _ =>
          let tmp := vi_to_bytes (zlen l) ++
                     (fix go (l : list cval) : bytes := match l with [] => [] | x :: r => encode x ++ go r end) l in
          binArray :: vi_to_bytes (zlen tmp) ++ tmp
      end
  | CMap m => let tmp := enc_map_body m in binMap :: vi_to_bytes (zlen tmp) ++ tmp
  | CSyncMap None => [binSyncMap; 0]
  | CSyncMap (Some m) => let tmp := enc_map_body m in binSyncMap :: vi_to_bytes (zlen tmp) ++ tmp
  | CFunc n => enc_named binFunction n
  | CBuiltin n => enc_named binBuiltinFunction n
  | CCompiled f => enc_cfunc f
  end.

(* ------------------------------------------------------------------ decoding *)

Definition e (s : string) : uerror := mkErr (String.list_byte_of_string "error") (String.list_byte_of_string s).

(* data[lo:hi] as a Go slice expression: panics unless 0 <= lo <= hi <= len *)
Definition go_slice (data : bytes) (lo hi : Z) : res bytes :=
  if (lo <? 0) || (hi <? lo) || (zlen data <? hi) then GoPanic PkIndex
  else Ok (firstn (Z.to_nat (hi - lo)) (skipn (Z.to_nat lo) data)).

(* Int/Uint/Char/Float.UnmarshalBinary on buf = tag :: size :: payload (already checked tag) *)
Definition dec_small (data : bytes) (signed : bool) : res Z :=
  match data with
  | _ :: size :: payload =>
      if size <=? 0 then Ok 0
      else if zlen data <? 2 + size then Err (e "invalid data size")
      else
        let '(v, n) := if signed then varint payload else uvarint payload in
        if n <? 1 then Err (e "bad varint") else Ok v
  | _ => Err (e "invalid data")
  end.

(* String/Bytes.UnmarshalBinary: data = tag :: varint size :: payload *)
Definition dec_sized_payload (data : bytes) : res bytes :=
  match data with
  | _ :: rest =>
      match rest with
      | [] => Err (e "invalid data")
      | _ =>
          do so <- to_varint rest;
          let '(size, offset) := so in
          if size <=? 0 then Ok []
          else if zlen data - 1 - offset <? size then Err (e "invalid data size")
          else go_slice data (1 + offset) (1 + offset + size)
      end
  | [] => Err (e "invalid data")
  end.

(* read exactly n bytes from a reader (io.ReadFull / io.CopyN) *)
Definition read_n (n : Z) (buf : bytes) : res (bytes * bytes) :=
  if zlen buf <? n then Err (e "unexpected EOF")
  else Ok (firstn (Z.to_nat n) buf, skipn (Z.to_nat n) buf).

(* varintConv.readBytes: (value, the bytes read incl. the length byte, rest) *)
Definition vi_read_bytes (buf : bytes) : res (Z * bytes * bytes) :=
  match buf with
  | [] => Err (e "EOF")
  | n :: r =>
      if 10 <? n then Err (e "varint overflow")
      else if n =? 0 then Ok (0, [n], r)
      else if zlen r <? n then Err (e "unexpected EOF")
      else
        let vb := firstn (Z.to_nat n) r in
        let '(v, off) := varint vb in
        if off <? 1 then Err (e "varint") else Ok (v, n :: vb, skipn (Z.to_nat n) r)
  end.

Definition dec_cfunc_fields (dec_obj : bytes -> res (cval * bytes)) :=
  fix go (fuel : nat) (rd : bytes) (f : cfunc) : res cfunc :=
    match fuel with
    | O => OutOfFuel
    | S fuel' =>
        match rd with
        | [] => Ok f
        | field :: rd1 =>
            if field =? 0 then
              do vr <- vi_read rd1;
              go fuel' (snd vr) {| cf_params := fst vr; cf_locals := cf_locals f; cf_insts := cf_insts f;
                                   cf_variadic := cf_variadic f; cf_srcmap := cf_srcmap f |}
            else if field =? 1 then
              do vr <- vi_read rd1;
              go fuel' (snd vr) {| cf_params := cf_params f; cf_locals := fst vr; cf_insts := cf_insts f;
                                   cf_variadic := cf_variadic f; cf_srcmap := cf_srcmap f |}
            else if field =? 2 then
              do orr <- dec_obj rd1;
              match fst orr with
              | CBytes b =>
                  go fuel' (snd orr) {| cf_params := cf_params f; cf_locals := cf_locals f; cf_insts := Some b;
                                        cf_variadic := cf_variadic f; cf_srcmap := cf_srcmap f |}
              | _ => Err (e "invalid instructions")
              end
            else if field =? 3 then
              go fuel' rd1 {| cf_params := cf_params f; cf_locals := cf_locals f; cf_insts := cf_insts f;
                              cf_variadic := true; cf_srcmap := cf_srcmap f |}
            else if field =? 5 then
              do lr <- vi_read rd1;
              let '(len, rd2) := lr in
              if (len <? 0) || (zlen rd2 <? len) then Err (e "invalid source map size")
              else
                do smr <- (fix pairs (n : nat) (rd : bytes) (acc : list (Z * Z)) : res (list (Z * Z) * bytes) :=
                             match n with
                             | O => Ok (rev acc, rd)
                             | S n' =>
                                 do kr <- vi_read rd;
                                 do vr <- vi_read (snd kr);
                                 pairs n' (snd vr) ((fst kr, fst vr) :: acc)
                             end) (Z.to_nat (len / 2)) rd2 [];
                go fuel' (snd smr) {| cf_params := cf_params f; cf_locals := cf_locals f; cf_insts := cf_insts f;
                                      cf_variadic := cf_variadic f; cf_srcmap := Some (fst smr) |}
            else Err (e "unknown field")
        end
    end.

Definition empty_cfunc : cfunc :=
  {| cf_params := 0; cf_locals := 0; cf_insts := None; cf_variadic := false; cf_srcmap := None |}.

(* map payload: entries appended in order (a Go map: later keys overwrite) *)
Definition dec_map_entries (dec_obj : bytes -> res (cval * bytes)) :=
  fix go (fuel : nat) (rd : bytes) (acc : list (bytes * cval)) : res (list (bytes * cval)) :=
    match fuel with
    | O => OutOfFuel
    | S fuel' =>
        match rd with
        | [] => Ok (rev acc)
        | _ =>
            do vr <- vi_read rd;
            let '(klen, rd1) := vr in
            do kr <- (if 0 <? klen then read_n klen rd1 else Ok ([], rd1));
            let '(k, rd2) := kr in
            do orr <- dec_obj rd2;
            go fuel' (snd orr) ((k, fst orr) :: acc)
        end
    end.

Definition dec_arr_elems (dec_obj : bytes -> res (cval * bytes)) :=
  fix go (fuel : nat) (rd : bytes) (acc : list cval) : res (list cval) :=
    match fuel with
    | O => OutOfFuel
    | S fuel' =>
        match rd with
        | [] => Ok (rev acc)
        | _ => do orr <- dec_obj rd; go fuel' (snd orr) (fst orr :: acc)
        end
    end.

(* DecodeObject: (object, remaining bytes) *)
Fixpoint decode_object (fuel : nat) (r : bytes) : res (cval * bytes) :=
  match fuel with
  | O => OutOfFuel
  | S fuel' =>
      match r with
      | [] => Err (e "EOF")
      | btype :: r1 =>
          if btype =? binUndefined then Ok (CUndef, r1)
          else if btype =? binTrue then Ok (CBool true, r1)
          else if btype =? binFalse then Ok (CBool false, r1)
          else if (btype =? binInt) || (btype =? binUint) || (btype =? binFloat) || (btype =? binChar) then
            match r1 with
            | [] => Err (e "EOF")
            | size :: r2 =>
                do pr <- read_n size r2;
                let '(payload, r3) := pr in
                let buf := btype :: size :: payload in
                if btype =? binInt then do v <- dec_small buf true; Ok (CInt v, r3)
                else if btype =? binUint then do v <- dec_small buf false; Ok (CUint v, r3)
                else if btype =? binFloat then do v <- dec_small buf false; Ok (CFloat v, r3)
                else
                  do v <- dec_small buf true;
                  if (v <? - 2 ^ 31) || (2 ^ 31 <=? v) then Err (e "char larger than 32 bits") else Ok (CChar v, r3)
            end
          else if (btype =? binCompiledFunction) || (btype =? binArray) || (btype =? binBytes) || (btype =? binString)
                  || (btype =? binMap) || (btype =? binSyncMap) || (btype =? binFunction) || (btype =? binBuiltinFunction) then
            do vb <- vi_read_bytes r1;
            let '(value, read, r2) := vb in
            if value <? 0 then Err (e "negative value")
            else if zlen r2 <? value then Err (e "unexpected EOF")
            else
              do pr <- read_n value r2;
              let '(payload, r3) := pr in
              let buf := btype :: read ++ payload in
              if btype =? binString then do s <- dec_sized_payload buf; Ok (CStr s, r3)
              else if btype =? binBytes then do s <- dec_sized_payload buf; Ok (CBytes s, r3)
              else if btype =? binArray then
                do body <- dec_sized_payload buf;
                match body with
                | [] => Ok (CArr [], r3)
                | _ =>
                    do lr <- vi_read body;
                    let '(len, rd) := lr in
                    if (len <? 0) || (zlen rd <? len) then Err (e "invalid array length")
                    else do l <- dec_arr_elems (decode_object fuel') (S (List.length rd)) rd []; Ok (CArr l, r3)
                end
              else if btype =? binMap then
                do body <- dec_sized_payload buf;
                do m <- dec_map_entries (decode_object fuel') (S (List.length body)) body []; Ok (CMap m, r3)
              else if btype =? binSyncMap then
                match read ++ payload with
                | 0 :: _ => Ok (CSyncMap None, r3)
                | _ =>
                    do body <- dec_sized_payload buf;
                    do m <- dec_map_entries (decode_object fuel') (S (List.length body)) body []; Ok (CSyncMap (Some m), r3)
                end
              else if btype =? binCompiledFunction then
                do body <- dec_sized_payload buf;
                do f <- dec_cfunc_fields (decode_object fuel') (S (List.length body)) body empty_cfunc;
                Ok (CCompiled f, r3)
              else
                (* Function / BuiltinFunction: size, then an encoded String *)
                do so <- to_varint (read ++ payload);
                let '(size, offset) := so in
                if size <=? 0 then Err (e "invalid function data size")
                else
                  do inner <- go_slice buf (1 + offset) (zlen buf);
                  match inner with
                  | tag :: _ :: _ =>
                      if tag =? binString then
                        do s <- dec_sized_payload inner;
                        if btype =? binFunction then Ok (CFunc s, r3) else Ok (CBuiltin s, r3)
                      else Err (e "invalid string data")
                  | _ => Err (e "invalid string data")
                  end
          else if btype =? binUnknown then Err (e "gob")
          else Err (e "unknown encoding type")
      end
  end.

Definition decode (r : bytes) : res (cval * bytes) := decode_object (S (List.length r)) r.
