From Coq Require Import List ZArith Bool Lia.
From Ugo Require Import Base.Res Codec.Varint.
Import ListNotations.
Local Open Scope Z_scope.

Lemma put_uvarint_length fuel x : (1 <= length (put_uvarint fuel x) <= S fuel)%nat.
Proof.
  revert x. induction fuel as [|f IH]; intros x; simpl; [lia|].
  destruct (x <? 128); simpl; [lia|]. specialize (IH (x / 128)). lia.
Qed.

Lemma put_uvarint_bytes fuel x : 0 <= x -> Forall (fun b => 0 <= b < 256) (put_uvarint fuel x).
Proof.
  revert x. induction fuel as [|f IH]; intros x Hx; simpl.
  - constructor; [|constructor]. pose proof (Z.mod_pos_bound x 128). lia.
  - destruct (Z.ltb_spec x 128).
    + constructor; [lia | constructor].
    + constructor; [pose proof (Z.mod_pos_bound x 128); lia|]. apply IH. apply Z.div_pos; lia.
Qed.

Lemma last_byte x rest i acc :
  0 <= x < 128 -> 0 <= i <= 9 -> 0 <= acc -> acc + x * 2 ^ (7 * i) < 2 ^ 64 ->
  uvarint_aux (x :: rest) i acc (7 * i) = (acc + x * 2 ^ (7 * i), i + 1).
Proof.
  intros Hx Hi Hacc Hlt. cbn [uvarint_aux].
  destruct (Z.eqb_spec i 10) as [E10|E10]; [lia|].
  destruct (Z.ltb_spec x 128) as [Hx'|Hx']; [|lia].
  destruct (Z.eqb_spec i 9) as [E|E].
  - subst i. change (7 * 9) with 63 in *.
    assert (Hx1: x <= 1) by (change (2 ^ 64) with (2 * 2 ^ 63) in Hlt; nia).
    destruct (Z.ltb_spec 1 x) as [H1|H1]; [lia|]. cbn [andb].
    rewrite Z.mod_small by lia. reflexivity.
  - cbn [andb]. rewrite Z.mod_small by lia. reflexivity.
Qed.

Lemma uvarint_aux_put fuel x rest i acc :
  0 <= x < 128 ^ Z.of_nat (S fuel) -> 0 <= i -> i + Z.of_nat fuel <= 9 -> 0 <= acc ->
  acc + x * 2 ^ (7 * i) < 2 ^ 64 ->
  uvarint_aux (put_uvarint fuel x ++ rest) i acc (7 * i) =
  (acc + x * 2 ^ (7 * i), i + Z.of_nat (length (put_uvarint fuel x))).
Proof.
  revert x i acc. induction fuel as [|f IH]; intros x i acc Hx Hi Hf Hacc Hlt.
  - change (128 ^ Z.of_nat 1) with 128 in Hx. simpl put_uvarint.
    rewrite Z.mod_small by lia. simpl app. simpl length.
    apply last_byte; lia.
  - simpl put_uvarint. destruct (Z.ltb_spec x 128) as [Hs|Hs].
    + simpl app. simpl length. apply last_byte; lia.
    + cbn [app uvarint_aux].
      destruct (Z.eqb_spec i 10); [lia|].
      pose proof (Z.mod_pos_bound x 128 ltac:(lia)) as Hm.
      destruct (Z.ltb_spec (x mod 128 + 128) 128); [lia|].
      replace ((x mod 128 + 128) mod 128) with (x mod 128)
        by (rewrite <- Z.add_mod_idemp_r by lia; rewrite Z.mod_same by lia; rewrite Z.add_0_r; rewrite Z.mod_mod by lia; reflexivity).
      replace (7 * i + 7) with (7 * (i + 1)) by lia.
      assert (Hpow: 2 ^ (7 * (i + 1)) = 128 * 2 ^ (7 * i)).
      { replace (7 * (i + 1)) with (7 + 7 * i) by lia. rewrite Z.pow_add_r by lia. reflexivity. }
      assert (Hx': x = 128 * (x / 128) + x mod 128) by (apply Z.div_mod; lia).
      rewrite IH.
      * f_equal.
        -- rewrite Hpow. rewrite Hx' at 3. ring.
        -- simpl length. lia.
      * split; [apply Z.div_pos; lia|].
        apply Z.div_lt_upper_bound; [lia|].
        replace (Z.of_nat (S (S f))) with (1 + Z.of_nat (S f)) in Hx by lia.
        rewrite Z.pow_add_r in Hx by lia. change (128 ^ 1) with 128 in Hx. lia.
      * lia.
      * lia.
      * nia.
      * rewrite Hpow. rewrite Hx' in Hlt. nia.
Qed.

Theorem uvarint_put x rest :
  0 <= x < 2 ^ 64 ->
  uvarint (put_uvarint 9 x ++ rest) = (x, Z.of_nat (length (put_uvarint 9 x))).
Proof.
  intros Hx. unfold uvarint.
  change 0 with (7 * 0) at 3.
  rewrite uvarint_aux_put; try lia.
  f_equal. change (7 * 0) with 0. change (2 ^ 0) with 1. lia.
Qed.

Lemma unzigzag_zigzag x : unzigzag (zigzag x) = x.
Proof.
  unfold zigzag, unzigzag. destruct (Z.ltb_spec x 0).
  - replace (- 2 * x - 1) with (1 + 2 * (- x - 1)) by lia.
    rewrite Z.odd_add_mul_2. cbn [Z.odd].
    replace (1 + 2 * (- x - 1) + 1) with ((- x) * 2) by lia. rewrite Z.div_mul by lia. lia.
  - replace (2 * x) with (0 + 2 * x) by lia. rewrite Z.odd_add_mul_2. cbn [Z.odd].
    replace (0 + 2 * x) with (x * 2) by lia. rewrite Z.div_mul by lia. reflexivity.
Qed.

Lemma zigzag_range x : - 2 ^ 63 <= x < 2 ^ 63 -> 0 <= zigzag x < 2 ^ 64.
Proof.
  intros H. unfold zigzag. change (2 ^ 64) with (2 * 2 ^ 63). destruct (Z.ltb_spec x 0); lia.
Qed.

Theorem varint_put x rest :
  - 2 ^ 63 <= x < 2 ^ 63 ->
  varint (put_varint x ++ rest) = (x, Z.of_nat (length (put_varint x))).
Proof.
  intros Hx. unfold varint, put_varint. rewrite uvarint_put by (apply zigzag_range; exact Hx).
  rewrite unzigzag_zigzag. reflexivity.
Qed.

Lemma firstn_app_exact {A} (l r : list A) : firstn (length l) (l ++ r) = l.
Proof. rewrite firstn_app, Nat.sub_diag, firstn_all. simpl. apply app_nil_r. Qed.
Lemma skipn_app_exact {A} (l r : list A) : skipn (length l) (l ++ r) = r.
Proof. rewrite skipn_app, Nat.sub_diag, skipn_all. reflexivity. Qed.

(* varintConv: read (toBytes v ++ rest) = (v, rest) *)
Theorem vi_read_to_bytes v rest :
  - 2 ^ 63 <= v < 2 ^ 63 -> vi_read (vi_to_bytes v ++ rest) = Ok (v, rest).
Proof.
  intros Hv. unfold vi_to_bytes, vi_read. cbn [app].
  pose proof (put_uvarint_length 9 (zigzag v)) as Hl. fold (put_varint v) in Hl.
  pose proof (varint_put v [] Hv) as Hvp. rewrite app_nil_r in Hvp.
  remember (put_varint v) as b eqn:Eb.
  destruct (Z.ltb_spec 11 (Z.of_nat (length b))); [lia|].
  destruct (Z.eqb_spec (Z.of_nat (length b)) 0); [lia|].
  rewrite app_length.
  destruct (Z.ltb_spec (Z.of_nat (length b + length rest)) (Z.of_nat (length b))); [lia|].
  rewrite Nat2Z.id. rewrite firstn_app_exact, skipn_app_exact.
  rewrite Hvp.
  destruct (Z.ltb_spec (Z.of_nat (length b)) 1); [lia|]. reflexivity.
Qed.

Theorem to_varint_to_bytes v rest :
  - 2 ^ 63 <= v < 2 ^ 63 ->
  to_varint (vi_to_bytes v ++ rest) = Ok (v, Z.of_nat (length (vi_to_bytes v))).
Proof.
  intros Hv. unfold vi_to_bytes, to_varint. cbn [app].
  pose proof (put_uvarint_length 9 (zigzag v)) as Hl. fold (put_varint v) in Hl.
  pose proof (varint_put v rest Hv) as Hvp.
  remember (put_varint v) as b eqn:Eb.
  destruct (Z.eqb_spec (Z.of_nat (length b)) 0); [lia|].
  cbn [length]. rewrite app_length.
  destruct (Z.ltb_spec (Z.of_nat (S (length b + length rest))) (1 + Z.of_nat (length b))); [lia|].
  rewrite Hvp.
  destruct (Z.ltb_spec (Z.of_nat (length b)) 1); [lia|].
  f_equal. f_equal. lia.
Qed.
