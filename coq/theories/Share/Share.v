(* Sharing of one Bytecode between VMs (C08).
   Part 1: interleaving.  A VM step reads the shared Bytecode and changes only the private state
   of its VM; then every interleaving gives every VM the result of running alone.
   Part 2: what a script can reach.  Constants are shared; the only mutable ones are module
   values, which reach the VM stack through LOADMODULE only.  The validator share_ok accepts the
   instruction patterns under which such a value is replaced by its private copy (STOREMODULE)
   before any other instruction can touch it. *)
From Coq Require Import List ZArith Bool String Lia.
Import ListNotations.

(* ---------- Part 1 ---------- *)
Section Interleaving.
  Variables (Shared Priv : Type).
  Variable step : Shared -> Priv -> Priv.      (* reads shared, writes private only *)

  Fixpoint update {A} (l : list A) (i : nat) (x : A) : list A :=
    match l, i with
    | [], _ => []
    | _ :: t, O => x :: t
    | h :: t, S i => h :: update t i x
    end.

  (* one scheduled step of VM i; a schedule entry for a VM that does not exist does nothing *)
  Definition sched_step (sh : Shared) (privs : list Priv) (i : nat) : list Priv :=
    match nth_error privs i with
    | Some p => update privs i (step sh p)
    | None => privs
    end.

  Definition run_sched (sh : Shared) (privs : list Priv) (sched : list nat) : list Priv :=
    fold_left (sched_step sh) sched privs.

  Fixpoint iter (n : nat) (f : Priv -> Priv) (p : Priv) : Priv :=
    match n with O => p | S n => iter n f (f p) end.
End Interleaving.
Arguments update {A} l i x.

(* ---------- Part 2 ---------- *)
Inductive ckind := CkImm | CkFn | CkCopier | CkMut.

Inductive sinstr :=
| SConstant (c : nat)
| SClosure (c : nat)
| SGlobalKey (c : nat)            (* GETGLOBAL / SETGLOBAL: the constant is the key *)
| SLoadModule (c m : nat)
| SJumpFalsy (target : Z)
| SStoreModule (m : nat)
| SOther.

(* an instruction with its byte position and size *)
Record pinstr := mkPI { pi_pos : Z; pi_size : Z; pi_ins : sinstr }.

Definition kind_of (consts : list ckind) (c : nat) : ckind := nth c consts CkMut.

Definition is_shared_mutable (k : ckind) : bool := match k with CkCopier | CkMut => true | _ => false end.

(* the instructions following a LOADMODULE of a mutable constant must be JUMPFALSY t; STOREMODULE m
   with t the position right after the STOREMODULE, and the constant must be a deep Copier *)
Definition instr_ok (consts : list ckind) (i : pinstr) (rest : list pinstr) : bool :=
  match pi_ins i with
  | SConstant c => negb (is_shared_mutable (kind_of consts c))
  | SClosure c => match kind_of consts c with CkFn => true | _ => false end
  | SGlobalKey c => match kind_of consts c with CkImm => true | _ => false end
  | SLoadModule c m =>
      match kind_of consts c with
      | CkImm | CkFn => true
      | CkMut => false
      | CkCopier =>
          match rest with
          | j :: s :: _ =>
              match pi_ins j, pi_ins s with
              | SJumpFalsy t, SStoreModule m' =>
                  Nat.eqb m m' && Z.eqb (pi_pos j) (pi_pos i + pi_size i) &&
                  Z.eqb (pi_pos s) (pi_pos j + pi_size j) && Z.eqb t (pi_pos s + pi_size s)
              | _, _ => false
              end
          | _ => false
          end
      end
  | _ => true
  end.

Fixpoint share_ok_fn (consts : list ckind) (l : list pinstr) : bool :=
  match l with
  | [] => true
  | i :: rest => instr_ok consts i rest && share_ok_fn consts rest
  end.

Definition share_ok (consts : list ckind) (fns : list (list pinstr)) : bool :=
  forallb (share_ok_fn consts) fns.

(* ---- abstract execution: what kind of object each stack slot refers to ---- *)
Inductive taint := TShared        (* a shared mutable object (a module constant) *)
                 | TBool (b : bool)
                 | TPriv.         (* immutable, or private to this VM *)

Definition clean (st : list taint) : Prop := ~ In TShared st.

Definition taint_of (k : ckind) : taint := if is_shared_mutable k then TShared else TPriv.

(* One VM step at the instruction i of a function, over-approximating control flow and every
   instruction the model does not single out: SOther may replace the stack by any stack built
   from private values, booleans and the values already there, and may continue anywhere. *)
Inductive astep (consts : list ckind) : pinstr -> list taint -> list taint -> option Z -> Prop :=
| AConstant i c st : pi_ins i = SConstant c -> astep consts i st (taint_of (kind_of consts c) :: st) None
| AClosure i c st : pi_ins i = SClosure c -> astep consts i st (TPriv :: st) None
| AGlobalKey i c st st' : pi_ins i = SGlobalKey c -> (forall t, In t st' -> t = TPriv \/ In t st) -> astep consts i st st' None
| ALoadMiss i c m st : pi_ins i = SLoadModule c m ->
    astep consts i st (TBool true :: taint_of (kind_of consts c) :: st) None
| ALoadHit i c m st : pi_ins i = SLoadModule c m ->        (* the cache holds private copies *)
    astep consts i st (TBool false :: TPriv :: st) None
| AJumpTaken i t b st : pi_ins i = SJumpFalsy t -> b <> TBool true -> astep consts i (b :: st) st (Some t)
| AJumpNot i t b st : pi_ins i = SJumpFalsy t -> b <> TBool false -> astep consts i (b :: st) st None
| AStore i m v st : pi_ins i = SStoreModule m ->            (* Copier: the value is replaced by its copy *)
    astep consts i (v :: st) (TPriv :: st) None
| AOther i st st' tgt : pi_ins i = SOther -> (forall t, In t st' -> t = TPriv \/ (exists b, t = TBool b) \/ In t st) ->
    astep consts i st st' tgt.

(* a shared mutable object is exposed when an instruction other than the JUMPFALSY / STOREMODULE
   of the import pattern runs while the stack refers to it *)
Definition exposed (i : pinstr) (st : list taint) : Prop :=
  In TShared st /\ match pi_ins i with SJumpFalsy _ | SStoreModule _ => False | _ => True end.

(* configurations reachable in a VM: a function, an instruction index, a stack.  Calls, returns,
   throws and re-entry after a Go callback are over-approximated: execution may be at any
   instruction of any function with any stack that refers to no shared mutable object, and an
   instruction the model does not single out may continue anywhere. *)
Inductive reach (consts : list ckind) (fns : list (list pinstr)) : list pinstr -> nat -> list taint -> Prop :=
| RStart l k st : In l fns -> clean st -> reach consts fns l k st
| RSeq l k st i st' : reach consts fns l k st -> nth_error l k = Some i ->
    astep consts i st st' None -> reach consts fns l (S k) st'
| RJump l k st i st' t k' j : reach consts fns l k st -> nth_error l k = Some i ->
    (exists t0, pi_ins i = SJumpFalsy t0) -> astep consts i st st' (Some t) ->
    nth_error l k' = Some j -> pi_pos j = t -> reach consts fns l k' st'
| ROther l k st i st' tgt l' k' : reach consts fns l k st -> nth_error l k = Some i ->
    pi_ins i = SOther -> astep consts i st st' tgt -> In l' fns -> reach consts fns l' k' st'.
