(* Executable front end of the sharing validator: instruction names as printed by the
   implementation (OpcodeNames) to the abstract instructions of Share.v. *)
From Coq Require Import List ZArith Bool String.
From Ugo Require Import Gen.VMShare Share.Share.
Import ListNotations.
Local Open Scope string_scope.

Definition sinstr_of (name : string) (operands : list Z) : sinstr :=
  match operands with
  | c :: rest =>
      if String.eqb name "CONSTANT" then SConstant (Z.to_nat c)
      else if String.eqb name "CLOSURE" then SClosure (Z.to_nat c)
      else if String.eqb name "GETGLOBAL" || String.eqb name "SETGLOBAL" then SGlobalKey (Z.to_nat c)
      else if String.eqb name "JUMPFALSY" then SJumpFalsy c
      else if String.eqb name "STOREMODULE" then SStoreModule (Z.to_nat c)
      else if String.eqb name "LOADMODULE" then
        match rest with m :: _ => SLoadModule (Z.to_nat c) (Z.to_nat m) | [] => SOther end
      else SOther
  | [] => SOther
  end.

Definition pinstr_of (e : (Z * string) * (Z * list Z)) : pinstr :=
  let '((pos, name), (size, operands)) := e in mkPI pos size (sinstr_of name operands).

Definition share_check (consts : list ckind) (fns : list (list ((Z * string) * (Z * list Z)))) : bool :=
  share_ok consts (map (map pinstr_of) fns).

(* the opcodes of vm.go which read the constant pool are exactly those the model singles out *)
Definition modelled_readers : list string := ["OpClosure"; "OpConstant"; "OpGetGlobal"; "OpLoadModule"; "OpSetGlobal"].
Definition readers_modelled : bool :=
  forallb (fun r => existsb (String.eqb r) modelled_readers) const_readers.
