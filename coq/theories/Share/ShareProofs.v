From Coq Require Import List ZArith Bool String Lia.
From Ugo Require Import Share.Share.
Import ListNotations.

(* ---------- Part 1: any interleaving = running alone ---------- *)
Section Interleaving.
  Variables (Shared Priv : Type).
  Variable step : Shared -> Priv -> Priv.

  Lemma nth_error_update_same {A} (l : list A) i x y : nth_error l i = Some y -> nth_error (update l i x) i = Some x.
  Proof. revert i. induction l as [|h t IH]; intros [|i] H; simpl in *; try discriminate; auto. Qed.

  Lemma nth_error_update_other {A} (l : list A) i j x : i <> j -> nth_error (update l i x) j = nth_error l j.
  Proof.
    revert i j. induction l as [|h t IH]; intros [|i] [|j] H; simpl; try reflexivity; try congruence.
    apply IH. congruence.
  Qed.

  Fixpoint count (i : nat) (sched : list nat) : nat :=
    match sched with [] => 0 | j :: r => (if Nat.eqb i j then 1 else 0) + count i r end.

  Lemma iter_step_comm n f (p : Priv) : iter Priv n f (f p) = f (iter Priv n f p).
  Proof. revert p. induction n as [|n IH]; intros p; simpl; [reflexivity|]. rewrite IH. reflexivity. Qed.

  (* under every schedule VM i ends in the state it reaches alone after as many steps as the
     schedule gave it: no schedule of the other VMs is observable *)
  Theorem interleave_independent sh sched : forall privs i p,
    nth_error privs i = Some p ->
    nth_error (run_sched Shared Priv step sh privs sched) i = Some (iter Priv (count i sched) (step sh) p).
  Proof.
    induction sched as [|j r IH]; intros privs i p Hp; simpl; [exact Hp|].
    unfold run_sched in *. simpl. unfold sched_step at 2.
    destruct (nth_error privs j) as [q|] eqn:Ej.
    - destruct (Nat.eqb_spec i j) as [->|Hne].
      + rewrite Ej in Hp. inversion Hp; subst q.
        rewrite (IH (update privs j (step sh p)) j (step sh p)) by (eapply nth_error_update_same; exact Ej).
        simpl. reflexivity.
      + rewrite (IH (update privs j (step sh q)) i p) by (rewrite nth_error_update_other by congruence; exact Hp).
        reflexivity.
    - destruct (Nat.eqb_spec i j) as [->|Hne]; [congruence|]. apply IH. exact Hp.
  Qed.
End Interleaving.

(* ---------- Part 2: no shared mutable object is exposed ---------- *)

Lemma share_ok_fn_nth consts l k i :
  share_ok_fn consts l = true -> nth_error l k = Some i -> instr_ok consts i (skipn (S k) l) = true.
Proof.
  revert k. induction l as [|h t IH]; intros [|k] H Hn; simpl in *; try discriminate;
    apply andb_true_iff in H as [H1 H2].
  - inversion Hn; subst. exact H1.
  - apply IH; assumption.
Qed.

Lemma skipn_cons2 {A} (l : list A) k a b r :
  skipn (S k) l = a :: b :: r -> nth_error l (S k) = Some a /\ nth_error l (S (S k)) = Some b.
Proof.
  revert k. induction l as [|h t IH]; intros k H; [destruct k; discriminate|].
  destruct k as [|k]; simpl in H.
  - subst t. split; reflexivity.
  - destruct t as [|h2 t2]; [destruct k; discriminate|]. apply (IH k) in H. exact H.
Qed.

Definition Inv (consts : list ckind) (l : list pinstr) (k : nat) (st : list taint) : Prop :=
  clean st \/
  (exists r t j, st = TBool true :: TShared :: r /\ clean r /\ nth_error l k = Some j /\ pi_ins j = SJumpFalsy t /\
                 exists s m, nth_error l (S k) = Some s /\ pi_ins s = SStoreModule m) \/
  (exists r s m, st = TShared :: r /\ clean r /\ nth_error l k = Some s /\ pi_ins s = SStoreModule m).

Lemma clean_cons t st : t <> TShared -> clean st -> clean (t :: st).
Proof. intros H1 H2 [H|H]; [congruence | exact (H2 H)]. Qed.

Lemma clean_tail t st : clean (t :: st) -> clean st.
Proof. intros H Hin. apply H. right. exact Hin. Qed.

Lemma clean_from st st' : clean st -> (forall t, In t st' -> t = TPriv \/ (exists b, t = TBool b) \/ In t st) -> clean st'.
Proof. intros Hc H Hin. destruct (H _ Hin) as [E|[[b E]|E]]; try discriminate. exact (Hc E). Qed.

Theorem reach_inv consts fns :
  share_ok consts fns = true ->
  forall l k st, reach consts fns l k st -> In l fns /\ Inv consts l k st.
Proof.
  intros Hok l k st R. unfold share_ok in Hok. rewrite forallb_forall in Hok.
  induction R as [l k st Hin Hc | l k st i st' R [Hin IH] Hn Hs | l k st i st' t k' j R [Hin IH] Hn [t0 Hj] Hs Hn' Hp
                  | l k st i st' tgt l' k' R [Hin IH] Hn Ho Hs Hin'].
  - split; [exact Hin | left; exact Hc].
  - split; [exact Hin|].
    pose proof (share_ok_fn_nth consts l k i (Hok _ Hin) Hn) as Hi.
    destruct IH as [Hc | [(r & t & j & Est & Hr & Hnj & Hjf & s & m & Hns & Hsm) | (r & s & m & Est & Hr & Hns & Hsm)]].
    + (* clean stack *)
      inversion Hs as [i0 c st0 E | i0 c st0 E | i0 c st0 st1 E Hsub | i0 c m st0 E | i0 c m st0 E | | i0 t b st0 E Hb
                       | i0 m v st0 E | i0 st0 st1 tg E Hsub]; subst.
      * left. unfold instr_ok in Hi. rewrite E in Hi. apply clean_cons; [|exact Hc].
        unfold taint_of. destruct (is_shared_mutable (kind_of consts c)); [discriminate | discriminate].
      * left. apply clean_cons; [discriminate | exact Hc].
      * left. eapply clean_from; [exact Hc|]. intros t Ht. destruct (Hsub _ Ht); auto.
      * (* load, cache empty *)
        unfold instr_ok in Hi. rewrite E in Hi. unfold taint_of.
        destruct (kind_of consts c) eqn:Ek; cbn [is_shared_mutable].
        -- left. apply clean_cons; [discriminate|]. apply clean_cons; [discriminate | exact Hc].
        -- left. apply clean_cons; [discriminate|]. apply clean_cons; [discriminate | exact Hc].
        -- right. left.
           destruct (skipn (S k) l) as [|j [|s rest]] eqn:Esk; try discriminate.
           destruct (pi_ins j) eqn:Ej; try discriminate. destruct (pi_ins s) eqn:Es; try discriminate.
           apply skipn_cons2 in Esk as [Hj Hs2].
           exists st, target, j. repeat split; try assumption. exists s, m0. split; assumption.
        -- discriminate.
      * left. apply clean_cons; [discriminate|]. apply clean_cons; [discriminate | exact Hc].
      * left. eapply clean_tail. exact Hc.
      * left. apply clean_cons; [discriminate|]. eapply clean_tail. exact Hc.
      * left. eapply clean_from; [exact Hc | exact Hsub].
    + (* at the JUMPFALSY of the import pattern: only falling through is possible *)
      rewrite Hnj in Hn. inversion Hn; subst i. subst st.
      inversion Hs as [i0 c st0 E | i0 c st0 E | i0 c st0 st1 E Hsub | i0 c m0 st0 E | i0 c m0 st0 E | | i0 t1 b st0 E Hb
                       | i0 m0 v st0 E | i0 st0 st1 tg E Hsub]; subst; try congruence.
      right. right. exists r, s, m. repeat split; assumption.
    + (* at the STOREMODULE *)
      rewrite Hns in Hn. inversion Hn; subst i. subst st.
      inversion Hs as [i0 c st0 E | i0 c st0 E | i0 c st0 st1 E Hsub | i0 c m0 st0 E | i0 c m0 st0 E | | i0 t1 b st0 E Hb
                       | i0 m0 v st0 E | i0 st0 st1 tg E Hsub]; subst; try congruence.
      left. apply clean_cons; [discriminate | exact Hr].
  - split; [exact Hin|].
    destruct IH as [Hc | [(r & t1 & j1 & Est & Hr & Hnj & Hjf & _) | (r & s & m & Est & Hr & Hns & Hsm)]].
    + inversion Hs; subst; try congruence.
      left. eapply clean_tail. exact Hc.
    + subst st. inversion Hs; subst; try congruence.
    + rewrite Hns in Hn. inversion Hn; subst. congruence.
  - split; [exact Hin'|]. left.
    destruct IH as [Hc | [(r & t1 & j1 & Est & Hr & Hnj & Hjf & _) | (r & s & m & Est & Hr & Hns & Hsm)]].
    + inversion Hs; subst; try congruence. eapply clean_from; [exact Hc | assumption].
    + rewrite Hnj in Hn. inversion Hn; subst. congruence.
    + rewrite Hns in Hn. inversion Hn; subst. congruence.
Qed.

(* on validated bytecode no instruction other than the JUMPFALSY / STOREMODULE of the import
   pattern ever runs while the VM stack refers to a shared mutable constant: scripts only reach
   the private copy *)
Theorem share_ok_sound consts fns :
  share_ok consts fns = true ->
  forall l k st i, reach consts fns l k st -> nth_error l k = Some i -> ~ exposed i st.
Proof.
  intros Hok l k st i R Hn [Hin Hx].
  destruct (reach_inv consts fns Hok l k st R) as [_ [Hc | [(r & t & j & Est & Hr & Hnj & Hjf & _) | (r & s & m & Est & Hr & Hns & Hsm)]]].
  - exact (Hc Hin).
  - rewrite Hnj in Hn. inversion Hn; subst. rewrite Hjf in Hx. exact Hx.
  - rewrite Hns in Hn. inversion Hn; subst. rewrite Hsm in Hx. exact Hx.
Qed.
