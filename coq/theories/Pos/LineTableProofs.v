From Coq Require Import List ZArith Bool Lia.
From Ugo Require Import Pos.LineTable.
Import ListNotations.
Local Open Scope Z_scope.

(* count_le on a sorted table: entries below the count are <= x, the entry at the count is > x *)
Lemma sorted_tail y r : sorted (y :: r) -> sorted r.
Proof. intros H p q Hpq. specialize (H (S p) (S q)). simpl in H. apply H. lia. Qed.

Lemma sorted_head_lt y r q : sorted (y :: r) -> (q < length r)%nat -> y < nth q r 0.
Proof. intros H Hq. specialize (H 0%nat (S q)). simpl in H. apply H. lia. Qed.

Lemma count_le_bound a x : (count_le a x <= length a)%nat.
Proof. induction a as [|y r IH]; simpl; [lia|]. destruct (y <=? x); simpl; lia. Qed.

Lemma count_le_spec a x :
  sorted a ->
  (forall p, (p < count_le a x)%nat -> nth p a 0 <= x) /\
  (forall p, (count_le a x <= p < length a)%nat -> x < nth p a 0).
Proof.
  induction a as [|y r IH]; intros Hs; simpl.
  - split; intros p Hp; lia.
  - destruct (Z.leb_spec y x) as [Hy|Hy].
    + destruct (IH (sorted_tail _ _ Hs)) as [A B]. split.
      * intros [|p] Hp; [exact Hy | apply A; lia].
      * intros [|p] Hp; [lia | apply B; lia].
    + split; [intros p Hp; lia|].
      intros [|p] Hp; [exact Hy|]. simpl.
      pose proof (sorted_head_lt _ _ p Hs ltac:(simpl in Hp; lia)). lia.
Qed.

(* the binary search loop returns the count *)
Lemma bs_loop_count fuel a x i j :
  sorted a -> (i <= count_le a x <= j)%nat -> (j <= length a)%nat -> (j - i < fuel)%nat ->
  bs_loop fuel a x i j = count_le a x.
Proof.
  intros Hs. destruct (count_le_spec a x Hs) as [Hle Hgt].
  revert i j. induction fuel as [|f IH]; intros i j Hij Hj Hf; [lia|].
  cbn [bs_loop]. destruct (Nat.ltb_spec i j) as [Hlt|Hge]; [|lia].
  set (h := (i + (j - i) / 2)%nat).
  assert (Hh: (i <= h < j)%nat).
  { unfold h. pose proof (Nat.div_lt_upper_bound (j - i) 2 (j - i) ltac:(lia) ltac:(lia)). lia. }
  destruct (Z.leb_spec (nth h a 0) x) as [Hx|Hx].
  - apply IH; try lia.
    destruct (Nat.lt_ge_cases h (count_le a x)) as [H1|H1]; [lia|].
    pose proof (Hgt h ltac:(lia)). lia.
  - apply IH; try lia.
    destruct (Nat.lt_ge_cases h (count_le a x)) as [H1|H1]; [|lia].
    pose proof (Hle h H1). lia.
Qed.

Theorem search_ints_spec a x : sorted a -> search_ints a x = Z.of_nat (count_le a x) - 1.
Proof.
  intros Hs. unfold search_ints. rewrite bs_loop_count; auto.
  - pose proof (count_le_bound a x). lia.
  - lia.
Qed.

(* unpack returns the unique line containing the offset *)
Theorem unpack_correct lines off :
  sorted lines -> nth 0 lines 1 = 0 -> 0 <= off ->
  exists k, (k < length lines)%nat /\
    unpack lines off = (Z.of_nat k + 1, off - nth k lines 0 + 1) /\
    nth k lines 0 <= off /\ (forall q, (k < q < length lines)%nat -> off < nth q lines 0).
Proof.
  intros Hs H0 Hoff. unfold unpack. rewrite search_ints_spec by exact Hs.
  destruct (count_le_spec lines off Hs) as [Hle Hgt].
  assert (Hc: (1 <= count_le lines off)%nat).
  { destruct lines as [|y r]; [simpl in H0; lia|]. simpl in *. subst y.
    destruct (Z.leb_spec 0 off); lia. }
  pose proof (count_le_bound lines off) as Hb.
  exists (count_le lines off - 1)%nat. split; [lia|].
  destruct (Z.leb_spec 0 (Z.of_nat (count_le lines off) - 1)); [|lia].
  replace (Z.to_nat (Z.of_nat (count_le lines off) - 1)) with (count_le lines off - 1)%nat by lia.
  split; [f_equal; lia|]. split; [apply Hle; lia|]. intros q Hq. apply Hgt. lia.
Qed.

(* ---- prepending k blank lines shifts every line by exactly k and keeps the column ---- *)

Lemma count_le_app_all a b x :
  (forall y, In y a -> y <= x) -> count_le (a ++ b) x = (length a + count_le b x)%nat.
Proof.
  induction a as [|y r IH]; intros H; simpl; [reflexivity|].
  destruct (Z.leb_spec y x) as [Hy|Hy]; [|specialize (H y (or_introl eq_refl)); lia].
  rewrite IH by (intros z Hz; apply H; right; exact Hz). reflexivity.
Qed.

Lemma count_le_map_add a k x : count_le (map (fun o => o + k) a) (x + k) = count_le a x.
Proof.
  induction a as [|y r IH]; simpl; [reflexivity|].
  destruct (Z.leb_spec (y + k) (x + k)), (Z.leb_spec y x); lia.
Qed.

Lemma nth_map_lt {A B} (f : A -> B) l i d d' : (i < length l)%nat -> nth i (map f l) d = f (nth i l d').
Proof.
  revert i. induction l as [|x xs IH]; intros i H; simpl in *; [lia|].
  destruct i; [reflexivity | apply IH; lia].
Qed.

Lemma sorted_shift k lines : sorted lines -> nth 0 lines 1 = 0 -> sorted (shift_lines k lines).
Proof.
  intros Hs H0 p q Hpq. unfold shift_lines in *. rewrite app_length, !map_length, seq_length in Hpq.
  assert (Hseq: forall i, (i < k)%nat -> nth i (map Z.of_nat (seq 0 k) ++ map (fun o => o + Z.of_nat k) lines) 0 = Z.of_nat i).
  { intros i Hi. rewrite app_nth1 by (rewrite map_length, seq_length; exact Hi).
    rewrite (nth_map_lt Z.of_nat _ i 0 0%nat) by (rewrite seq_length; exact Hi).
    rewrite seq_nth by exact Hi. reflexivity. }
  assert (Hrest: forall i, (k <= i < k + length lines)%nat ->
            nth i (map Z.of_nat (seq 0 k) ++ map (fun o => o + Z.of_nat k) lines) 0 = nth (i - k) lines 0 + Z.of_nat k).
  { intros i Hi. rewrite app_nth2 by (rewrite map_length, seq_length; lia).
    rewrite map_length, seq_length.
    rewrite (nth_map_lt (fun o => o + Z.of_nat k) _ _ 0 0) by lia. reflexivity. }
  assert (Hnn: forall i, (i < length lines)%nat -> 0 <= nth i lines 0).
  { intros i Hi. destruct i.
    - destruct lines; simpl in *; lia.
    - specialize (Hs 0%nat (S i) ltac:(lia)). destruct lines; simpl in *; lia. }
  destruct (Nat.lt_ge_cases p k) as [Hp|Hp], (Nat.lt_ge_cases q k) as [Hq|Hq].
  - rewrite !Hseq by assumption. lia.
  - rewrite Hseq by assumption. rewrite Hrest by lia. specialize (Hnn (q - k)%nat ltac:(lia)). lia.
  - lia.
  - rewrite !Hrest by lia. specialize (Hs (p - k)%nat (q - k)%nat ltac:(lia)). lia.
Qed.

Theorem lines_shift k lines off :
  sorted lines -> nth 0 lines 1 = 0 -> 0 <= off ->
  let '(l1, c1) := unpack lines off in
  unpack (shift_lines k lines) (off + Z.of_nat k) = (l1 + Z.of_nat k, c1).
Proof.
  intros Hs H0 Hoff. unfold unpack.
  rewrite (search_ints_spec lines off Hs).
  rewrite (search_ints_spec _ _ (sorted_shift k lines Hs H0)).
  unfold shift_lines.
  rewrite count_le_app_all.
  2: { intros y Hy. apply in_map_iff in Hy as [i [Hi Hin]]. apply in_seq in Hin. lia. }
  rewrite map_length, seq_length, count_le_map_add.
  destruct (count_le_spec lines off Hs) as [Hle _].
  assert (Hc: (1 <= count_le lines off)%nat).
  { destruct lines as [|y r]; [simpl in H0; lia|]. simpl in *. subst y. destruct (Z.leb_spec 0 off); lia. }
  pose proof (count_le_bound lines off) as Hb.
  destruct (Z.leb_spec 0 (Z.of_nat (count_le lines off) - 1)); [|lia].
  destruct (Z.leb_spec 0 (Z.of_nat (k + count_le lines off) - 1)); [|lia].
  f_equal; [lia|].
  replace (Z.to_nat (Z.of_nat (k + count_le lines off) - 1)) with (k + (count_le lines off - 1))%nat by lia.
  replace (Z.to_nat (Z.of_nat (count_le lines off) - 1)) with (count_le lines off - 1)%nat by lia.
  rewrite app_nth2 by (rewrite map_length, seq_length; lia).
  rewrite map_length, seq_length.
  replace (k + (count_le lines off - 1) - k)%nat with (count_le lines off - 1)%nat by lia.
  rewrite (nth_map_lt (fun o => o + Z.of_nat k) _ _ 0 0) by lia. lia.
Qed.

(* unpack can be inverted through the table: the reported line is a line of the table, the
   reported column is at least 1, and start-of-line + column - 1 is the offset again.  Hence two
   different offsets of one file are never reported as the same line:column. *)
Theorem unpack_inverse lines off :
  sorted lines -> nth 0 lines 1 = 0 -> 0 <= off ->
  let '(l, c) := unpack lines off in
  1 <= l <= Z.of_nat (length lines) /\ 1 <= c /\ nth (Z.to_nat (l - 1)) lines 0 + c - 1 = off.
Proof.
  intros Hs H0 Hoff.
  destruct (unpack_correct lines off Hs H0 Hoff) as [k [Hk [Hu [Hle _]]]].
  rewrite Hu.
  replace (Z.to_nat (Z.of_nat k + 1 - 1)) with k by lia.
  repeat split; lia.
Qed.

Theorem unpack_injective lines o1 o2 :
  sorted lines -> nth 0 lines 1 = 0 -> 0 <= o1 -> 0 <= o2 ->
  unpack lines o1 = unpack lines o2 -> o1 = o2.
Proof.
  intros Hs H0 H1 H2 He.
  pose proof (unpack_inverse lines o1 Hs H0 H1) as I1.
  pose proof (unpack_inverse lines o2 Hs H0 H2) as I2.
  rewrite He in I1. destruct (unpack lines o2) as [l c].
  destruct I1 as [_ [_ E1]]. destruct I2 as [_ [_ E2]]. lia.
Qed.

(* ---------- file lookup in a file set (SourceFileSet.file / searchFiles) ---------- *)

(* the ranges [base, base+size] of the files of a set, as AddFile lays them out: sizes are not
   negative and a later file starts after the end (EOF position included) of every earlier one *)
Definition files_ok (files : list (Z * Z)) : Prop :=
  (forall i b s, nth_error files i = Some (b, s) -> 0 <= s) /\
  (forall i j bi si bj sj, (i < j)%nat -> nth_error files i = Some (bi, si) ->
     nth_error files j = Some (bj, sj) -> bi + si < bj).

Lemma search_files_count files p i :
  search_files files p i = i + Z.of_nat (count_le (map fst files) p) - 1.
Proof.
  revert i. induction files as [|[b s] r IH]; intros i; simpl; [lia|].
  destruct (Z.ltb_spec p b) as [Hlt|Hge], (Z.leb_spec b p) as [Hle|Hgt]; try lia.
  rewrite IH. lia.
Qed.

Lemma nth_fst_of_nth_error (files : list (Z * Z)) k b s :
  nth_error files k = Some (b, s) -> nth k (map fst files) 0 = b.
Proof.
  intros H. apply (map_nth_error fst) in H. simpl in H.
  apply nth_error_nth with (d := 0) in H. exact H.
Qed.

Lemma nth_error_of_lt (files : list (Z * Z)) k :
  (k < length files)%nat -> exists b s, nth_error files k = Some (b, s).
Proof.
  intros H. destruct (nth_error files k) as [[b s]|] eqn:E; [eauto|].
  apply nth_error_None in E. lia.
Qed.

Lemma files_ok_sorted files : files_ok files -> sorted (map fst files).
Proof.
  intros [Hsz Hno] p q Hpq. rewrite map_length in Hpq.
  destruct (nth_error_of_lt files p ltac:(lia)) as [bp [sp Ep]].
  destruct (nth_error_of_lt files q ltac:(lia)) as [bq [sq Eq]].
  rewrite (nth_fst_of_nth_error _ _ _ _ Ep), (nth_fst_of_nth_error _ _ _ _ Eq).
  pose proof (Hsz _ _ _ Ep). pose proof (Hno p q _ _ _ _ ltac:(lia) Ep Eq). lia.
Qed.

(* the lookup returns exactly the file whose range contains the position, and no file when no
   range does; the shortcut through LastFile returns a file whose range contains the position,
   hence (ranges being disjoint) the same one *)
Theorem file_of_spec files p k :
  files_ok files ->
  (file_of files p = Some k <-> exists b s, nth_error files k = Some (b, s) /\ b <= p <= b + s).
Proof.
  intros Hok. pose proof (files_ok_sorted files Hok) as Hs.
  destruct (count_le_spec (map fst files) p Hs) as [Hle Hgt].
  pose proof (count_le_bound (map fst files) p) as Hb. rewrite map_length in Hb, Hgt.
  unfold file_of. rewrite search_files_count.
  set (c := count_le (map fst files) p) in *.
  split.
  - destruct (Z.ltb_spec (0 + Z.of_nat c - 1) 0) as [Hneg|Hpos]; [discriminate|].
    replace (Z.to_nat (0 + Z.of_nat c - 1)) with (c - 1)%nat by lia.
    destruct (nth_error files (c - 1)) as [[b s]|] eqn:E; [|discriminate].
    destruct (Z.leb_spec p (b + s)) as [Hin|Hout]; [|discriminate].
    intros H. injection H as <-. exists b, s. split; [exact E|].
    specialize (Hle (c - 1)%nat ltac:(lia)). rewrite (nth_fst_of_nth_error _ _ _ _ E) in Hle. lia.
  - intros [b [s [E [Hlo Hhi]]]].
    assert (Hk: (k < length files)%nat) by (apply nth_error_Some; rewrite E; discriminate).
    assert (Hc: c = S k).
    { destruct (Nat.lt_ge_cases k c) as [Hkc|Hkc].
      - destruct (Nat.eq_dec c (S k)) as [|Hne]; [assumption|exfalso].
        destruct (nth_error_of_lt files (S k) ltac:(lia)) as [b' [s' E']].
        specialize (Hle (S k) ltac:(lia)). rewrite (nth_fst_of_nth_error _ _ _ _ E') in Hle.
        destruct Hok as [_ Hno]. pose proof (Hno k (S k) _ _ _ _ ltac:(lia) E E'). lia.
      - exfalso. specialize (Hgt k ltac:(lia)). rewrite (nth_fst_of_nth_error _ _ _ _ E) in Hgt. lia. }
    destruct (Z.ltb_spec (0 + Z.of_nat c - 1) 0) as [Hneg|Hpos]; [lia|].
    replace (Z.to_nat (0 + Z.of_nat c - 1)) with k by lia.
    rewrite E. destruct (Z.leb_spec p (b + s)); [reflexivity|lia].
Qed.

Corollary file_of_unique files p k1 k2 b1 s1 b2 s2 :
  files_ok files -> nth_error files k1 = Some (b1, s1) -> nth_error files k2 = Some (b2, s2) ->
  b1 <= p <= b1 + s1 -> b2 <= p <= b2 + s2 -> k1 = k2.
Proof.
  intros Hok E1 E2 H1 H2.
  assert (A1: file_of files p = Some k1) by (apply file_of_spec; eauto).
  assert (A2: file_of files p = Some k2) by (apply file_of_spec; eauto).
  congruence.
Qed.

(* ---------- every line table built by AddLine meets the hypotheses of the theorems above ---------- *)

Lemma sorted_snoc lines off :
  sorted lines -> (lines = [] \/ nth (length lines - 1) lines 0 < off) -> sorted (lines ++ [off]).
Proof.
  intros Hs Hl p q Hpq. rewrite app_length in Hpq. simpl in Hpq.
  destruct (Nat.lt_ge_cases q (length lines)) as [Hq|Hq].
  - rewrite !app_nth1 by lia. apply Hs. lia.
  - assert (q = length lines) by lia. subst q.
    rewrite (app_nth2 lines [off] 0 (n := length lines)) by lia. rewrite Nat.sub_diag. simpl.
    rewrite app_nth1 by lia.
    destruct Hl as [->|Hl]; [simpl in Hpq; lia|].
    destruct (Nat.eq_dec p (length lines - 1)) as [->|Hne]; [exact Hl|].
    specialize (Hs p (length lines - 1)%nat ltac:(lia)). lia.
Qed.

Definition table_ok (lines : list Z) : Prop := sorted lines /\ nth 0 lines 1 = 0.

Lemma add_line_ok size lines off : table_ok lines -> table_ok (add_line size lines off).
Proof.
  intros [Hs H0]. unfold add_line.
  destruct ((Nat.eqb (length lines) 0 || (nth (length lines - 1) lines 0 <? off)) && (off <? size)) eqn:E;
    [|split; assumption].
  apply andb_prop in E as [E _]. apply orb_prop in E.
  split.
  - apply sorted_snoc; [exact Hs|].
    destruct E as [E|E].
    + left. apply Nat.eqb_eq in E. destruct lines; [reflexivity|discriminate].
    + right. apply Z.ltb_lt. exact E.
  - destruct lines as [|y r]; [simpl in H0; lia|exact H0].
Qed.

Theorem add_lines_ok size offs : table_ok (add_lines size offs).
Proof.
  unfold add_lines.
  assert (H: table_ok [0]) by (split; [intros p q Hpq; simpl in Hpq; lia | reflexivity]).
  revert H. generalize [0]. induction offs as [|o r IH]; intros l Hl; simpl; [exact Hl|].
  apply IH. apply add_line_ok. exact Hl.
Qed.

(* hence on every table a scanner can build, every offset is reported at the unique line that
   contains it (no sortedness hypothesis left) *)
Corollary unpack_correct_reachable size offs off :
  0 <= off ->
  let lines := add_lines size offs in
  exists k, (k < length lines)%nat /\
    unpack lines off = (Z.of_nat k + 1, off - nth k lines 0 + 1) /\
    nth k lines 0 <= off /\ (forall q, (k < q < length lines)%nat -> off < nth q lines 0).
Proof.
  intros Hoff lines. destruct (add_lines_ok size offs) as [Hs H0].
  exact (unpack_correct lines off Hs H0 Hoff).
Qed.

(* ---------- the nearest-lower lookup of the source map at run time ---------- *)
Lemma source_pos_nat_spec m ip :
  (exists k, (k <= ip)%nat /\ sm_get m (Z.of_nat k) = Some (source_pos_nat m ip) /\
             forall j, (k < j <= ip)%nat -> sm_get m (Z.of_nat j) = None) \/
  (source_pos_nat m ip = 0 /\ forall j, (j <= ip)%nat -> sm_get m (Z.of_nat j) = None).
Proof.
  induction ip as [|n IH].
  - cbn [source_pos_nat]. destruct (sm_get m (Z.of_nat 0)) as [p|] eqn:E.
    + left. exists 0%nat. split; [lia|]. split; [exact E|]. intros j Hj. lia.
    + right. split; [reflexivity|]. intros j Hj. assert (j = 0)%nat by lia. subst j. exact E.
  - cbn [source_pos_nat]. destruct (sm_get m (Z.of_nat (S n))) as [p|] eqn:E.
    + left. exists (S n). split; [lia|]. split; [exact E|]. intros j Hj. lia.
    + destruct IH as [[k [Hk [Hg Hn]]]|[H0 Hn]].
      * left. exists k. split; [lia|]. split; [exact Hg|]. intros j Hj.
        destruct (Nat.eq_dec j (S n)) as [->|Hne]; [exact E|]. apply Hn. lia.
      * right. split; [exact H0|]. intros j Hj.
        destruct (Nat.eq_dec j (S n)) as [->|Hne]; [exact E|]. apply Hn. lia.
Qed.

(* the position returned for ip is the one recorded at the greatest recorded instruction offset
   at or below ip; it is NoPos exactly when ip is negative or nothing is recorded at or below it
   (or NoPos itself was recorded there) *)
Theorem source_pos_spec m ip :
  (0 <= ip /\ exists k, 0 <= k <= ip /\ sm_get m k = Some (source_pos m ip) /\
                       forall j, k < j <= ip -> sm_get m j = None) \/
  (source_pos m ip = 0 /\ forall j, 0 <= j <= ip -> sm_get m j = None).
Proof.
  unfold source_pos. destruct (Z.ltb_spec ip 0) as [Hneg|Hpos].
  - right. split; [reflexivity|]. intros j Hj. lia.
  - destruct (source_pos_nat_spec m (Z.to_nat ip)) as [[k [Hk [Hg Hn]]]|[H0 Hn]].
    + left. split; [exact Hpos|]. exists (Z.of_nat k). split; [lia|]. split; [exact Hg|].
      intros j Hj. specialize (Hn (Z.to_nat j) ltac:(lia)).
      replace (Z.of_nat (Z.to_nat j)) with j in Hn by lia. exact Hn.
    + right. split; [exact H0|]. intros j Hj. specialize (Hn (Z.to_nat j) ltac:(lia)).
      replace (Z.of_nat (Z.to_nat j)) with j in Hn by lia. exact Hn.
Qed.
