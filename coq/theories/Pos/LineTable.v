(* Line tables of parser/source_file.go: searchInts (hand-inlined binary search), unpack,
   file lookup in a file set.  Property C16. *)
From Coq Require Import List ZArith Bool Lia.
Import ListNotations.
Local Open Scope Z_scope.

(* the loop of searchInts: i, j := 0, len(a); for i < j { h := i + (j-i)/2; ... }; return i - 1 *)
Fixpoint bs_loop (fuel : nat) (a : list Z) (x : Z) (i j : nat) : nat :=
  match fuel with
  | O => i
  | S f =>
      if Nat.ltb i j then
        let h := (i + (j - i) / 2)%nat in
        if nth h a 0 <=? x then bs_loop f a x (S h) j else bs_loop f a x i h
      else i
  end.

Definition search_ints (a : list Z) (x : Z) : Z :=
  Z.of_nat (bs_loop (S (length a)) a x 0 (length a)) - 1.

(* unpack: (line, column), both 1-based; (0, 0) when the search fails *)
Definition unpack (lines : list Z) (offset : Z) : Z * Z :=
  let i := search_ints lines offset in
  if 0 <=? i then (i + 1, offset - nth (Z.to_nat i) lines 0 + 1) else (0, 0).

(* specification: number of entries <= x in a sorted table *)
Fixpoint count_le (a : list Z) (x : Z) : nat :=
  match a with
  | [] => 0%nat
  | y :: r => if y <=? x then S (count_le r x) else 0%nat
  end.

Definition sorted (a : list Z) : Prop :=
  forall p q, (p < q < length a)%nat -> nth p a 0 < nth q a 0.

(* the line table of k blank lines followed by a text with table [lines] *)
Definition shift_lines (k : nat) (lines : list Z) : list Z :=
  map Z.of_nat (seq 0 k) ++ map (fun o => o + Z.of_nat k) lines.

(* files of a file set: (base, size); file lookup returns the index of the file containing p *)
Fixpoint search_files (files : list (Z * Z)) (p : Z) (i : Z) : Z :=
  match files with
  | [] => i - 1
  | (base, _) :: r => if p <? base then i - 1 else search_files r p (i + 1)
  end.

Definition file_of (files : list (Z * Z)) (p : Z) : option nat :=
  let i := search_files files p 0 in
  if i <? 0 then None
  else match nth_error files (Z.to_nat i) with
       | Some (base, size) => if p <=? base + size then Some (Z.to_nat i) else None
       | None => None
       end.

(* SourceFile.AddLine: the offset is appended when it lies above the last entry and inside the file;
   a file starts with the table [0] (AddFile) *)
Definition add_line (size : Z) (lines : list Z) (off : Z) : list Z :=
  if (Nat.eqb (length lines) 0 || (nth (length lines - 1) lines 0 <? off)) && (off <? size)
  then lines ++ [off] else lines.

Definition add_lines (size : Z) (offs : list Z) : list Z := fold_left (add_line size) offs [0].

(* CompiledFunction.SourcePos (bytecode.go): the position recorded for the nearest instruction at
   or below ip, NoPos (0) when there is none or ip is negative.  The source map (a Go map) is a
   list of (ip, pos) pairs with distinct keys; the first binding of a key counts. *)
Fixpoint sm_get (m : list (Z * Z)) (k : Z) : option Z :=
  match m with
  | [] => None
  | (k', p) :: r => if k' =? k then Some p else sm_get r k
  end.

Fixpoint source_pos_nat (m : list (Z * Z)) (ip : nat) : Z :=
  match sm_get m (Z.of_nat ip) with
  | Some p => p
  | None => match ip with O => 0 | S k => source_pos_nat m k end
  end.

Definition source_pos (m : list (Z * Z)) (ip : Z) : Z :=
  if ip <? 0 then 0 else source_pos_nat m (Z.to_nat ip).
