(* Laws of the operator model (property C15). *)
From Coq Require Import List ZArith Bool Lia String Floats.SpecFloat.
From Ugo Require Import Base.Res Base.GoInt Base.GoFloat Base.FloatLemmas Value.PValue Value.Ops.
Import ListNotations.
Local Open Scope Z_scope.

(* ---------- byte strings ---------- *)

Lemma byte_val_inj x y : byte_val x = byte_val y -> x = y.
Proof.
  unfold byte_val. intros H. apply N2Z.inj in H.
  pose proof (Byte.of_to_N x) as Hx. pose proof (Byte.of_to_N y) as Hy.
  rewrite H in Hx. rewrite Hx in Hy. inversion Hy. reflexivity.
Qed.

Lemma bstr_cmp_antisym a b : bstr_cmp b a = CompOpp (bstr_cmp a b).
Proof.
  revert b. induction a as [|x xs IH]; intros [|y ys]; simpl; try reflexivity.
  rewrite (Z.compare_antisym (byte_val x) (byte_val y)).
  destruct (byte_val x ?= byte_val y); simpl; try reflexivity. apply IH.
Qed.

Lemma bstr_cmp_eq a b : bstr_cmp a b = Eq <-> a = b.
Proof.
  revert b. induction a as [|x xs IH]; intros [|y ys]; simpl; split; intros H; try reflexivity; try discriminate.
  - destruct (byte_val x ?= byte_val y) eqn:E; try discriminate.
    apply Z.compare_eq in E. apply byte_val_inj in E. subst. f_equal. apply IH. exact H.
  - inversion H; subst. rewrite Z.compare_refl. apply IH. reflexivity.
Qed.

Lemma bstr_eqb_true a b : bstr_eqb a b = true <-> a = b.
Proof.
  unfold bstr_eqb. split; intros H.
  - apply bstr_cmp_eq. destruct (bstr_cmp a b); try discriminate; reflexivity.
  - apply bstr_cmp_eq in H. rewrite H. reflexivity.
Qed.

Lemma bstr_eqb_sym a b : bstr_eqb a b = bstr_eqb b a.
Proof. unfold bstr_eqb. rewrite (bstr_cmp_antisym a b). destruct (bstr_cmp a b); reflexivity. Qed.

Lemma bstr_eqb_refl a : bstr_eqb a a = true.
Proof. apply bstr_eqb_true. reflexivity. Qed.

(* ---------- well-formed values: map keys are unique ---------- *)

Fixpoint nodup_keys (ks : list bstr) : bool :=
  match ks with
  | [] => true
  | k :: r => negb (existsb (bstr_eqb k) r) && nodup_keys r
  end.

Fixpoint wfb (v : pvalue) : bool :=
  match v with
  | PArr l => forallb wfb l
  | PMap m | PSyncMap m => nodup_keys (map fst m) && forallb (fun kv => wfb (snd kv)) m
  | _ => true
  end.

Lemma nodup_keys_NoDup ks : nodup_keys ks = true -> NoDup ks.
Proof.
  induction ks as [|k r IH]; simpl; intros H; constructor.
  - apply andb_true_iff in H as [H1 _]. apply negb_true_iff in H1.
    intros Hin. assert (existsb (bstr_eqb k) r = true).
    { apply existsb_exists. exists k. split; [exact Hin | apply bstr_eqb_refl]. }
    congruence.
  - apply IH. apply andb_true_iff in H as [_ H2]. exact H2.
Qed.

(* ---------- map equality ---------- *)

Definition map_sub (e : pvalue -> pvalue -> bool) (o v : list (bstr * pvalue)) : bool :=
  (fix go (o' : list (bstr * pvalue)) : bool :=
     match o' with
     | [] => true
     | (k, x) :: rest =>
         match lookup k v with
         | None => false
         | Some y => if e x y then go rest else false
         end
     end) o.

Lemma equal_map_unfold o v :
  equal (PMap o) (PMap v) = Nat.eqb (List.length o) (List.length v) && map_sub equal o v.
Proof. reflexivity. Qed.

Lemma lookup_In k v y : lookup k v = Some y -> In (k, y) v.
Proof.
  induction v as [|[k' z] r IH]; simpl; intros H; try discriminate.
  destruct (bstr_eqb k k') eqn:E.
  - apply bstr_eqb_true in E. inversion H; subst. left. reflexivity.
  - right. apply IH. exact H.
Qed.

Lemma In_lookup k y v : NoDup (map fst v) -> In (k, y) v -> lookup k v = Some y.
Proof.
  induction v as [|[k' z] r IH]; simpl; intros Hnd Hin; [contradiction|].
  inversion Hnd as [|? ? Hnotin Hnd']; subst.
  destruct Hin as [Heq|Hin].
  - inversion Heq; subst. rewrite bstr_eqb_refl. reflexivity.
  - destruct (bstr_eqb k k') eqn:E.
    + apply bstr_eqb_true in E. subst. exfalso. apply Hnotin.
      apply in_map_iff. exists (k', y). split; [reflexivity | exact Hin].
    + apply IH; assumption.
Qed.

Lemma map_sub_spec e o v :
  map_sub e o v = true <->
  (forall k x, In (k, x) o -> exists y, lookup k v = Some y /\ e x y = true).
Proof.
  unfold map_sub. induction o as [|[k x] rest IH]; split; intros H.
  - intros ? ? [].
  - reflexivity.
  - destruct (lookup k v) as [y|] eqn:E; try discriminate.
    destruct (e x y) eqn:Ee; try discriminate.
    intros k0 x0 [Heq|Hin].
    + inversion Heq; subst. exists y. split; assumption.
    + apply (proj1 IH H). exact Hin.
  - destruct (H k x (or_introl eq_refl)) as [y [Hy He]]. rewrite Hy, He.
    apply (proj2 IH). intros k0 x0 Hin. apply H. right. exact Hin.
Qed.

Lemma map_sub_flip (e1 e2 : pvalue -> pvalue -> bool) o v :
  (forall k x y, In (k, x) o -> In (k, y) v -> e1 x y = true -> e2 y x = true) ->
  NoDup (map fst o) -> NoDup (map fst v) -> List.length o = List.length v ->
  map_sub e1 o v = true -> map_sub e2 v o = true.
Proof.
  intros Hsym Hno Hnv Hlen Hsub.
  pose proof (proj1 (map_sub_spec e1 o v) Hsub) as Hs.
  assert (Hincl: incl (map fst o) (map fst v)).
  { intros k Hk. apply in_map_iff in Hk as [[k' x] [Hk Hin]]. simpl in Hk. subst.
    destruct (Hs _ _ Hin) as [y [Hy _]]. apply lookup_In in Hy.
    apply in_map_iff. exists (k, y). split; [reflexivity | exact Hy]. }
  assert (Hincl': incl (map fst v) (map fst o)).
  { apply NoDup_length_incl; [exact Hno | rewrite !map_length; lia | exact Hincl]. }
  apply (proj2 (map_sub_spec e2 v o)).
  intros k y Hin.
  assert (Hk: In k (map fst o)).
  { apply Hincl'. apply in_map_iff. exists (k, y). split; [reflexivity | exact Hin]. }
  apply in_map_iff in Hk as [[k' x] [Hk Hino]]. simpl in Hk. subst.
  exists x. split; [apply In_lookup; assumption|].
  destruct (Hs _ _ Hino) as [y' [Hy' He]].
  assert (y' = y).
  { pose proof (In_lookup _ _ _ Hnv Hin) as Hl. rewrite Hl in Hy'. inversion Hy'. reflexivity. }
  subst. eapply Hsym; eassumption.
Qed.

Lemma map_equal_sym o v :
  (forall k x y, In (k, x) o -> In (k, y) v -> equal x y = equal y x) ->
  NoDup (map fst o) -> NoDup (map fst v) ->
  (Nat.eqb (List.length o) (List.length v) && map_sub equal o v) =
  (Nat.eqb (List.length v) (List.length o) && map_sub equal v o).
Proof.
  intros IH Hno Hnv. rewrite (Nat.eqb_sym (List.length v)).
  destruct (Nat.eqb (List.length o) (List.length v)) eqn:El; simpl; [|reflexivity].
  apply Nat.eqb_eq in El.
  destruct (map_sub equal o v) eqn:E1, (map_sub equal v o) eqn:E2; try reflexivity.
  - assert (map_sub equal v o = true); [|congruence].
    apply (map_sub_flip equal equal o v); try assumption.
    intros k x y Hx Hy He. rewrite <- (IH _ _ _ Hx Hy). exact He.
  - assert (map_sub equal o v = true); [|congruence].
    apply (map_sub_flip equal equal v o); try assumption; try lia.
    intros k y x Hy Hx He. rewrite (IH _ _ _ Hx Hy). exact He.
Qed.

Lemma equal_map_cases o r :
  equal (PMap o) r = match r with
                     | PMap v | PSyncMap v => Nat.eqb (List.length o) (List.length v) && map_sub equal o v
                     | _ => false
                     end.
Proof. destruct r; reflexivity. Qed.
Lemma equal_syncmap_cases o r :
  equal (PSyncMap o) r = match r with
                     | PMap v | PSyncMap v => Nat.eqb (List.length o) (List.length v) && map_sub equal o v
                     | _ => false
                     end.
Proof. destruct r; reflexivity. Qed.

Definition arr_equal (e : pvalue -> pvalue -> bool) : list pvalue -> list pvalue -> bool :=
  fix go (o' v' : list pvalue) : bool :=
    match o', v' with
    | [], [] => true
    | x :: xs, y :: ys => if e x y then go xs ys else false
    | _, _ => false
    end.

Lemma equal_arr_unfold o v : equal (PArr o) (PArr v) = arr_equal equal o v.
Proof. reflexivity. Qed.

Lemma arr_equal_sym o v :
  (forall x y, In x o -> In y v -> equal x y = equal y x) ->
  arr_equal equal o v = arr_equal equal v o.
Proof.
  revert v. induction o as [|x xs IH]; intros [|y ys] H; simpl; try reflexivity.
  rewrite (H x y (or_introl eq_refl) (or_introl eq_refl)).
  destruct (equal y x); [|reflexivity].
  apply IH. intros x' y' Hx Hy. apply H; right; assumption.
Qed.

Lemma wfb_map_parts m :
  (nodup_keys (map fst m) && forallb (fun kv => wfb (snd kv)) m) = true ->
  NoDup (map fst m) /\ (forall k x, In (k, x) m -> wfb x = true).
Proof.
  intros H. apply andb_true_iff in H as [H1 H2]. split; [apply nodup_keys_NoDup; exact H1|].
  intros k x Hin. rewrite forallb_forall in H2. apply (H2 (k, x) Hin).
Qed.

(* ---------- a == b  <->  b == a ---------- *)

Theorem equal_sym a : forall b, wfb a = true -> wfb b = true -> equal a b = equal b a.
Proof.
  induction a as [ | x | x | x | x | x | s | s | l IH | m IH | m IH | i n msg | i e n msg | i | t p ]
    using pvalue_ind'; intros b Ha Hb.
  - destruct b; reflexivity.
  - destruct b as [ | y | y | y | y | y | | | | | | | | | ]; try reflexivity; simpl;
      try apply Z.eqb_sym; try apply feqb_sym; try (destruct x, y; reflexivity).
  - destruct b; try reflexivity; simpl; try apply Z.eqb_sym; try apply feqb_sym.
  - destruct b; try reflexivity; simpl; try apply Z.eqb_sym; try apply feqb_sym.
  - destruct b; try reflexivity; simpl; apply feqb_sym.
  - destruct b; try reflexivity; simpl; try apply Z.eqb_sym; try apply feqb_sym.
  - destruct b; try reflexivity; simpl; apply bstr_eqb_sym.
  - destruct b; try reflexivity; simpl; apply bstr_eqb_sym.
  - destruct b as [ | | | | | | | | l' | | | | | | ]; try reflexivity. rewrite !equal_arr_unfold.
    apply arr_equal_sym. simpl in Ha, Hb.
    rewrite Forall_forall in IH. rewrite forallb_forall in Ha, Hb.
    intros x y Hx Hy. apply IH; auto.
  - destruct (wfb_map_parts _ Ha) as [Hnd Hwf].
    rewrite Forall_forall in IH.
    rewrite equal_map_cases.
    destruct b as [ | | | | | | | | | m' | m' | | | | ]; try reflexivity.
    + rewrite equal_map_cases. destruct (wfb_map_parts _ Hb) as [Hnd' Hwf'].
      apply map_equal_sym; [| exact Hnd | exact Hnd'].
      intros k x y Hx Hy. apply (IH (k, x) Hx); [apply (Hwf _ _ Hx) | apply (Hwf' _ _ Hy)].
    + rewrite equal_syncmap_cases. destruct (wfb_map_parts _ Hb) as [Hnd' Hwf'].
      apply map_equal_sym; [| exact Hnd | exact Hnd'].
      intros k x y Hx Hy. apply (IH (k, x) Hx); [apply (Hwf _ _ Hx) | apply (Hwf' _ _ Hy)].
  - destruct (wfb_map_parts _ Ha) as [Hnd Hwf].
    rewrite Forall_forall in IH.
    rewrite equal_syncmap_cases.
    destruct b as [ | | | | | | | | | m' | m' | | | | ]; try reflexivity.
    + rewrite equal_map_cases. destruct (wfb_map_parts _ Hb) as [Hnd' Hwf'].
      apply map_equal_sym; [| exact Hnd | exact Hnd'].
      intros k x y Hx Hy. apply (IH (k, x) Hx); [apply (Hwf _ _ Hx) | apply (Hwf' _ _ Hy)].
    + rewrite equal_syncmap_cases. destruct (wfb_map_parts _ Hb) as [Hnd' Hwf'].
      apply map_equal_sym; [| exact Hnd | exact Hnd'].
      intros k x y Hx Hy. apply (IH (k, x) Hx); [apply (Hwf _ _ Hx) | apply (Hwf' _ _ Hy)].
  - destruct b; try reflexivity; simpl; apply Z.eqb_sym.
  - destruct b; try reflexivity; simpl; apply Z.eqb_sym.
  - destruct b; try reflexivity; simpl; apply bstr_eqb_sym.
  - destruct b; reflexivity.
Qed.

Theorem neq_negb a b : vm_not_equal a b = PBool (negb (match vm_equal a b with PBool x => x | _ => false end)).
Proof. reflexivity. Qed.

(* ---------- no Go panic ---------- *)

Lemma int_binop_no_panic wrap bits signed mk t a b e :
  is_panic (int_binop wrap bits signed mk t a b e) = false.
Proof.
  unfold int_binop. destruct t; try reflexivity.
  - destruct (b =? 0); reflexivity.
  - destruct (b =? 0); reflexivity.
  - destruct (signed && (b <? 0)); reflexivity.
  - destruct (signed && (b <? 0)); reflexivity.
Qed.

Lemma float_float_binop_no_panic t a b e : is_panic (float_float_binop t a b e) = false.
Proof. unfold float_float_binop. destruct t; try reflexivity. destruct (feqb b _); reflexivity. Qed.

Lemma undef_right_no_panic t e : is_panic (undef_right t e) = false.
Proof. destruct t; reflexivity. Qed.

Lemma cmp_binop_no_panic t c e : is_panic (cmp_binop t c e) = false.
Proof. destruct t; reflexivity. Qed.

Lemma float_binop_no_panic t o r : is_panic (float_binop t o r) = false.
Proof.
  unfold float_binop. destruct r; try reflexivity;
    try apply float_float_binop_no_panic; apply undef_right_no_panic.
Qed.

Lemma uint_binop_no_panic t o r : is_panic (uint_binop t o r) = false.
Proof.
  unfold uint_binop. destruct r; try reflexivity;
    try apply int_binop_no_panic; try apply float_binop_no_panic; try apply undef_right_no_panic.
  destruct t; reflexivity.
Qed.

Lemma int_binop'_no_panic t o r : is_panic (int_binop' t o r) = false.
Proof.
  unfold int_binop'. destruct r; try reflexivity;
    try apply int_binop_no_panic; try apply float_binop_no_panic; try apply undef_right_no_panic;
    try apply uint_binop_no_panic.
  destruct t; reflexivity.
Qed.

Lemma char_binop_no_panic t o r : is_panic (char_binop t o r) = false.
Proof.
  unfold char_binop. destruct r; try reflexivity;
    try apply int_binop_no_panic; try apply undef_right_no_panic; destruct t; reflexivity.
Qed.

Lemma bool_binop_no_panic t o r : is_panic (bool_binop t o r) = false.
Proof.
  unfold bool_binop. destruct r; try reflexivity;
    try apply int_binop_no_panic; try apply undef_right_no_panic.
Qed.

Lemma string_binop_no_panic t o r : is_panic (string_binop t o r) = false.
Proof.
  unfold string_binop. destruct r; destruct t; try reflexivity;
    try (destruct (to_string_simple _); reflexivity).
Qed.

Lemma bytes_binop_no_panic t o r : is_panic (bytes_binop t o r) = false.
Proof.
  unfold bytes_binop. destruct r; try reflexivity; try apply undef_right_no_panic;
    destruct t; reflexivity.
Qed.

Theorem binop_no_panic t a b : is_panic (binop t a b) = false.
Proof.
  destruct a; simpl.
  - unfold undef_binop. destruct b, t; reflexivity.
  - apply bool_binop_no_panic.
  - apply int_binop'_no_panic.
  - apply uint_binop_no_panic.
  - apply float_binop_no_panic.
  - apply char_binop_no_panic.
  - apply string_binop_no_panic.
  - apply bytes_binop_no_panic.
  - unfold array_binop. destruct t, b; reflexivity.
  - unfold map_binop. destruct b; try reflexivity. apply undef_right_no_panic.
  - unfold map_binop. destruct b; try reflexivity. apply undef_right_no_panic.
  - reflexivity.
  - reflexivity.
  - reflexivity.
  - reflexivity.
Qed.

Theorem unop_no_panic t a : is_panic (unop t a) = false.
Proof.
  destruct t; simpl; try reflexivity; destruct a; try reflexivity.
Qed.

(* an undefined operation on numeric operands is a TypeError or a ZeroDivisionError *)
Definition numeric (v : pvalue) : bool :=
  match v with PInt _ | PUint _ | PFloat _ | PChar _ | PBool _ => true | _ => false end.

Definition documented_error (e : uerror) : bool :=
  bstr_eqb (err_name e) (bs "TypeError") || bstr_eqb (err_name e) (bs "ZeroDivisionError").

Lemma int_binop_err wrap bits signed mk t a b e e' :
  documented_error e = true -> int_binop wrap bits signed mk t a b e = Err e' -> documented_error e' = true.
Proof.
  intros He. unfold int_binop. destruct t; try discriminate; try (intros H; inversion H; subst; exact He).
  - destruct (b =? 0); intros H; inversion H; reflexivity.
  - destruct (b =? 0); intros H; inversion H; reflexivity.
  - destruct (signed && (b <? 0)); intros H; inversion H; reflexivity.
  - destruct (signed && (b <? 0)); intros H; inversion H; reflexivity.
Qed.

Lemma float_float_binop_err t a b e e' :
  documented_error e = true -> float_float_binop t a b e = Err e' -> documented_error e' = true.
Proof.
  intros He. unfold float_float_binop. destruct t; try discriminate; try (intros H; inversion H; subst; exact He).
  destruct (feqb b _); intros H; inversion H; reflexivity.
Qed.

Lemma type_error_documented t l r : documented_error (operand_type_error t l r) = true.
Proof. reflexivity. Qed.

Theorem numeric_errors_documented t a b e :
  numeric a = true -> numeric b = true -> binop t a b = Err e -> documented_error e = true.
Proof.
  destruct a, b; try discriminate; intros _ _; simpl;
    unfold bool_binop, int_binop', uint_binop, float_binop, char_binop; simpl;
    try (apply int_binop_err; apply type_error_documented);
    try (apply float_float_binop_err; apply type_error_documented);
    try (destruct t; intros H; inversion H; reflexivity).
Qed.

(* ---------- agreement with the declarative specification ---------- *)
From Ugo Require Import Value.OpsSpec.

Lemma int_binop_ok_spec wrap bits signed mk t a b e e' v :
  int_binop wrap bits signed mk t a b e = Ok v ->
  match int_binop wrap bits signed mk t a b e' with Ok v' => Some v' | _ => None end = Some v.
Proof.
  unfold int_binop. destruct t; try discriminate; try (intros H; inversion H; reflexivity).
  - destruct (b =? 0); try discriminate. intros H; inversion H; reflexivity.
  - destruct (b =? 0); try discriminate. intros H; inversion H; reflexivity.
  - destruct (signed && (b <? 0)); try discriminate. intros H; inversion H; reflexivity.
  - destruct (signed && (b <? 0)); try discriminate. intros H; inversion H; reflexivity.
Qed.

Lemma float_binop_ok_spec t a b e e' v :
  float_float_binop t a b e = Ok v ->
  match float_float_binop t a b e' with Ok v' => Some v' | _ => None end = Some v.
Proof.
  unfold float_float_binop. destruct t; try discriminate; try (intros H; inversion H; reflexivity).
  destruct (feqb b _); try discriminate. intros H; inversion H; reflexivity.
Qed.

Theorem arith_spec t a b v :
  numeric a = true -> numeric b = true -> arith_tok t = true ->
  binop t a b = Ok v -> spec_binop t a b = Some v.
Proof.
  intros Ha Hb Ht. unfold spec_binop. rewrite Ht. simpl negb. cbv iota.
  destruct a, b; try discriminate Ha; try discriminate Hb; clear Ha Hb;
    cbn [binop bool_binop int_binop' uint_binop float_binop char_binop join conv_int conv_float];
    try (apply int_binop_ok_spec); try (apply float_binop_ok_spec);
    try (destruct t; try discriminate Ht; try discriminate; intros H; inversion H; reflexivity).
Qed.

(* ---------- relational laws ---------- *)

Definition rel (t : tok) (a b : pvalue) : option bool :=
  match binop t a b with Ok (PBool r) => Some r | _ => None end.
Definition is_some {A} (o : option A) : bool := match o with Some _ => true | None => false end.
Definition cmp_defined (a b : pvalue) : bool :=
  is_some (rel TLess a b) && is_some (rel TLessEq a b) && is_some (rel TGreater a b) && is_some (rel TGreaterEq a b) &&
  is_some (rel TLess b a) && is_some (rel TLessEq b a) && is_some (rel TGreater b a) && is_some (rel TGreaterEq b a).
Definition has_nan (v : pvalue) : bool := match v with PFloat f => is_nan f | _ => false end.
Definition one_true (x y z : bool) : bool :=
  (x && negb y && negb z) || (negb x && y && negb z) || (negb x && negb y && z).

Definition laws (a b : pvalue) : Prop :=
  exists lt gt, rel TLess a b = Some lt /\ rel TGreater a b = Some gt /\
    one_true lt (equal a b) gt = true /\
    rel TLessEq a b = Some (lt || equal a b) /\
    rel TGreaterEq a b = Some (gt || equal a b) /\
    rel TGreater b a = Some lt.

Lemma zlaws x y :
  one_true (x <? y) (x =? y) (y <? x) = true /\
  (x <=? y) = (x <? y) || (x =? y) /\ (y <=? x) = (y <? x) || (x =? y).
Proof.
  destruct (Z.ltb_spec x y), (Z.eqb_spec x y), (Z.ltb_spec y x), (Z.leb_spec x y), (Z.leb_spec y x);
    try lia; repeat split; reflexivity.
Qed.

Lemma flaws x y : is_nan x = false -> is_nan y = false ->
  one_true (fltb x y) (feqb x y) (fltb y x) = true /\
  fleb x y = fltb x y || feqb x y /\ fleb y x = fltb y x || feqb x y.
Proof.
  intros Hx Hy. rewrite (fleb_spec x y), (fleb_spec y x), (feqb_sym y x).
  destruct (float_trichotomy x y Hx Hy) as [[A [B C]]|[[A [B C]]|[A [B C]]]]; rewrite A, B, C; repeat split; reflexivity.
Qed.

Lemma claws (c : comparison) :
  one_true (match c with Lt => true | _ => false end) (match c with Eq => true | _ => false end)
           (match c with Gt => true | _ => false end) = true.
Proof. destruct c; reflexivity. Qed.

Ltac zl x y := destruct (zlaws x y) as [? [? ?]].

Opaque u64 i64 i32 f64_of_Z fltb feqb fleb bstr_cmp Z.ltb Z.leb Z.eqb.

Lemma laws_int x y eqv :
  eqv = (x =? y) ->
  exists lt gt, Some (x <? y) = Some lt /\ Some (y <? x) = Some gt /\
    one_true lt eqv gt = true /\ Some (x <=? y) = Some (lt || eqv) /\ Some (y <=? x) = Some (gt || eqv) /\
    Some (x <? y) = Some lt.
Proof.
  intros ->. zl x y. exists (x <? y), (y <? x). repeat split; try assumption; f_equal; assumption.
Qed.

Lemma laws_float x y eqv :
  is_nan x = false -> is_nan y = false -> eqv = feqb x y ->
  exists lt gt, Some (fltb x y) = Some lt /\ Some (fltb y x) = Some gt /\
    one_true lt eqv gt = true /\ Some (fleb x y) = Some (lt || eqv) /\ Some (fleb y x) = Some (gt || eqv) /\
    Some (fltb x y) = Some lt.
Proof.
  intros Hx Hy ->. destruct (flaws x y Hx Hy) as [? [? ?]].
  exists (fltb x y), (fltb y x). repeat split; try assumption; f_equal; assumption.
Qed.

Lemma laws_cmp (c c' : comparison) eqv :
  c' = CompOpp c -> eqv = match c with Eq => true | _ => false end ->
  exists lt gt, Some (match c with Lt => true | _ => false end) = Some lt /\
    Some (match c with Gt => true | _ => false end) = Some gt /\
    one_true lt eqv gt = true /\
    Some (match c with Gt => false | _ => true end) = Some (lt || eqv) /\
    Some (match c with Lt => false | _ => true end) = Some (gt || eqv) /\
    Some (match c' with Gt => true | _ => false end) = Some lt.
Proof. intros -> ->. destruct c; do 2 eexists; repeat split; reflexivity. Qed.

Theorem cmp_laws a b :
  cmp_defined a b = true -> has_nan a = false -> has_nan b = false -> laws a b.
Proof.
  intros Hd Ha Hb. unfold laws, rel.
  destruct a as [ | x | x | x | x | x | x | x | x | x | x | i1 n1 m1 | i1 e1 n1 m1 | x | t1 p1 ],
           b as [ | y | y | y | y | y | y | y | y | y | y | i2 n2 m2 | i2 e2 n2 m2 | y | t2 p2 ];
    try (cbn in Hd; discriminate Hd); clear Hd; cbn in Ha, Hb;
    cbn [binop bool_binop int_binop' uint_binop float_binop char_binop string_binop bytes_binop
         array_binop map_binop undef_binop undef_right int_int_binop uint_uint_binop char_char_binop
         int_binop float_float_binop cmp_binop equal b2z];
    first
      [ apply laws_int; first [ reflexivity | apply Z.eqb_sym | (destruct x, y; vm_compute; reflexivity) ]
      | apply laws_float; first [ assumption | apply f64_of_Z_not_nan | reflexivity | apply feqb_sym ]
      | apply laws_cmp; [ apply bstr_cmp_antisym | reflexivity ]
      | do 2 eexists; repeat split; reflexivity
      ].
Qed.
