(* Faithful model of the operator methods of numeric.go / objects.go and of the
   VM dispatch (OpEqual, OpNotEqual, OpBinaryOp, xOpUnary) in vm.go.
   One function per Go method, named after it.  Definitions only. *)
From Coq Require Import List ZArith Bool String Floats.SpecFloat.
From Ugo Require Import Base.Res Base.GoInt Base.GoFloat Value.PValue.
Import ListNotations.
Local Open Scope Z_scope.

Inductive tok :=
| TAdd | TSub | TMul | TQuo | TRem | TAnd | TOr | TXor | TAndNot | TShl | TShr
| TLess | TLessEq | TGreater | TGreaterEq
| TNot            (* unary only *)
| TOther.         (* any other token value *)

Definition bs (s : String.string) : bstr := String.list_byte_of_string s.

Definition tok_string (t : tok) : bstr :=
  match t with
  | TAdd => bs "+" | TSub => bs "-" | TMul => bs "*" | TQuo => bs "/" | TRem => bs "%"
  | TAnd => bs "&" | TOr => bs "|" | TXor => bs "^" | TAndNot => bs "&^" | TShl => bs "<<" | TShr => bs ">>"
  | TLess => bs "<" | TLessEq => bs "<=" | TGreater => bs ">" | TGreaterEq => bs ">="
  | TNot => bs "!" | TOther => bs "?"
  end.

Definition type_name (v : pvalue) : bstr :=
  match v with
  | PUndef => bs "undefined" | PBool _ => bs "bool" | PInt _ => bs "int" | PUint _ => bs "uint"
  | PFloat _ => bs "float" | PChar _ => bs "char" | PStr _ => bs "string" | PBytes _ => bs "bytes"
  | PArr _ => bs "array" | PMap _ => bs "map" | PSyncMap _ => bs "syncMap"
  | PErr _ _ _ | PRtErr _ _ _ _ => bs "error" | PFn _ => bs "function" | POpaque t _ => t
  end.

Definition operand_type_error (t : tok) (l r : pvalue) : uerror :=
  mkErr (bs "TypeError")
    (bs "unsupported operand types for '" ++ tok_string t ++ bs "': '" ++ type_name l ++ bs "' and '" ++ type_name r ++ bs "'")%list.
Definition err_zero_division : uerror := mkErr (bs "ZeroDivisionError") [].
Definition err_negative_shift : uerror := mkErr (bs "TypeError") (bs "negative shift count").
Definition err_invalid_operator (t : tok) : uerror := mkErr (bs "InvalidOperatorError") (tok_string t).

Definition b2z (b : bool) : Z := if b then 1 else 0.

(* ---- Go integer operators at a fixed width.  wrap: the width's wrap function;
        bits: shift saturation bound; signed counts are checked by the caller. ---- *)
Definition shl_w (wrap : Z -> Z) (bits a n : Z) : Z := if bits <=? n then 0 else wrap (a * 2 ^ n).
Definition shr_w (bits a n : Z) : Z := if bits <=? n then (if a <? 0 then -1 else 0) else Z.shiftr a n.

Section IntOps.
  Variable wrap : Z -> Z.
  Variable bits : Z.
  Variable signed : bool.
  Variable mk : Z -> pvalue.

  (* the 15 binary operators on two operands of the same integer type *)
  Definition int_binop (t : tok) (a b : Z) (tyerr : uerror) : res pvalue :=
    match t with
    | TAdd => Ok (mk (wrap (a + b)))
    | TSub => Ok (mk (wrap (a - b)))
    | TMul => Ok (mk (wrap (a * b)))
    | TQuo => if b =? 0 then Err err_zero_division else Ok (mk (wrap (Z.quot a b)))
    | TRem => if b =? 0 then Err err_zero_division else Ok (mk (wrap (Z.rem a b)))
    | TAnd => Ok (mk (Z.land a b))
    | TOr => Ok (mk (Z.lor a b))
    | TXor => Ok (mk (Z.lxor a b))
    | TAndNot => Ok (mk (Z.ldiff a b))
    | TShl => if signed && (b <? 0) then Err err_negative_shift else Ok (mk (shl_w wrap bits a b))
    | TShr => if signed && (b <? 0) then Err err_negative_shift else Ok (mk (shr_w bits a b))
    | TLess => Ok (PBool (a <? b))
    | TLessEq => Ok (PBool (a <=? b))
    | TGreater => Ok (PBool (b <? a))
    | TGreaterEq => Ok (PBool (b <=? a))
    | _ => Err tyerr
    end.
End IntOps.

Definition int_int_binop := int_binop i64 64 true PInt.
Definition uint_uint_binop := int_binop u64 64 false PUint.
Definition char_char_binop := int_binop i32 32 true PChar.

Definition undef_right (t : tok) (tyerr : uerror) : res pvalue :=
  match t with
  | TLess | TLessEq => Ok (PBool false)
  | TGreater | TGreaterEq => Ok (PBool true)
  | _ => Err tyerr
  end.

Definition float_float_binop (t : tok) (a b : spec_float) (tyerr : uerror) : res pvalue :=
  match t with
  | TAdd => Ok (PFloat (fadd a b))
  | TSub => Ok (PFloat (fsub a b))
  | TMul => Ok (PFloat (fmul a b))
  | TQuo => if feqb b (S754_zero false) then Err err_zero_division else Ok (PFloat (fdiv a b))
  | TLess => Ok (PBool (fltb a b))
  | TLessEq => Ok (PBool (fleb a b))
  | TGreater => Ok (PBool (fltb b a))
  | TGreaterEq => Ok (PBool (fleb b a))
  | _ => Err tyerr
  end.

(* func (o Float) BinaryOp *)
Definition float_binop (t : tok) (o : spec_float) (right : pvalue) : res pvalue :=
  match right with
  | PFloat v => float_float_binop t o v (operand_type_error t (PFloat o) right)
  | PInt v => float_float_binop t o (f64_of_Z v) (operand_type_error t (PFloat o) (PFloat (f64_of_Z v)))
  | PUint v => float_float_binop t o (f64_of_Z v) (operand_type_error t (PFloat o) (PFloat (f64_of_Z v)))
  | PBool v => float_float_binop t o (f64_of_Z (b2z v)) (operand_type_error t (PFloat o) (PFloat (f64_of_Z (b2z v))))
  | PUndef => undef_right t (operand_type_error t (PFloat o) right)
  | _ => Err (operand_type_error t (PFloat o) right)
  end.

(* func (o Uint) BinaryOp *)
Definition uint_binop (t : tok) (o : Z) (right : pvalue) : res pvalue :=
  match right with
  | PUint v => uint_uint_binop t o v (operand_type_error t (PUint o) right)
  | PInt v => uint_uint_binop t o (u64 v) (operand_type_error t (PUint o) (PUint (u64 v)))
  | PFloat _ => float_binop t (f64_of_Z o) right
  | PChar v =>
      match t with
      | TAdd => Ok (PChar (i32 (i32 o + v)))
      | TSub => Ok (PChar (i32 (i32 o - v)))
      | TLess => Ok (PBool (o <? u64 v))
      | TLessEq => Ok (PBool (o <=? u64 v))
      | TGreater => Ok (PBool (u64 v <? o))
      | TGreaterEq => Ok (PBool (u64 v <=? o))
      | _ => Err (operand_type_error t (PUint o) right)
      end
  | PBool v => uint_uint_binop t o (b2z v) (operand_type_error t (PUint o) (PUint (b2z v)))
  | PUndef => undef_right t (operand_type_error t (PUint o) right)
  | _ => Err (operand_type_error t (PUint o) right)
  end.

(* func (o Int) BinaryOp *)
Definition int_binop' (t : tok) (o : Z) (right : pvalue) : res pvalue :=
  match right with
  | PInt v => int_int_binop t o v (operand_type_error t (PInt o) right)
  | PUint _ => uint_binop t (u64 o) right
  | PFloat _ => float_binop t (f64_of_Z o) right
  | PChar v =>
      match t with
      | TAdd => Ok (PChar (i32 (i32 o + v)))
      | TSub => Ok (PChar (i32 (i32 o - v)))
      | TLess => Ok (PBool (o <? v))
      | TLessEq => Ok (PBool (o <=? v))
      | TGreater => Ok (PBool (v <? o))
      | TGreaterEq => Ok (PBool (v <=? o))
      | _ => Err (operand_type_error t (PInt o) right)
      end
  | PBool v => int_int_binop t o (b2z v) (operand_type_error t (PInt o) (PInt (b2z v)))
  | PUndef => undef_right t (operand_type_error t (PInt o) right)
  | _ => Err (operand_type_error t (PInt o) right)
  end.

(* utf8 encoding of a rune as strings.Builder.WriteRune does (invalid -> U+FFFD) *)
Definition byte_of_Z (z : Z) : Byte.byte :=
  match Byte.of_N (Z.to_N (z mod 256)) with Some b => b | None => Byte.x00 end.

Definition utf8_encode (r : Z) : bstr :=
  let r := if (r <? 0) || (1114111 <? r) || ((55296 <=? r) && (r <=? 57343)) then 65533 else r in
  if r <? 128 then [byte_of_Z r]
  else if r <? 2048 then [byte_of_Z (192 + r / 64); byte_of_Z (128 + r mod 64)]
  else if r <? 65536 then [byte_of_Z (224 + r / 4096); byte_of_Z (128 + (r / 64) mod 64); byte_of_Z (128 + r mod 64)]
  else [byte_of_Z (240 + r / 262144); byte_of_Z (128 + (r / 4096) mod 64); byte_of_Z (128 + (r / 64) mod 64); byte_of_Z (128 + r mod 64)].

(* func (o Char) BinaryOp *)
Definition char_binop (t : tok) (o : Z) (right : pvalue) : res pvalue :=
  match right with
  | PChar v => char_char_binop t o v (operand_type_error t (PChar o) right)
  | PInt v =>
      match t with
      | TAdd => Ok (PChar (i32 (o + i32 v)))
      | TSub => Ok (PChar (i32 (o - i32 v)))
      | TLess => Ok (PBool (o <? v))
      | TLessEq => Ok (PBool (o <=? v))
      | TGreater => Ok (PBool (v <? o))
      | TGreaterEq => Ok (PBool (v <=? o))
      | _ => Err (operand_type_error t (PChar o) right)
      end
  | PUint v =>
      match t with
      | TAdd => Ok (PChar (i32 (o + i32 v)))
      | TSub => Ok (PChar (i32 (o - i32 v)))
      | TLess => Ok (PBool (u64 o <? v))
      | TLessEq => Ok (PBool (u64 o <=? v))
      | TGreater => Ok (PBool (v <? u64 o))
      | TGreaterEq => Ok (PBool (v <=? u64 o))
      | _ => Err (operand_type_error t (PChar o) right)
      end
  | PBool v => char_char_binop t o (b2z v) (operand_type_error t (PChar o) (PChar (b2z v)))
  | PStr v =>
      match t with
      | TAdd => Ok (PStr (utf8_encode o ++ v))
      | _ => Err (operand_type_error t (PChar o) right)
      end
  | PUndef => undef_right t (operand_type_error t (PChar o) right)
  | _ => Err (operand_type_error t (PChar o) right)
  end.

(* func (o Bool) BinaryOp; `goto switchpos` after replacing a Bool right operand by Int *)
Definition bool_binop (t : tok) (o : bool) (right : pvalue) : res pvalue :=
  let bval := b2z o in
  let right' := match right with PBool v => PInt (b2z v) | _ => right end in
  match right' with
  | PInt v => int_int_binop t bval v (operand_type_error t (PBool o) right')
  | PUint v => uint_uint_binop t bval v (operand_type_error t (PBool o) right')
  | PUndef => undef_right t (operand_type_error t (PBool o) right')
  | _ => Err (operand_type_error t (PBool o) right')
  end.

(* lexicographic comparison of byte strings, as Go compares strings *)
Definition byte_val (b : Byte.byte) : Z := Z.of_N (Byte.to_N b).
Fixpoint bstr_cmp (a b : bstr) : comparison :=
  match a, b with
  | [], [] => Eq
  | [], _ => Lt
  | _, [] => Gt
  | x :: xs, y :: ys =>
      match Z.compare (byte_val x) (byte_val y) with
      | Eq => bstr_cmp xs ys
      | c => c
      end
  end.
Definition bstr_eqb (a b : bstr) : bool := match bstr_cmp a b with Eq => true | _ => false end.

Definition cmp_binop (t : tok) (c : comparison) (tyerr : uerror) : res pvalue :=
  match t with
  | TLess => Ok (PBool (match c with Lt => true | _ => false end))
  | TLessEq => Ok (PBool (match c with Gt => false | _ => true end))
  | TGreater => Ok (PBool (match c with Gt => true | _ => false end))
  | TGreaterEq => Ok (PBool (match c with Lt => false | _ => true end))
  | _ => Err tyerr
  end.

Fixpoint decimal_pos (fuel : nat) (z : Z) (acc : bstr) : bstr :=
  match fuel with
  | O => acc
  | S f => if z <? 10 then byte_of_Z (48 + z) :: acc
           else decimal_pos f (z / 10) (byte_of_Z (48 + z mod 10) :: acc)
  end.
Definition decimal (z : Z) : bstr :=
  if z <? 0 then bs "-" ++ decimal_pos 30 (- z) [] else decimal_pos 30 z [].

(* Object.String() for the types whose text needs no Go library oracle *)
Definition to_string_simple (v : pvalue) : option bstr :=
  match v with
  | PUndef => Some (bs "undefined")
  | PBool b => Some (if b then bs "true" else bs "false")
  | PInt z => Some (decimal z)
  | PUint z => Some (decimal z)
  | PChar c => Some (utf8_encode c)
  | PStr s => Some s
  | _ => None
  end.

(* marker returned where the result depends on Go library text (float formatting,
   container printing); such cases are inconclusive in the correspondence *)
Definition inconclusive : pvalue := POpaque (bs "inconclusive") [].

(* func (o String) BinaryOp *)
Definition string_binop (t : tok) (o : bstr) (right : pvalue) : res pvalue :=
  let tyerr := operand_type_error t (PStr o) right in
  let fallback :=
    match t with
    | TAdd => match to_string_simple right with
              | Some s => Ok (PStr (o ++ s))
              | None => Ok inconclusive
              end
    | _ => Err tyerr
    end in
  match right with
  | PStr v | PBytes v =>
      match t with
      | TAdd => Ok (PStr (o ++ v))
      | TLess | TLessEq | TGreater | TGreaterEq => cmp_binop t (bstr_cmp o v) tyerr
      | _ => fallback
      end
  | PUndef =>
      match t with
      | TLess | TLessEq => Ok (PBool false)
      | TGreater | TGreaterEq => Ok (PBool true)
      | _ => fallback
      end
  | _ => fallback
  end.

(* func (o Bytes) BinaryOp *)
Definition bytes_binop (t : tok) (o : bstr) (right : pvalue) : res pvalue :=
  let tyerr := operand_type_error t (PBytes o) right in
  match right with
  | PBytes v | PStr v =>
      match t with
      | TAdd => Ok (PBytes (o ++ v))
      | _ => cmp_binop t (bstr_cmp o v) tyerr
      end
  | PUndef => undef_right t tyerr
  | _ => Err tyerr
  end.

(* func (o Array) BinaryOp *)
Definition array_binop (t : tok) (o : list pvalue) (right : pvalue) : res pvalue :=
  let tyerr := operand_type_error t (PArr o) right in
  match t with
  | TAdd => match right with
            | PArr v => Ok (PArr (o ++ v))
            | _ => Ok (PArr (o ++ [right]))
            end
  | TLess | TLessEq => match right with PUndef => Ok (PBool false) | _ => Err tyerr end
  | TGreater | TGreaterEq => match right with PUndef => Ok (PBool true) | _ => Err tyerr end
  | _ => Err tyerr
  end.

(* func (o Map) BinaryOp; SyncMap delegates to its Map (error text names "map") *)
Definition map_binop (t : tok) (o : list (bstr * pvalue)) (right : pvalue) : res pvalue :=
  let tyerr := operand_type_error t (PMap o) right in
  match right with
  | PUndef => undef_right t tyerr
  | _ => Err tyerr
  end.

(* func (o *UndefinedType) BinaryOp *)
Definition undef_binop (t : tok) (right : pvalue) : res pvalue :=
  let tyerr := operand_type_error t PUndef right in
  match right with
  | PUndef =>
      match t with
      | TLess | TGreater => Ok (PBool false)
      | TLessEq | TGreaterEq => Ok (PBool true)
      | _ => Err tyerr
      end
  | _ =>
      match t with
      | TLess | TLessEq => Ok (PBool true)
      | TGreater | TGreaterEq => Ok (PBool false)
      | _ => Err tyerr
      end
  end.

(* Object.BinaryOp dispatch + the VM's rewrite of ErrInvalidOperator *)
Definition binop (t : tok) (left right : pvalue) : res pvalue :=
  match left with
  | PInt o => int_binop' t o right
  | PUint o => uint_binop t o right
  | PFloat o => float_binop t o right
  | PChar o => char_binop t o right
  | PBool o => bool_binop t o right
  | PStr o => string_binop t o right
  | PBytes o => bytes_binop t o right
  | PArr o => array_binop t o right
  | PMap o | PSyncMap o => map_binop t o right
  | PUndef => undef_binop t right
  | PErr _ _ _ | PRtErr _ _ _ _ => Err (err_invalid_operator t)
  | PFn _ => Err (err_invalid_operator t)
  | POpaque _ _ => Ok inconclusive
  end.

(* ---------------- Equal ---------------- *)

Fixpoint lookup (k : bstr) (m : list (bstr * pvalue)) : option pvalue :=
  match m with
  | [] => None
  | (k', v) :: rest => if bstr_eqb k k' then Some v else lookup k rest
  end.

Fixpoint equal (l r : pvalue) {struct l} : bool :=
  let map_equal (o : list (bstr * pvalue)) (v : list (bstr * pvalue)) : bool :=
    (Nat.eqb (List.length o) (List.length v)) &&
    (fix go (o' : list (bstr * pvalue)) : bool :=
       match o' with
       | [] => true
       | (k, x) :: rest =>
           match lookup k v with
           | None => false
           | Some y => if equal x y then go rest else false
           end
       end) o in
  match l with
  | PInt o =>
      match r with
      | PInt v => o =? v
      | PUint v => u64 o =? v
      | PFloat v => feqb (f64_of_Z o) v
      | PChar v => o =? v
      | PBool v => o =? b2z v
      | _ => false
      end
  | PUint o =>
      match r with
      | PUint v => o =? v
      | PInt v => o =? u64 v
      | PFloat v => feqb (f64_of_Z o) v
      | PChar v => o =? u64 v
      | PBool v => o =? b2z v
      | _ => false
      end
  | PFloat o =>
      match r with
      | PFloat v => feqb o v
      | PInt v | PUint v | PChar v => feqb o (f64_of_Z v)
      | PBool v => feqb o (f64_of_Z (b2z v))
      | _ => false
      end
  | PChar o =>
      match r with
      | PChar v => o =? v
      | PInt v => o =? v
      | PUint v => u64 o =? v
      | PFloat v => feqb (f64_of_Z o) v
      | PBool v => o =? b2z v
      | _ => false
      end
  | PBool o =>
      match r with
      | PBool v => Bool.eqb o v
      | PInt v | PUint v | PChar v => v =? b2z o
      | PFloat v => feqb v (f64_of_Z (b2z o))
      | _ => false
      end
  | PStr o | PBytes o =>
      match r with
      | PStr v | PBytes v => bstr_eqb o v
      | _ => false
      end
  | PArr o =>
      match r with
      | PArr v =>
          (fix go (o' : list pvalue) (v' : list pvalue) : bool :=
             match o', v' with
             | [], [] => true
             | x :: xs, y :: ys => if equal x y then go xs ys else false
             | _, _ => false
             end) o v
      | _ => false
      end
  | PMap o | PSyncMap o =>
      match r with
      | PMap v | PSyncMap v => map_equal o v
      | _ => false
      end
  | PUndef => match r with PUndef => true | _ => false end
  | PErr i _ _ =>
      match r with
      | PErr j _ _ => i =? j
      | PRtErr _ e _ _ => i =? e
      | _ => false
      end
  | PRtErr _ e _ _ =>
      match r with
      | PRtErr _ e' _ _ => e =? e'
      | PErr j _ _ => e =? j
      | _ => false
      end
  | PFn i => match r with PFn j => bstr_eqb i j | _ => false end
  | POpaque _ _ => false
  end.

Definition vm_equal (l r : pvalue) : pvalue := PBool (equal l r).
Definition vm_not_equal (l r : pvalue) : pvalue := PBool (negb (equal l r)).

(* ---------------- unary operators: xOpUnary ---------------- *)

Definition is_falsy (v : pvalue) : option bool :=
  match v with
  | PUndef => Some true
  | PBool b => Some (negb b)
  | PInt z | PUint z | PChar z => Some (z =? 0)
  | PFloat f => Some (is_nan f)
  | PStr s | PBytes s => Some (match s with [] => true | _ => false end)
  | PArr l => Some (match l with [] => true | _ => false end)
  | PMap m | PSyncMap m => Some (match m with [] => true | _ => false end)
  | PErr _ _ _ | PRtErr _ _ _ _ => Some true
  | PFn _ => Some false
  | POpaque _ _ => None
  end.

Definition unary_type_error (t : tok) (v : pvalue) : uerror :=
  mkErr (bs "TypeError") (bs "invalid type for unary '" ++ tok_string t ++ bs "': '" ++ type_name v ++ bs "'")%list.

Definition unop (t : tok) (right : pvalue) : res pvalue :=
  match t with
  | TNot => match is_falsy right with Some b => Ok (PBool b) | None => Ok inconclusive end
  | TSub =>
      match right with
      | PInt o => Ok (PInt (i64 (- o)))
      | PFloat o => Ok (PFloat (fopp o))
      | PChar o => Ok (PInt (i32 (- o)))
      | PUint o => Ok (PUint (u64 (- o)))
      | PBool o => Ok (PInt (- b2z o))
      | _ => Err (unary_type_error t right)
      end
  | TXor =>
      match right with
      | PInt o => Ok (PInt (Z.lnot o))
      | PUint o => Ok (PUint (u64 (Z.lnot o)))
      | PChar o => Ok (PInt (Z.lnot o))
      | PBool o => Ok (PInt (Z.lnot (b2z o)))
      | _ => Err (unary_type_error t right)
      end
  | TAdd =>
      match right with
      | PInt _ | PUint _ | PFloat _ | PChar _ => Ok right
      | PBool o => Ok (PInt (b2z o))
      | _ => Err (unary_type_error t right)
      end
  | _ => Err (mkErr (bs "InvalidOperatorError")
                (bs "invalid for '" ++ tok_string t ++ bs "': '" ++ type_name right ++ bs "'")%list)
  end.
