(* Plain uGO values as trees (arrays and maps by value). *)
From Coq Require Import List ZArith Bool Floats.SpecFloat.
From Ugo Require Import Base.Res.
Import ListNotations.

Definition bstr := list Byte.byte.

Inductive pvalue :=
| PUndef
| PBool (b : bool)
| PInt (z : Z)          (* int64 *)
| PUint (z : Z)         (* uint64 *)
| PFloat (f : spec_float)
| PChar (z : Z)         (* int32 *)
| PStr (s : bstr)
| PBytes (s : bstr)
| PArr (l : list pvalue)
| PMap (m : list (bstr * pvalue))
| PSyncMap (m : list (bstr * pvalue))
| PErr (id : Z) (name msg : bstr)      (* *Error with pointer identity id *)
| PRtErr (id eid : Z) (name msg : bstr) (* *RuntimeError id wrapping *Error eid *)
| PFn (id : bstr)             (* opaque callable with identity id *)
| POpaque (tag payload : bstr). (* any other Object (time, rawjson, ...) *)

Section Ind.
  Variable P : pvalue -> Prop.
  Hypothesis HUndef : P PUndef.
  Hypothesis HBool : forall b, P (PBool b).
  Hypothesis HInt : forall z, P (PInt z).
  Hypothesis HUint : forall z, P (PUint z).
  Hypothesis HFloat : forall f, P (PFloat f).
  Hypothesis HChar : forall z, P (PChar z).
  Hypothesis HStr : forall s, P (PStr s).
  Hypothesis HBytes : forall s, P (PBytes s).
  Hypothesis HArr : forall l, Forall P l -> P (PArr l).
  Hypothesis HMap : forall m, Forall (fun kv => P (snd kv)) m -> P (PMap m).
  Hypothesis HSyncMap : forall m, Forall (fun kv => P (snd kv)) m -> P (PSyncMap m).
  Hypothesis HErr : forall i n m, P (PErr i n m).
  Hypothesis HRtErr : forall i e n m, P (PRtErr i e n m).
  Hypothesis HFn : forall i, P (PFn i).
  Hypothesis HOpaque : forall t p, P (POpaque t p).

  Fixpoint pvalue_ind' (v : pvalue) : P v :=
    match v with
    | PUndef => HUndef
    | PBool b => HBool b
    | PInt z => HInt z
    | PUint z => HUint z
    | PFloat f => HFloat f
    | PChar z => HChar z
    | PStr s => HStr s
    | PBytes s => HBytes s
    | PArr l => HArr l ((fix go (l : list pvalue) : Forall P l :=
                           match l with
                           | [] => Forall_nil _
                           | x :: xs => Forall_cons _ (pvalue_ind' x) (go xs)
                           end) l)
    | PMap m => HMap m ((fix go (m : list (bstr * pvalue)) : Forall (fun kv => P (snd kv)) m :=
                           match m with
                           | [] => Forall_nil _
                           | kv :: xs => Forall_cons _ (pvalue_ind' (snd kv)) (go xs)
                           end) m)
    | PSyncMap m => HSyncMap m ((fix go (m : list (bstr * pvalue)) : Forall (fun kv => P (snd kv)) m :=
                           match m with
                           | [] => Forall_nil _
                           | kv :: xs => Forall_cons _ (pvalue_ind' (snd kv)) (go xs)
                           end) m)
    | PErr i n m => HErr i n m
    | PRtErr i e n m => HRtErr i e n m
    | PFn i => HFn i
    | POpaque t p => HOpaque t p
    end.
End Ind.

(* plain values in the sense of property C20 *)
Fixpoint plain (v : pvalue) : bool :=
  match v with
  | PUndef | PBool _ | PInt _ | PUint _ | PFloat _ | PChar _ | PStr _ | PBytes _ => true
  | PArr l => forallb plain l
  | PMap m => forallb (fun kv => plain (snd kv)) m
  | _ => false
  end.
