(* Declarative specification of the arithmetic, bitwise and shift operators on numeric
   operands, written from docs/operators.md ("Rules"), not from the code:
   classify the pair by the documented conversion rule, convert both operands, apply
   the Go operation of that type. *)
From Coq Require Import List ZArith Bool Floats.SpecFloat.
From Ugo Require Import Base.Res Base.GoInt Base.GoFloat Value.PValue Value.Ops.
Local Open Scope Z_scope.

Inductive nkind := KInt | KUint | KFloat | KChar.

(* - if LHS or RHS is of float type, the other operand is converted to float
   - if LHS or RHS is of char type, the other operand is converted to char
     (float with char is a TypeError)
   - if LHS or RHS is unsigned, a signed integer is converted to unsigned
   - bool values are untyped 1 or 0 (they take the other operand's type, int by default) *)
Definition join (a b : pvalue) : option nkind :=
  match a, b with
  | PFloat _, PChar _ | PChar _, PFloat _ => None
  | PFloat _, _ | _, PFloat _ => Some KFloat
  | PChar _, _ | _, PChar _ => Some KChar
  | PUint _, _ | _, PUint _ => Some KUint
  | _, _ => Some KInt
  end.

(* Go conversion of a numeric operand to the integer kind k; identity on its own kind,
   untyped constants 1 / 0 for bool *)
Definition conv_int (k : nkind) (v : pvalue) : Z :=
  match v with
  | PBool b => b2z b
  | PInt z => match k with KInt => z | KUint => u64 z | _ => i32 z end
  | PUint z => match k with KUint => z | KInt => i64 z | _ => i32 z end
  | PChar z => match k with KChar => z | KUint => u64 z | _ => z end
  | _ => 0
  end.

Definition conv_float (v : pvalue) : spec_float :=
  match v with
  | PFloat f => f
  | PInt z | PUint z | PChar z => f64_of_Z z
  | PBool b => f64_of_Z (b2z b)
  | _ => S754_nan
  end.

Definition arith_tok (t : tok) : bool :=
  match t with
  | TAdd | TSub | TMul | TQuo | TRem | TAnd | TOr | TXor | TAndNot | TShl | TShr => true
  | _ => false
  end.

Definition dummy_err : uerror := mkErr nil nil.

(* the intended result of  a <t> b  for numeric operands; None where the documented
   rules give a TypeError / ZeroDivisionError *)
Definition spec_binop (t : tok) (a b : pvalue) : option pvalue :=
  if negb (arith_tok t) then None else
  match join a b with
  | None => None
  | Some k =>
      let r :=
        match k with
        | KInt => int_int_binop t (conv_int KInt a) (conv_int KInt b) dummy_err
        | KUint => uint_uint_binop t (conv_int KUint a) (conv_int KUint b) dummy_err
        | KChar => char_char_binop t (conv_int KChar a) (conv_int KChar b) dummy_err
        | KFloat => float_float_binop t (conv_float a) (conv_float b) dummy_err
        end in
      match r with Ok v => Some v | _ => None end
  end.
