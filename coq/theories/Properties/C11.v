From Ugo Require Import Byte.V1Conv.
