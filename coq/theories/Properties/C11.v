(* Property C11: bytecode in the version 1 format still runs the same program.
   Regenerated on every run (Gen/OpTable.v from opcodes.go, opv1/opcodes_v1.go, compiler.go):
   the two opcode tables and MakeInstruction's byte layout; every theorem below is re-proved
   against them each time.
   C11_conv_relocates: for every byte string that is a well-formed version 1 instruction stream
   (it decodes, every jump-class operand is the offset of an instruction or the end) and every
   source map, the model of convCompFuncV1ToV2 succeeds and returns a version 2 stream that
   denotes the same offset-free program - the same opcodes and operands, every jump-class operand
   (JUMP, JUMPFALSY, ANDJUMP, ORJUMP, both operands of SETUPTRY) pointing at the instruction with
   the same index, wherever the jump stands relative to other jumps - and the same source map by
   instruction index.  The model converter is compared byte for byte with the implementation and
   the validator reloc_ok runs on the real converter's output on every run. *)
From Coq Require Import List ZArith Bool String Lia.
From Ugo Require Import Base.Res Gen.OpTable Byte.Instr Byte.V1Conv Byte.V1ConvProofs.
Import ListNotations.
Local Open Scope Z_scope.

Theorem C11_conv_relocates :
  forall ins sm a,
    Forall (fun b => 0 <= b < 256) ins ->
    abstract opcodes_v1 ins = Some a ->
    exists ins2 sm2,
      conv_comp_func ins sm = Ok (ins2, sm2) /\
      abstract opcodes_v2 ins2 = Some a /\
      abstract_srcmap opcodes_v2 ins2 sm2 = abstract_srcmap opcodes_v1 ins sm.
Proof. exact conv_relocates. Qed.
Print Assumptions C11_conv_relocates.

(* version 1 and version 2 number the opcodes identically and differ only in the width of the
   jump-class operands (2 -> 4 bytes): nothing else needs conversion *)
Theorem C11_tables_agree : v1_v2_tables_agree = true.
Proof. vm_compute. reflexivity. Qed.
Print Assumptions C11_tables_agree.

(* the bytes written by MakeInstruction are the big-endian layout of the operand widths *)
Theorem C11_make_instruction_layout : layouts_agree = true.
Proof. vm_compute. reflexivity. Qed.
Print Assumptions C11_make_instruction_layout.

(* exactly the five jump-class opcodes carry offsets *)
Theorem C11_jump_class_ops : jump_ops = [12; 13; 14; 15; 34].
Proof. vm_compute. reflexivity. Qed.
Print Assumptions C11_jump_class_ops.

(* a function with a jump behind another jump (the shape the unrepaired converter broke):
   the converted stream denotes the same program *)
Example C11_two_jumps :
  let ins := [12; 0; 6;  13; 0; 10;  21;  12; 0; 0;  41] in   (* JUMP 6; JUMPFALSY 10; NULL; JUMP 0; TRUE *)
  let sm := [(0, 100); (3, 101); (7, 102)] in
  exists ins2 sm2, conv_comp_func ins sm = Ok (ins2, sm2) /\
    reloc_ok ins sm ins2 sm2 = true /\
    ins2 = [12; 0; 0; 0; 10;  13; 0; 0; 0; 16;  21;  12; 0; 0; 0; 0;  41] /\
    sm2 = [(0, 100); (5, 101); (11, 102)].
Proof. vm_compute. eexists; eexists; repeat split; reflexivity. Qed.

(* malformed streams are errors, not panics (the v1 path of property C18) *)
Example C11_bad_opcode : exists e, conv_comp_func [200] [] = Err e.
Proof. vm_compute. eexists; reflexivity. Qed.
Example C11_truncated : exists e, conv_comp_func [12; 0] [] = Err e.
Proof. vm_compute. eexists; reflexivity. Qed.
