(* Property C20: values cross the Go boundary without change.
   Statements only; every proof is `exact <lemma>`. *)
From Coq Require Import List ZArith Bool String Floats.SpecFloat.
From Ugo Require Import Base.Res Base.GoFloat Value.PValue Conv.GoValue Conv.ConvProofs.
Import ListNotations.

(* uGO -> Go -> uGO is the identity on plain values, arbitrarily nested. *)
Theorem C20_to_object_to_interface :
  forall v, plain v = true -> to_object (to_interface v) = Ok v.
Proof. exact to_object_to_interface. Qed.
Print Assumptions C20_to_object_to_interface.

(* Go -> uGO -> Go is the identity on canonical Go values, nil and empty
   containers being interchangeable (geq). *)
Theorem C20_to_interface_to_object :
  forall g, canonical g = true ->
  exists v, to_object g = Ok v /\ plain v = true /\ geq (to_interface v) g.
Proof. exact to_interface_to_object. Qed.
Print Assumptions C20_to_interface_to_object.

(* The alternative conversion inverts ToInterface on Char-free values, and the
   documented exception is exactly Char -> Int. *)
Theorem C20_alt_roundtrip :
  forall v, plain v = true -> char_free v = true -> to_object_alt (to_interface v) = Ok v.
Proof. exact alt_roundtrip. Qed.
Print Assumptions C20_alt_roundtrip.

Theorem C20_alt_char_is_int : forall z, to_object_alt (to_interface (PChar z)) = Ok (PInt z).
Proof. exact alt_char_is_int. Qed.
Print Assumptions C20_alt_char_is_int.

(* Every supported integer width converts to the uGO number with the same value. *)
Theorem C20_widths_alt :
  forall g z v, go_int_val g = Some z -> to_object_alt g = Ok v -> p_int_val v = Some z.
Proof. exact widths_alt. Qed.
Print Assumptions C20_widths_alt.

Theorem C20_widths_std :
  forall g z v, go_int_val g = Some z -> to_object g = Ok v -> p_int_val v = Some z.
Proof. exact widths_std. Qed.
Print Assumptions C20_widths_std.

(* float32 -> Float keeps the value exactly (finite values as dyadic rationals;
   infinities, NaN and zeros unchanged). *)
Theorem C20_float32_exact :
  forall f a b, sf_dyadic f = Some a -> sf_dyadic (widen32 f) = Some b -> dy_eq b a.
Proof. exact widen32_exact. Qed.
Print Assumptions C20_float32_exact.

Theorem C20_float32_special : forall f, sf_dyadic f = None -> widen32 f = f.
Proof. exact widen32_special. Qed.
Print Assumptions C20_float32_special.

(* Neither direction panics; unsupported types are errors. *)
Theorem C20_convert_no_panic : forall alt g, is_panic (to_object_gen alt g) = false.
Proof. exact convert_no_panic. Qed.
Print Assumptions C20_convert_no_panic.

Theorem C20_unsupported_is_error :
  forall tag, exists e, to_object (GOther tag) = Err e /\ to_object_alt (GOther tag) = Err e.
Proof. exact unsupported_is_error. Qed.
Print Assumptions C20_unsupported_is_error.

(* Non-vacuity: a nested plain value and a nested canonical Go value. *)
Example C20_plain_example :
  plain (PMap [(bs "k", PArr [PInt 1; PChar 97; PBytes []; PMap []; PFloat S754_nan])]) = true.
Proof. reflexivity. Qed.
Example C20_canonical_example :
  canonical (GMapAny false [(bs "k", GSliceAny true []); (bs "j", GBytes None)]) = true.
Proof. reflexivity. Qed.
Example C20_width_example : go_int_val (GInt8 (-128)) = Some (-128)%Z /\ to_object_alt (GInt8 (-128)) = Ok (PInt (-128)).
Proof. split; reflexivity. Qed.
