(* Property C13: a disabled builtin cannot be reached by any script.
   Proved: over the symbol table machine (Comp/SymTab.v, one function per exported operation of
   symbol_table.go, builtin table regenerated from builtins.go on every run), for EVERY history
   of operations starting from a new table, Resolve returns a builtin symbol only for names
   outside the root's disabled set.  This covers function scopes and blocks (Fork), later
   fragments of an Eval session (the same table with a longer history) and a disable that
   follows an earlier resolve of the same name (the defect D13 of the unrepaired code).
   The compiler paths that create fresh tables (module compilation, the optimizer's evaluator)
   and the absence of GETBUILTIN references are decided on every run on real bytecode with
   instrumented builtins (observed; partial). *)
From Coq Require Import List ZArith Bool String.
From Ugo Require Import Gen.Builtins Comp.SymTab Comp.SymTabProofs.
Import ListNotations.
Local Open Scope string_scope.

Theorem C13_resolve_never_disabled :
  forall ops n s' sym,
  let s := fst (run_ops new_symbol_table ops) in
  resolve s n = (s', Some sym) -> s_scope sym = ScBuiltin -> mem n (root_disabled s) = false.
Proof. exact resolve_never_disabled. Qed.
Print Assumptions C13_resolve_never_disabled.

(* the invariant behind it holds in every reachable state *)
Theorem C13_invariant_reachable : forall ops, inv (fst (run_ops new_symbol_table ops)).
Proof. intros ops. apply run_ops_inv. exact inv_new. Qed.
Print Assumptions C13_invariant_reachable.

(* non-vacuity: a history that resolves, disables and resolves again, through a function scope *)
Example C13_history :
  let ops := [OResolve "len"; ODisable ["len"]; OFork false; OResolve "len"; OResolve "int";
              ODefineLocal "len"; OResolve "len"] in
  snd (run_ops new_symbol_table ops) =
  [RSym {| s_name := "len"; s_index := 5; s_scope := ScBuiltin; s_const := false |} true;
   RNone; RNone; RBool false;
   RSym {| s_name := "int"; s_index := 11; s_scope := ScBuiltin; s_const := false |} true;
   RSym {| s_name := "len"; s_index := 0; s_scope := ScLocal; s_const := false |} false;
   RSym {| s_name := "len"; s_index := 0; s_scope := ScLocal; s_const := false |} true].
Proof. vm_compute. reflexivity. Qed.
