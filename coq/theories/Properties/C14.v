(* Property C14: calling a script function from Go equals calling it inside the script.
   Status: PARTIAL.  Proved: the binding of arguments to parameters.  xOpCallCompiled's
   per-case stack manipulation (fixed, variadic, spread; fewer / equal / more arguments than
   parameters) computes the declarative binding of the effective argument list
   (call_binding_spec), and initLocals - which binds Main's parameters for Run and for
   Invoker.Invoke - yields the same parameter values on every argument tuple an in-script call
   accepts (binding_agrees).  Child-VM set-up (shared globals, module cache, free variables,
   pool recycling) is decided by differential execution of generated call sequences in-script,
   through a Go callback during the run and after the run, pooled and unpooled. *)
From Coq Require Import List ZArith Bool.
From Ugo Require Import Base.Res Value.PValue VM.CallBinding VM.CallBindingProofs.
Import ListNotations.

Theorem C14_binding_agrees :
  forall nparams variadic args params,
  (variadic = true -> 1 <= nparams) ->
  call_compiled nparams variadic args false = Some params ->
  init_locals nparams variadic args = params.
Proof. exact binding_agrees. Qed.
Print Assumptions C14_binding_agrees.

Theorem C14_call_binding_spec :
  forall nparams variadic args spread,
  (variadic = true -> 1 <= nparams) ->
  call_compiled nparams variadic args spread =
  match effective args spread with
  | Some e => spec_bind nparams variadic e
  | None => None
  end.
Proof. exact call_binding_spec. Qed.
Print Assumptions C14_call_binding_spec.

Example C14_accepted_tuple :
  call_compiled 2 true [PInt 1; PInt 2; PInt 3] false = Some [PInt 1; PArr [PInt 2; PInt 3]] /\
  init_locals 2 true [PInt 1; PInt 2; PInt 3] = [PInt 1; PArr [PInt 2; PInt 3]] /\
  call_compiled 3 true [PInt 1; PArr [PInt 2; PInt 3; PInt 4]] true = Some [PInt 1; PInt 2; PArr [PInt 3; PInt 4]].
Proof. repeat split; reflexivity. Qed.
