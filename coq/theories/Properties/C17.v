(* Property C17: the json module produces and accepts exactly standard JSON.
   Status: PARTIAL.  Proved over a model of encodeState.string (string escaping incl. the UTF-8
   decoder, HTML escaping, U+2028/9, invalid bytes), compared byte for byte with Marshal on every
   run: for every byte string and both escaping modes the output is exactly one well-formed JSON
   string token, hence a valid JSON document (marshal_string_json_valid).
   The recogniser json_valid (the executable statement of the RFC 8259 grammar) is run on every
   real Marshal output and compared with encoding/json's Valid on generated documents.
   Marshal of plain values, Unmarshal, Valid, Compact and Indent are decided by differential
   execution against Go's encoding/json.
   KNOWN FINDING D17 (recorded, not repairable without editing the repository's own test):
   an object without JSON representation inside a value is encoded as nothing. *)
From Coq Require Import List ZArith Bool.
From Ugo Require Import Json.Json Json.JsonProofs.
Import ListNotations.
Local Open Scope Z_scope.

Theorem C17_string_token_valid :
  forall s html rest, Forall (fun b => 0 <= b < 256) s ->
  exists body, encode_string s html = 34 :: body /\ string_body (body ++ rest) = Some rest.
Proof. exact encode_string_valid. Qed.
Print Assumptions C17_string_token_valid.

Theorem C17_marshal_string_valid_partial :
  forall s html, Forall (fun b => 0 <= b < 256) s -> json_valid (encode_string s html) = true.
Proof. exact marshal_string_json_valid. Qed.
Print Assumptions C17_marshal_string_valid_partial.

(* the malformed document of finding D17 is rejected by the recogniser, standard documents are accepted *)
Example C17_recogniser :
  json_valid [123; 34; 97; 34; 58; 44; 34; 98; 34; 58; 49; 125] = false /\            (* {"a":,"b":1} *)
  json_valid [123; 34; 97; 34; 58; 91; 49; 44; 50; 46; 53; 101; 43; 51; 44; 110; 117; 108; 108; 93; 125] = true /\  (* {"a":[1,2.5e+3,null]} *)
  json_valid [48; 49] = false /\ json_valid [34; 92; 120; 34] = false /\ json_valid [] = false /\
  encode_string [8; 34; 60; 255] true = [34; 92; 98; 92; 34; 92; 117; 48; 48; 51; 99; 92; 117; 102; 102; 102; 100; 34].
Proof. vm_compute. repeat split; reflexivity. Qed.
